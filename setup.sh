#!/bin/sh
# Offline setup after a fresh restore: build the harness against /repo and the whole Coq development.
set -e
cd "$(dirname "$0")"
export CARGO_NET_OFFLINE=true
mkdir -p .cache evidence
python3 - <<'PY'
import sys
sys.path.insert(0, "lib")
import vcheck
specs = vcheck.all_specs()          # claimed properties only (props/C*.json); work in progress is not built
for pkg in sorted({s["harness_pkg"] for s in specs}):
    ok, out, _ = vcheck.build_harness({"harness_pkg": pkg, "harness_bin": "x"})
    print(out[-2000:])
    if not ok:
        sys.exit(1)
# release-profile harnesses and real tool binaries that some checks need
bins = set()
for s in vcheck.all_specs():
    if s.get("harness_profile") == "release":
        okr, outr, _ = vcheck.build_harness(s, "release")
        if not okr:
            print(outr[-2000:]); sys.exit(1)
    bins.update(s.get("repo_bins", []))
if bins:
    okb, outb, _ = vcheck.build_repo_bins(sorted(bins))
    if not okb:
        print(outb[-2000:]); sys.exit(1)
# regenerate every table, then build the full development
for s in vcheck.all_specs():
    if s.get("tables"):
        _, _, vh = vcheck.build_harness(s)
        okt, outt, ch = vcheck.gen_tables(s, vh)
        if not okt:
            print(outt[-2000:]); sys.exit(1)
okc, outc, first = vcheck.coq_build(sorted({t for s in specs for t in vcheck.spec_targets(s)}), timeout=3000)
print(outc[-3000:])
sys.exit(0 if okc else 1)
PY
