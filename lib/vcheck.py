#!/usr/bin/env python3
"""Common driver for every property check (see DESIGN.md section 1).

./check Cnn [--tier quick|thorough] [--replay FILE] [--n N]

Steps: regenerate tables -> build the property's Coq cone (proof obligations)
-> audit assumptions / forbidden commands -> rebuild the Rust harness against
/repo's working tree (hooks on) -> generate cases, run the implementation,
evaluate the Coq model on the same cases inside coqc (vm_compute) ->
decide, search for a failing input when something broke, write evidence.
"""
import fcntl
import glob
import hashlib
import json
import os
import re
import shutil
import subprocess
import sys
import time
from concurrent.futures import ThreadPoolExecutor

VERIF = os.path.dirname(os.path.dirname(os.path.abspath(__file__)))
COQ = os.path.join(VERIF, "coq")
HARNESS = os.path.join(VERIF, "harness")
CACHE = os.path.join(VERIF, ".cache")
TARGET = os.path.join(CACHE, "target")
REPO = os.environ.get("VERIF_REPO", "/repo")
GUARD = "dicom_rs_verif"

FORBIDDEN = re.compile(
    r"\b(Admitted|admit|Axiom|Axioms|Parameter|Parameters|Conjecture|Conjectures|Admit\s+Obligations|"
    r"Unset\s+Guard\s+Checking|Unset\s+Positivity\s+Checking|Unset\s+Universe\s+Checking|bypass_check|"
    r"type-in-type|impredicative-set|native_compute)\b")


def log(*a):
    print(*a, flush=True)


class Lock:
    def __init__(self, name):
        os.makedirs(CACHE, exist_ok=True)
        self.path = os.path.join(CACHE, name + ".lock")

    def __enter__(self):
        self.f = open(self.path, "w")
        fcntl.flock(self.f, fcntl.LOCK_EX)
        return self

    def __exit__(self, *a):
        fcntl.flock(self.f, fcntl.LOCK_UN)
        self.f.close()


def run(cmd, cwd=None, timeout=None, env=None):
    e = dict(os.environ)
    e.update({"CARGO_NET_OFFLINE": "true", "GOPROXY": "off", "PIP_NO_INDEX": "1"})
    if env:
        e.update(env)
    try:
        p = subprocess.run(cmd, cwd=cwd, env=e, stdout=subprocess.PIPE, stderr=subprocess.STDOUT,
                           timeout=timeout, text=True, errors="replace")
        return p.returncode, p.stdout
    except subprocess.TimeoutExpired as ex:
        out = ex.stdout if isinstance(ex.stdout, str) else (ex.stdout or b"").decode("utf8", "replace")
        return 124, out + "\n[timeout after %ss]" % timeout


# ---------------------------------------------------------------- specs
def spec_targets(spec):
    """Coq targets of a property: its Properties file plus every DicomV module the correspondence shards import
    (a checker module such as Model/DsCheck.v need not be in the cone of the Properties file)."""
    t = list(spec["coq_targets"])
    for m in re.finditer(r"From\s+DicomV\s+Require\s+(?:(?:Import|Export)\s+)?((?:[\w.]+\s+)*[\w.]*\w)\s*\.", spec.get("shard_imports", "")):
        for tok in m.group(1).split():
            vo = tok.replace("DicomV.", "").replace(".", "/") + ".vo"
            if vo not in t and os.path.exists(os.path.join(COQ, vo[:-1])):
                t.append(vo)
    return t


def load_spec(pid):
    p = os.path.join(VERIF, "props", pid + ".json")
    if not os.path.exists(p):
        p = os.path.join(VERIF, "props", "wip", pid + ".json")   # under construction, not in MANIFEST
    with open(p) as f:
        return json.load(f)


def all_specs():
    out = []
    for p in sorted(glob.glob(os.path.join(VERIF, "props", "C*.json"))):
        with open(p) as f:
            out.append(json.load(f))
    return out


# ---------------------------------------------------------------- coq
IMPORT_RE = re.compile(r"^\s*(?:From\s+DicomV\s+)?Require\s+(?:Import|Export)\s+([^.]*(?:\.[A-Za-z_][^.\s]*)*)\s*\.\s*$")


def v_imports(path):
    """DicomV modules a .v file requires (syntactic)."""
    mods = []
    try:
        src = open(path).read()
    except OSError:
        return mods
    for m in re.finditer(r"From\s+DicomV\s+Require\s+(?:(?:Import|Export)\s+)?((?:[\w.]*\w\s+)*[\w.]*\w)\s*\.(?:\s|$)", src):
        for tok in m.group(1).split():
            mods.append(tok)
    return mods


def cone(vfile):
    """Transitive DicomV dependencies of coq/<vfile> (relative paths)."""
    seen, todo = [], [vfile]
    while todo:
        f = todo.pop()
        if f in seen:
            continue
        seen.append(f)
        for m in v_imports(os.path.join(COQ, f)):
            rel = m.replace("DicomV.", "").replace(".", "/") + ".v"
            if os.path.exists(os.path.join(COQ, rel)):
                todo.append(rel)
    return sorted(seen)


def strip_comments(src):
    out, depth, i = [], 0, 0
    while i < len(src):
        if src.startswith("(*", i):
            depth += 1
            i += 2
        elif src.startswith("*)", i) and depth > 0:
            depth -= 1
            i += 2
        else:
            if depth == 0:
                out.append(src[i])
            elif src[i] == "\n":
                out.append("\n")
            i += 1
    return "".join(out)


def scan_forbidden(files):
    """Forbidden commands, and Variable/Hypothesis outside a Section."""
    hits = []
    for f in files:
        src = strip_comments(open(os.path.join(COQ, f)).read())
        # drop string literals
        src_ns = re.sub(r'"[^"]*"', '""', src)
        depth = 0
        for ln, line in enumerate(src_ns.split("\n"), 1):
            m = FORBIDDEN.search(line)
            if m:
                hits.append("%s:%d: forbidden `%s`" % (f, ln, m.group(0)))
            if re.match(r"\s*Section\s+\w+", line):
                depth += 1
            elif re.match(r"\s*End\s+\w+", line) and depth > 0:
                depth -= 1
            elif depth == 0 and re.match(r"\s*(Variable|Variables|Hypothesis|Hypotheses|Context)\b", line):
                hits.append("%s:%d: `%s` outside a Section" % (f, ln, line.strip()[:40]))
    return hits


def count_obligations(files):
    n = 0
    for f in files:
        src = strip_comments(open(os.path.join(COQ, f)).read())
        n += len(re.findall(r"\b(Qed|Defined)\s*\.", src))
    return n


def coq_build(targets, timeout=1500):
    """Full .vo build of the given targets. Returns (ok, log, first failing file/lemma)."""
    with Lock("coq"):
        rc, out = run(["./mk.sh"], cwd=COQ, timeout=120)
        if rc != 0:
            return False, out, "coq_makefile"
        rc, out = run(["make", "-j16"] + targets, cwd=COQ, timeout=timeout)
    if rc == 0:
        return True, out, None
    broken = "unknown"
    m = re.search(r'File "\./([^"]+)", line (\d+)', out)
    if m:
        vf, line = m.group(1), int(m.group(2))
        broken = "%s:%d" % (vf, line)
        try:
            src = open(os.path.join(COQ, vf)).read().split("\n")
            for k in range(min(line, len(src)) - 1, -1, -1):
                mm = re.match(r"\s*(Theorem|Lemma|Example|Corollary|Fact|Remark|Definition|Fixpoint|Check|Proposition)\s+([\w']+)", src[k])
                if mm:
                    broken = "%s:%s (line %d)" % (vf, mm.group(2), line)
                    break
        except OSError:
            pass
    elif rc == 124:
        broken = "timeout"
    return False, out, broken


def audit_property_file(spec):
    """Re-run coqc on the Properties file to capture Print Assumptions; compare with allowlist."""
    pf = spec["property_file"]
    tmp = os.path.join(CACHE, "audit", spec["id"])
    os.makedirs(tmp, exist_ok=True)
    with Lock("coq"):
        rc, out = run(["coqc", "-q", "-Q", ".", "DicomV", "-w", "-notation-overridden,-deprecated-syntactic-definition,-deprecated-hint-without-locality", pf, "-o", os.path.join(tmp, os.path.basename(pf)[:-2] + ".vo")],
                      cwd=COQ, timeout=600)
    problems = []
    if rc != 0:
        return ["coqc %s failed: %s" % (pf, out[-400:])], [], out
    src = strip_comments(open(os.path.join(COQ, pf)).read())
    printed = re.findall(r"Print\s+Assumptions\s+([\w'.]+)\s*\.", src)
    for t in spec.get("theorems", []):
        if t not in printed:
            problems.append("no `Print Assumptions %s` in %s" % (t, pf))
        if not re.search(r"\b(Theorem|Lemma|Corollary)\s+%s\b" % re.escape(t), src):
            problems.append("theorem %s not stated in %s" % (t, pf))
        if t in spec.get("pinned", spec.get("theorems", [])[:1]) and not re.search(r"\bCheck\s+%s\s*:" % re.escape(t), src):
            problems.append("statement of %s is not pinned by a `Check %s : ...`" % (t, t))
    # axiom names reported
    axioms = []
    blocks = re.split(r"\n(?=Axioms:|Closed under the global context)", "\n" + out)
    for b in blocks:
        if b.startswith("Axioms:"):
            for m in re.finditer(r"^([A-Za-z_][\w'.]*)\s*:", b[len("Axioms:"):], re.M):
                axioms.append(m.group(1))
    nblocks = len(re.findall(r"^(Axioms:|Closed under the global context)", out, re.M))
    if nblocks < len(printed):
        problems.append("Print Assumptions produced %d blocks for %d commands" % (nblocks, len(printed)))
    allowed = set(spec.get("allowed_axioms", []))
    for a in sorted(set(axioms)):
        if a not in allowed and a.split(".")[-1] not in allowed:
            problems.append("axiom not in allowlist: " + a)
    return problems, sorted(set(axioms)), out


# ---------------------------------------------------------------- harness
def harness_pkgs():
    return sorted(d for d in os.listdir(HARNESS) if d.startswith("g_") and os.path.exists(os.path.join(HARNESS, d, "Cargo.toml")))


def build_harness(spec=None, profile="dev", timeout=2400):
    """Build the group's harness binary (every group when spec is None) against /repo's working tree.
    Each group crate is its own cargo workspace (shared target dir), so groups cannot break each other."""
    env = {"CARGO_TARGET_DIR": TARGET, "RUSTFLAGS": "--cfg " + GUARD}
    # harness_extra_pkgs: further group crates the property's binary drives as sibling processes
    # (e.g. a second build of the same dump under another cargo feature set: features are per build)
    pkgs = [spec["harness_pkg"]] + list(spec.get("harness_extra_pkgs", [])) if spec is not None else harness_pkgs()
    rc_all, out_all = 0, ""
    with Lock("cargo"):
        for pkg in pkgs:
            d = os.path.join(HARNESS, pkg)
            dst = os.path.join(d, "Cargo.lock")
            if not os.path.exists(dst):
                shutil.copy(os.path.join(REPO, "Cargo.lock"), dst)
            cmd = ["cargo", "build", "--offline", "--quiet"]
            if profile == "release":
                cmd.append("--release")
            rc, out = run(cmd, cwd=d, timeout=timeout, env=env)
            rc_all |= rc
            out_all += out
    binp = os.path.join(TARGET, "release" if profile == "release" else "debug", spec["harness_bin"]) if spec else None
    return rc_all == 0, out_all, binp


def build_repo_bins(bins, timeout=2400):
    """Build real tool binaries from /repo's working tree into the cache target dir."""
    env = {"CARGO_TARGET_DIR": os.path.join(CACHE, "target-repo"), "RUSTFLAGS": "--cfg " + GUARD}
    with Lock("cargo-repo"):
        cmd = ["cargo", "build", "--offline", "--quiet"]
        for b in bins:
            cmd += ["-p", b]
        rc, out = run(cmd, cwd=REPO, timeout=timeout, env=env)
    return rc == 0, out, os.path.join(CACHE, "target-repo", "debug")


def gen_tables(spec, vh, tier="quick"):
    """Regenerate coq/Gen files of this property from the implementation's behaviour.
    The tier is visible to the harness as env VERIF_TIER (a generator may cache an expensive sweep in the quick tier)."""
    tmp = os.path.join(CACHE, "gen", spec["id"])
    shutil.rmtree(tmp, ignore_errors=True)
    os.makedirs(tmp)
    rc, out = run([vh, spec["id"], "tables", "--out", tmp], timeout=900, env={"VERIF_TIER": tier})
    if rc != 0:
        return False, out, []
    changed = []
    os.makedirs(os.path.join(COQ, "Gen"), exist_ok=True)
    with Lock("coq"):
        for f in sorted(os.listdir(tmp)):
            src, dst = os.path.join(tmp, f), os.path.join(COQ, "Gen", f)
            new = open(src, "rb").read()
            old = open(dst, "rb").read() if os.path.exists(dst) else None
            if new != old:
                with open(dst, "wb") as g:
                    g.write(new)
                changed.append(f)
        # remember which property's harness produces which Gen file (used by gen_dependencies)
        mp = os.path.join(CACHE, "gen-producers.json")
        try:
            prod = json.load(open(mp))
        except Exception:
            prod = {}
        for f in os.listdir(tmp):
            prod[f] = spec["id"]
        with open(mp, "w") as g:
            json.dump(prod, g)
    return True, out, changed


def gen_imports(vfile):
    """Gen/*.v files in the dependency cone of coq/<vfile>, whether or not they exist yet."""
    seen, todo, gens = set(), [vfile], set()
    while todo:
        f = todo.pop()
        if f in seen:
            continue
        seen.add(f)
        for m in v_imports(os.path.join(COQ, f)):
            rel = m.replace("DicomV.", "").replace(".", "/") + ".v"
            if rel.startswith("Gen/"):
                gens.add(os.path.basename(rel))
                if os.path.exists(os.path.join(COQ, rel)):
                    todo.append(rel)
            elif os.path.exists(os.path.join(COQ, rel)):
                todo.append(rel)
    return gens


def gen_dependencies(spec, tier):
    """Regenerate the Gen tables that this property's proofs depend on but that ANOTHER property's harness
    produces (e.g. C01 imports the header tables of C03), so that a stale or foreign table can never decide
    a check: every table in the cone is rebuilt from /repo's current working tree on every run."""
    need = gen_imports(spec["property_file"])
    if not need:
        return True, []
    try:
        prod = json.load(open(os.path.join(CACHE, "gen-producers.json")))
    except Exception:
        prod = {}
    table_specs = {s["id"]: s for s in all_specs() if s.get("tables") and s["id"] != spec["id"]}
    producers = set()
    for f in need:
        if f in prod:
            if prod[f] in table_specs:
                producers.add(prod[f])
        else:
            producers.update(table_specs.keys())      # unknown producer: regenerate every table
    done = []
    for pid in sorted(producers):
        s2 = table_specs[pid]
        ok, out, vh2 = build_harness(s2, s2.get("harness_profile", "dev"))
        if not ok:
            return False, done
        okt, outt, ch = gen_tables(s2, vh2, tier)
        if not okt:
            return False, done
        done.append(pid + (":changed=" + ",".join(ch) if ch else ""))
    return True, done


def run_cases(spec, vh, seed, n, tier, workdir, with_coq=True, extra_env=None):
    """Run the implementation on generated cases, then the model inside coqc. Returns dict."""
    shutil.rmtree(workdir, ignore_errors=True)
    os.makedirs(workdir)
    # 16 shards (one per core) for ordinary runs; large thorough runs get more, smaller shards (at most ~3000 cases
    # each: coqc parses big literal lists slowly and can run out of stack), still evaluated 16 at a time
    nshards = 1 if n < 64 else max(16, (n + 2999) // 3000)
    t0 = time.time()
    rc, out = run([vh, spec["id"], "cases", "--seed", str(seed), "--n", str(n), "--out", workdir,
                   "--shards", str(nshards), "--tier", tier], timeout=spec.get("cases_timeout", 1800), env=extra_env)
    res = {"ok": rc == 0, "log": out, "cases": [], "bad": [], "coq_errors": [], "impl_s": time.time() - t0}
    if rc != 0:
        return res
    with open(os.path.join(workdir, "cases.jsonl")) as f:
        res["cases"] = [json.loads(l) for l in f]
    if not with_coq or not spec.get("checker"):
        return res
    t1 = time.time()
    shards = sorted(glob.glob(os.path.join(workdir, "shard_*.body")))

    def one(body):
        k = re.search(r"shard_(\d+)\.body", body).group(1)
        lines = [l.rstrip("\n") for l in open(body) if l.strip()]
        if not lines:
            return k, 0, "", []
        name = "Shard%s" % k
        vf = os.path.join(workdir, name + ".v")
        with open(vf, "w") as g:
            g.write(spec["shard_imports"] + "\nOpen Scope N_scope.\n")
            g.write("Definition cases := [\n" + ";\n".join(lines) + "\n].\n")
            g.write("Definition bad := Eval vm_compute in (bad_cases %s cases).\n" % spec["checker"])
            g.write("Eval vm_compute in bad.\n")
        rc, out = run(["coqc", "-q", "-noglob", "-Q", COQ, "DicomV", "-w", "none", vf], cwd=workdir, timeout=spec.get("shard_timeout", 1200))
        if rc != 0:
            return k, rc, out, []
        m = re.search(r"=\s*\[(.*?)\]\s*:\s*list N", out, re.S)
        if not m:
            return k, 1, "unparsable coqc output: " + out[-300:], []
        bad = [int(x) for x in re.findall(r"\d+", m.group(1))]
        return k, 0, out, bad

    with ThreadPoolExecutor(max_workers=16) as ex:
        for k, rc, out, bad in ex.map(one, shards):
            if rc != 0:
                res["coq_errors"].append("shard %s: %s" % (k, out[-600:]))
            res["bad"].extend(bad)
    res["bad"].sort()
    res["model_s"] = time.time() - t1
    return res


# ---------------------------------------------------------------- known findings
def known_findings(pid):
    known, fixed = [], []
    p = os.path.join(VERIF, "KNOWN_FINDINGS.txt")
    if not os.path.exists(p):
        return known, fixed
    for line in open(p):
        line = line.strip()
        if line.startswith("known:") and ("property=%s " % pid) in line + " ":
            m = re.search(r"class=(\S+)\s*(.*)", line)
            if m:
                known.append((m.group(1), m.group(2)))
        elif line.startswith("fixed:") and ("property=%s " % pid) in line + " ":
            fixed.append(line)
    return known, fixed


# ---------------------------------------------------------------- main flow
def write_json(path, obj):
    os.makedirs(os.path.dirname(path), exist_ok=True)
    with open(path, "w") as f:
        json.dump(obj, f, indent=1, sort_keys=False, default=str)
        f.write("\n")


def check(pid, tier="quick", seed=None, n_override=None, replay=None):
    t_start = time.time()
    spec = load_spec(pid)
    seed = int(os.environ.get("VERIF_SEED", "1")) if seed is None else seed
    tier = os.environ.get("VERIF_TIER", tier) if tier is None else tier
    n = n_override or spec.get("n", {}).get(tier, 1000)
    work = os.path.join(CACHE, "work", pid + "-" + tier)
    replay_dir = os.path.join(VERIF, "replay")
    broken = []       # proof obligations / correspondence that no longer check
    notes = []

    # 1. harness (needed for tables)
    ok, out, vh = build_harness(spec, spec.get("harness_profile", "dev"))
    if not ok:
        log(out[-3000:])
        broken.append("harness:build-failed")
        vh = None
    env = {}
    if vh and spec.get("repo_bins"):
        okb, outb, bindir = build_repo_bins(spec["repo_bins"])
        if not okb:
            log(outb[-3000:])
            broken.append("repo-bins:build-failed")
        env["VH_BIN_DIR"] = bindir

    # 2. tables
    if vh and spec.get("tables"):
        okt, outt, changed = gen_tables(spec, vh, tier)
        if not okt:
            log(outt[-2000:])
            broken.append("tables:generation-failed")
        elif changed:
            notes.append("regenerated tables changed: " + ",".join(changed))

    okd, deps_done = gen_dependencies(spec, tier)
    if not okd:
        broken.append("tables:dependency-generation-failed")
    elif deps_done:
        notes.append("tables of other properties in the cone regenerated: " + "; ".join(deps_done))

    # 3. proofs
    okc, outc, first = coq_build(spec_targets(spec))
    files = cone(spec["property_file"])
    for t in spec_targets(spec):                 # checker modules used by the shards are audited too
        for f in cone(t[:-1]):
            if f not in files:
                files.append(f)
    files = sorted(files)
    obligations = count_obligations(files)
    discharged = obligations if okc else 0
    if not okc:
        log(outc[-2500:])
        broken.append("proof:" + str(first))
    # 4. audit
    axioms = []
    if okc:
        probs, axioms, _ = audit_property_file(spec)
        for p in probs:
            broken.append("audit:" + p)
    for h in scan_forbidden(files):
        broken.append("audit:" + h)

    # 5. correspondence + oracle on the implementation
    cases, bad, res = [], [], None
    if vh:
        if replay:
            r = json.load(open(replay))
            seed, n, tier = r.get("seed", seed), r.get("n", n), r.get("tier", tier)
        res = run_cases(spec, vh, seed, n, tier, work, with_coq=okc, extra_env=env)
        if not res["ok"]:
            log(res["log"][-3000:])
            broken.append("harness:cases-failed")
        cases, bad = res["cases"], res["bad"]
        for e in res["coq_errors"]:
            log(e)
            broken.append("corr:model-evaluation-failed")
        if bad:
            broken.append("corr:%d cases differ (first idx %d)" % (len(bad), bad[0]))

    known, fixed = known_findings(pid)
    known_classes = {k for k, _ in known}
    fails = [c for c in cases if c["oracle"] == "fails"]
    new_fails = [c for c in fails if c["class"] not in known_classes]
    known_hit = {}
    for c in fails:
        if c["class"] in known_classes:
            known_hit.setdefault(c["class"], c)

    if replay:
        r = json.load(open(replay))
        idx = r.get("idx")
        c = next((c for c in cases if c["idx"] == idx), None)
        log("replay %s idx=%s: oracle=%s class=%s model-differs=%s detail=%s" % (
            pid, idx, c and c["oracle"], c and c["class"], idx in bad, c and c["detail"]))
        if broken:
            log("still broken: " + "; ".join(broken))
        failing = bool(c and (c["oracle"] == "fails" or idx in bad)) or bool(broken)
        return 1 if failing else 0

    # 6. decide
    violation = None
    if new_fails:
        c = new_fails[0]
        violation = {"kind": "oracle", "idx": c["idx"], "case": c["desc"], "class": c["class"], "detail": c["detail"], "found": True}
    elif broken:
        # search the implementation for a failing input: the differing cases first, then fresh seeds
        found = None
        if vh and res and res["ok"]:
            budget = spec.get("search_rounds", 6)
            # cases per search round; specs whose cases spawn processes set "search_n" (default: 2 * max(n, 2000))
            n_search = spec.get("search_n", max(n, 2000) * 2)
            for k in range(budget):
                s2 = seed * 1000003 + 17 * (k + 1)
                r2 = run_cases(spec, vh, s2, n_search, tier, work + "-search", with_coq=False, extra_env=env)
                nf = [c for c in r2["cases"] if c["oracle"] == "fails" and c["class"] not in known_classes]
                if nf:
                    found = (s2, n_search, nf[0])
                    break
        if found:
            s2, n2, c = found
            violation = {"kind": "oracle-after-break", "seed": s2, "n": n2, "idx": c["idx"], "case": c["desc"],
                         "class": c["class"], "detail": c["detail"], "found": True}
        else:
            first_bad = None
            if bad:
                first_bad = next((c for c in cases if c["idx"] == bad[0]), None)
            violation = {"kind": "broken-obligation", "idx": bad[0] if bad else None,
                         "case": first_bad["desc"] if first_bad else None, "found": False,
                         "detail": "no input on which the implementation fails the property was found; "
                                   "the theorem/correspondence named in `broken` no longer checks"}

    # 7. evidence
    keys = set(c["key"] for c in cases if c["key"])
    samples = [c["desc"] for c in cases[:3]] + [c["desc"] for c in cases[len(cases) // 2: len(cases) // 2 + 2]]
    hist = {}
    for c in cases:
        h = c["desc"].get("bucket") if isinstance(c["desc"], dict) else None
        if h is not None:
            hist[str(h)] = hist.get(str(h), 0) + 1
    ev = {
        "property_id": pid, "tier": tier, "seed": seed, "level": "proof",
        "coverage": {
            "obligations": max(obligations, 1), "discharged": discharged if discharged else 0,
            "checker_cmd": "cd /verif/coq && ./mk.sh && make -j16 " + " ".join(spec["coq_targets"]) + "  (coqc 8.16.1, full .vo build; thorough tier adds coqchk -o)",
            "trusted_base": spec.get("trusted_base", []) + ["axioms reported by Print Assumptions: " + (", ".join(axioms) if axioms else "none (closed under the global context)")],
            "theorems": spec.get("theorems", []),
            "cone_files": files,
            "evaluations": len(cases),
            "distinct_nontrivial": len(keys),
            "rule": spec.get("rule", ""),
            "samples": samples if samples else [{"note": "no cases generated"}],
            "traces_validated_against_impl": len([c for c in cases if c["has_coq"]]),
            "model_impl_disagreements": len(bad),
            "oracle_holds": len([c for c in cases if c["oracle"] == "holds"]),
            "oracle_fails_known": len(fails) - len(new_fails),
            "oracle_fails_new": len(new_fails),
            "bucket_histogram": hist,
            "broken": broken, "notes": notes,
        },
        "assumptions": spec.get("assumptions", []),
        "wall_s": round(time.time() - t_start, 2),
        "violations": 1 if violation else 0,
    }
    if tier == "thorough" and okc:
        vo = spec["property_file"][:-2] + ".vo"
        with Lock("coq"):
            rcc, outc2 = run(["coqchk", "-silent", "-o", "-Q", ".", "DicomV", vo], cwd=COQ, timeout=3000)
        ev["coverage"]["coqchk"] = {"rc": rcc, "tail": outc2[-1500:]}
        if rcc != 0:
            broken.append("coqchk:failed")
            if not violation:
                violation = {"kind": "broken-obligation", "found": False, "detail": "coqchk failed", "idx": None, "case": None}
                ev["violations"] = 1
        else:
            ax = re.search(r"\* Axioms:\s*(.*?)(\n\s*\*|\Z)", outc2, re.S)
            if ax:
                names = re.findall(r"^\s+([A-Za-z_][\w'.]+)\s*$", ax.group(1), re.M)
                allowed = set(spec.get("allowed_axioms", [])) | set(spec.get("coqchk_allowed", []))
                for a in names:
                    if a not in allowed and a.split(".")[-1] not in allowed:
                        broken.append("coqchk-axiom:" + a)
    ev["wall_s"] = round(time.time() - t_start, 2)
    write_json(os.path.join(VERIF, "evidence", pid + ".json"), ev)

    # 8. report
    for cls, text in known:
        c = known_hit.get(cls)
        if c:
            log("KNOWN-FINDING: property=%s class=%s %s" % (pid, cls, text))
        else:
            log("NOTE: known finding class=%s of %s was not observed in this run" % (cls, pid))
    if violation:
        os.makedirs(replay_dir, exist_ok=True)
        rp = os.path.join(replay_dir, "%s-%s-%d.json" % (pid, tier, seed))
        rep = {"property": pid, "seed": violation.get("seed", seed), "n": violation.get("n", n), "tier": tier,
               "broken": broken, "how_to_replay": "./check %s --replay %s" % (pid, rp)}
        rep.update({k: v for k, v in violation.items() if k not in ("seed", "n")})
        write_json(rp, rep)
        tail = "" if violation.get("found") else " no-failing-input-found"
        for b in broken:
            log("BROKEN: " + b)
        log("VIOLATION property=%s replay=%s%s" % (pid, rp, tail))
        return 1
    log("OK property=%s tier=%s obligations=%d cases=%d distinct=%d model-differs=0 wall=%.1fs" % (
        pid, tier, obligations, len(cases), len(keys), time.time() - t_start))
    return 0


def main(argv):
    if len(argv) < 2:
        print(__doc__)
        return 2
    pid = argv[1]
    tier, replay, n = "quick", None, None
    i = 2
    while i < len(argv):
        if argv[i] == "--tier":
            tier = argv[i + 1]; i += 2
        elif argv[i] == "--replay":
            replay = argv[i + 1]; i += 2
        elif argv[i] == "--n":
            n = int(argv[i + 1]); i += 2
        else:
            print("unknown arg", argv[i]); return 2
    return check(pid, tier=tier, n_override=n, replay=replay)


if __name__ == "__main__":
    sys.exit(main(sys.argv))
