//! Raw upper-layer PDU exchange over a TcpStream (scripted requestor / recording acceptor):
//! PDUs are composed freely and written with dicom_ul::write_pdu, read with dicom_ul::read_pdu.
#![allow(dead_code)]
use dicom_ul::pdu::{
    AssociationAC, AssociationRQ, PDataValue, PDataValueType, Pdu, PresentationContextProposed, PresentationContextResult,
    PresentationContextResultReason, UserVariableItem,
};
use std::io::{Read, Write};
use std::net::TcpStream;
use std::time::Duration;

pub const APP_CONTEXT: &str = "1.2.840.10008.3.1.1.1";

/// `timed_out` is set when a read gave up waiting (as opposed to the peer closing): that is an
/// infrastructure condition (overloaded machine), never an observation about the tool.
pub struct Wire(pub TcpStream, pub bool);

/// Reads are event driven (they return as soon as the peer writes or closes); this limit only
/// bounds the wait for a peer that does neither.
pub const WAIT: Duration = Duration::from_secs(600);

impl Wire {
    pub fn connect(port: u16, timeout: Duration) -> std::io::Result<Wire> {
        let s = TcpStream::connect_timeout(&(std::net::Ipv4Addr::LOCALHOST, port).into(), timeout)?;
        s.set_read_timeout(Some(timeout))?;
        s.set_write_timeout(Some(timeout))?;
        s.set_nodelay(true)?;
        Ok(Wire(s, false))
    }
    pub fn from_stream(s: TcpStream, timeout: Duration) -> std::io::Result<Wire> {
        s.set_read_timeout(Some(timeout))?;
        s.set_write_timeout(Some(timeout))?;
        s.set_nodelay(true)?;
        Ok(Wire(s, false))
    }
    pub fn send(&mut self, pdu: &Pdu) -> std::io::Result<()> {
        let mut buf = Vec::new();
        dicom_ul::write_pdu(&mut buf, pdu).map_err(|e| std::io::Error::new(std::io::ErrorKind::Other, e.to_string()))?;
        self.0.write_all(&buf)
    }
    fn read_all(&mut self, buf: &mut [u8]) -> Option<()> {
        match self.0.read_exact(buf) {
            Ok(()) => Some(()),
            Err(e) => {
                if matches!(e.kind(), std::io::ErrorKind::WouldBlock | std::io::ErrorKind::TimedOut) { self.1 = true; }
                None
            }
        }
    }
    pub fn timed_out(&self) -> bool { self.1 }
    /// None = connection closed / unreadable PDU / gave up waiting (then `timed_out()` is true).
    pub fn recv(&mut self) -> Option<Pdu> {
        let mut head = [0u8; 6];
        self.read_all(&mut head)?;
        let len = u32::from_be_bytes([head[2], head[3], head[4], head[5]]) as usize;
        if len > 64 << 20 { return None; }
        let mut buf = vec![0u8; 6 + len];
        buf[..6].copy_from_slice(&head);
        self.read_all(&mut buf[6..])?;
        dicom_ul::read_pdu(&buf[..], dicom_ul::pdu::MAXIMUM_PDU_SIZE, false).ok().flatten()
    }
}

/// Requestor side: propose the contexts (id, abstract syntax, transfer syntaxes); returns the accepted (id, ts).
pub fn associate(w: &mut Wire, contexts: &[(u8, String, Vec<String>)], max_pdu: u32) -> Option<Vec<(u8, String)>> {
    let rq = Pdu::AssociationRQ(AssociationRQ {
        protocol_version: 1,
        calling_ae_title: "VERIF-SCU".into(),
        called_ae_title: "ANY-SCP".into(),
        application_context_name: APP_CONTEXT.into(),
        presentation_contexts: contexts
            .iter()
            .map(|(id, a, ts)| PresentationContextProposed { id: *id, abstract_syntax: a.clone(), transfer_syntaxes: ts.clone() })
            .collect(),
        user_variables: vec![
            UserVariableItem::MaxLength(max_pdu),
            UserVariableItem::ImplementationClassUID("1.2.826.0.1.3680043.9.7433.9.1".into()),
            UserVariableItem::ImplementationVersionName("VERIF".into()),
        ],
    });
    w.send(&rq).ok()?;
    match w.recv()? {
        Pdu::AssociationAC(AssociationAC { presentation_contexts, .. }) => Some(
            presentation_contexts
                .into_iter()
                .filter(|p| p.reason == PresentationContextResultReason::Acceptance)
                .map(|p| (p.id, p.transfer_syntax.trim_end_matches(|c: char| c == '\0' || c == ' ').to_string()))
                .collect(),
        ),
        _ => None,
    }
}

/// Acceptor side: answer an A-ASSOCIATE-RQ with the given per-context decisions
/// (`Some(ts)` = accept with that transfer syntax, `None` = reject).
pub fn accept(w: &mut Wire, rq: &AssociationRQ, decide: impl Fn(&PresentationContextProposed) -> Option<String>, max_pdu: u32, order: &[usize]) -> std::io::Result<Vec<PresentationContextResult>> {
    let mut results: Vec<PresentationContextResult> = rq
        .presentation_contexts
        .iter()
        .map(|p| match decide(p) {
            Some(ts) => PresentationContextResult { id: p.id, reason: PresentationContextResultReason::Acceptance, transfer_syntax: ts },
            None => PresentationContextResult {
                id: p.id,
                reason: PresentationContextResultReason::TransferSyntaxesNotSupported,
                transfer_syntax: "1.2.840.10008.1.2".into(),
            },
        })
        .collect();
    if order.len() == results.len() {
        results = order.iter().map(|&k| results[k].clone()).collect();
    }
    let ac = Pdu::AssociationAC(AssociationAC {
        protocol_version: 1,
        calling_ae_title: rq.calling_ae_title.clone(),
        called_ae_title: rq.called_ae_title.clone(),
        application_context_name: rq.application_context_name.clone(),
        presentation_contexts: results.clone(),
        user_variables: vec![
            UserVariableItem::MaxLength(max_pdu),
            UserVariableItem::ImplementationClassUID("1.2.826.0.1.3680043.9.7433.9.2".into()),
            UserVariableItem::ImplementationVersionName("VERIF".into()),
        ],
    });
    w.send(&ac)?;
    Ok(results)
}

pub fn pdv(pc: u8, command: bool, last: bool, data: Vec<u8>) -> PDataValue {
    PDataValue {
        presentation_context_id: pc,
        value_type: if command { PDataValueType::Command } else { PDataValueType::Data },
        is_last: last,
        data,
    }
}
