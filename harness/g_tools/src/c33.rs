//! C33 — the real `dicom-storescu` binary (blocking and --concurrency) sending generated files
//! to a recording acceptor (this process) whose accepted abstract/transfer syntax
//! combinations, answer order and maximum PDU length are randomised.
use crate::procs::*;
use crate::wire::*;
use dicom_core::value::{PixelFragmentSequence, PrimitiveValue, Value};
use dicom_core::{dicom_value, DataElement, Tag, VR};
use dicom_dictionary_std::{tags, uids};
use dicom_encoding::transfer_syntax::TransferSyntaxIndex;
use dicom_object::{FileDicomObject, FileMetaTableBuilder, InMemDicomObject};
use dicom_pixeldata::{PixelDecoder, Transcode};
use dicom_transfer_syntax_registry::TransferSyntaxRegistry;
use dicom_ul::pdu::{PDataValueType, Pdu};
use serde_json::json;
use std::collections::BTreeMap;
use std::net::TcpListener;
use std::path::Path;
use std::process::Command;
use std::time::{Duration, Instant};
use vhc::*;

const ILE: &str = "1.2.840.10008.1.2";
const ELE: &str = "1.2.840.10008.1.2.1";
const EBE: &str = "1.2.840.10008.1.2.2";
const RLE: &str = "1.2.840.10008.1.2.5";
const JPEG: &str = "1.2.840.10008.1.2.4.50";
const J2K: &str = "1.2.840.10008.1.2.4.90"; // no codec in this build: data set only
const FILE_TS: &[&str] = &[ILE, ELE, ELE, EBE, RLE, JPEG, J2K];
const CLASS_POOL: &[&str] = &[uids::CT_IMAGE_STORAGE, uids::MR_IMAGE_STORAGE, uids::SECONDARY_CAPTURE_IMAGE_STORAGE,
    uids::COMPUTED_RADIOGRAPHY_IMAGE_STORAGE, uids::ENHANCED_MR_IMAGE_STORAGE, uids::ENHANCED_CT_IMAGE_STORAGE];
/// SOP classes of which the first is a proper prefix of the second (as text): a comparison by
/// prefix, by length-limited compare or after truncation confuses them.
const PREFIX_PAIRS: &[(&str, &str)] = &[
    (uids::COMPUTED_RADIOGRAPHY_IMAGE_STORAGE, uids::DIGITAL_X_RAY_IMAGE_STORAGE_FOR_PRESENTATION), // ...1.1.1 / ...1.1.1.1
    (uids::MR_IMAGE_STORAGE, uids::ENHANCED_MR_IMAGE_STORAGE),                                     // ...1.1.4 / ...1.1.4.1
    (uids::CT_IMAGE_STORAGE, uids::ENHANCED_CT_IMAGE_STORAGE),                                     // ...1.1.2 / ...1.1.2.1
    ("1.2.826.0.1.3680043.9.7433.5", "1.2.826.0.1.3680043.9.7433.5.1"),                           // artificial uid / uid.1
];

struct GenFile {
    class: String,
    inst: String,
    ts: String,
    obj: FileDicomObject<InMemDicomObject>,
}

fn gen_file(r: &mut Rng, class: &str, inst: &str, ts: &str) -> GenFile {
    let rows = r.range(1, 24) as u16;
    let cols = 2 * r.range(1, 12) as u16;
    let px: Vec<u8> = (0..rows as usize * cols as usize).map(|_| r.next() as u8).collect();
    let mut es: Vec<DataElement<InMemDicomObject>> = vec![
        DataElement::new(tags::SOP_CLASS_UID, VR::UI, dicom_value!(Str, class)),
        DataElement::new(tags::SOP_INSTANCE_UID, VR::UI, dicom_value!(Str, inst)),
        DataElement::new(tags::PATIENT_NAME, VR::PN, dicom_value!(Str, rand_ascii(r, 12, b"ABCDEFGH^ abc"))),
        DataElement::new(tags::PATIENT_ID, VR::LO, dicom_value!(Str, rand_ascii(r, 9, b"0123456789XY"))),
        DataElement::new(tags::SAMPLES_PER_PIXEL, VR::US, dicom_value!(U16, [1])),
        DataElement::new(tags::PHOTOMETRIC_INTERPRETATION, VR::CS, dicom_value!(Str, "MONOCHROME2")),
        DataElement::new(tags::ROWS, VR::US, dicom_value!(U16, [rows])),
        DataElement::new(tags::COLUMNS, VR::US, dicom_value!(U16, [cols])),
        DataElement::new(tags::BITS_ALLOCATED, VR::US, dicom_value!(U16, [8])),
        DataElement::new(tags::BITS_STORED, VR::US, dicom_value!(U16, [8])),
        DataElement::new(tags::HIGH_BIT, VR::US, dicom_value!(U16, [7])),
        DataElement::new(tags::PIXEL_REPRESENTATION, VR::US, dicom_value!(U16, [0])),
    ];
    if r.coin() { es.push(DataElement::new(tags::STUDY_DATE, VR::DA, dicom_value!(Str, "20240229"))); }
    if r.coin() { es.push(DataElement::new(Tag(0x0018, 0x0050), VR::DS, dicom_value!(Str, "1.5"))); }
    if r.coin() { es.push(DataElement::new(Tag(0x0020, 0x0013), VR::IS, dicom_value!(Str, "7"))); }
    let stub = ts == J2K;
    if ts == RLE {
        // one RLE segment of literal runs (PS3.5 Annex G), one fragment per frame
        let mut seg: Vec<u8> = vec![];
        for ch in px.chunks(128) { seg.push((ch.len() - 1) as u8); seg.extend_from_slice(ch); }
        if seg.len() % 2 == 1 { seg.push(0x80); } // no-op control byte as padding
        let mut frag = vec![0u8; 64];
        frag[0] = 1; frag[4] = 64;
        frag.extend_from_slice(&seg);
        es.push(DataElement::new(tags::PIXEL_DATA, VR::OB, Value::PixelSequence(PixelFragmentSequence::new(vec![0u32], vec![frag]))));
    } else if stub {
        let frag: Vec<u8> = (0..2 * r.range(1, 60)).map(|_| r.next() as u8).collect();
        es.push(DataElement::new(tags::PIXEL_DATA, VR::OB, Value::PixelSequence(PixelFragmentSequence::new_fragments(vec![frag]))));
    } else {
        es.push(DataElement::new(tags::PIXEL_DATA, VR::OB, PrimitiveValue::from(px)));
    }
    let native_ts = if stub { J2K } else if ts == ILE || ts == EBE || ts == RLE { ts } else { ELE };
    let meta = FileMetaTableBuilder::new()
        .transfer_syntax(native_ts)
        .media_storage_sop_class_uid(class)
        .media_storage_sop_instance_uid(inst);
    let mut obj = InMemDicomObject::from_element_iter(es).with_meta(meta).expect("file meta");
    if ts == JPEG {
        obj.transcode(TransferSyntaxRegistry.get(ts).unwrap()).expect("harness transcode");
    }
    GenFile { class: class.into(), inst: inst.into(), ts: ts.into(), obj }
}

/// one C-STORE as received by the acceptor
struct Store { cmd_pc: u8, data_pcs: Vec<u8>, cmd: Vec<u8>, data: Vec<u8> }
struct Assoc { pcs: Vec<(u8, String, String)>, stores: Vec<Store> } // accepted (id, ts, abstract) in answer order

fn shuffle_key(seed: u64, a: &str, t: &str) -> u64 {
    let mut h = seed ^ 0xcbf29ce484222325;
    for b in a.bytes().chain([0u8]).chain(t.bytes()) { h = (h ^ b as u64).wrapping_mul(0x100000001b3); }
    h
}

fn serve(w: &mut Wire, policy: &BTreeMap<(String, String), Option<String>>, seed: u64, max_pdu: u32) -> Option<Assoc> {
    let rq = match w.recv()? { Pdu::AssociationRQ(rq) => rq, _ => return None };
    let mut idx: Vec<usize> = (0..rq.presentation_contexts.len()).collect();
    idx.sort_by_key(|&k| {
        let p = &rq.presentation_contexts[k];
        shuffle_key(seed, &p.abstract_syntax, p.transfer_syntaxes.first().map_or("", |s| s.as_str()))
    });
    let decide = |p: &dicom_ul::pdu::PresentationContextProposed| {
        let t = p.transfer_syntaxes.first()?;
        policy.get(&(p.abstract_syntax.clone(), t.clone())).cloned().flatten()
    };
    let results = accept(w, &rq, decide, max_pdu, &idx).ok()?;
    let pcs: Vec<(u8, String, String)> = results
        .iter()
        .filter(|x| x.reason == dicom_ul::pdu::PresentationContextResultReason::Acceptance)
        .map(|x| (x.id, x.transfer_syntax.clone(), rq.presentation_contexts.iter().find(|p| p.id == x.id).unwrap().abstract_syntax.clone()))
        .collect();
    let mut a = Assoc { pcs, stores: vec![] };
    let mut cur: Option<Store> = None;
    let mut cmd_buf: Vec<u8> = vec![];
    loop {
        match w.recv() {
            Some(Pdu::PData { data }) => {
                for v in data {
                    if v.value_type == PDataValueType::Command {
                        cmd_buf.extend_from_slice(&v.data);
                        if v.is_last {
                            cur = Some(Store { cmd_pc: v.presentation_context_id, data_pcs: vec![], cmd: std::mem::take(&mut cmd_buf), data: vec![] });
                        }
                    } else if let Some(s) = cur.as_mut() {
                        s.data_pcs.push(v.presentation_context_id);
                        s.data.extend_from_slice(&v.data);
                        if v.is_last {
                            let s = cur.take().unwrap();
                            // answer: C-STORE-RSP, success
                            let ts = dicom_transfer_syntax_registry::entries::IMPLICIT_VR_LITTLE_ENDIAN.erased();
                            let (mut msgid, mut cl, mut ins) = (0u16, String::new(), String::new());
                            if let Ok(o) = InMemDicomObject::read_dataset_with_ts(&s.cmd[..], &ts) {
                                msgid = o.element(tags::MESSAGE_ID).ok().and_then(|e| e.uint16().ok()).unwrap_or(0);
                                cl = o.element(tags::AFFECTED_SOP_CLASS_UID).ok().and_then(|e| e.to_str().ok().map(|s| s.to_string())).unwrap_or_default();
                                ins = o.element(tags::AFFECTED_SOP_INSTANCE_UID).ok().and_then(|e| e.to_str().ok().map(|s| s.to_string())).unwrap_or_default();
                            }
                            let rsp = InMemDicomObject::command_from_element_iter([
                                DataElement::new(tags::AFFECTED_SOP_CLASS_UID, VR::UI, dicom_value!(Str, cl)),
                                DataElement::new(tags::COMMAND_FIELD, VR::US, dicom_value!(U16, [0x8001])),
                                DataElement::new(tags::MESSAGE_ID_BEING_RESPONDED_TO, VR::US, dicom_value!(U16, [msgid])),
                                DataElement::new(tags::COMMAND_DATA_SET_TYPE, VR::US, dicom_value!(U16, [0x0101])),
                                DataElement::new(tags::STATUS, VR::US, dicom_value!(U16, [0])),
                                DataElement::new(tags::AFFECTED_SOP_INSTANCE_UID, VR::UI, dicom_value!(Str, ins)),
                            ]);
                            let mut b = vec![];
                            rsp.write_dataset_with_ts(&mut b, &ts).ok()?;
                            let pc = s.cmd_pc;
                            a.stores.push(s);
                            if w.send(&Pdu::PData { data: vec![pdv(pc, true, true, b)] }).is_err() { return Some(a); }
                        }
                    }
                }
            }
            Some(Pdu::ReleaseRQ) => { let _ = w.send(&Pdu::ReleaseRP); return Some(a); }
            Some(Pdu::AbortRQ { .. }) | None => return Some(a),
            Some(_) => {}
        }
    }
}

/// (tag, text of the value) of every element except pixel data (VRs are not compared: a data set
/// that went through Implicit VR LE comes back with dictionary VRs)
fn canon_rest(o: &InMemDicomObject, skip_group28: bool) -> Vec<(Tag, String)> {
    o.iter()
        .filter(|e| e.header().tag != tags::PIXEL_DATA && !(skip_group28 && e.header().tag.group() == 0x0028)
            && e.header().tag != tags::NUMBER_OF_FRAMES && e.header().tag != tags::ENCAPSULATED_PIXEL_DATA_VALUE_TOTAL_LENGTH)
        .map(|e| (e.header().tag, e.to_str().map(|s| s.to_string()).unwrap_or_else(|_| "<non-primitive>".into())))
        .collect()
}

fn pixel_repr(o: &InMemDicomObject) -> Option<Vec<Vec<u8>>> {
    let e = o.element(tags::PIXEL_DATA).ok()?;
    match e.value() {
        Value::PixelSequence(p) => {
            let mut v: Vec<Vec<u8>> = vec![p.offset_table().iter().flat_map(|x| x.to_le_bytes()).collect()];
            v.extend(p.fragments().iter().cloned());
            Some(v)
        }
        Value::Primitive(p) => Some(vec![p.to_bytes().to_vec()]),
        _ => None,
    }
}

/// Does `data`, read in transfer syntax `ts`, hold the data set of file `f`?
fn decodes_to_file(f: &GenFile, ts: &str, data: &[u8]) -> Result<(), String> {
    let t = TransferSyntaxRegistry.get(ts).ok_or("negotiated transfer syntax unknown to the harness")?;
    let got = InMemDicomObject::read_dataset_with_ts(data, t).map_err(|e| format!("sent bytes do not decode in {ts}: {e}"))?;
    let file_ds: &InMemDicomObject = &f.obj;
    let same_ts = ts == f.ts;
    let codec_free = |u: &str| TransferSyntaxRegistry.get(u).map_or(false, |t| t.is_codec_free());
    if same_ts || (codec_free(ts) && codec_free(&f.ts)) {
        // no pixel conversion: every element identical
        if canon_rest(&got, false) != canon_rest(file_ds, false) { return Err("attributes differ from the file's".into()); }
        if pixel_repr(&got) != pixel_repr(file_ds) { return Err("pixel data differs from the file's".into()); }
        Ok(())
    } else {
        // transcoded: other attributes identical, pixel data = the file's decoded pixel data
        if canon_rest(&got, true) != canon_rest(file_ds, true) { return Err("non-image attributes differ after transcoding".into()); }
        let want = f.obj.decode_pixel_data().map_err(|e| format!("harness cannot decode the file: {e}"))?.data().to_vec();
        let px = got.element(tags::PIXEL_DATA).map_err(|_| "no pixel data sent")?.to_bytes().map_err(|_| "pixel data sent is not native")?.to_vec();
        if px.len() >= want.len() && px[..want.len()] == want[..] && px.len() - want.len() <= 1 { Ok(()) } else { Err("transcoded pixel data differs from the decoded file".into()) }
    }
}

pub fn cases(ctx: &Ctx) -> Vec<Case> {
    let mut r = Rng::new(ctx.seed);
    let scratch = Scratch::new("c33");
    let root = scratch.path().to_path_buf();
    let listener = TcpListener::bind(("127.0.0.1", 0)).expect("bind");
    listener.set_nonblocking(true).unwrap();
    let port = listener.local_addr().unwrap().port();
    let reg_pool: Vec<&str> = vec![ILE, ELE, EBE, RLE, JPEG, J2K];
    let c_reg = c_list(reg_pool.iter().map(|u| {
        let t = TransferSyntaxRegistry.get(u).unwrap();
        c_tuple(&[c_str(t.uid()), c_bool(t.is_codec_free()), c_bool(t.can_decode_all())])
    }));
    let mut out = vec![];
    for i in 0..ctx.n {
        let dir = root.join(format!("case{i}"));
        std::fs::create_dir_all(&dir).unwrap();
        // ---- files
        // prefix trap: two files whose SOP classes are prefix-related; the acceptor rejects every context
        // of the shorter class and accepts the longer one (case 2 is the fixed witness CR / DX)
        let trap: Option<(&str, &str)> = if i == 2 { Some(PREFIX_PAIRS[0]) } else if i > 2 && r.chance(1, 3) { Some(*r.pick(PREFIX_PAIRS)) } else { None };
        let nfiles = if i < 2 { 2 } else if trap.is_some() { r.range(2, 3) as usize } else { r.range(1, 3) as usize };
        let mut files: Vec<GenFile> = vec![];
        for k in 0..nfiles {
            let (class, ts) = match (i, k) {
                (0, 0) | (1, 0) => (CLASS_POOL[0], ELE),  // witness: class A / ELE, only class B / ILE accepted
                (0, 1) | (1, 1) => (CLASS_POOL[1], ILE),
                (2, 0) => (PREFIX_PAIRS[0].0, ELE),
                (2, 1) => (PREFIX_PAIRS[0].1, ELE),
                (_, 0) if trap.is_some() => (trap.unwrap().0, *r.pick(FILE_TS)),
                (_, 1) if trap.is_some() => (trap.unwrap().1, *r.pick(FILE_TS)),
                _ => (*r.pick(CLASS_POOL), *r.pick(FILE_TS)),
            };
            let mut f = gen_file(&mut r, class, &format!("1.2.3.{}.{}.{}", ctx.seed % 1000, i, k), ts);
            let path = dir.join(format!("f{k}.dcm"));
            f.obj.write_to_file(&path).expect("write test file");
            // the reference is the file as it is on disk (fragment padding, dictionary VRs of Implicit VR LE)
            f.obj = dicom_object::open_file(&path).expect("reopen test file");
            files.push(f);
        }
        // ---- options
        let ignore = i >= 3 && r.chance(1, 6);
        let never = i >= 3 && r.chance(1, 5);
        let conc: Option<u32> = if i == 1 { Some(1) } else if i >= 3 && r.chance(1, 4) { Some(r.range(1, 2) as u32) } else { None };
        // ---- acceptor policy over every (abstract syntax, transfer syntax) the tool can propose
        let mut policy: BTreeMap<(String, String), Option<String>> = BTreeMap::new();
        let p_accept = *r.pick(&[2u64, 4, 6, 8]);
        for f in &files {
            for t in [f.ts.as_str(), ELE, ILE] {
                let acc = if i < 2 { f.class == CLASS_POOL[1] && t == ILE }
                    else if let Some((short, long)) = trap {
                        if f.class == short { false } else if f.class == long { i == 2 || r.chance(8, 10) } else { r.chance(p_accept, 10) }
                    } else { r.chance(p_accept, 10) };
                policy.entry((f.class.clone(), t.to_string())).or_insert(if acc { Some(t.to_string()) } else { None });
            }
        }
        let max_pdu = *r.pick(&[1018u32, 4096, 16384, 65536]);
        let order_seed = r.next();
        // ---- run the real binary against the acceptor
        // A run that does not finish within the first limit is repeated once with a much longer one;
        // not finishing is an infrastructure condition (loaded machine), never a property failure.
        let mut assocs: Vec<Assoc> = vec![];
        let mut timed_out = false;
        for limit in [Duration::from_secs(180), Duration::from_secs(1800)] {
            let mut cmd = Command::new(tool("dicom-storescu"));
            cmd.current_dir(&dir).arg(format!("127.0.0.1:{port}")).arg(&dir).env("RUST_LOG", "off");
            if ignore { cmd.arg("--ignore-sop-class"); }
            if never { cmd.arg("--never-transcode"); }
            if let Some(c) = conc { cmd.arg("-c").arg(c.to_string()); }
            cmd.stdout(std::process::Stdio::null()).stderr(std::process::Stdio::null());
            let mut child = Proc::spawn(cmd).expect("spawn dicom-storescu");
            let t0 = Instant::now();
            assocs.clear();
            timed_out = false;
            let mut seen_exit = false;
            loop {
                match listener.accept() {
                    Ok((s, _)) => {
                        s.set_nonblocking(false).ok();
                        if let Ok(mut w) = Wire::from_stream(s, WAIT) {
                            if let Some(a) = serve(&mut w, &policy, order_seed, max_pdu) { assocs.push(a); }
                            if w.timed_out() { timed_out = true; }
                        }
                    }
                    Err(_) => {
                        // nothing to accept right now; once the tool has exited, one more pass over the
                        // backlog (connections it made before exiting) and we are done
                        if seen_exit { break; }
                        if child.exited() { seen_exit = true; continue; }
                        if t0.elapsed() > limit { timed_out = true; break; }
                        std::thread::sleep(Duration::from_millis(2));
                    }
                }
            }
            drop(child);
            // connections of a killed run must not leak into the next attempt
            while let Ok((s, _)) = listener.accept() { drop(s); }
            if !timed_out { break; }
        }
        // ---- observations per file, oracle
        let mut oracle = Oracle::Holds;
        let fail = |o: &mut Oracle, class: &str, detail: String| { if matches!(o, Oracle::Holds) { *o = Oracle::Fails { class: class.into(), detail }; } };
        let infra_note = if timed_out { Some("dicom-storescu did not finish within the time limits (run twice)") } else { None };
        let ile = dicom_transfer_syntax_registry::entries::IMPLICIT_VR_LITTLE_ENDIAN.erased();
        let mut per_file: Vec<Vec<(usize, u8, String)>> = vec![vec![]; files.len()]; // (assoc index, pc id, negotiated ts)
        for (ai, a) in assocs.iter().enumerate() {
            for s in &a.stores {
                let (cl, ins) = match InMemDicomObject::read_dataset_with_ts(&s.cmd[..], &ile) {
                    Ok(o) => (
                        o.element(tags::AFFECTED_SOP_CLASS_UID).ok().and_then(|e| e.to_str().ok().map(|s| s.to_string())).unwrap_or_default(),
                        o.element(tags::AFFECTED_SOP_INSTANCE_UID).ok().and_then(|e| e.to_str().ok().map(|s| s.to_string())).unwrap_or_default(),
                    ),
                    Err(_) => { fail(&mut oracle, "command-unreadable", "C-STORE-RQ command set does not decode".into()); continue; }
                };
                let Some(fi) = files.iter().position(|f| f.inst == ins) else { fail(&mut oracle, "unknown-instance", format!("store of unknown instance {ins}")); continue; };
                let f = &files[fi];
                let Some(pc) = a.pcs.iter().find(|p| p.0 == s.cmd_pc) else { fail(&mut oracle, "context-not-accepted", format!("{}: sent on presentation context {} which was not accepted", f.inst, s.cmd_pc)); continue; };
                per_file[fi].push((ai, pc.0, pc.1.clone()));
                if s.data_pcs.iter().any(|&d| d != s.cmd_pc) { fail(&mut oracle, "data-on-other-context", format!("{}: command on {} data on {:?}", f.inst, s.cmd_pc, s.data_pcs)); }
                if !ignore && pc.2 != f.class {
                    fail(&mut oracle, "abstract-syntax-mismatch", format!("{} (SOP class {}, ts {}) sent on context {} whose abstract syntax is {} (ts {})", f.inst, f.class, f.ts, pc.0, pc.2, pc.1));
                }
                if cl != f.class { fail(&mut oracle, "command-class-mismatch", format!("{}: Affected SOP Class UID {} for a file of class {}", f.inst, cl, f.class)); }
                if let Err(e) = decodes_to_file(f, &pc.1, &s.data) { fail(&mut oracle, "sent-data-set-differs", format!("{} ts {} -> {}: {}", f.inst, f.ts, pc.1, e)); }
            }
        }
        for (fi, v) in per_file.iter().enumerate() {
            if v.len() > 1 { fail(&mut oracle, "sent-twice", format!("{} sent {} times", files[fi].inst, v.len())); }
        }
        // ---- Coq term (needs one consistent list of accepted contexts)
        let pcs0: Vec<(u8, String, String)> = assocs.first().map(|a| a.pcs.clone()).unwrap_or_default();
        let consistent = assocs.iter().all(|a| a.pcs == pcs0);
        let c_pcs = c_list(pcs0.iter().map(|(id, ts, ab)| c_tuple(&[id.to_string(), c_str(ts), c_str(ab)])));
        let c_files = c_list(files.iter().enumerate().map(|(fi, f)| {
            let obs = per_file[fi].first().map(|(_, id, ts)| c_pair(&id.to_string(), &c_str(ts.trim_end_matches(|c: char| c == '\0' || c.is_whitespace()))));
            c_tuple(&[c_str(&f.class), c_str(&f.ts), c_opt(obs)])
        }));
        let coq = if consistent && !timed_out && !assocs.is_empty() { format!("({} : ScuChoice.case_t)", c_tuple(&[c_reg.clone(), c_bool(ignore), c_bool(never), c_pcs, c_files])) } else { String::new() };
        if assocs.is_empty() && policy.values().any(|v| v.is_some()) && !timed_out {
            // the tool never reached the acceptor although something would have been accepted
            fail(&mut oracle, "tool-never-connected", "dicom-storescu exited without opening an association".into());
        }
        let accepted: Vec<String> = policy.iter().filter(|(_, v)| v.is_some()).map(|((a, t), _)| format!("{}/{}", a.rsplit('.').next().unwrap_or(""), t.rsplit("10008.").next().unwrap_or(""))).collect();
        let nsent: usize = per_file.iter().map(|v| v.len()).sum();
        let bucket = format!("{}{}{}{}files={} sent={}", if trap.is_some() { "prefix-trap " } else { "" }, if conc.is_some() { "async " } else { "" }, if ignore { "ignore-class " } else { "" }, if never { "never-transcode " } else { "" }, files.len(), nsent);
        // what was received before a time limit still must not violate the property, but a run cut
        // short proves nothing: it is reported as not applicable unless a definite violation was seen
        if timed_out && matches!(oracle, Oracle::Holds) { oracle = Oracle::NotApplicable; }
        out.push(Case {
            coq,
            desc: json!({"bucket": bucket, "infrastructure_note": infra_note, "files": files.iter().map(|f| json!({"class": f.class, "ts": f.ts, "inst": f.inst})).collect::<Vec<_>>(),
                          "accepted_policy": accepted, "ignore_sop_class": ignore, "never_transcode": never, "concurrency": conc, "max_pdu": max_pdu,
                          "associations": assocs.len(), "contexts": pcs0, "sent": per_file.iter().map(|v| v.iter().map(|x| x.1).collect::<Vec<_>>()).collect::<Vec<_>>()}),
            // context ids are left out of the key: the tool numbers its proposals in HashSet order, which changes per process
            key: format!("{:?}|{:?}|{}{}", files.iter().map(|f| (&f.class, &f.ts)).collect::<Vec<_>>(), pcs0.iter().map(|p| (&p.1, &p.2)).collect::<Vec<_>>(), ignore, never),
            oracle,
        });
        let _ = std::fs::remove_dir_all(&dir);
    }
    let _ = Path::new(&root);
    out
}
