//! Child processes of the real tool binaries, scratch directories, loopback ports.
//! Everything is cleaned up on every path: children are killed when their guard is
//! dropped (and by the kernel if this process dies), scratch trees are removed on drop.
#![allow(dead_code)]
use std::io::Read;
use std::net::{TcpListener, TcpStream};
use std::os::unix::process::CommandExt;
use std::path::{Path, PathBuf};
use std::process::{Child, Command, Stdio};
use std::time::{Duration, Instant};

/// Path of a tool binary built by lib/vcheck.py (`repo_bins`), from env VH_BIN_DIR.
pub fn tool(name: &str) -> PathBuf {
    let dir = std::env::var("VH_BIN_DIR").unwrap_or_else(|_| "/verif/.cache/target-repo/debug".into());
    let p = Path::new(&dir).join(name);
    if !p.exists() {
        eprintln!("tool binary {} not found (VH_BIN_DIR={dir})", p.display());
        std::process::exit(3);
    }
    p
}

/// A scratch directory tree under the system temp dir, removed on drop.
pub struct Scratch(pub PathBuf);
impl Scratch {
    pub fn new(tag: &str) -> Scratch {
        let base = std::env::temp_dir().canonicalize().unwrap();
        for k in 0..1000u32 {
            let p = base.join(format!("vh_{tag}_{}_{k}", std::process::id()));
            if std::fs::create_dir(&p).is_ok() {
                return Scratch(p.canonicalize().unwrap());
            }
        }
        panic!("cannot create scratch dir");
    }
    pub fn path(&self) -> &Path { &self.0 }
}
impl Drop for Scratch {
    fn drop(&mut self) { let _ = std::fs::remove_dir_all(&self.0); }
}

/// Child process killed (and reaped) on drop.
pub struct Proc(pub Child);
impl Proc {
    pub fn spawn(mut cmd: Command) -> std::io::Result<Proc> {
        unsafe {
            cmd.pre_exec(|| {
                // die with the harness, whatever happens to it
                libc::prctl(libc::PR_SET_PDEATHSIG, libc::SIGKILL);
                Ok(())
            });
        }
        cmd.stdin(Stdio::null());
        Ok(Proc(cmd.spawn()?))
    }
    pub fn exited(&mut self) -> bool { matches!(self.0.try_wait(), Ok(Some(_))) }
}
impl Drop for Proc {
    fn drop(&mut self) { let _ = self.0.kill(); let _ = self.0.wait(); }
}

/// Run a command to completion with a timeout. Returns (exit code or None when killed, stdout+stderr text).
pub fn run_with_timeout(mut cmd: Command, timeout: Duration) -> (Option<i32>, String) {
    cmd.stdout(Stdio::piped()).stderr(Stdio::piped());
    let mut p = match Proc::spawn(cmd) { Ok(p) => p, Err(e) => return (None, format!("spawn failed: {e}")) };
    let mut so = p.0.stdout.take().unwrap();
    let mut se = p.0.stderr.take().unwrap();
    let t1 = std::thread::spawn(move || { let mut s = Vec::new(); let _ = so.read_to_end(&mut s); s });
    let t2 = std::thread::spawn(move || { let mut s = Vec::new(); let _ = se.read_to_end(&mut s); s });
    let t0 = Instant::now();
    let mut killed = false;
    let code = loop {
        match p.0.try_wait() {
            Ok(Some(st)) => break st.code(),
            Ok(None) => {
                if t0.elapsed() > timeout { let _ = p.0.kill(); let _ = p.0.wait(); killed = true; break None; }
                std::thread::sleep(Duration::from_millis(2));
            }
            Err(_) => break None,
        }
    };
    let mut out = String::from_utf8_lossy(&t1.join().unwrap_or_default()).into_owned();
    out.push_str(&String::from_utf8_lossy(&t2.join().unwrap_or_default()));
    if killed { out.push_str(TIMEOUT_MARK); }
    (code, out)
}

/// Run a tool to completion; a run that does not finish within `first` is repeated once with the
/// much longer `second` limit (a loaded machine is not a property failure). Returns
/// (exit code, output, infrastructure): `infrastructure` = true when even the second run did not finish.
pub fn run_patiently(make: impl Fn() -> Command, first: Duration, second: Duration) -> (Option<i32>, String, bool) {
    let (code, out) = run_with_timeout(make(), first);
    if code.is_some() || !out.ends_with(TIMEOUT_MARK) { return (code, out, false); }
    let (code, out) = run_with_timeout(make(), second);
    let infra = code.is_none() && out.ends_with(TIMEOUT_MARK);
    (code, out, infra)
}
pub const TIMEOUT_MARK: &str = "[harness: time limit reached, process killed]";

/// A loopback port that was free a moment ago.
pub fn free_port() -> u16 {
    let l = TcpListener::bind(("127.0.0.1", 0)).expect("bind port 0");
    l.local_addr().unwrap().port()
}

/// Wait until something accepts connections on the port (the probe connection is closed at once).
pub fn wait_listening(port: u16, child: &mut Proc, timeout: Duration) -> bool {
    let t0 = Instant::now();
    while t0.elapsed() < timeout {
        if child.exited() { return false; }
        if TcpStream::connect_timeout(&(std::net::Ipv4Addr::LOCALHOST, port).into(), Duration::from_millis(200)).is_ok() {
            return true;
        }
        std::thread::sleep(Duration::from_millis(10));
    }
    false
}

/// All regular files (and symlinks) below `root`, sorted, as absolute paths.
pub fn list_files(root: &Path) -> Vec<PathBuf> {
    let mut out = vec![];
    let mut todo = vec![root.to_path_buf()];
    while let Some(d) = todo.pop() {
        if let Ok(rd) = std::fs::read_dir(&d) {
            for e in rd.flatten() {
                let p = e.path();
                match e.file_type() {
                    Ok(t) if t.is_dir() => todo.push(p),
                    Ok(_) => out.push(p),
                    Err(_) => {}
                }
            }
        }
    }
    out.sort();
    out
}
