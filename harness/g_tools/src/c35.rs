//! C35 — random PNG images (L8 / L16 / RGB8 / RGB16) through the real `dicom-fromimage` and
//! then `dicom-toimage` binaries (`--unwrap`, and the decoded PNG export for colour images).
use crate::procs::*;
use dicom_core::{dicom_value, DataElement, PrimitiveValue, Tag, VR};
use dicom_dictionary_std::{tags, uids};
use dicom_object::{open_file, FileMetaTableBuilder, InMemDicomObject};
use image::{DynamicImage, ImageBuffer, Luma, Rgb};
use serde_json::json;
use std::path::Path;
use std::process::Command;
use std::time::Duration;
use vhc::*;

#[derive(Clone)]
struct Img { w: u32, h: u32, chans: u32, depth: u32, samples: Vec<u16> }

fn write_png(im: &Img, p: &Path) {
    match (im.chans, im.depth) {
        (1, 8) => ImageBuffer::<Luma<u8>, Vec<u8>>::from_raw(im.w, im.h, im.samples.iter().map(|&x| x as u8).collect()).unwrap().save(p),
        (1, 16) => ImageBuffer::<Luma<u16>, Vec<u16>>::from_raw(im.w, im.h, im.samples.clone()).unwrap().save(p),
        (3, 8) => ImageBuffer::<Rgb<u8>, Vec<u8>>::from_raw(im.w, im.h, im.samples.iter().map(|&x| x as u8).collect()).unwrap().save(p),
        _ => ImageBuffer::<Rgb<u16>, Vec<u16>>::from_raw(im.w, im.h, im.samples.clone()).unwrap().save(p),
    }
    .expect("write png");
}

fn read_png(p: &Path) -> Option<Img> {
    let d = image::open(p).ok()?;
    let (w, h) = (d.width(), d.height());
    Some(match d {
        DynamicImage::ImageLuma8(b) => Img { w, h, chans: 1, depth: 8, samples: b.into_raw().into_iter().map(|x| x as u16).collect() },
        DynamicImage::ImageLuma16(b) => Img { w, h, chans: 1, depth: 16, samples: b.into_raw() },
        DynamicImage::ImageRgb8(b) => Img { w, h, chans: 3, depth: 8, samples: b.into_raw().into_iter().map(|x| x as u16).collect() },
        DynamicImage::ImageRgb16(b) => Img { w, h, chans: 3, depth: 16, samples: b.into_raw() },
        _ => return None,
    })
}

/// A base DICOM file whose Image Pixel module is deliberately different from what is injected.
fn write_base(r: &mut Rng, p: &Path) -> String {
    let ts = if r.coin() { "1.2.840.10008.1.2.1" } else { "1.2.840.10008.1.2" };
    let spp: u16 = if r.coin() { 1 } else { 3 };
    let mut es: Vec<DataElement<InMemDicomObject>> = vec![
        DataElement::new(tags::SOP_CLASS_UID, VR::UI, dicom_value!(Str, uids::SECONDARY_CAPTURE_IMAGE_STORAGE)),
        DataElement::new(tags::SOP_INSTANCE_UID, VR::UI, dicom_value!(Str, "1.2.3.4.5.6")),
        DataElement::new(tags::PATIENT_NAME, VR::PN, dicom_value!(Str, "Base^Image")),
        DataElement::new(tags::SAMPLES_PER_PIXEL, VR::US, dicom_value!(U16, [spp])),
        DataElement::new(tags::PHOTOMETRIC_INTERPRETATION, VR::CS, dicom_value!(Str, if spp == 1 { "MONOCHROME1" } else { "YBR_FULL" })),
        DataElement::new(tags::ROWS, VR::US, dicom_value!(U16, [2])),
        DataElement::new(tags::COLUMNS, VR::US, dicom_value!(U16, [2])),
        DataElement::new(tags::BITS_ALLOCATED, VR::US, dicom_value!(U16, [16])),
        DataElement::new(tags::BITS_STORED, VR::US, dicom_value!(U16, [12])),
        DataElement::new(tags::HIGH_BIT, VR::US, dicom_value!(U16, [11])),
        DataElement::new(tags::PIXEL_REPRESENTATION, VR::US, dicom_value!(U16, [1])),
        DataElement::new(tags::PIXEL_DATA, VR::OW, PrimitiveValue::from(vec![0u8; 2 * 2 * 2 * spp as usize * 2])),
    ];
    if spp == 3 || r.coin() { es.push(DataElement::new(tags::PLANAR_CONFIGURATION, VR::US, dicom_value!(U16, [1]))); }
    if r.coin() { es.push(DataElement::new(tags::NUMBER_OF_FRAMES, VR::IS, dicom_value!(Str, "2"))); }
    if r.coin() {
        es.push(DataElement::new(Tag(0x0028, 0x1052), VR::DS, dicom_value!(Str, "-1024")));
        es.push(DataElement::new(Tag(0x0028, 0x1053), VR::DS, dicom_value!(Str, "2")));
    }
    if r.coin() {
        es.push(DataElement::new(Tag(0x0028, 0x1050), VR::DS, dicom_value!(Str, "40")));
        es.push(DataElement::new(Tag(0x0028, 0x1051), VR::DS, dicom_value!(Str, "400")));
    }
    let meta = FileMetaTableBuilder::new()
        .transfer_syntax(ts)
        .media_storage_sop_class_uid(uids::SECONDARY_CAPTURE_IMAGE_STORAGE)
        .media_storage_sop_instance_uid("1.2.3.4.5.6");
    InMemDicomObject::from_element_iter(es).with_meta(meta).unwrap().write_to_file(p).expect("write base file");
    ts.to_string()
}

fn rand_image(r: &mut Rng, i: usize, thorough: bool) -> (Img, &'static str) {
    let (chans, depth) = [(1, 8), (1, 16), (3, 8), (3, 16)][i % 4];
    let (w, h, b): (u32, u32, &'static str) = match i {
        0..=3 => (1, 1, "1x1"),
        4..=7 => (3, 3, "3x3 odd byte count"),
        8..=11 => (64, 1, "64x1"),
        12..=15 => (1, 64, "1x64"),
        16 if thorough => (65536, 1, "beyond-u16"),
        _ => match r.below(10) {
            0..=5 => (r.range(1, 8) as u32, r.range(1, 8) as u32, "1-8"),
            6..=8 => (r.range(1, 24) as u32, r.range(1, 24) as u32, "1-24"),
            _ => (r.range(1, 64) as u32, r.range(1, 64) as u32, "1-64"),
        },
    };
    let max: u64 = if depth == 8 { 255 } else { 65535 };
    let pool: &[u16] = if depth == 8 { &[0, 1, 127, 128, 254, 255] } else { &[0, 1, 255, 256, 0x00ff, 0xff00, 0x0102, 0x0201, 32767, 32768, 65534, 65535] };
    let n = (w * h * chans) as usize;
    if b == "beyond-u16" {
        // constant image: its literals are printed as runs ([rep x n] of Base/Pack.v), a plain list of
        // 65536 numbers overflows coqc's stack
        return (Img { w, h, chans, depth, samples: vec![7; n] }, b);
    }
    let samples = (0..n).map(|_| if r.chance(1, 4) { *r.pick(pool) } else { r.below(max + 1) as u16 }).collect();
    (Img { w, h, chans, depth, samples }, b)
}

/// list of numbers; a long constant list as a run
fn c_nums(v: &[u64]) -> String {
    if v.len() > 1000 && v.iter().all(|&x| x == v[0]) { format!("(rep {} {})", v[0], v.len()) } else { c_list(v.iter().map(|s| s.to_string())) }
}
fn c_img(im: &Img) -> String {
    c_tuple(&[im.w.to_string(), im.h.to_string(), im.chans.to_string(), im.depth.to_string(), c_nums(&im.samples.iter().map(|&s| s as u64).collect::<Vec<_>>())])
}
fn c_bytes_run(b: &[u8]) -> String { c_nums(&b.iter().map(|&x| x as u64).collect::<Vec<_>>()) }

pub fn cases(ctx: &Ctx) -> Vec<Case> {
    let mut r = Rng::new(ctx.seed);
    let scratch = Scratch::new("c35");
    let root = scratch.path().to_path_buf();
    // a run that does not finish in `t1` is repeated once with `t2`; not finishing is never a property failure
    let (t1, t2) = (Duration::from_secs(120), Duration::from_secs(1200));
    let mut out = vec![];
    for i in 0..ctx.n {
        let (im, sizeb) = rand_image(&mut r, i, ctx.tier == Tier::Thorough);
        let beyond = im.w > 65535 || im.h > 65535;
        let dir = root.join(format!("c{i}"));
        std::fs::create_dir_all(&dir).unwrap();
        let (base, png, dcm, raw, outpng) = (dir.join("base.dcm"), dir.join("in.png"), dir.join("out.dcm"), dir.join("out.data"), dir.join("out.png"));
        let base_ts = write_base(&mut r, &base);
        write_png(&im, &png);
        // ---- fromimage
        let mut infra: Option<String> = None;
        let (rc1, log1, inf1) = run_patiently(|| {
            let mut c = Command::new(tool("dicom-fromimage"));
            c.arg(&base).arg(&png).arg("-o").arg(&dcm).env("RUST_LOG", "off");
            c
        }, t1, t2);
        if inf1 { infra = Some("dicom-fromimage did not finish within the time limits".into()); }
        let mut fail: Option<(String, String)> = None;
        let mut c_attrs = String::new();
        let mut unwrapped: Option<Vec<u8>> = None;
        let mut decoded: Option<Img> = None;
        let mut ran_decoded = false;
        if infra.is_some() {
        } else if rc1 != Some(0) {
            fail = Some(("fromimage-failed".into(), format!("exit {rc1:?}: {}", log1.chars().take(300).collect::<String>())));
        } else {
            match open_file(&dcm) {
                Err(e) => fail = Some(("fromimage-output-unreadable".into(), e.to_string())),
                Ok(o) => {
                    let u = |t: Tag| o.element(t).ok().and_then(|e| e.uint16().ok());
                    let pi = o.element(tags::PHOTOMETRIC_INTERPRETATION).ok().and_then(|e| e.to_str().ok().map(|s| s.to_string())).unwrap_or_default();
                    let px = o.element(tags::PIXEL_DATA).ok();
                    let ob = px.map_or(false, |e| e.header().vr == VR::OB);
                    let bytes = px.and_then(|e| e.to_bytes().ok().map(|b| b.to_vec())).unwrap_or_default();
                    let n = |x: Option<u16>| x.map_or("99999".to_string(), |v| v.to_string());
                    c_attrs = c_tuple(&[c_str(&pi), n(u(tags::SAMPLES_PER_PIXEL)), c_opt(u(tags::PLANAR_CONFIGURATION).map(|v| v.to_string())),
                        n(u(tags::COLUMNS)), n(u(tags::ROWS)),
                        c_tuple(&[n(u(tags::BITS_ALLOCATED)), n(u(tags::BITS_STORED)), n(u(tags::HIGH_BIT)), n(u(tags::PIXEL_REPRESENTATION))]),
                        c_bool(ob), c_bytes_run(&bytes)]);
                    if o.element(tags::NUMBER_OF_FRAMES).is_ok() { fail = Some(("number-of-frames-kept".into(), "Number of Frames of the base file survived".into())); }
                }
            }
            // ---- toimage --unwrap
            let (rc2, log2, inf2) = run_patiently(|| {
                let mut c = Command::new(tool("dicom-toimage"));
                c.arg(&dcm).arg("--unwrap").arg("-o").arg(&raw).env("RUST_LOG", "off");
                c
            }, t1, t2);
            if inf2 { infra = Some("dicom-toimage --unwrap did not finish within the time limits".into()); }
            if rc2 == Some(0) { unwrapped = std::fs::read(&raw).ok(); }
            else if !beyond && fail.is_none() { fail = Some(("toimage-unwrap-failed".into(), format!("exit {rc2:?}: {}", log2.chars().take(300).collect::<String>()))); }
            // ---- toimage (decoded), colour images only: monochrome goes through the LUT pipeline
            if im.chans == 3 {
                ran_decoded = true;
                let (rc3, log3, inf3) = run_patiently(|| {
                    let mut c = Command::new(tool("dicom-toimage"));
                    c.arg(&dcm).arg("-o").arg(&outpng).env("RUST_LOG", "off");
                    c
                }, t1, t2);
                if inf3 { infra = Some("dicom-toimage did not finish within the time limits".into()); }
                if rc3 == Some(0) { decoded = read_png(&outpng); }
                if decoded.is_none() && !beyond && fail.is_none() { fail = Some(("toimage-decode-failed".into(), format!("exit {rc3:?}: {}", log3.chars().take(300).collect::<String>()))); }
            }
        }
        // ---- direct oracle: dimensions and pixel values come back
        let mut oracle = Oracle::Holds;
        if beyond || infra.is_some() { oracle = Oracle::NotApplicable; }
        else if let Some((c, d)) = fail { oracle = Oracle::Fails { class: c, detail: d }; }
        else {
            let want: Vec<u8> = if im.depth == 8 { im.samples.iter().map(|&s| s as u8).collect() } else { im.samples.iter().flat_map(|s| s.to_le_bytes()).collect() };
            if unwrapped.as_deref() != Some(&want[..]) {
                oracle = Oracle::Fails { class: "unwrapped-pixels-differ".into(), detail: format!("{}x{} {}ch {}bit: {} bytes out, {} expected", im.w, im.h, im.chans, im.depth, unwrapped.as_ref().map_or(0, |b| b.len()), want.len()) };
            } else if ran_decoded {
                let d = decoded.as_ref().unwrap();
                if (d.w, d.h, d.chans, d.depth) != (im.w, im.h, im.chans, im.depth) || d.samples != im.samples {
                    oracle = Oracle::Fails { class: "decoded-image-differs".into(), detail: format!("in {}x{} {}ch {}bit, out {}x{} {}ch {}bit, samples equal: {}", im.w, im.h, im.chans, im.depth, d.w, d.h, d.chans, d.depth, d.samples == im.samples) };
                }
            }
        }
        // large images are oracle-only: a literal of n numbers costs coqc time and memory, and the model
        // comparison gains nothing from size (the one deliberate exception is the beyond-u16 case)
        let model_evaluated = im.samples.len() <= 3000 || beyond;
        let coq = if c_attrs.is_empty() || infra.is_some() || !model_evaluated { String::new() } else {
            format!("({} : Image.case_t)", c_tuple(&[c_img(&im), c_attrs, c_opt(unwrapped.as_ref().map(|b| c_bytes_run(b))), c_opt(decoded.as_ref().map(c_img))]))
        };
        let kind = format!("{}{}", if im.chans == 1 { "L" } else { "RGB" }, im.depth);
        out.push(Case {
            coq,
            desc: json!({"bucket": format!("{kind} {sizeb}"), "w": im.w, "h": im.h, "type": kind, "base_ts": base_ts, "decoded_run": ran_decoded, "infrastructure_note": infra,
                          "first_samples": im.samples.iter().take(12).collect::<Vec<_>>()}),
            key: format!("{kind}|{}x{}|{:?}", im.w, im.h, im.samples.iter().take(16).collect::<Vec<_>>()),
            oracle,
        });
        let _ = std::fs::remove_dir_all(&dir);
    }
    out
}
