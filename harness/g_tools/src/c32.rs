//! C32 — the real `dicom-storescp` binary (sync and --non-blocking) driven by a scripted
//! requestor over loopback: arbitrary SOP Instance UID texts, any fragmentation of the data
//! set, several transfer syntaxes. Every file created below the scratch root (under AND
//! around the output directory) is listed after each association.
use crate::procs::*;
use crate::wire::*;
use dicom_core::value::{PixelFragmentSequence, PrimitiveValue, Value};
use dicom_core::{dicom_value, DataElement, Tag, VR};
use dicom_dictionary_std::{tags, uids};
use dicom_encoding::transfer_syntax::TransferSyntaxIndex;
use dicom_object::{open_file, InMemDicomObject};
use dicom_transfer_syntax_registry::TransferSyntaxRegistry;
use dicom_ul::pdu::{PDataValueType, Pdu};
use serde_json::json;
use std::os::unix::ffi::OsStrExt;
use std::path::{Path, PathBuf};
use std::process::Command;
use std::time::Duration;
use vhc::*;

const ILE: &str = "1.2.840.10008.1.2";
const TS_POOL: &[&str] = &[ILE, "1.2.840.10008.1.2.1", "1.2.840.10008.1.2.2", "1.2.840.10008.1.2.4.50", "1.2.840.10008.1.2.5"];
const CLASS_POOL: &[&str] = &[uids::CT_IMAGE_STORAGE, uids::MR_IMAGE_STORAGE, uids::SECONDARY_CAPTURE_IMAGE_STORAGE];

struct Server {
    proc_: Proc,
    port: u16,
    asynch: bool,
    out_arg: String,   // the -o argument as given
    out_abs: PathBuf,  // canonical output directory
}

fn start_server(root: &Path, asynch: bool, out_arg: &str) -> Server {
    for _attempt in 0..5 {
        let port = free_port();
        let mut cmd = Command::new(tool("dicom-storescp"));
        cmd.current_dir(root).arg("-o").arg(out_arg).arg("-p").arg(port.to_string());
        if asynch { cmd.arg("--non-blocking"); }
        cmd.env("RUST_LOG", "off").stdout(std::process::Stdio::null()).stderr(std::process::Stdio::null());
        let mut p = Proc::spawn(cmd).expect("spawn dicom-storescp");
        if wait_listening(port, &mut p, Duration::from_secs(300)) {
            let out_abs = root.join(out_arg).canonicalize().expect("output directory exists");
            return Server { proc_: p, port, asynch, out_arg: out_arg.to_string(), out_abs };
        }
    }
    panic!("dicom-storescp did not start");
}

// ---------------------------------------------------------------- script
#[derive(Clone)]
enum Ev {
    Cmd { last: bool, pc: u8, bytes: Vec<u8> },
    Data { last: bool, pc: u8, bytes: Vec<u8> },
}

struct Msg { uid: String, ts: String, ds: Vec<u8>, ds_class: String, ds_inst: String, empty_fragment: bool }

fn command_bytes(field: u16, msgid: Option<u16>, class: Option<&str>, inst: Option<&str>) -> Vec<u8> {
    let mut es = vec![DataElement::new(tags::COMMAND_FIELD, VR::US, dicom_value!(U16, [field]))];
    if let Some(c) = class { es.push(DataElement::new(tags::AFFECTED_SOP_CLASS_UID, VR::UI, dicom_value!(Str, c))); }
    if let Some(m) = msgid { es.push(DataElement::new(tags::MESSAGE_ID, VR::US, dicom_value!(U16, [m]))); }
    es.push(DataElement::new(tags::PRIORITY, VR::US, dicom_value!(U16, [0])));
    es.push(DataElement::new(tags::COMMAND_DATA_SET_TYPE, VR::US, dicom_value!(U16, [if field == 0x0030 { 0x0101 } else { 0 }])));
    if let Some(i) = inst { es.push(DataElement::new(tags::AFFECTED_SOP_INSTANCE_UID, VR::UI, dicom_value!(Str, i))); }
    let obj = InMemDicomObject::command_from_element_iter(es);
    let mut v = vec![];
    obj.write_dataset_with_ts(&mut v, &dicom_transfer_syntax_registry::entries::IMPLICIT_VR_LITTLE_ENDIAN.erased()).unwrap();
    v
}

/// What the tool reads out of a command fragment (mirrors the calls in storescp `inner`).
enum CmdParse { Bad, Echo, Other(u16, String, String) }
fn parse_command(b: &[u8]) -> CmdParse {
    let ts = dicom_transfer_syntax_registry::entries::IMPLICIT_VR_LITTLE_ENDIAN.erased();
    let obj = match InMemDicomObject::read_dataset_with_ts(b, &ts) { Ok(o) => o, Err(_) => return CmdParse::Bad };
    let field = match obj.element(tags::COMMAND_FIELD).ok().and_then(|e| e.uint16().ok()) { Some(f) => f, None => return CmdParse::Bad };
    if field == 0x0030 { return CmdParse::Echo; }
    let m = match obj.element(tags::MESSAGE_ID).ok().and_then(|e| e.to_int::<u16>().ok()) { Some(m) => m, None => return CmdParse::Bad };
    let c = match obj.element(tags::AFFECTED_SOP_CLASS_UID).ok().and_then(|e| e.to_str().ok().map(|s| s.to_string())) { Some(c) => c, None => return CmdParse::Bad };
    let i = match obj.element(tags::AFFECTED_SOP_INSTANCE_UID).ok().and_then(|e| e.to_str().ok().map(|s| s.to_string())) { Some(c) => c, None => return CmdParse::Bad };
    CmdParse::Other(m, c, i)
}

/// SOP class / instance UID the tool reads out of a data set buffer, and the data set as the
/// tool writes it again (None = handler fails).
fn parse_dataset(ts: &str, b: &[u8]) -> Option<(String, String, Vec<u8>)> {
    let t = TransferSyntaxRegistry.get(ts)?;
    let obj = InMemDicomObject::read_dataset_with_ts(b, t).ok()?;
    let c = obj.element(tags::SOP_CLASS_UID).ok()?.to_str().ok()?.to_string();
    let i = obj.element(tags::SOP_INSTANCE_UID).ok()?.to_str().ok()?.to_string();
    let mut w = vec![];
    obj.write_dataset_with_ts(&mut w, t).ok()?;
    Some((c, i, w))
}

fn rand_dataset(r: &mut Rng, ts: &str, class: Option<&str>, inst: Option<&str>, force_empty_fragment: bool) -> (Vec<u8>, bool) {
    let mut empty_fragment = false;
    let mut es: Vec<DataElement<InMemDicomObject>> = vec![];
    if let Some(c) = class { es.push(DataElement::new(tags::SOP_CLASS_UID, VR::UI, dicom_value!(Str, c))); }
    if let Some(i) = inst { es.push(DataElement::new(tags::SOP_INSTANCE_UID, VR::UI, dicom_value!(Str, i))); }
    if r.coin() { es.push(DataElement::new(tags::PATIENT_NAME, VR::PN, dicom_value!(Str, rand_ascii(r, 12, b"ABCDEFGH^ abc")))); }
    if r.coin() { es.push(DataElement::new(tags::PATIENT_ID, VR::LO, dicom_value!(Str, rand_ascii(r, 9, b"0123456789XY")))); }
    if r.coin() { es.push(DataElement::new(tags::STUDY_DATE, VR::DA, dicom_value!(Str, "20240229"))); }
    if r.coin() { es.push(DataElement::new(tags::ROWS, VR::US, dicom_value!(U16, [r.below(65536) as u16]))); }
    if r.coin() { es.push(DataElement::new(tags::COLUMNS, VR::US, dicom_value!(U16, [r.below(65536) as u16]))); }
    if r.coin() { es.push(DataElement::new(Tag(0x0018, 0x0050), VR::DS, dicom_value!(Str, "1.5"))); }
    if r.coin() { es.push(DataElement::new(Tag(0x0028, 0x0030), VR::DS, dicom_value!(Strs, ["0.5", "0.25"]))); }
    if r.coin() { es.push(DataElement::new(Tag(0x0009, 0x0010), VR::LO, dicom_value!(Str, "VERIF"))); }
    if force_empty_fragment || r.chance(2, 3) {
        let encapsulated = TransferSyntaxRegistry.get(ts).map_or(false, |t| t.is_encapsulated_pixel_data());
        if encapsulated {
            let nf = r.range(1, 2);
            let mut frags: Vec<Vec<u8>> = (0..nf).map(|_| { let lo = if r.chance(1, 12) { 0 } else { 1 }; let n = 2 * r.range(lo, 40); (0..n).map(|_| r.next() as u8).collect() }).collect();
            if force_empty_fragment { frags.insert(0, vec![]); }
            empty_fragment = frags.iter().any(|f| f.is_empty());
            es.push(DataElement::new(tags::PIXEL_DATA, VR::OB, Value::PixelSequence(PixelFragmentSequence::new_fragments(frags))));
        } else {
            let n = 2 * r.range(0, 300) as usize;
            let px: Vec<u8> = (0..n).map(|_| r.next() as u8).collect();
            es.push(DataElement::new(tags::PIXEL_DATA, VR::OB, PrimitiveValue::from(px)));
        }
    }
    let obj = InMemDicomObject::from_element_iter(es);
    let mut v = vec![];
    obj.write_dataset_with_ts(&mut v, TransferSyntaxRegistry.get(ts).unwrap()).unwrap();
    (v, empty_fragment)
}

/// SOP Instance UID texts of the C-STORE-RQ command (what names the file).
fn rand_uid(r: &mut Rng, k: usize, root: &Path) -> (String, &'static str) {
    let tagk = format!("{}", 7 + k);
    match r.below(16) {
        0..=3 => (format!("1.2.826.0.1.3680043.{}.{}", r.below(100000), tagk), "plain"),
        4 => (format!("../esc{tagk}"), "parent"),
        5 => (format!("../../esc{tagk}"), "parent2"),
        6 => (format!("{}/abs{tagk}", root.display()), "absolute"),
        7 => (format!("sub/nested{tagk}"), "nested"),
        8 => (format!("sub/../../side/x{tagk}"), "nested-parent"),
        9 => ((*r.pick(&["", ".", "..", "/", "./", "../", "sub/", "sub/.."])).to_string(), "special"),
        10 => (format!("1.2.{tagk}\0\0"), "trailing-nul"),
        11 => (format!("1.2\0{tagk}"), "inner-nul"),
        12 => (format!("1.2.{tagk}  "), "trailing-space"),
        13 => (format!("a\\b{tagk}"), "backslash"),
        14 => {
            let n = *r.pick(&[64u64, 100, 250, 251, 252, 300]);
            let mut s: String = (0..n).map(|_| *r.pick(b"0123456789.") as char).collect();
            s.push_str(&tagk);
            (s, "long")
        }
        _ => {
            let n = r.range(1, 12);
            let mut s: String = (0..n).map(|_| r.range(1, 0x7e) as u8 as char).collect();
            s.push_str(&tagk);
            (s, "ascii-any")
        }
    }
}

fn cut(r: &mut Rng, b: &[u8]) -> Vec<Vec<u8>> {
    // any number of fragments, empty ones included
    let n = match r.below(5) { 0 | 1 => 1, 2 => 2, 3 => 3, _ => r.range(2, 6) } as usize;
    let mut cuts: Vec<usize> = (0..n - 1).map(|_| r.below(b.len() as u64 + 1) as usize).collect();
    cuts.sort();
    let mut out = vec![];
    let mut prev = 0;
    for c in cuts { out.push(b[prev..c].to_vec()); prev = c; }
    out.push(b[prev..].to_vec());
    out
}

fn path_comps(p: &Path) -> Vec<String> {
    // components as raw strings; the scratch root is canonical so this is the resolved location
    p.components().filter_map(|c| match c { std::path::Component::Normal(s) => Some(s.to_string_lossy().into_owned()), _ => None }).collect()
}

fn c_comps(v: &[String]) -> String { c_list(v.iter().map(|s| c_utf8(s))) }

fn read_stored(p: &Path) -> (String, String, String, Vec<u8>) {
    let raw = std::fs::read(p).unwrap_or_default();
    let trim = |s: &str| s.trim_end_matches('\0').to_string();
    match open_file(p) {
        Ok(f) => {
            let m = f.meta();
            // data set = everything after preamble, magic code and the file meta group
            let mut off = raw.len();
            if raw.len() >= 144 && &raw[128..132] == b"DICM" && raw[132..136] == [2, 0, 0, 0] {
                let gl = u32::from_le_bytes([raw[140], raw[141], raw[142], raw[143]]) as usize;
                off = (144 + gl).min(raw.len());
            }
            (trim(&m.transfer_syntax), trim(&m.media_storage_sop_class_uid), trim(&m.media_storage_sop_instance_uid), raw[off..].to_vec())
        }
        Err(_) => (String::new(), String::new(), String::new(), raw),
    }
}

pub fn cases(ctx: &Ctx) -> Vec<Case> {
    let mut r = Rng::new(ctx.seed);
    let scratch = Scratch::new("c32");
    // the tools run two levels below the scratch top, so that "../../x" still lands inside
    // the tree that is listed (and removed) afterwards
    let top = scratch.path().to_path_buf();
    let root = top.join("w0/w1");
    std::fs::create_dir_all(&root).unwrap();
    // directories that exist around and inside the output directories, so that an unsanitised
    // name could nest ("sub/x") or land beside ("../side/x")
    for d in ["out/sub", "side", "b/out2/sub", "b/side", "c/d", "c/out3/sub", "c/side"] {
        std::fs::create_dir_all(root.join(d)).unwrap();
    }
    let abs_out = format!("{}/b/out2/", root.display());
    let mut servers = vec![
        start_server(&root, false, "out"),
        start_server(&root, true, &abs_out),
        start_server(&root, true, "c/./d/../out3"),
        start_server(&root, false, "c//out3/"),
    ];
    let cwd = path_comps(&root);
    let mut out = vec![];
    for i in 0..ctx.n {
        let nsrv = servers.len();
        let srv = &mut servers[i % nsrv];
        // ---- contexts
        let nctx = r.range(1, 3) as usize;
        let contexts: Vec<(u8, String, Vec<String>)> = (0..nctx)
            .map(|k| ((2 * k + 1) as u8, r.pick(CLASS_POOL).to_string(), vec![if i == 6 { TS_POOL[3].to_string() } else { r.pick(TS_POOL).to_string() }]))
            .collect();
        // ---- script
        let malformed = i >= 8 && r.chance(1, 5);
        let nmsg = r.range(1, 3) as usize;
        let mut evs: Vec<Ev> = vec![];
        let mut msgs: Vec<Msg> = vec![];
        let mut buckets: Vec<&str> = vec![];
        let mut table: Vec<(String, Vec<u8>)> = vec![];
        for k in 0..nmsg {
            let (pc, class, tss) = contexts[r.below(nctx as u64) as usize].clone();
            let ts = tss[0].clone();
            let (uid, bucket) = match (i, k) {
                // fixed corpus first: the witnesses of the unsanitised file name
                (0, 0) => ("../escaped".to_string(), "parent"),
                (1, 0) => (format!("{}/absolute", root.display()), "absolute"),
                (2, 0) => ("sub/nested".to_string(), "nested"),
                (3, 0) => ("sub/../../side/x".to_string(), "nested-parent"),
                (4, 0) => ("..".to_string(), "special"),
                (5, 0) => ("1.2.3.4\0\0".to_string(), "trailing-nul"),
                (6, 0) => ("1.2.3.6".to_string(), "empty-fragment"),
                (7, 0) => ("1.2.3.7".to_string(), "after-aborted-association"),
                _ => {
                    // UID texts are distinct within a case: a repeated text names the same file, the later
                    // store replaces the earlier one (modelled, but the per-message oracle could not tell)
                    let mut u = rand_uid(&mut r, k, &root);
                    while msgs.iter().any(|m: &Msg| m.uid == u.0) { u = rand_uid(&mut r, k, &root); }
                    u
                }
            };
            buckets.push(bucket);
            let ds_class = if r.chance(1, 6) { r.pick(CLASS_POOL).to_string() } else { class.clone() };
            let ds_inst = format!("1.2.3.{}.{}", i, k);
            let with_class = !(malformed && r.chance(1, 4));
            let (ds, empty_fragment) = rand_dataset(&mut r, &ts, if with_class { Some(&ds_class) } else { None }, Some(&ds_inst), i == 6 && k == 0);
            let msgid = r.range(1, 65535) as u16;
            let mut cmd = command_bytes(0x0001, Some(msgid), Some(&class), Some(&uid));
            if malformed {
                match r.below(8) {
                    0 => cmd = command_bytes(0x0001, None, Some(&class), Some(&uid)),          // no message id
                    1 => cmd = command_bytes(0x0001, Some(msgid), Some(&class), None),         // no instance uid
                    2 => { evs.push(Ev::Cmd { last: true, pc, bytes: command_bytes(0x0030, Some(msgid), None, None) }); } // C-ECHO first
                    3 => { let h = cmd.len() / 2; evs.push(Ev::Cmd { last: false, pc, bytes: cmd[..h].to_vec() }); cmd = cmd[h..].to_vec(); } // fragmented command
                    4 => cmd.truncate(cmd.len() - 3),                                             // truncated command
                    _ => {}
                }
            }
            let skip_cmd = malformed && r.chance(1, 8);
            if !skip_cmd { evs.push(Ev::Cmd { last: true, pc, bytes: cmd }); }
            let mut parts = cut(&mut r, &ds);
            let lastp = parts.pop().unwrap();
            for p in parts { evs.push(Ev::Data { last: false, pc, bytes: p }); }
            evs.push(Ev::Data { last: true, pc, bytes: lastp });
            if malformed && r.chance(1, 8) {
                // a second data set without a new command
                let (ds2, _) = rand_dataset(&mut r, &ts, Some(&ds_class), Some(&format!("{ds_inst}.2")), false);
                evs.push(Ev::Data { last: true, pc, bytes: ds2 });
            }
            msgs.push(Msg { uid, ts, ds, ds_class, ds_inst, empty_fragment });
        }
        // parse table: every buffer the tool can have assembled when a last data fragment arrives
        // (the buffer is emptied by each last command fragment and by nothing else)
        {
            let mut buf: Vec<u8> = vec![];
            for e in &evs {
                match e {
                    Ev::Cmd { last: true, .. } => buf.clear(),
                    Ev::Cmd { .. } => {}
                    Ev::Data { last, pc, bytes } => {
                        buf.extend_from_slice(bytes);
                        if *last {
                            if let Some((_, _, tss)) = contexts.iter().find(|c| c.0 == *pc) { table.push((tss[0].clone(), buf.clone())); }
                        }
                    }
                }
            }
        }
        // PDU grouping is drawn before the run, so that the random stream (and with it every later
        // case) does not depend on how far this association gets
        let groups: Vec<usize> = (0..evs.len()).map(|_| if r.coin() { 1 } else { r.range(1, 4) as usize }).collect();
        let mut gi = 0;
        // An earlier association to the SAME server process that ends abnormally in the middle of a data
        // set (command + non-last data fragments, then A-ABORT or a plain close): nothing of it may leak
        // into the association of this case. Case 7 is the fixed witness (sync server).
        let prelude: Option<(bool, Vec<u8>, Vec<u8>)> = if i == 7 || (i > 7 && r.chance(1, 3)) {
            let (pc, class, tss) = contexts[0].clone();
            let _ = pc;
            let (junk, _) = rand_dataset(&mut r, &tss[0], Some(&class), Some("1.2.3.999"), false);
            let cut_at = r.range(1, junk.len() as u64) as usize;
            Some((r.coin(), command_bytes(0x0001, Some(77), Some(&class), Some("1.2.3.999")), junk[..cut_at].to_vec()))
        } else { None };
        // ---- run it against the real binary
        if let Some((abort, cmd, part)) = &prelude {
            if let Ok(mut w0) = Wire::connect(srv.port, WAIT) {
                if associate(&mut w0, &contexts, 16384).is_some() {
                    let pc = contexts[0].0;
                    let _ = w0.send(&Pdu::PData { data: vec![pdv(pc, true, true, cmd.clone())] });
                    let h = part.len() / 2;
                    let _ = w0.send(&Pdu::PData { data: vec![pdv(pc, false, false, part[..h].to_vec()), pdv(pc, false, false, part[h..].to_vec())] });
                    if *abort {
                        let _ = w0.send(&Pdu::AbortRQ { source: dicom_ul::pdu::AbortRQSource::ServiceUser });
                        while w0.recv().is_some() {}   // until the tool has closed its end
                    }
                }
                drop(w0);                                // (no abort: the connection just goes away)
            }
        }
        let mut rsps: Vec<(u8, u8, u16, String, String)> = vec![];
        let mut alive = false;
        let mut accepted: Vec<(u8, String)> = vec![];
        let mut note = String::new();
        let mut infra = false;
        match Wire::connect(srv.port, WAIT) {
            Err(e) => note = format!("connect failed: {e}"),
            Ok(mut w) => {
                match associate(&mut w, &contexts, 16384) {
                    None => note = "association not accepted".into(),
                    Some(acc) => {
                        accepted = acc;
                        // PDU grouping: one P-DATA value per PDU, or several.
                        // The requestor works in lock step like a real SCU: after a PDU it waits for the
                        // responses that PDU can trigger (one per last data fragment, one per C-ECHO-RQ)
                        // or for the peer to close. Never sending ahead matters for determinism: a tool
                        // that drops the association while unread bytes sit in its socket makes the
                        // kernel send a reset, which discards responses this side has not read yet.
                        let mut k = 0;
                        let mut dead = false;
                        let on_pdu = |p: Pdu, rsps: &mut Vec<(u8, u8, u16, String, String)>| -> usize {
                            let mut n = 0;
                            if let Pdu::PData { data } = p {
                                for v in data {
                                    if v.value_type != PDataValueType::Command { continue; }
                                    let ts = dicom_transfer_syntax_registry::entries::IMPLICIT_VR_LITTLE_ENDIAN.erased();
                                    if let Ok(o) = InMemDicomObject::read_dataset_with_ts(&v.data[..], &ts) {
                                        let f = o.element(tags::COMMAND_FIELD).ok().and_then(|e| e.uint16().ok()).unwrap_or(0);
                                        let m = o.element(tags::MESSAGE_ID_BEING_RESPONDED_TO).ok().and_then(|e| e.uint16().ok()).unwrap_or(0);
                                        let s = |t| o.element(t).ok().and_then(|e| e.to_str().ok().map(|s| s.to_string())).unwrap_or_default();
                                        if f == 0x8030 { rsps.push((0, v.presentation_context_id, m, String::new(), String::new())); }
                                        else { rsps.push((1, v.presentation_context_id, m, s(tags::AFFECTED_SOP_CLASS_UID), s(tags::AFFECTED_SOP_INSTANCE_UID))); }
                                    }
                                    n += 1;
                                }
                            }
                            n
                        };
                        while k < evs.len() && !dead {
                            let g = groups[gi].min(evs.len() - k);
                            gi += 1;
                            let group = &evs[k..k + g];
                            let triggers = group.iter().filter(|e| match e {
                                Ev::Data { last, .. } => *last,
                                Ev::Cmd { last, bytes, .. } => *last && matches!(parse_command(bytes), CmdParse::Echo),
                            }).count();
                            let data = group.iter().map(|e| match e {
                                Ev::Cmd { last, pc, bytes } => pdv(*pc, true, *last, bytes.clone()),
                                Ev::Data { last, pc, bytes } => pdv(*pc, false, *last, bytes.clone()),
                            }).collect();
                            if w.send(&Pdu::PData { data }).is_err() { dead = true; break; }
                            k += g;
                            let mut got = 0;
                            while got < triggers {
                                match w.recv() {
                                    Some(p) => got += on_pdu(p, &mut rsps),
                                    None => { dead = true; break; }
                                }
                            }
                        }
                        if !dead && w.send(&Pdu::ReleaseRQ).is_ok() {
                            loop {
                                match w.recv() {
                                    Some(Pdu::ReleaseRP) => { alive = true; break; }
                                    Some(p) => { on_pdu(p, &mut rsps); }
                                    None => break,
                                }
                            }
                        } else {
                            // the peer is gone (or going): wait until it has closed its end, so that
                            // everything it did for this association is on disk before the listing
                            while let Some(p) = w.recv() { on_pdu(p, &mut rsps); }
                        }
                    }
                }
                // a read that gave up waiting says nothing about the tool (overloaded machine)
                if w.timed_out() { infra = true; note = "gave up waiting for the tool (time limit)".into(); }
            }
        }
        // ---- observe the file system under and around the output directory
        let files = list_files(&top);
        let mut observed = vec![];
        for f in &files {
            let (ts, cl, ins, data) = read_stored(f);
            observed.push((f.clone(), ts, cl, ins, data));
            let _ = std::fs::remove_file(f);
        }
        // ---- direct oracle
        let all_accepted = contexts.iter().all(|c| accepted.iter().any(|a| a.0 == c.0 && a.1 == c.2[0]));
        let mut oracle = Oracle::NotApplicable;
        let escaped: Vec<&PathBuf> = files.iter().filter(|f| f.parent() != Some(srv.out_abs.as_path())).collect();
        if !escaped.is_empty() {
            oracle = Oracle::Fails { class: "file-outside-output-directory".into(), detail: format!("out={} created={:?}", srv.out_abs.display(), escaped) };
        } else if srv.proc_.exited() {
            oracle = Oracle::Fails { class: "tool-exited".into(), detail: format!("dicom-storescp ({}) is not running any more; {note}", srv.out_arg) };
        } else if infra || !note.is_empty() || !all_accepted {
            // no (complete) exchange took place: nothing to judge; the note goes to the evidence
            oracle = Oracle::NotApplicable;
        } else if !malformed && msgs.iter().all(|m| m.uid.chars().count() + 4 <= 255) && !(alive && rsps.len() == msgs.len()) {
            // a well-formed script on accepted contexts, every name within the file system's limit:
            // each complete message must be stored and answered and the association must survive
            oracle = Oracle::Fails { class: "complete-message-not-acknowledged".into(), detail: format!("{} complete C-STORE messages, {} responses, association {}{}", msgs.len(), rsps.len(), if alive { "released normally" } else { "dropped by the tool" }, if prelude.is_some() { " (after an earlier association to the same server ended in the middle of a data set)" } else { "" }) };
        } else if !malformed && alive && rsps.len() == msgs.len() {
            // every message that was acknowledged is in exactly one file, with the right file meta group
            let mut bad = None;
            for m in &msgs {
                let hits: Vec<_> = observed.iter().filter(|o| o.4 == m.ds).collect();
                if hits.is_empty() && m.empty_fragment {
                    // known class: the data set reader drops zero-length pixel fragments
                    let rewritten = parse_dataset(&m.ts, &m.ds).map(|x| x.2).unwrap_or_default();
                    if rewritten.len() < m.ds.len() && observed.iter().filter(|o| o.4 == rewritten).count() == 1 {
                        bad = Some(("EmptyPixelFragmentDropped", format!("uid={:?}: stored data set is {} bytes shorter than the {} bytes received (zero-length pixel fragment missing)", m.uid, m.ds.len() - rewritten.len(), m.ds.len())));
                        break;
                    }
                }
                if hits.len() != 1 { bad = Some(("stored-data-set-differs", format!("uid={:?}: {} files hold the data set that was sent", m.uid, hits.len()))); break; }
                let o = hits[0];
                if o.1 != m.ts || o.2 != m.ds_class || o.3 != m.ds_inst {
                    bad = Some(("file-meta-mismatch", format!("uid={:?}: meta ts={} class={} inst={} expected {} {} {}", m.uid, o.1, o.2, o.3, m.ts, m.ds_class, m.ds_inst)));
                    break;
                }
            }
            if bad.is_none() && observed.len() != msgs.len() { bad = Some(("unexpected-file", format!("{} files for {} stores", observed.len(), msgs.len()))); }
            oracle = match bad { None => Oracle::Holds, Some((c, d)) => Oracle::Fails { class: c.into(), detail: d } };
        }
        // ---- Coq term
        let c_evs = c_list(evs.iter().map(|e| match e {
            Ev::Cmd { last, pc, bytes } => format!("PCmd {} {} {}", c_bool(*last), pc, match parse_command(bytes) {
                CmdParse::Bad => "CmdBad".to_string(),
                CmdParse::Echo => "CmdEcho".to_string(),
                CmdParse::Other(m, c, i) => format!("(CmdOther {} {} {})", m, c_str(&c), c_str(&i)),
            }),
            Ev::Data { last, pc, bytes } => format!("PData {} {} {}", c_bool(*last), pc, c_bytes(bytes)),
        }));
        let c_tbl = c_list(table.iter().map(|(ts, b)| c_tuple(&[c_str(ts), c_bytes(b), c_opt(parse_dataset(ts, b).map(|(c, i, w)| c_tuple(&[c_str(&c), c_str(&i), c_bytes(&w)])))])));
        let c_pcs = c_list(accepted.iter().map(|(id, ts)| c_pair(&id.to_string(), &c_str(ts))));
        let input = c_tuple(&[c_comps(&cwd), c_bytes(srv.out_arg.as_bytes()), c_pcs, c_tbl, c_evs]);
        let c_files = c_list(observed.iter().map(|(p, ts, cl, ins, d)| c_tuple(&[c_list(path_comps(p).iter().map(|s| c_bytes(Path::new(s).as_os_str().as_bytes()))), c_str(ts), c_str(cl), c_str(ins), c_bytes(d)])));
        let c_rsps = c_list(rsps.iter().map(|(k, pc, m, c, i)| c_tuple(&[k.to_string(), pc.to_string(), m.to_string(), c_str(c), c_str(i)])));
        let coq = if note.is_empty() && !infra { format!("({} : StorePath.case_t)", c_pair(&input, &c_tuple(&[c_files, c_rsps, c_bool(alive)]))) } else { String::new() };
        let bucket = format!("{}{} {}", if srv.asynch { "async" } else { "sync" }, if malformed { " malformed" } else { "" }, buckets[0]);
        out.push(Case {
            coq,
            desc: json!({"bucket": bucket, "mode": if srv.asynch { "non-blocking" } else { "sync" }, "out_dir": srv.out_arg,
                          "uids": msgs.iter().map(|m| m.uid.clone()).collect::<Vec<_>>(), "contexts": contexts, "pdvs": evs.len(),
                          "files": files.iter().map(|f| f.display().to_string()).collect::<Vec<_>>(), "earlier_association": prelude.as_ref().map(|p| if p.0 { "command + partial data set, then A-ABORT" } else { "command + partial data set, then connection closed" }), "responses": rsps.len(), "alive": alive, "note": note}),
            key: if msgs.is_empty() { String::new() } else { format!("{}|{:?}|{}", srv.out_arg, msgs.iter().map(|m| &m.uid).collect::<Vec<_>>(), evs.len()) },
            oracle,
        });
    }
    drop(servers);
    out
}
