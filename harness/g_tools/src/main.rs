//! vh_tools — properties about the real tool binaries (storescp, storescu, fromimage, toimage).
//! The binaries are built by lib/vcheck.py from /repo's working tree (`repo_bins` in the spec)
//! and found through env VH_BIN_DIR; they are spawned as child processes.
mod c32;
mod c33;
mod c35;
mod procs;
mod wire;
use vhc::*;

fn main() {
    run_main(
        |prop, ctx| {
            // VH_DEBUG=1 shows panics of the harness itself (run_main silences them)
            if std::env::var("VH_DEBUG").is_ok() { std::panic::set_hook(Box::new(|i| eprintln!("harness panic: {i}"))); }
            match prop {
            "C32" => Some(c32::cases(ctx)),
            "C33" => Some(c33::cases(ctx)),
            "C35" => Some(c35::cases(ctx)),
            _ => None,
        }},
        |_prop, _out| false,
    );
}
