//! C25 — PDUs encode/decode losslessly with exact framing
//! (ul/src/pdu/writer.rs write_pdu, ul/src/pdu/reader.rs read_pdu).
use crate::pdugen::*;
use dicom_ul::pdu::*;
use serde_json::json;
use vhc::{hex, Case, Ctx, Oracle, Rng, c_bool, c_list};

const KINDS: [u64; 16] = [0, 1, 0, 1, 3, 2, 0, 1, 6, 7, 3, 0, 1, 4, 5, 2];

// ---- hand-made buffers for the malformed stream
fn item(t: u8, c: &[u8]) -> Vec<u8> {
    let mut v = vec![t, 0];
    v.extend_from_slice(&(c.len() as u16).to_be_bytes());
    v.extend_from_slice(c);
    v
}
fn item_len(t: u8, l: u16, c: &[u8]) -> Vec<u8> {
    let mut v = vec![t, 0];
    v.extend_from_slice(&l.to_be_bytes());
    v.extend_from_slice(c);
    v
}
fn pdu_bytes(t: u8, body: &[u8]) -> Vec<u8> {
    let mut v = vec![t, 0];
    v.extend_from_slice(&(body.len() as u32).to_be_bytes());
    v.extend_from_slice(body);
    v
}
fn assoc_head() -> Vec<u8> {
    let mut v = vec![0, 1, 0, 0];
    v.extend_from_slice(b"CALLED          ");
    v.extend_from_slice(b"   CALLING\xa0     ");
    v.extend_from_slice(&[0; 32]);
    v
}
fn cat(parts: &[Vec<u8>]) -> Vec<u8> { parts.concat() }

fn crafted() -> Vec<Vec<u8>> {
    let app = item(0x10, b"1.2.840.10008.3.1.1.1");
    let abs = item(0x30, b"1.2.840.10008.1.1 ");
    let ts = item(0x40, b"1.2.840.10008.1.2\0");
    let rq = |items: &[Vec<u8>]| pdu_bytes(1, &cat(&[vec![assoc_head()], items.to_vec()].concat()));
    let ac = |items: &[Vec<u8>]| pdu_bytes(2, &cat(&[vec![assoc_head()], items.to_vec()].concat()));
    let pcp = |subs: &[Vec<u8>]| item(0x20, &cat(&[vec![vec![1, 0, 0, 0]], subs.to_vec()].concat()));
    let pcr = |reason: u8, subs: &[Vec<u8>]| item(0x21, &cat(&[vec![vec![3, 0, reason, 0]], subs.to_vec()].concat()));
    let uv = |subs: &[Vec<u8>]| item(0x50, &cat(subs));
    let mut out = vec![
        // reject / abort code tables
        pdu_bytes(3, &[0, 0, 1, 1]), pdu_bytes(3, &[0, 3, 1, 1]), pdu_bytes(3, &[9, 1, 1, 0]), pdu_bytes(3, &[0, 1, 1, 11]),
        pdu_bytes(3, &[0, 2, 2, 3]), pdu_bytes(3, &[0, 2, 3, 8]), pdu_bytes(3, &[0, 2, 4, 1]), pdu_bytes(3, &[0, 1, 2]),
        pdu_bytes(3, &[0, 1, 3, 0, 9, 9]),
        pdu_bytes(7, &[5, 5, 0, 9]), pdu_bytes(7, &[0, 0, 1, 7]), pdu_bytes(7, &[0, 0, 2, 7]), pdu_bytes(7, &[0, 0, 3, 0]), pdu_bytes(7, &[0, 0, 2]),
        pdu_bytes(5, &[1, 2, 3]), pdu_bytes(5, &[1, 2, 3, 4, 5]), pdu_bytes(6, &[]), pdu_bytes(6, &[0, 0, 0, 0]),
        // P-DATA
        pdu_bytes(4, &[0, 0, 0, 2, 1, 3]), pdu_bytes(4, &[0, 0, 0, 1, 1, 3]), pdu_bytes(4, &[0, 0, 0, 0, 1, 3]),
        pdu_bytes(4, &[0, 0, 0, 4, 1, 0xff, 9]), pdu_bytes(4, &[0, 0, 0, 3, 1, 0xfc, 9, 0, 0]),
        pdu_bytes(4, &[0, 0, 0, 3, 1, 2, 9, 0, 0, 0, 2, 5, 1]), pdu_bytes(4, &[0, 0, 0, 2, 1]),
        pdu_bytes(4, &[0xff, 0xff, 0xff, 0xff, 1, 3, 7]),
        // a last item cut to 4 or 5 bytes, outer PDU length consistent (guard `remaining() >= 4 + 1 + 1`)
        pdu_bytes(4, &[0, 0, 0, 2]), pdu_bytes(4, &[0, 0, 0, 2, 1, 2, 0, 0, 0, 2]), pdu_bytes(4, &[0, 0, 0, 2, 1, 2, 0, 0, 0, 3, 5]),
        pdu_bytes(4, &[0, 0]), pdu_bytes(4, &[0]),
        // unknown PDU types
        pdu_bytes(0, &[1, 2, 3]), pdu_bytes(8, &[]), pdu_bytes(0xff, &[0; 5]),
        // associate: fixed part too short
        pdu_bytes(1, &[0; 67]), pdu_bytes(2, &[0; 10]), pdu_bytes(1, &assoc_head()), pdu_bytes(2, &assoc_head()),
        // variable items
        rq(&[app.clone()]), ac(&[app.clone()]),
        rq(&[app.clone(), pcp(&[abs.clone(), ts.clone(), ts.clone()])]),
        rq(&[pcp(&[abs.clone()])]),                                   // missing application context
        rq(&[app.clone(), pcp(&[ts.clone()])]),                       // missing abstract syntax
        rq(&[app.clone(), pcp(&[abs.clone(), item(0x41, b"x")])]),    // unknown sub-item
        rq(&[app.clone(), pcp(&[abs.clone(), abs.clone(), ts.clone()]), app.clone()]),
        rq(&[app.clone(), pcr(0, &[ts.clone()])]),                    // result item in a request
        ac(&[app.clone(), pcp(&[abs.clone()])]),                      // proposed item in an accept
        rq(&[app.clone(), item(0x99, b"abc")]),                       // unknown variable item
        ac(&[app.clone(), pcr(0, &[ts.clone()]), pcr(4, &[ts.clone()])]),
        ac(&[app.clone(), pcr(5, &[ts.clone()])]),                    // invalid reason
        ac(&[app.clone(), pcr(1, &[])]),                              // missing transfer syntax
        ac(&[app.clone(), pcr(1, &[ts.clone(), ts.clone()])]),        // two transfer syntaxes
        ac(&[app.clone(), pcr(1, &[abs.clone()])]),                   // wrong sub-item
        ac(&[app.clone(), item(0x21, &[3, 0])]),                      // item cut after 2 bytes
        ac(&[app.clone(), item(0x21, &[3, 0, 9])]),                   // bad reason before the cut
        rq(&[app.clone(), item(0x20, &[1, 0, 0])]),
        rq(&[app.clone(), pcp(&[item_len(0x30, 9, b"abc")])]),        // sub-item longer than the item
        rq(&[app.clone(), pcp(&[abs.clone(), vec![0x40, 0, 0]])]),    // sub-item header cut
        rq(&[app.clone(), item_len(0x20, 50, &[1, 0, 0, 0])]),        // item longer than the PDU
        rq(&[app.clone(), vec![0x50, 0]]),                            // item header cut
        rq(&[app.clone(), vec![0x50]]),
        // user information
        rq(&[app.clone(), uv(&[])]),
        rq(&[app.clone(), uv(&[item(0x51, &[0, 0, 0x40, 0])]), uv(&[item(0x55, b" v1 ")])]),   // last one wins
        rq(&[app.clone(), uv(&[item_len(0x51, 0, &[0, 0, 0x40, 0])])]),                          // length ignored
        rq(&[app.clone(), uv(&[item_len(0x51, 9, &[0, 0, 0x40, 0]), item(0x52, b"1.2 ")])]),
        rq(&[app.clone(), uv(&[item(0x51, &[0, 0, 0x40])])]),
        rq(&[app.clone(), uv(&[item(0x54, &cat(&[vec![0, 3], b"1.2".to_vec(), vec![2, 0]]))])]),
        rq(&[app.clone(), uv(&[item_len(0x54, 1, &cat(&[vec![0, 3], b"1.2".to_vec(), vec![0, 1]]))])]),
        rq(&[app.clone(), uv(&[item(0x54, &cat(&[vec![0, 3], b"1.2".to_vec(), vec![1]]))])]),
        rq(&[app.clone(), uv(&[item(0x54, &cat(&[vec![0, 9], b"1.2".to_vec(), vec![1, 1]]))])]),
        rq(&[app.clone(), uv(&[item(0x56, &cat(&[vec![0, 3], b"1.2".to_vec(), vec![9, 8, 7]]))])]),
        rq(&[app.clone(), uv(&[item(0x56, &cat(&[vec![0, 3], b"1.2".to_vec()]))])]),
        rq(&[app.clone(), uv(&[item_len(0x56, 4, &cat(&[vec![0, 3], b"1.2".to_vec()]))])]),     // item length < 2 + uid length
        rq(&[app.clone(), uv(&[item_len(0x56, 9, &cat(&[vec![0, 3], b"1.2".to_vec(), vec![1]]))])]),
        rq(&[app.clone(), uv(&[item(0x56, &[0, 9, 1])])]),
        rq(&[app.clone(), uv(&[item(0x58, &[2, 1, 0, 2, b'u', b's', 0, 1, b'p'])])]),
        rq(&[app.clone(), uv(&[item(0x58, &[2, 2, 0, 2, b'u', b's', 0, 1, b'p'])])]),            // positive != 1
        rq(&[app.clone(), uv(&[item(0x58, &[9, 1, 0, 2, b'u', b's', 0, 0]), item(0x53, b"zz")])]), // unknown identity type dropped
        rq(&[app.clone(), uv(&[item(0x58, &[0, 1, 0, 0, 0, 0])])]),
        rq(&[app.clone(), uv(&[item(0x58, &[1, 1, 0, 2, b'u', b's', 0])])]),
        rq(&[app.clone(), uv(&[item(0x58, &[1, 1, 0, 2, b'u'])])]),
        rq(&[app.clone(), uv(&[item_len(0x53, 7, b"zz")])]),
        rq(&[app.clone(), uv(&[vec![0x53, 0, 0]])]),
        ac(&[app.clone(), pcr(0, &[ts.clone()]), uv(&[item(0x51, &[0, 0, 0x40, 0]), item(0x52, b"1.2.3"), item(0x55, b"X")])]),
    ];
    // code tables of A-ASSOCIATE-RJ (result, source, reason) and A-ABORT (source, reason): small complete sweep
    for res in 0..4u8 { out.push(pdu_bytes(3, &[0, res, 1, 1])); }
    for src in 0..5u8 { for reason in 0..12u8 {
        out.push(pdu_bytes(3, &[0, 1, src, reason]));
        out.push(pdu_bytes(7, &[0, 0, src, reason]));
    } }
    // short buffers
    out.push(vec![]);
    out.push(vec![1]);
    out.push(vec![1, 0, 0, 0, 0]);
    out
}

/// the fixed corpus: boundary sizes of every length field, witnesses of the defect fixed in 27e8911
fn corpus() -> Vec<(Pdu, &'static str)> {
    let rq = |app: String, pcs: Vec<PresentationContextProposed>, uvs: Vec<UserVariableItem>| Pdu::AssociationRQ(AssociationRQ {
        protocol_version: 1, calling_ae_title: "SCU".into(), called_ae_title: "ANY-SCP".into(),
        application_context_name: app, presentation_contexts: pcs, user_variables: uvs });
    let app = || "1.2.840.10008.3.1.1.1".to_string();
    let mut v = vec![
        (rq(app(), vec![], vec![UserVariableItem::Unknown(0x60, vec![7; 70000])]), "oversize-witness-70000"),
        (rq(app(), vec![], vec![UserVariableItem::Unknown(0x60, vec![7; 65531])]), "user-info-exactly-65535"),
        (rq(app(), vec![], vec![UserVariableItem::Unknown(0x60, vec![7; 65532])]), "user-info-65536"),
        (rq(app(), vec![], vec![UserVariableItem::Unknown(0x60, vec![7; 65535])]), "sub-item-65535-in-user-info"),
        (rq(app(), vec![], vec![UserVariableItem::Unknown(0x60, vec![7; 65536])]), "sub-item-65536"),
        (rq("1".repeat(65535), vec![], vec![]), "app-context-65535"),
        (rq("1".repeat(65536), vec![], vec![]), "app-context-65536"),
        (rq(app(), vec![PresentationContextProposed { id: 1, abstract_syntax: "1".repeat(65527), transfer_syntaxes: vec![] }], vec![]), "pc-content-65535"),
        (rq(app(), vec![PresentationContextProposed { id: 1, abstract_syntax: "1".repeat(65528), transfer_syntaxes: vec![] }], vec![]), "pc-content-65536"),
        (rq(app(), vec![PresentationContextProposed { id: 1, abstract_syntax: "1.2".into(),
                transfer_syntaxes: (0..61).map(|i| "1".repeat(if i < 60 { 1000 } else { 5280 })).collect() }], vec![]), "pc-many-ts-content-65535"),
        (rq(app(), vec![PresentationContextProposed { id: 1, abstract_syntax: "1.2".into(),
                transfer_syntaxes: (0..61).map(|i| "1".repeat(if i < 60 { 1000 } else { 5281 })).collect() }], vec![]), "pc-many-ts-content-65536"),
        (rq(app(), (0..40).map(|i| PresentationContextProposed { id: (2 * i + 1) as u8, abstract_syntax: "1".repeat(2000 + i),
                transfer_syntaxes: vec!["1.2.840.10008.1.2".into(), "1.2.840.10008.1.2.1".into()] }).collect(),
            vec![UserVariableItem::MaxLength(16384), UserVariableItem::ImplementationClassUID("2.25.1".into()), UserVariableItem::ImplementationVersionName("DICOM-rs 0.10".into())]), "rq-40-long-contexts-80k"),
        (rq(app(), vec![], vec![UserVariableItem::SopClassExtendedNegotiationSubItem("1.2".into(), vec![1; 65530])]), "sop-ext-content-65535"),
        (rq(app(), vec![], vec![UserVariableItem::SopClassExtendedNegotiationSubItem("1.2".into(), vec![1; 65531])]), "sop-ext-content-65536"),
        (rq(app(), vec![], vec![UserVariableItem::UserIdentityItem(UserIdentity::new(true, UserIdentityType::Jwt, vec![3; 65535], vec![]))]), "identity-primary-65535"),
        (rq(app(), vec![], vec![UserVariableItem::UserIdentityItem(UserIdentity::new(true, UserIdentityType::Jwt, vec![3; 65536], vec![]))]), "identity-primary-65536"),
        (rq(app(), vec![], vec![UserVariableItem::ScuScpRoleSelectionSubItem("1".repeat(65531), RequestorRoles { scu: true, scp: false })]), "role-content-65535"),
        (rq(app(), vec![], vec![UserVariableItem::ScuScpRoleSelectionSubItem("1".repeat(65532), RequestorRoles { scu: true, scp: false })]), "role-content-65536"),
        (Pdu::PData { data: vec![PDataValue { presentation_context_id: 1, value_type: PDataValueType::Data, is_last: true, data: vec![0x55; 70000] }] }, "pdata-70000"),
        (Pdu::Unknown { pdu_type: 9, data: vec![1; 66000] }, "unknown-66000"),
        (Pdu::AssociationAC(AssociationAC { protocol_version: 1, calling_ae_title: "ABCDEFGHIJKLMNOP".into(), called_ae_title: "".into(),
            application_context_name: app(), presentation_contexts: vec![PresentationContextResult { id: 1, reason: PresentationContextResultReason::Acceptance, transfer_syntax: "1".repeat(65527) }],
            user_variables: vec![] }), "ac-content-65535"),
        (Pdu::AssociationAC(AssociationAC { protocol_version: 1, calling_ae_title: "ABCDEFGHIJKLMNOP".into(), called_ae_title: "".into(),
            application_context_name: app(), presentation_contexts: vec![PresentationContextResult { id: 1, reason: PresentationContextResultReason::Acceptance, transfer_syntax: "1".repeat(65528) }],
            user_variables: vec![] }), "ac-content-65536"),
    ];
    // AE title normalisation
    for (calling, called, name) in [("ABCDEFGHIJKLMNOPQ", "X", "ae-17-truncated"), (" LEAD", "X", "ae-leading-space"), ("TRAIL ", "X", "ae-trailing-space"),
                                    ("A B", "\u{a0}NB", "ae-nbsp"), ("é", "\u{100}", "ae-not-latin1"), ("", "", "ae-empty"), ("\u{85}", "x\u{85}y", "ae-nel")] {
        v.push((Pdu::AssociationRQ(AssociationRQ { protocol_version: 1, calling_ae_title: calling.into(), called_ae_title: called.into(),
            application_context_name: " 1.2 ".into(), presentation_contexts: vec![], user_variables: vec![] }), name));
    }
    v
}

struct Built { case: Case }

fn ranges(ks: &[usize]) -> Vec<(usize, usize)> {
    let mut out: Vec<(usize, usize)> = vec![];
    for &k in ks {
        match out.last_mut() { Some((_, b)) if *b + 1 == k => *b = k, _ => out.push((k, k)) }
    }
    out
}

fn build(r: &mut Rng, p: &Pdu, label: &str, raws_in: Vec<Vec<u8>>, all_prefixes_limit: usize) -> Built {
    let written = do_write(p);
    let bytes: Vec<u8> = match &written { Some(Ok(b)) => b.clone(), _ => vec![] };
    let body_len = bytes.len().saturating_sub(6) as u64;
    // max / strict
    let strict = r.chance(2, 5);
    let max: u32 = match r.below(12) {
        0 => 1018, 1 => 16378, 2 => 32762, 3 => 4294967288,
        4 => body_len.max(1018) as u32, 5 => (body_len.max(1019) - 1) as u32, 6 => (body_len.max(1018) + 1) as u32,
        7 => *r.pick(&[1017u32, 0, 4294967289, u32::MAX]),
        _ => 65536,
    };
    // a PDU larger than the smallest maximum: exercise the strict-mode limit on every PDU type
    let (strict, max) = if body_len > 1018 && r.coin() {
        (r.chance(3, 4), *r.pick(&[1018u32, (body_len - 1) as u32, body_len as u32, (body_len + 1) as u32, 16378]))
    } else { (strict, max) };
    let max_valid = (1018..=4294967288u32).contains(&max);
    let extra: Vec<u8> = match r.below(4) { 0 => vec![], 1 => gen_bytes(r, 8), 2 => vec![5, 0, 0, 0, 0, 4, 0, 0, 0, 0], _ => vec![4, 0, 0, 0] };
    let mut stream = bytes.clone();
    stream.extend_from_slice(&extra);
    // prefix lengths
    let total = stream.len();
    let ks: Vec<usize> = if total <= all_prefixes_limit { (0..=total).collect() } else {
        let mut ks = vec![0, 1, 2, 5, 6, 7, bytes.len().saturating_sub(1), bytes.len(), (bytes.len() + 1).min(total), total, 74.min(total), 75.min(total)];
        for _ in 0..24 { ks.push(r.below(total as u64 + 1) as usize); }
        ks.sort(); ks.dedup(); ks
    };
    let mut nones = vec![];
    let mut others = vec![];
    let mut sames: Vec<(usize, usize)> = vec![];
    let mut prefix_bad: Option<String> = None;
    let mut full: Option<Option<Result<Option<(Pdu, usize)>, u32>>> = None;
    let too_large = strict && body_len > max as u64;
    for &k in &ks {
        let res = do_read(&stream[..k], max, strict);
        match &res {
            Some(Ok(None)) => nones.push(k),
            Some(Ok(Some((q, n)))) if q == p => sames.push((k, *n)),
            _ => others.push((k, res.clone())),
        }
        if written.as_ref().map_or(false, |w| w.is_ok()) && max_valid {
            if k < bytes.len() {
                let expect_none = !(too_large && k >= 6);
                let ok = if expect_none { matches!(res, Some(Ok(None))) } else { matches!(res, Some(Err(2))) };
                if !ok && prefix_bad.is_none() { prefix_bad = Some(format!("prefix of {} bytes of a {}-byte PDU read as {:?}", k, bytes.len(), res.as_ref().map(|r| r.as_ref().map(|o| o.as_ref().map(|(p, n)| (kind_name(p), *n)))))); }
            }
            if k == total { full = Some(res); }
        }
    }
    // mutated / crafted buffers
    let mut raws: Vec<(Vec<u8>, Option<Result<Option<(Pdu, usize)>, u32>>)> = vec![];
    for b in raws_in { let res = do_read(&b, max, strict); raws.push((b, res)); }
    if !bytes.is_empty() && bytes.len() <= 700 {
        for m in 0..4 {
            let mut b = bytes.clone();
            match m {
                // remove one byte inside the body and fix up the outer length: inner items become short
                3 => { if b.len() > 7 { let i = r.range(6, b.len() as u64 - 1) as usize; b.remove(i); let l = (b.len() - 6) as u32; b[2..6].copy_from_slice(&l.to_be_bytes()); } }
                0 => { let i = r.below(b.len() as u64) as usize; b[i] = if r.coin() { r.below(256) as u8 } else { *r.pick(&[0u8, 1, 2, 0x10, 0x20, 0x21, 0x30, 0x40, 0x50, 0x51, 0x52, 0x54, 0x55, 0x56, 0x58, 0xff]) }; }
                1 => { let i = r.below(b.len() as u64) as usize; b[i] = if r.coin() { b[i].wrapping_add(1) } else { b[i].wrapping_sub(1) }; }
                _ => { if b.len() > 7 { let k = r.range(6, b.len() as u64 - 1) as usize; b.truncate(k); let l = (k - 6) as u32; b[2..6].copy_from_slice(&l.to_be_bytes()); } }
            }
            let res = do_read(&b, max, strict);
            raws.push((b, res));
        }
    }
    // ---- direct oracle
    let wf = wf_pdu(p);
    let read_panic = others.iter().map(|(k, res)| (stream[..*k].to_vec(), res)).chain(raws.iter().map(|(b, res)| (b.clone(), res)))
        .find(|(_, res)| res.is_none()).map(|(b, _)| b);
    let oracle = (|| {
        if let Some(b) = &read_panic { return Oracle::Fails { class: "read-panic".into(), detail: format!("read_pdu(max {}, strict {}) panicked on {}", max, strict, hex(&b[..b.len().min(200)])) }; }
        match &written {
            None => return Oracle::Fails { class: "write-panic".into(), detail: format!("write_pdu panicked on {}", label) },
            Some(Ok(w)) => {
                if !fits(p) { return Oracle::Fails { class: "oversize".into(), detail: format!("{}: content exceeds its length field but write returned Ok ({} bytes)", label, w.len()) }; }
                if !no_alias(p) { /* an Unknown value carrying an interpreted type code: its inner structure is not promised */ }
                else if let Err(e) = ps38_valid(w) { return Oracle::Fails { class: "lengths".into(), detail: format!("{}: {}", label, e) }; }
            }
            Some(Err(c)) => {
                if wf { return Oracle::Fails { class: "roundtrip".into(), detail: format!("{}: well-formed PDU but write failed with class {}", label, c) }; }
                if fits(p) && encodable_text(p) { return Oracle::Fails { class: "roundtrip".into(), detail: format!("{}: write failed with class {} although everything fits", label, c) }; }
                return if !fits(p) { Oracle::Holds } else { Oracle::NotApplicable };
            }
        }
        if !max_valid { return Oracle::NotApplicable; }
        // prefixes of ANY written PDU are incomplete (or rejected by the strict limit)
        if let Some(d) = &prefix_bad {
            let class = if too_large { "strict" } else { "prefix" };
            return Oracle::Fails { class: class.into(), detail: format!("{}: {} (max {}, strict {})", label, d, max, strict) };
        }
        if !wf { return Oracle::NotApplicable; }
        match full {
            Some(Some(Err(2))) if too_large => Oracle::Holds,
            Some(ref res) if too_large => Oracle::Fails { class: "strict".into(), detail: format!("{}: body {} > max {} in strict mode read as {:?}", label, body_len, max, res.as_ref().map(|r| r.as_ref().map(|o| o.is_some()))) },
            Some(Some(Ok(Some((q, n))))) if &q == p && n == bytes.len() => Oracle::Holds,
            Some(other) => Oracle::Fails { class: "roundtrip".into(), detail: format!("{}: read back {:?}", label, other.map(|r| r.map(|o| o.map(|(q, n)| (q == *p, n, bytes.len()))))) },
            None => Oracle::NotApplicable,
        }
    })();
    let c_written = match &written { None => "WPanic".to_string(), Some(Ok(b)) => format!("(WOk {})", c_bytes(b)), Some(Err(c)) => format!("(WErr {})", c) };
    let coq = format!("(mk_case {} {} {} {} {} {} {} {} {})", c_pdu(p), c_written, c_bytes(&extra), max, c_bool(strict),
        c_list(ranges(&nones).iter().map(|(a, b)| format!("({}, {})", a, b))),
        c_list(sames.iter().map(|(a, b)| format!("({}, {})", a, b))),
        c_list(others.iter().map(|(k, res)| format!("({}, {})", k, c_read_res(res)))),
        c_list(raws.iter().map(|(b, res)| format!("({}, {})", c_bytes(b), c_read_res(res)))));
    let bucket = format!("{}{}{}", kind_name(p), if wf { "" } else if !fits(p) { "/oversize" } else { "/not-wf" }, if bytes.len() > 1024 { "/large" } else { "" });
    let desc = json!({"bucket": bucket, "label": label, "pdu": format!("{:.300}", format!("{:?}", p)), "written_len": bytes.len(),
                      "write": match &written { None => "panic".to_string(), Some(Ok(_)) => "ok".to_string(), Some(Err(c)) => format!("err{}", c) },
                      "max": max, "strict": strict, "prefixes": ks.len(), "raws": raws.len(), "hex": hex(&bytes[..bytes.len().min(96)])});
    let key = if matches!(p, Pdu::ReleaseRQ | Pdu::ReleaseRP) && label == "gen" && raws.is_empty() { String::new() } else { format!("{:?}|{}|{}|{}", p, max, strict, extra.len()).chars().take(400).collect() };
    Built { case: Case { coq, desc, key, oracle } }
}

pub fn cases(ctx: &Ctx) -> Vec<Case> {
    let mut r = Rng::new(ctx.seed);
    let mut out = vec![];
    // fixed corpus first
    for (p, name) in corpus() {
        out.push(build(&mut r, &p, name, vec![], 300).case);
    }
    // crafted malformed buffers, attached to trivial PDUs
    for chunk in crafted().chunks(12) {
        out.push(build(&mut r, &Pdu::ReleaseRQ, "crafted", chunk.to_vec(), 300).case);
    }
    let mut i = 0u64;
    while out.len() < ctx.n {
        let kind = KINDS[(i % 16) as usize];
        let clean = !r.chance(3, 10);
        let mut p = gen_pdu(&mut r, kind, clean);
        // occasionally a larger payload so that strict mode has something to reject
        if r.chance(1, 12) {
            if let Pdu::PData { data } = &mut p { data.push(gen_pdv(&mut r, 1400)); }
            if let Pdu::Unknown { data, .. } = &mut p { *data = gen_bytes(&mut r, 1400); }
        }
        out.push(build(&mut r, &p, "gen", vec![], 420).case);
        i += 1;
    }
    out
}
