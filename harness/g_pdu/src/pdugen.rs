//! Shared by C25/C27: PDU generator, Coq term printers for PDU values, the
//! well-formedness predicate (hypothesis of the round trip, mirrors `wf_pdu`),
//! error classes, and an independent PS3.8 section 9.3 structural parser.
use dicom_ul::pdu::*;
use vhc::{catch, Rng, c_bool, c_list};

// ---------------------------------------------------------------- Coq printers
/// list of numbers, compact (Base/Pack.v): long runs as `rep x n`, other stretches of bytes packed
/// 7 per primitive integer `pk len [..]%uint63`; coqc is far too slow on long list literals.
pub fn c_nums(v: &[u32]) -> String {
    fn flush(lit: &mut Vec<u32>, parts: &mut Vec<String>) {
        if lit.is_empty() { return; }
        if lit.len() >= 12 && lit.iter().all(|x| *x < 256) {
            let words: Vec<String> = lit.chunks(7).map(|c| c.iter().fold(0u64, |a, x| a * 256 + *x as u64).to_string()).collect();
            parts.push(format!("pk {} [{}]%uint63", lit.len(), words.join(";")));
        } else {
            parts.push(format!("[{}]", lit.iter().map(|x| x.to_string()).collect::<Vec<_>>().join(";")));
        }
        lit.clear();
    }
    let mut parts: Vec<String> = vec![];
    let mut lit: Vec<u32> = vec![];
    let mut i = 0;
    while i < v.len() {
        let mut j = i;
        while j < v.len() && v[j] == v[i] { j += 1; }
        if j - i >= 24 {
            flush(&mut lit, &mut parts);
            parts.push(format!("rep {} {}", v[i], j - i));
        } else {
            for _ in i..j { lit.push(v[i]); }
        }
        i = j;
    }
    flush(&mut lit, &mut parts);
    match parts.len() {
        0 => "[]".into(),
        1 if parts[0].starts_with('[') => parts.pop().unwrap(),
        _ => format!("({})", parts.join(" ++ ")),
    }
}
pub fn c_bytes(b: &[u8]) -> String { c_nums(&b.iter().map(|x| *x as u32).collect::<Vec<_>>()) }
fn c_s(s: &str) -> String { c_nums(&s.chars().map(|c| c as u32).collect::<Vec<_>>()) }

pub fn c_user_var(v: &UserVariableItem) -> String {
    match v {
        UserVariableItem::Unknown(t, d) => format!("(UvUnknown {} {})", t, c_bytes(d)),
        UserVariableItem::MaxLength(n) => format!("(UvMaxLength {})", n),
        UserVariableItem::ImplementationClassUID(s) => format!("(UvImplClassUid {})", c_s(s)),
        UserVariableItem::ImplementationVersionName(s) => format!("(UvImplVersion {})", c_s(s)),
        UserVariableItem::SopClassExtendedNegotiationSubItem(u, d) => format!("(UvSopExt {} {})", c_s(u), c_bytes(d)),
        UserVariableItem::ScuScpRoleSelectionSubItem(u, r) => format!("(UvRole {} {} {})", c_s(u), c_bool(r.scu), c_bool(r.scp)),
        UserVariableItem::UserIdentityItem(u) => {
            let ty = match u.identity_type() {
                UserIdentityType::Username => "IdUsername",
                UserIdentityType::UsernamePassword => "IdUsernamePassword",
                UserIdentityType::KerberosServiceTicket => "IdKerberos",
                UserIdentityType::SamlAssertion => "IdSaml",
                UserIdentityType::Jwt => "IdJwt",
                _ => "IdUsername",
            };
            format!("(UvIdentity {} {} {} {})", c_bool(u.positive_response_requested()), ty,
                    c_bytes(&u.primary_field()), c_bytes(&u.secondary_field()))
        }
    }
}

fn c_pc_reason(r: &PresentationContextResultReason) -> &'static str {
    match r {
        PresentationContextResultReason::Acceptance => "PcAcceptance",
        PresentationContextResultReason::UserRejection => "PcUserRejection",
        PresentationContextResultReason::NoReason => "PcNoReason",
        PresentationContextResultReason::AbstractSyntaxNotSupported => "PcAbstractNotSupported",
        PresentationContextResultReason::TransferSyntaxesNotSupported => "PcTransferNotSupported",
    }
}

pub fn c_pdu(p: &Pdu) -> String {
    match p {
        Pdu::Unknown { pdu_type, data } => format!("(Unknown {} {})", pdu_type, c_bytes(data)),
        Pdu::AssociationRQ(rq) => format!(
            "(AssocRQ {} {} {} {} {} {})", rq.protocol_version, c_s(&rq.calling_ae_title), c_s(&rq.called_ae_title),
            c_s(&rq.application_context_name),
            c_list(rq.presentation_contexts.iter().map(|pc| format!(
                "(Build_pc_proposed {} {} {})", pc.id, c_s(&pc.abstract_syntax), c_list(pc.transfer_syntaxes.iter().map(|t| c_s(t)))))),
            c_list(rq.user_variables.iter().map(c_user_var))),
        Pdu::AssociationAC(ac) => format!(
            "(AssocAC {} {} {} {} {} {})", ac.protocol_version, c_s(&ac.calling_ae_title), c_s(&ac.called_ae_title),
            c_s(&ac.application_context_name),
            c_list(ac.presentation_contexts.iter().map(|pc| format!(
                "(Build_pc_result {} {} {})", pc.id, c_pc_reason(&pc.reason), c_s(&pc.transfer_syntax)))),
            c_list(ac.user_variables.iter().map(c_user_var))),
        Pdu::AssociationRJ(rj) => {
            let r = match rj.result { AssociationRJResult::Permanent => "RjPermanent", AssociationRJResult::Transient => "RjTransient" };
            let s = match &rj.source {
                AssociationRJSource::ServiceUser(x) => format!("(RjServiceUser {})", match x {
                    AssociationRJServiceUserReason::NoReasonGiven => "SuNoReasonGiven".to_string(),
                    AssociationRJServiceUserReason::ApplicationContextNameNotSupported => "SuAppContextNotSupported".to_string(),
                    AssociationRJServiceUserReason::CallingAETitleNotRecognized => "SuCallingNotRecognized".to_string(),
                    AssociationRJServiceUserReason::CalledAETitleNotRecognized => "SuCalledNotRecognized".to_string(),
                    AssociationRJServiceUserReason::Reserved(c) => format!("(SuReserved {})", c),
                }),
                AssociationRJSource::ServiceProviderASCE(x) => format!("(RjProviderAsce {})", match x {
                    AssociationRJServiceProviderASCEReason::NoReasonGiven => "AsceNoReasonGiven",
                    AssociationRJServiceProviderASCEReason::ProtocolVersionNotSupported => "AsceProtocolVersionNotSupported",
                }),
                AssociationRJSource::ServiceProviderPresentation(x) => format!("(RjProviderPres {})", match x {
                    AssociationRJServiceProviderPresentationReason::TemporaryCongestion => "PresTemporaryCongestion".to_string(),
                    AssociationRJServiceProviderPresentationReason::LocalLimitExceeded => "PresLocalLimitExceeded".to_string(),
                    AssociationRJServiceProviderPresentationReason::Reserved(c) => format!("(PresReserved {})", c),
                }),
            };
            format!("(AssocRJ {} {})", r, s)
        }
        Pdu::PData { data } => format!("(PData {})", c_list(data.iter().map(|v| format!(
            "(Build_pdv {} {} {} {})", v.presentation_context_id, c_bool(v.value_type == PDataValueType::Command), c_bool(v.is_last), c_bytes(&v.data))))),
        Pdu::ReleaseRQ => "ReleaseRQ".into(),
        Pdu::ReleaseRP => "ReleaseRP".into(),
        Pdu::AbortRQ { source } => format!("(AbortRQ {})", match source {
            AbortRQSource::ServiceUser => "AbServiceUser".to_string(),
            AbortRQSource::Reserved => "AbReserved".to_string(),
            AbortRQSource::ServiceProvider(r) => format!("(AbServiceProvider {})", match r {
                AbortRQServiceProviderReason::ReasonNotSpecified => "AbReasonNotSpecified",
                AbortRQServiceProviderReason::UnrecognizedPdu => "AbUnrecognizedPdu",
                AbortRQServiceProviderReason::UnexpectedPdu => "AbUnexpectedPdu",
                AbortRQServiceProviderReason::Reserved => "AbReservedReason",
                AbortRQServiceProviderReason::UnrecognizedPduParameter => "AbUnrecognizedPduParameter",
                AbortRQServiceProviderReason::UnexpectedPduParameter => "AbUnexpectedPduParameter",
                AbortRQServiceProviderReason::InvalidPduParameter => "AbInvalidPduParameter",
            }),
        }),
    }
}

// ---------------------------------------------------------------- error classes (Model/Pdu.v E_*, W_*)
pub fn read_err_class(e: &ReadError) -> u32 {
    match e {
        ReadError::InvalidMaxPdu { .. } => 1,
        ReadError::PduTooLarge { .. } => 2,
        ReadError::InvalidPduFieldLength { .. } => 3,
        ReadError::InvalidItemLength { .. } => 4,
        ReadError::InvalidPduVariable { .. } => 5,
        ReadError::ReadUserVariable { .. } => 6,
        ReadError::MissingApplicationContextName { .. } => 7,
        ReadError::InvalidRejectSourceOrReason { .. } => 8,
        ReadError::InvalidAbortSourceOrReason { .. } => 9,
        ReadError::InvalidPresentationContextResultReason { .. } => 10,
        ReadError::InvalidTransferSyntaxSubItem { .. } => 11,
        ReadError::UnknownPresentationContextSubItem { .. } => 12,
        ReadError::MultipleTransferSyntaxesAccepted { .. } => 13,
        ReadError::MissingAbstractSyntax { .. } => 14,
        ReadError::MissingTransferSyntax { .. } => 15,
        ReadError::ShortSopClassExtendedNegotiationItemLength { .. } => 16,
        _ => 99,
    }
}

/// innermost cause of a write error: 1 = text not encodable, 2 = chunk too large for its length field
pub fn write_err_class(e: &WriteError) -> u32 {
    match e {
        WriteError::EncodeField { .. } => 1,
        WriteError::WriteChunk { source, .. } => match source {
            WriteChunkError::BuildChunk { source } => write_err_class(source),
            WriteChunkError::WriteLength { source, .. } if source.kind() == std::io::ErrorKind::InvalidInput => 2,
            _ => 98,
        },
        _ => 99,
    }
}

pub fn c_read_res(r: &Option<Result<Option<(Pdu, usize)>, u32>>) -> String {
    match r {
        None => "RPanic".into(),
        Some(Err(c)) => format!("(RErr {})", c),
        Some(Ok(None)) => "RNone".into(),
        Some(Ok(Some((p, n)))) => format!("(RSome {} {})", c_pdu(p), n),
    }
}

/// read_pdu on a slice: the PDU and the number of bytes consumed
pub fn do_read(buf: &[u8], max: u32, strict: bool) -> Option<Result<Option<(Pdu, usize)>, u32>> {
    catch(|| {
        let mut cur = std::io::Cursor::new(buf);
        match read_pdu(&mut cur, max, strict) {
            Ok(Some(p)) => Ok(Some((p, cur.position() as usize))),
            Ok(None) => Ok(None),
            Err(e) => Err(read_err_class(&e)),
        }
    })
}

pub fn do_write(p: &Pdu) -> Option<Result<Vec<u8>, u32>> {
    catch(|| {
        let mut out = vec![];
        match write_pdu(&mut out, p) { Ok(()) => Ok(out), Err(e) => Err(write_err_class(&e)) }
    })
}

// ---------------------------------------------------------------- well-formedness (mirrors wf_pdu)
fn latin1(s: &str) -> bool { s.chars().all(|c| (c as u32) < 256) }
fn uid_ok(s: &str) -> bool { latin1(s) && s.trim() == s }
fn ae_ok(s: &str) -> bool { uid_ok(s) && s.chars().count() <= 16 }
fn slen(s: &str) -> usize { s.chars().count() }

/// content size of a user sub-item
fn uv_content(v: &UserVariableItem) -> usize {
    match v {
        UserVariableItem::Unknown(_, d) => d.len(),
        UserVariableItem::MaxLength(_) => 4,
        UserVariableItem::ImplementationClassUID(s) | UserVariableItem::ImplementationVersionName(s) => slen(s),
        UserVariableItem::SopClassExtendedNegotiationSubItem(u, d) => 2 + slen(u) + d.len(),
        UserVariableItem::ScuScpRoleSelectionSubItem(u, _) => 2 + slen(u) + 2,
        UserVariableItem::UserIdentityItem(u) => 2 + 2 + u.primary_field().len() + 2 + u.secondary_field().len(),
    }
}
fn uv_inner_fits(v: &UserVariableItem) -> bool {
    match v {
        UserVariableItem::SopClassExtendedNegotiationSubItem(u, _) | UserVariableItem::ScuScpRoleSelectionSubItem(u, _) => slen(u) <= 65535,
        UserVariableItem::UserIdentityItem(u) => u.primary_field().len() <= 65535 && u.secondary_field().len() <= 65535,
        _ => true,
    }
}
fn pcp_content(pc: &PresentationContextProposed) -> usize {
    4 + 4 + slen(&pc.abstract_syntax) + pc.transfer_syntaxes.iter().map(|t| 4 + slen(t)).sum::<usize>()
}
fn uvs_content(uvs: &[UserVariableItem]) -> usize { uvs.iter().map(|v| 4 + uv_content(v)).sum() }

/// Some(true): every content fits its length field; Some(false): at least one does not (write must fail).
pub fn fits(p: &Pdu) -> bool {
    let uvs_fit = |uvs: &[UserVariableItem]| uvs.iter().all(|v| uv_content(v) <= 65535 && uv_inner_fits(v)) && uvs_content(uvs) <= 65535;
    let uvs_size = |uvs: &[UserVariableItem]| if uvs.is_empty() { 0 } else { 4 + uvs_content(uvs) };
    match p {
        Pdu::AssociationRQ(rq) => {
            slen(&rq.application_context_name) <= 65535
                && rq.presentation_contexts.iter().all(|pc| pcp_content(pc) <= 65535
                    && slen(&pc.abstract_syntax) <= 65535 && pc.transfer_syntaxes.iter().all(|t| slen(t) <= 65535))
                && uvs_fit(&rq.user_variables)
                && 68 + 4 + slen(&rq.application_context_name)
                    + rq.presentation_contexts.iter().map(|pc| 4 + pcp_content(pc)).sum::<usize>()
                    + uvs_size(&rq.user_variables) <= u32::MAX as usize
        }
        Pdu::AssociationAC(ac) => {
            slen(&ac.application_context_name) <= 65535
                && ac.presentation_contexts.iter().all(|pc| 8 + slen(&pc.transfer_syntax) <= 65535)
                && uvs_fit(&ac.user_variables)
        }
        Pdu::PData { data } => data.iter().all(|v| v.data.len() + 2 <= u32::MAX as usize),
        _ => true,
    }
}
fn all_latin1(p: &Pdu) -> bool {
    let uv = |v: &UserVariableItem| match v {
        UserVariableItem::ImplementationClassUID(s) | UserVariableItem::ImplementationVersionName(s)
        | UserVariableItem::SopClassExtendedNegotiationSubItem(s, _) | UserVariableItem::ScuScpRoleSelectionSubItem(s, _) => latin1(s),
        _ => true,
    };
    match p {
        Pdu::AssociationRQ(rq) => latin1(&rq.calling_ae_title) && latin1(&rq.called_ae_title) && latin1(&rq.application_context_name)
            && rq.presentation_contexts.iter().all(|pc| latin1(&pc.abstract_syntax) && pc.transfer_syntaxes.iter().all(|t| latin1(t)))
            && rq.user_variables.iter().all(uv),
        Pdu::AssociationAC(ac) => latin1(&ac.calling_ae_title) && latin1(&ac.called_ae_title) && latin1(&ac.application_context_name)
            && ac.presentation_contexts.iter().all(|pc| latin1(&pc.transfer_syntax))
            && ac.user_variables.iter().all(uv),
        _ => true,
    }
}
/// true when every string can be encoded (so the only reason for write to fail is an oversize content)
pub fn encodable_text(p: &Pdu) -> bool { all_latin1(p) }

fn wf_uv(v: &UserVariableItem) -> bool {
    match v {
        UserVariableItem::Unknown(t, _) => ![0x51u8, 0x52, 0x54, 0x55, 0x56, 0x58].contains(t),
        UserVariableItem::MaxLength(_) | UserVariableItem::UserIdentityItem(_) => true,
        UserVariableItem::ImplementationClassUID(s) | UserVariableItem::ImplementationVersionName(s) => uid_ok(s),
        UserVariableItem::SopClassExtendedNegotiationSubItem(u, _) | UserVariableItem::ScuScpRoleSelectionSubItem(u, _) => uid_ok(u),
    }
}
/// no `Unknown` PDU / user sub-item carries a type code that the reader interprets (mirrors `no_alias`)
pub fn no_alias(p: &Pdu) -> bool {
    let uvs_ok = |uvs: &[UserVariableItem]| uvs.iter().all(|v| !matches!(v, UserVariableItem::Unknown(t, _) if [0x51u8, 0x52, 0x54, 0x55, 0x56, 0x58].contains(t)));
    match p {
        Pdu::Unknown { pdu_type, .. } => !(1..=7).contains(pdu_type),
        Pdu::AssociationRQ(rq) => uvs_ok(&rq.user_variables),
        Pdu::AssociationAC(ac) => uvs_ok(&ac.user_variables),
        _ => true,
    }
}
pub fn wf_pdu(p: &Pdu) -> bool {
    fits(p) && match p {
        Pdu::AssociationRQ(rq) => ae_ok(&rq.calling_ae_title) && ae_ok(&rq.called_ae_title) && latin1(&rq.application_context_name)
            && rq.presentation_contexts.iter().all(|pc| uid_ok(&pc.abstract_syntax) && pc.transfer_syntaxes.iter().all(|t| uid_ok(t)))
            && rq.user_variables.iter().all(wf_uv),
        Pdu::AssociationAC(ac) => ae_ok(&ac.calling_ae_title) && ae_ok(&ac.called_ae_title) && latin1(&ac.application_context_name)
            && ac.presentation_contexts.iter().all(|pc| uid_ok(&pc.transfer_syntax))
            && ac.user_variables.iter().all(wf_uv),
        Pdu::AssociationRJ(rj) => match &rj.source {
            AssociationRJSource::ServiceUser(AssociationRJServiceUserReason::Reserved(x)) => [4u8, 5, 6, 8, 9, 10].contains(x),
            AssociationRJSource::ServiceProviderPresentation(AssociationRJServiceProviderPresentationReason::Reserved(x)) => [0u8, 3, 4, 5, 6, 7].contains(x),
            _ => true,
        },
        Pdu::Unknown { pdu_type, .. } => !(1..=7).contains(pdu_type),
        _ => true,
    }
}

// ---------------------------------------------------------------- independent PS3.8 9.3 structural parser
/// Splits `b` into (type, content) items with 16-bit lengths tiling `b` exactly.
fn tlv16(mut b: &[u8]) -> Option<Vec<(u8, &[u8])>> {
    let mut out = vec![];
    while !b.is_empty() {
        if b.len() < 4 { return None; }
        let l = u16::from_be_bytes([b[2], b[3]]) as usize;
        if b.len() < 4 + l { return None; }
        out.push((b[0], &b[4..4 + l]));
        b = &b[4 + l..];
    }
    Some(out)
}
fn user_sub_ok(t: u8, c: &[u8]) -> bool {
    match t {
        0x51 => c.len() == 4,
        0x54 => c.len() >= 2 && { let u = u16::from_be_bytes([c[0], c[1]]) as usize; c.len() == 2 + u + 2 },
        0x56 => c.len() >= 2 && { let u = u16::from_be_bytes([c[0], c[1]]) as usize; c.len() >= 2 + u },
        0x58 => {
            if c.len() < 4 { return false; }
            let p = u16::from_be_bytes([c[2], c[3]]) as usize;
            if c.len() < 4 + p + 2 { return false; }
            let s = u16::from_be_bytes([c[4 + p], c[5 + p]]) as usize;
            c.len() == 4 + p + 2 + s
        }
        _ => true,
    }
}
/// Every length field of one PDU (exactly `b`) matches the content it describes.
pub fn ps38_valid(b: &[u8]) -> Result<(), String> {
    if b.len() < 6 { return Err("shorter than a PDU header".into()); }
    let l = u32::from_be_bytes([b[2], b[3], b[4], b[5]]) as usize;
    let body = &b[6..];
    if body.len() != l { return Err(format!("PDU-length {} but {} bytes follow", l, body.len())); }
    match b[0] {
        1 | 2 => {
            if body.len() < 68 { return Err("A-ASSOCIATE fixed part".into()); }
            let items = tlv16(&body[68..]).ok_or("variable items do not tile the PDU")?;
            for (t, c) in items {
                match t {
                    0x20 | 0x21 => {
                        if c.len() < 4 { return Err("presentation context item too short".into()); }
                        let subs = tlv16(&c[4..]).ok_or("sub-items do not tile the presentation context item")?;
                        for (st, _) in subs {
                            let ok = if t == 0x20 { st == 0x30 || st == 0x40 } else { st == 0x40 };
                            if !ok { return Err(format!("sub-item {:#x} in item {:#x}", st, t)); }
                        }
                    }
                    0x50 => {
                        let subs = tlv16(c).ok_or("sub-items do not tile the user information item")?;
                        for (st, sc) in subs {
                            if !user_sub_ok(st, sc) { return Err(format!("user sub-item {:#x} inner lengths", st)); }
                        }
                    }
                    _ => {}
                }
            }
            Ok(())
        }
        3 | 5 | 6 | 7 => if l == 4 { Ok(()) } else { Err(format!("fixed PDU with length {}", l)) },
        4 => {
            let mut r = body;
            while !r.is_empty() {
                if r.len() < 4 { return Err("PDV length".into()); }
                let il = u32::from_be_bytes([r[0], r[1], r[2], r[3]]) as usize;
                if il < 2 || r.len() < 4 + il { return Err("PDV item length".into()); }
                r = &r[4 + il..];
            }
            Ok(())
        }
        _ => Ok(()),
    }
}

// ---------------------------------------------------------------- generator
const UIDS: &[&str] = &[
    "1.2.840.10008.3.1.1.1", "1.2.840.10008.1.1", "1.2.840.10008.1.2", "1.2.840.10008.1.2.1", "1.2.840.10008.1.2.4.50",
    "1.2.840.10008.5.1.4.1.1.2", "1.2.3", "1", "",
];

pub fn gen_text(r: &mut Rng, max_len: u64, clean: bool) -> String {
    let n = r.below(max_len + 1);
    let mut s: String = (0..n).map(|_| match r.below(24) {
        0 => ' ',
        1 => *r.pick(&['\u{85}', '\u{a0}', '\t', '\u{0}', '\u{ff}', '\u{e9}']),   // Latin-1, some of them white space
        2 if !clean => *r.pick(&['\u{100}', '\u{3000}', '\u{2003}', '\u{20ac}']),  // not encodable
        _ => r.range(0x21, 0x7e) as u8 as char,
    }).collect();
    if clean { s = s.trim().to_string(); }
    s
}
pub fn gen_uid(r: &mut Rng, clean: bool) -> String {
    match r.below(10) {
        0..=5 => r.pick(UIDS).to_string(),
        6 if !clean => format!("{}{}", r.pick(UIDS), r.pick(&[" ", "\0", "\u{a0}", "  ", "\t"])),
        7 if !clean => format!(" {}", r.pick(UIDS)),
        _ => gen_text(r, 24, clean),
    }
}
fn gen_ae(r: &mut Rng, clean: bool) -> String {
    let s = match r.below(10) {
        0 => String::new(),
        1 => "ABCDEFGHIJKLMNOP".to_string(),                       // exactly 16
        2 if !clean => "ABCDEFGHIJKLMNOPQ".to_string(),            // 17: truncated by the writer
        3 if !clean => format!(" {}", gen_text(r, 14, true)),
        4 if !clean => format!("{} ", gen_text(r, 18, false)),
        _ => gen_text(r, 16, clean),
    };
    if clean { let t: String = s.chars().take(16).collect(); t.trim().to_string() } else { s }
}
pub fn gen_bytes(r: &mut Rng, max_len: u64) -> Vec<u8> {
    let n = r.below(max_len + 1);
    (0..n).map(|_| if r.chance(1, 4) { *r.pick(&[0u8, 1, 2, 0x10, 0x20, 0x40, 0x50, 0x51, 0xff]) } else { r.below(256) as u8 }).collect()
}
fn gen_identity_type(r: &mut Rng) -> UserIdentityType {
    r.pick(&[UserIdentityType::Username, UserIdentityType::UsernamePassword, UserIdentityType::KerberosServiceTicket,
             UserIdentityType::SamlAssertion, UserIdentityType::Jwt]).clone()
}
pub fn gen_user_var(r: &mut Rng, clean: bool, big: u64) -> UserVariableItem {
    match r.below(8) {
        0 => UserVariableItem::MaxLength(*r.pick(&[0u32, 1, 16384, 16378, 65536, u32::MAX, 0x01020304])),
        1 => UserVariableItem::ImplementationClassUID(gen_uid(r, clean)),
        2 => UserVariableItem::ImplementationVersionName(gen_text(r, 16, clean)),
        3 => UserVariableItem::ScuScpRoleSelectionSubItem(gen_uid(r, clean), RequestorRoles { scu: r.coin(), scp: r.coin() }),
        4 => UserVariableItem::SopClassExtendedNegotiationSubItem(gen_uid(r, clean), gen_bytes(r, big)),
        5 => UserVariableItem::UserIdentityItem(UserIdentity::new(r.coin(), gen_identity_type(r), gen_bytes(r, big), gen_bytes(r, 12))),
        _ => {
            let t = if clean || r.chance(3, 4) { *r.pick(&[0x53u8, 0x57, 0x59, 0x00, 0x50, 0x10, 0xff, 0x5a]) }
                    else { *r.pick(&[0x51u8, 0x52, 0x54, 0x55, 0x56, 0x58]) };
            UserVariableItem::Unknown(t, gen_bytes(r, big))
        }
    }
}
fn gen_user_vars(r: &mut Rng, clean: bool) -> Vec<UserVariableItem> {
    let n = match r.below(6) { 0 => 0, 1 => 1, 2 => 2, 3 => 3, 4 => 4, _ => r.range(5, 9) };
    (0..n).map(|_| gen_user_var(r, clean, 12)).collect()
}
fn gen_pcp(r: &mut Rng, clean: bool, i: u64) -> PresentationContextProposed {
    let nts = match r.below(6) { 0 => 0, 1 | 2 => 1, 3 => 2, 4 => 3, _ => r.range(4, 7) };
    PresentationContextProposed {
        id: if r.chance(3, 4) { (2 * i + 1) as u8 } else { r.below(256) as u8 },
        abstract_syntax: gen_uid(r, clean),
        transfer_syntaxes: (0..nts).map(|_| gen_uid(r, clean)).collect(),
    }
}
fn gen_pcr(r: &mut Rng, clean: bool, i: u64) -> PresentationContextResult {
    PresentationContextResult {
        id: if r.chance(3, 4) { (2 * i + 1) as u8 } else { r.below(256) as u8 },
        reason: r.pick(&[PresentationContextResultReason::Acceptance, PresentationContextResultReason::UserRejection,
                         PresentationContextResultReason::NoReason, PresentationContextResultReason::AbstractSyntaxNotSupported,
                         PresentationContextResultReason::TransferSyntaxesNotSupported]).clone(),
        transfer_syntax: gen_uid(r, clean),
    }
}
pub fn gen_pdv(r: &mut Rng, max: u64) -> PDataValue {
    PDataValue {
        presentation_context_id: r.below(256) as u8,
        value_type: if r.coin() { PDataValueType::Command } else { PDataValueType::Data },
        is_last: r.coin(),
        data: gen_bytes(r, max),
    }
}
fn npcs(r: &mut Rng) -> u64 { match r.below(8) { 0 => 0, 1 | 2 => 1, 3 => 2, 4 => 3, 5 => 4, 6 => r.range(5, 12), _ => r.range(13, 40) } }

/// kind: 0 RQ, 1 AC, 2 RJ, 3 PData, 4 ReleaseRQ, 5 ReleaseRP, 6 Abort, 7 Unknown. `clean` => well-formed.
pub fn gen_pdu(r: &mut Rng, kind: u64, clean: bool) -> Pdu {
    match kind {
        0 => {
            let n = npcs(r);
            Pdu::AssociationRQ(AssociationRQ {
                protocol_version: *r.pick(&[1u16, 0, 2, 0x0100, 0xffff, 0x1234]),
                calling_ae_title: gen_ae(r, clean), called_ae_title: gen_ae(r, clean),
                application_context_name: if r.chance(1, 8) { gen_text(r, 30, false).chars().filter(|c| clean == false || (*c as u32) < 256).collect() } else { gen_uid(r, clean) },
                presentation_contexts: (0..n).map(|i| gen_pcp(r, clean, i)).collect(),
                user_variables: gen_user_vars(r, clean),
            })
        }
        1 => {
            let n = npcs(r);
            Pdu::AssociationAC(AssociationAC {
                protocol_version: *r.pick(&[1u16, 0, 2, 0x0100, 0xffff, 0x1234]),
                calling_ae_title: gen_ae(r, clean), called_ae_title: gen_ae(r, clean),
                application_context_name: gen_uid(r, clean),
                presentation_contexts: (0..n).map(|i| gen_pcr(r, clean, i)).collect(),
                user_variables: gen_user_vars(r, clean),
            })
        }
        2 => {
            let result = if r.coin() { AssociationRJResult::Permanent } else { AssociationRJResult::Transient };
            let source = match r.below(3) {
                0 => AssociationRJSource::ServiceUser(match r.below(6) {
                    0 => AssociationRJServiceUserReason::NoReasonGiven,
                    1 => AssociationRJServiceUserReason::ApplicationContextNameNotSupported,
                    2 => AssociationRJServiceUserReason::CallingAETitleNotRecognized,
                    3 => AssociationRJServiceUserReason::CalledAETitleNotRecognized,
                    _ => AssociationRJServiceUserReason::Reserved(if clean { *r.pick(&[4u8, 5, 6, 8, 9, 10]) } else { r.below(14) as u8 }),
                }),
                1 => AssociationRJSource::ServiceProviderASCE(if r.coin() { AssociationRJServiceProviderASCEReason::NoReasonGiven }
                                                              else { AssociationRJServiceProviderASCEReason::ProtocolVersionNotSupported }),
                _ => AssociationRJSource::ServiceProviderPresentation(match r.below(4) {
                    0 => AssociationRJServiceProviderPresentationReason::TemporaryCongestion,
                    1 => AssociationRJServiceProviderPresentationReason::LocalLimitExceeded,
                    _ => AssociationRJServiceProviderPresentationReason::Reserved(if clean { *r.pick(&[0u8, 3, 4, 5, 6, 7]) } else { r.below(10) as u8 }),
                }),
            };
            Pdu::AssociationRJ(AssociationRJ { result, source })
        }
        3 => {
            let n = match r.below(6) { 0 => 0, 1 | 2 | 3 => 1, 4 => 2, _ => r.range(3, 5) };
            Pdu::PData { data: (0..n).map(|_| gen_pdv(r, 40)).collect() }
        }
        4 => Pdu::ReleaseRQ,
        5 => Pdu::ReleaseRP,
        6 => Pdu::AbortRQ { source: match r.below(9) {
            0 => AbortRQSource::ServiceUser,
            1 => AbortRQSource::Reserved,
            2 => AbortRQSource::ServiceProvider(AbortRQServiceProviderReason::ReasonNotSpecified),
            3 => AbortRQSource::ServiceProvider(AbortRQServiceProviderReason::UnrecognizedPdu),
            4 => AbortRQSource::ServiceProvider(AbortRQServiceProviderReason::UnexpectedPdu),
            5 => AbortRQSource::ServiceProvider(AbortRQServiceProviderReason::Reserved),
            6 => AbortRQSource::ServiceProvider(AbortRQServiceProviderReason::UnrecognizedPduParameter),
            7 => AbortRQSource::ServiceProvider(AbortRQServiceProviderReason::UnexpectedPduParameter),
            _ => AbortRQSource::ServiceProvider(AbortRQServiceProviderReason::InvalidPduParameter),
        } },
        _ => Pdu::Unknown {
            pdu_type: if clean { *r.pick(&[0u8, 8, 9, 0x10, 0x50, 0xff]) } else { r.below(12) as u8 },
            data: gen_bytes(r, 24),
        },
    }
}

pub fn kind_name(p: &Pdu) -> &'static str {
    match p {
        Pdu::AssociationRQ(_) => "RQ", Pdu::AssociationAC(_) => "AC", Pdu::AssociationRJ(_) => "RJ", Pdu::PData { .. } => "PDATA",
        Pdu::ReleaseRQ => "RLRQ", Pdu::ReleaseRP => "RLRP", Pdu::AbortRQ { .. } => "ABORT", Pdu::Unknown { .. } => "UNKNOWN",
    }
}
