//! vh_pdu — properties about the upper-layer PDU codec and PDU reception (dicom-ul).
mod c25;
mod c27;
mod pdugen;
use vhc::*;

fn main() {
    run_main(
        |prop, ctx| match prop {
            "C25" => Some(c25::cases(ctx)),
            "C27" => Some(c27::cases(ctx)),
            _ => None,
        },
        |_prop, _out| false,
    );
}
