//! C27 — PDU reception is independent of how the byte stream is segmented
//! (ul/src/association/mod.rs read_pdu_from_wire, read_pdu_from_wire_async).
use crate::pdugen::*;
use bytes::BytesMut;
use dicom_ul::association::{read_pdu_from_wire, read_pdu_from_wire_async, Error as AError};
use dicom_ul::pdu::*;
use serde_json::json;
use std::collections::VecDeque;
use std::io::Read;
use std::pin::Pin;
use std::task::{Context, Poll};
use vhc::{catch, Case, Ctx, Oracle, Rng, Tier, c_bool, c_list};

/// Scripted transport: read i delivers (at most) chunk i; what was really delivered is logged.
pub struct Script {
    pub chunks: VecDeque<Vec<u8>>,
    pub log: Vec<Vec<u8>>,
    /// async only: return Pending (after waking) before every k-th delivery
    pub pending_every: u32,
    polls: u32,
}
impl Script {
    pub fn new(chunks: &[Vec<u8>], pending_every: u32) -> Self {
        Script { chunks: chunks.iter().cloned().collect(), log: vec![], pending_every, polls: 0 }
    }
    fn deliver(&mut self, cap: usize) -> Vec<u8> {
        match self.chunks.front_mut() {
            None => vec![],
            Some(c) => {
                if c.is_empty() { self.chunks.pop_front(); self.log.push(vec![]); return vec![]; }
                let n = c.len().min(cap);
                let out: Vec<u8> = c.drain(..n).collect();
                if c.is_empty() { self.chunks.pop_front(); }
                self.log.push(out.clone());
                out
            }
        }
    }
    /// the segmentation as seen by the receiver: what was delivered, then what was never read
    pub fn seen(&self) -> Vec<Vec<u8>> {
        let mut v = self.log.clone();
        v.extend(self.chunks.iter().cloned());
        v
    }
}
impl Read for Script {
    fn read(&mut self, buf: &mut [u8]) -> std::io::Result<usize> {
        let d = self.deliver(buf.len());
        buf[..d.len()].copy_from_slice(&d);
        Ok(d.len())
    }
}
impl tokio::io::AsyncRead for Script {
    fn poll_read(mut self: Pin<&mut Self>, cx: &mut Context<'_>, buf: &mut tokio::io::ReadBuf<'_>) -> Poll<std::io::Result<()>> {
        self.polls += 1;
        if self.pending_every > 0 && self.polls % self.pending_every == 0 {
            cx.waker().wake_by_ref();
            return Poll::Pending;
        }
        let d = self.deliver(buf.remaining());
        buf.put_slice(&d);
        Poll::Ready(Ok(()))
    }
}

fn err_class(e: &AError) -> u32 {
    match e {
        AError::ReceivePdu { source } => read_err_class(source),
        AError::ConnectionClosed { .. } => 50,
        _ => 97,
    }
}

type Res = Option<Result<Pdu, u32>>;

fn run_sync(chunks: &[Vec<u8>], max: u32, strict: bool, n: usize) -> (Vec<Res>, Vec<u8>, Vec<Vec<u8>>) {
    let mut t = Script::new(chunks, 0);
    let mut buf = BytesMut::new();
    let mut out = vec![];
    for _ in 0..n {
        let r = catch(|| read_pdu_from_wire(&mut t, &mut buf, max, strict).map_err(|e| err_class(&e)));
        out.push(r);
    }
    (out, buf.to_vec(), t.seen())
}

fn run_async(chunks: &[Vec<u8>], max: u32, strict: bool, n: usize, pending_every: u32) -> (Vec<Res>, Vec<u8>, Vec<Vec<u8>>) {
    let rt = tokio::runtime::Builder::new_current_thread().build().unwrap();
    let mut t = Script::new(chunks, pending_every);
    let mut buf = BytesMut::new();
    let mut out = vec![];
    for _ in 0..n {
        let r = catch(|| rt.block_on(async { read_pdu_from_wire_async(&mut t, &mut buf, max, strict).await.map_err(|e| err_class(&e)) }));
        out.push(r);
    }
    (out, buf.to_vec(), t.seen())
}

fn c_res(r: &Res) -> String {
    match r { None => "RAbort".into(), Some(Ok(p)) => format!("(ROk {})", c_pdu(p)), Some(Err(c)) => format!("(RFail {})", c) }
}

/// cut `stream` at the given sorted positions
fn cut(stream: &[u8], cuts: &[usize]) -> Vec<Vec<u8>> {
    let mut out = vec![];
    let mut a = 0;
    for &c in cuts { if c > a && c < stream.len() { out.push(stream[a..c].to_vec()); a = c; } }
    if a < stream.len() { out.push(stream[a..].to_vec()); }
    out
}

struct Plan { pdus: Vec<Pdu>, stream: Vec<u8>, complete: bool, chunks: Vec<Vec<u8>>, max: u32, strict: bool, n: usize, seg: &'static str, with_coq: bool }

fn emit(out: &mut Vec<Case>, pl: &Plan, asyn: bool, pending_every: u32) {
    let (res, fin, seen) = if asyn { run_async(&pl.chunks, pl.max, pl.strict, pl.n, pending_every) } else { run_sync(&pl.chunks, pl.max, pl.strict, pl.n) };
    // ---- direct oracle: the receiver returns exactly the PDUs sent, in order
    let applicable = pl.complete && pl.pdus.iter().all(wf_pdu) && pl.chunks.iter().all(|c| !c.is_empty()) && (1018..=4294967288u32).contains(&pl.max);
    let oracle = if !applicable { Oracle::NotApplicable } else {
        let mut o = Oracle::Holds;
        let mut blocked = false;   // strict mode: an oversize PDU is rejected and blocks the stream
        for (i, r) in res.iter().enumerate() {
            if i >= pl.pdus.len() {
                if !blocked && !matches!(r, Some(Err(50))) { o = Oracle::Fails { class: "segmentation".into(), detail: format!("receive {} after the last PDU gave {:?}", i, r.as_ref().map(|x| x.as_ref().map(|p| kind_name(p)))) }; break; }
                continue;
            }
            let body = do_write(&pl.pdus[i]).and_then(|w| w.ok()).map_or(0, |b| b.len() as u64 - 6);
            if pl.strict && body > pl.max as u64 { blocked = true; }
            let ok = if blocked { matches!(r, Some(Err(2))) } else { matches!(r, Some(Ok(p)) if *p == pl.pdus[i]) };
            if !ok {
                o = Oracle::Fails { class: "segmentation".into(), detail: format!("{} receive {} of {} ({}; chunk sizes {:?}): got {:?}", if asyn { "async" } else { "sync" }, i, pl.pdus.len(), pl.seg,
                    pl.chunks.iter().map(|c| c.len()).take(40).collect::<Vec<_>>(), r.as_ref().map(|x| x.as_ref().map(|p| format!("{:.120}", format!("{:?}", p))))) };
                break;
            }
        }
        if matches!(o, Oracle::Holds) && !blocked && pl.n >= pl.pdus.len() && !fin.is_empty() {
            o = Oracle::Fails { class: "leftover".into(), detail: format!("{} bytes left in read_buffer after all PDUs were received", fin.len()) };
        }
        o
    };
    let coq = if pl.with_coq {
        format!("(mk_wire {} {} {} {} {} {})", c_bytes(&seen.concat()), c_nums(&seen.iter().map(|c| c.len() as u32).collect::<Vec<_>>()), pl.max, c_bool(pl.strict), c_list(res.iter().map(c_res)), c_bytes(&fin))
    } else { String::new() };
    let kinds: Vec<&str> = pl.pdus.iter().map(kind_name).collect();
    let desc = json!({"bucket": format!("{}/{}{}", if asyn { "async" } else { "sync" }, pl.seg, if pl.complete { "" } else { "/malformed" }),
        "pdus": kinds, "stream_len": pl.stream.len(), "chunk_sizes": pl.chunks.iter().map(|c| c.len()).take(64).collect::<Vec<_>>(),
        "max": pl.max, "strict": pl.strict, "receives": pl.n, "pending_every": pending_every,
        "results": res.iter().map(|r| match r { None => "panic".to_string(), Some(Ok(p)) => kind_name(p).to_string(), Some(Err(c)) => format!("err{}", c) }).collect::<Vec<_>>()});
    let key = format!("{}|{:?}|{:?}|{}|{}", asyn, kinds, pl.chunks.iter().map(|c| c.len()).collect::<Vec<_>>(), pl.max, pl.strict);
    out.push(Case { coq, desc, key: key.chars().take(500).collect(), oracle });
}

fn gen_seq(r: &mut Rng) -> Vec<Pdu> {
    let n = r.range(1, 8);
    (0..n).map(|_| {
        let kind = *r.pick(&[0u64, 1, 2, 3, 3, 3, 4, 5, 6, 7]);
        let mut p = gen_pdu(r, kind, true);
        if r.chance(1, 25) { p = Pdu::PData { data: vec![PDataValue { presentation_context_id: 1, value_type: PDataValueType::Data, is_last: true, data: vec![r.below(256) as u8; r.range(8100, 9000) as usize] }] }; }
        p
    }).collect()
}

fn encode_all(pdus: &[Pdu]) -> (Vec<u8>, Vec<usize>) {
    let mut s = vec![];
    let mut bounds = vec![];
    for p in pdus { write_pdu(&mut s, p).unwrap(); bounds.push(s.len()); }
    (s, bounds)
}

pub fn cases(ctx: &Ctx) -> Vec<Case> {
    let mut r = Rng::new(ctx.seed);
    let mut out = vec![];
    // ---- exhaustive small: a 20-byte stream of two PDUs, every segmentation with up to 2 cut points
    //      (thorough: all 2^19 segmentations, implementation + oracle only)
    let small = vec![Pdu::ReleaseRQ, Pdu::AbortRQ { source: AbortRQSource::ServiceProvider(AbortRQServiceProviderReason::UnexpectedPdu) }];
    let (s, _) = encode_all(&small);
    let mut cutsets: Vec<Vec<usize>> = vec![vec![]];
    for a in 1..s.len() { cutsets.push(vec![a]); for b in a + 1..s.len() { cutsets.push(vec![a, b]); } }
    for (i, cs) in cutsets.iter().enumerate() {
        let pl = Plan { pdus: small.clone(), stream: s.clone(), complete: true, chunks: cut(&s, cs), max: 16378, strict: i % 2 == 0, n: 2, seg: "exhaustive-2cuts", with_coq: i % 4 == 0 };
        emit(&mut out, &pl, i % 2 == 1, 0);
    }
    if ctx.tier == Tier::Thorough {
        // all 2^19 segmentations x {sync, async}, aggregated into one case (implementation + oracle only)
        let mut bad: Option<String> = None;
        let mut runs = 0u64;
        'sweep: for mask in 0u32..(1 << (s.len() - 1)) {
            let cs: Vec<usize> = (1..s.len()).filter(|k| mask >> (k - 1) & 1 == 1).collect();
            let chunks = cut(&s, &cs);
            for asyn in [false, true] {
                let (res, fin, _) = if asyn { run_async(&chunks, 16378, false, 3, [0u32, 2, 3][(mask % 3) as usize]) } else { run_sync(&chunks, 16378, false, 3) };
                runs += 1;
                let ok = matches!(&res[0], Some(Ok(p)) if *p == small[0]) && matches!(&res[1], Some(Ok(p)) if *p == small[1])
                    && matches!(&res[2], Some(Err(50))) && fin.is_empty();
                if !ok { bad = Some(format!("{} receiver, cut points {:?}", if asyn { "async" } else { "sync" }, cs)); break 'sweep; }
            }
        }
        out.push(Case { coq: String::new(), desc: json!({"bucket": "exhaustive-all-2^19", "runs": runs}), key: "exhaustive-all".into(),
            oracle: match bad { None => Oracle::Holds, Some(d) => Oracle::Fails { class: "segmentation".into(), detail: d } } });
    }
    // ---- generated sequences
    let mut i = 0u64;
    let target = out.len() + ctx.n;
    while out.len() < target {
        let pdus = gen_seq(&mut r);
        let (mut stream, _bounds0) = encode_all(&pdus);
        let mut complete = true;
        let mut n = pdus.len();
        match r.below(12) {
            0 => { let k = r.below(stream.len() as u64) as usize; stream.truncate(k); complete = false; }                 // connection closed inside a PDU
            1 => { stream.extend_from_slice(&[3, 0, 0, 0, 0, 4, 0, 9, 9, 9]); stream.extend_from_slice(&[5, 0, 0, 0, 0, 4, 0, 0, 0, 0]); complete = false; n += 2; } // a PDU the reader rejects
            2 => { n += 1; }                                                                                              // one receive too many: closed
            _ => {}
        }
        // exact-fill boundary: make the stream a multiple of the 8192-byte BufReader capacity
        let style = i % 10;
        let mut pdus = pdus;
        if style >= 8 && complete && n == pdus.len() {
            let l = stream.len() + 12;
            let target = (l + 8191) / 8192 * 8192;
            let p = Pdu::PData { data: vec![PDataValue { presentation_context_id: 1, value_type: PDataValueType::Data, is_last: true, data: vec![0x5a; target - l] }] };
            write_pdu(&mut stream, &p).unwrap();
            pdus.push(p);
            n += 1;
        }
        let bounds: Vec<usize> = { let mut b = vec![]; let mut s = 0; for p in &pdus { s += do_write(p).and_then(|w| w.ok()).map_or(0, |x| x.len()); b.push(s); } b };
        let total = stream.len();
        let (seg, cuts): (&'static str, Vec<usize>) = match style {
            8 => ("capacity-8192", (1..=total / 8192).map(|k| k * 8192).collect()),
            9 => { let m = *r.pick(&[64usize, 128, 1024, 4096, 16384]); ("capacity-sized", (1..=total / m).map(|k| k * m).collect()) }
            0 => ("one-byte", (1..total).collect()),
            1 => ("single-chunk", vec![]),
            2 => ("pdu-boundaries", bounds.clone()),
            3 => ("boundaries-minus-1", bounds.iter().map(|b| b.saturating_sub(1)).collect()),
            4 => ("boundaries-plus-1", bounds.iter().map(|b| b + 1).collect()),
            5 => { let mut c: Vec<usize> = bounds.iter().flat_map(|b| [b.saturating_sub(3), b + 5, b + 6, b + 7]).collect(); c.sort(); c.dedup(); ("around-headers", c) }
            6 => { let m = r.range(1, 7); let mut c = vec![]; let mut a = 0; while a < total { a += r.range(1, m) as usize; c.push(a); } ("random-small", c) }
            7 => { let m = *r.pick(&[16u64, 64, 300, 5000, 20000]); let mut c = vec![]; let mut a = 0; while a < total { a += r.range(1, m) as usize; c.push(a); } ("random", c) }
            _ => ("single-chunk", vec![]),
        };
        let mut chunks = cut(&stream, &cuts);
        if r.chance(1, 30) && !chunks.is_empty() { let k = r.below(chunks.len() as u64) as usize; chunks.insert(k, vec![]); complete = false; }   // a read of 0 bytes mid-stream
        let bigbody = pdus.iter().filter_map(|p| do_write(p).and_then(|w| w.ok())).map(|b| b.len() as u32 - 6).max().unwrap_or(0);
        let (max, strict) = match r.below(10) {
            0 => (bigbody.max(1018), true), 1 => (bigbody.max(1019) - 1, true), 2 => (1018, true), 3 => (1018, false), 4 => (4294967288, r.coin()),
            5 => (*r.pick(&[0u32, 1017, 4294967289]), false),
            _ => (16378, false),
        };
        let pl = Plan { pdus, stream, complete, chunks, max, strict, n, seg, with_coq: true };
        emit(&mut out, &pl, false, 0);
        let pe = *r.pick(&[0u32, 0, 2, 3]);
        emit(&mut out, &pl, true, pe);
        i += 1;
    }
    out
}
