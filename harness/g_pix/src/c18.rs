//! C18 — encapsulation: Fragments::new / From<Vec<Fragments>> (core), encapsulate helpers (pixeldata),
//! PixelDataWriter::encode default + frame_pixel_data (encoding), decode_and_encode bookkeeping (pixeldata).
use crate::obj::*;
use dicom_core::value::{fragments::Fragments, PixelFragmentSequence, Value};
use dicom_dictionary_std::{tags, uids};
use dicom_encoding::adapters::PixelDataObject;
use dicom_object::InMemDicomObject;
use dicom_pixeldata::encapsulation::{encapsulate, encapsulate_single_frame};
use dicom_pixeldata::Transcode;
use dicom_transfer_syntax_registry::TransferSyntaxRegistry;
use serde_json::json;
use vhc::*;

type Seq = (Vec<u32>, Vec<Vec<u8>>);

fn seq_of<I>(v: Value<I>) -> Seq {
    match v { Value::PixelSequence(s) => (s.offset_table().to_vec(), s.fragments().to_vec()), _ => unreachable!() }
}
fn c_seq(s: &Seq) -> String { c_tuple(&[c_list(s.0.iter().map(|x| x.to_string())), c_list(s.1.iter().map(|f| c_bytes(f)))]) }
fn c_optb(o: &Option<Vec<u8>>) -> String { c_opt(o.as_ref().map(|b| c_bytes(b))) }

/// the item structure of the Pixel Data element as actually written: offsets of every item after the
/// table item relative to the first of them, the offset table entries, and the fragment lengths
fn wire_items(obj: &Obj) -> Option<(Vec<u32>, Vec<u32>, Vec<u32>)> {
    let mut buf = vec![];
    obj.write_all(&mut buf).ok()?;
    let pat = [0xE0u8, 0x7F, 0x10, 0x00, b'O', b'B', 0, 0, 0xFF, 0xFF, 0xFF, 0xFF];
    let p = buf.windows(pat.len()).position(|w| w == pat)? + pat.len();
    let rd = |i: usize| -> Option<(u32, u32)> { let b = buf.get(i..i + 8)?; Some((u32::from_le_bytes([b[0], b[1], b[2], b[3]]), u32::from_le_bytes([b[4], b[5], b[6], b[7]]))) };
    let (t, l) = rd(p)?;
    if t != 0xE000_FFFE { return None; }
    let bot: Vec<u32> = buf.get(p + 8..p + 8 + l as usize)?.chunks(4).map(|c| u32::from_le_bytes([c[0], c[1], c[2], c[3]])).collect();
    let first = p + 8 + l as usize;
    let (mut i, mut offs, mut lens) = (first, vec![], vec![]);
    loop {
        let (t, l) = rd(i)?;
        if t == 0xE0DD_FFFE { break; }
        if t != 0xE000_FFFE { return None; }
        offs.push((i - first) as u32);
        lens.push(l);
        i += 8 + l as usize;
    }
    Some((offs, bot, lens))
}

fn put_seq(s: &Seq, nframes: Option<u32>, rows: u16, cols: u16, spp: u16, bits: u16, ts: &str) -> Obj {
    let seq = PixelFragmentSequence::new(s.0.clone(), s.1.clone());
    let mut o = mk(rows, cols, spp, bits, nframes.unwrap_or(1), Value::PixelSequence(seq), ts);
    if nframes.is_none() { o.remove_element(tags::NUMBER_OF_FRAMES); }
    o
}

fn extract(o: &Obj, q: &[u32]) -> Vec<(u32, Option<Vec<u8>>)> {
    q.iter().map(|&f| (f, catch(|| o.frame_pixel_data(f).map(|c| c.to_vec())).unwrap_or(Some(vec![0xEE; 3])))).collect()
}
fn c_extr(e: &[(u32, Option<Vec<u8>>)]) -> String { c_list(e.iter().map(|(f, r)| c_tuple(&[c_n(*f), c_optb(r)]))) }

/// checks shared by both kinds of encapsulation: even fragments, table = cumulative item offsets
/// (in memory and as written), first 0, one entry per frame; `groups[i]` = number of fragments of frame i
fn check_seq(s: &Seq, groups: &[usize], obj: &Obj, who: &str) -> Result<(), (String, String)> {
    if let Some(f) = s.1.iter().find(|f| f.len() % 2 == 1) { return Err((format!("OddFragment:{who}"), format!("fragment of {} bytes", f.len()))); }
    let mut want = vec![];
    let (mut off, mut k) = (0u32, 0usize);
    for &g in groups { want.push(off); for f in &s.1[k..k + g] { off += 8 + f.len() as u32; } k += g; }
    if s.0 != want { return Err((format!("OffsetTable:{who}"), format!("table {:?}, item offsets of the frames' first fragments {:?}", s.0, want))); }
    if s.0.len() != groups.len() || s.0.first() != Some(&0) { return Err((format!("OffsetTable:{who}"), format!("table {:?} for {} frames", s.0, groups.len()))); }
    match wire_items(obj) {
        None => return Err((format!("Wire:{who}"), "could not write / find the pixel data items".into())),
        Some((offs, bot, lens)) => {
            if lens.iter().any(|l| l % 2 == 1) { return Err((format!("OddFragment:{who}"), format!("written item lengths {:?}", lens))); }
            let mut k = 0usize; let mut firsts = vec![];
            for &g in groups { firsts.push(*offs.get(k).unwrap_or(&u32::MAX)); k += g; }
            if bot != firsts || k != offs.len() { return Err((format!("OffsetTable:{who}"), format!("written table {:?}, written item offsets {:?} ({} items)", bot, firsts, offs.len()))); }
        }
    }
    // the object read back from its file image holds the same table and fragments, and yields the same frames
    match file_round_trip(obj) {
        None => return Err((format!("Wire:{who}"), "the written object cannot be read back".into())),
        Some(back) => {
            let s2 = back.element(tags::PIXEL_DATA).ok().map(|e| seq_of(e.value().clone()));
            if s2.as_ref() != Some(s) { return Err((format!("Wire:{who}"), format!("read back: table {:?}, {} fragments", s2.as_ref().map(|x| x.0.clone()), s2.as_ref().map(|x| x.1.len()).unwrap_or(0)))); }
            if obj.number_of_frames() == Some(groups.len() as u32) {
                for f in 0..groups.len() as u32 {
                    if back.frame_pixel_data(f).map(|c| c.to_vec()) != obj.frame_pixel_data(f).map(|c| c.to_vec()) { return Err((format!("FrameExtract:{who}"), format!("frame {f} differs after a file round trip"))); }
                }
            }
        }
    }
    Ok(())
}

fn helper_case(r: &mut Rng, kind: u64) -> Case { helper_case_with(r, kind, None) }

/// `fixed`: frames with fragment sizes and the Number of Frames attribute to put (None = absent)
fn helper_case_with(r: &mut Rng, kind: u64, fixed: Option<(Vec<(Vec<u8>, u32)>, Option<u32>)>) -> Case {
    // frames: (data, fragment size)
    let pool_fs = |r: &mut Rng, len: usize| -> u32 { match r.below(8) { 0 => 0, 1 => 1, 2 => 2, 3 => len as u32, 4 => len as u32 + 1, 5 => len.saturating_sub(1) as u32, 6 => r.range(1, 9) as u32, _ => r.range(1, 40) as u32 } };
    let data = |r: &mut Rng| -> Vec<u8> { let n = match r.below(60) { 0 => 0, 1..=5 => 1, 6..=10 => 2, _ => r.range(1, 24) } as usize; (0..n).map(|_| r.range(1, 255) as u8).collect() };
    let fixed_nf = fixed.as_ref().map(|f| f.1);
    let (frames, name): (Vec<(Vec<u8>, u32)>, &str) = if let Some((fr, _)) = fixed { (fr, if kind == 1 { "single" } else { "multi" }) } else { match kind {
        0 => ((0..r.range(1, 16)).map(|_| (data(r), 0)).collect(), "encapsulate"),
        1 => { let d = data(r); let fs = pool_fs(r, d.len()); (vec![(d, fs)], "single") }
        _ => ((0..r.range(1, 5)).map(|_| { let d = data(r); let fs = if r.chance(2, 3) { *r.pick(&[0u32, d.len() as u32, d.len() as u32 + 1, 64]) } else { pool_fs(r, d.len()) }; (d, fs) }).collect(), "multi"),
    } };
    let res: Option<Seq> = match kind {
        0 => catch(|| seq_of(encapsulate(frames.iter().map(|f| f.0.clone()).collect()))),
        1 => catch(|| seq_of(encapsulate_single_frame(frames[0].0.clone(), frames[0].1))),
        _ => catch(|| { let v: Vec<Fragments> = frames.iter().map(|(d, fs)| Fragments::new(d.clone(), *fs)).collect();
                        let s: PixelFragmentSequence<Vec<u8>> = v.into(); (s.offset_table().to_vec(), s.fragments().to_vec()) }),
    };
    let n = frames.len() as u32;
    // Number of Frames: optional for a single frame (absent in 40% of those cases), else mostly right, sometimes off
    let nf = match fixed_nf { Some(x) => x, None => if n == 1 { match r.below(10) { 0..=3 => None, 4 => Some(2), _ => Some(1) } } else { match r.below(10) { 0 => None, 1 => Some(n + 1), 2 => Some(1), _ => Some(n) } } };
    let mut q: Vec<u32> = (0..=n).collect(); if r.chance(1, 5) { q.push(n + 3); }
    let (extr, obj) = match &res { Some(s) => { let o = put_seq(s, nf, 1, 1, 1, 8, uids::ENCAPSULATED_UNCOMPRESSED_EXPLICIT_VR_LITTLE_ENDIAN); (extract(&o, &q), Some(o)) } None => (vec![], None) };
    let coq = format!("(KHelper {} {} {} {})",
        c_list(frames.iter().map(|(d, fs)| c_tuple(&[c_bytes(d), c_n(*fs)]))),
        match &res { Some(s) => c_ok(&c_seq(s)), None => c_panic() },
        c_opt(nf.map(|x| c_n(x))), c_extr(&extr));
    // oracle: frames must be non-empty (a frame needs at least one fragment)
    let applicable = frames.iter().all(|f| !f.0.is_empty()) && (frames.len() == 1 || frames.iter().all(|(d, fs)| *fs == 0 || *fs as usize >= d.len()));
    let oracle = if !applicable { Oracle::NotApplicable } else { match (&res, &obj) {
        (Some(s), Some(o)) => {
            let mut bad: Option<(String, String)> = None;
            // fragments of each frame: effective size e, data followed by < e zeros
            let mut k = 0usize; let mut groups = vec![]; let mut frame_bytes: Vec<Vec<u8>> = vec![];
            for (d, fs) in &frames {
                let fs0 = if *fs == 0 { d.len() } else { *fs as usize }; let e = fs0 + fs0 % 2; let cnt = d.len().div_ceil(e);
                let got: Vec<u8> = s.1.get(k..k + cnt).map(|g| g.concat()).unwrap_or_default();
                let mut want = d.clone(); want.resize(cnt * e, 0);
                if got != want && bad.is_none() { bad = Some(("FragmentsPreserve".into(), format!("frame of {} bytes, fragment size {}: fragments hold {:?}", d.len(), fs, got))); }
                groups.push(cnt); frame_bytes.push(want); k += cnt;
            }
            if k != s.1.len() && bad.is_none() { bad = Some(("FragmentsPreserve".into(), format!("{} fragments, expected {}", s.1.len(), k))); }
            if bad.is_none() { if let Err(e) = check_seq(s, &groups, o, name) { bad = Some(e); } }
            // Number of Frames is optional for single-frame images: an object without it holds one frame
            if bad.is_none() && (nf == Some(n) || (nf.is_none() && n == 1)) { for (f, got) in &extr { if *f < n && got.as_ref() != Some(&frame_bytes[*f as usize]) { bad = Some(("FrameExtract".into(), format!("frame_pixel_data({f}) returned {:?} bytes, frame {f} has {} bytes in {} fragment(s), Number of Frames {:?}", got.as_ref().map(|v| v.len()), frame_bytes[*f as usize].len(), groups[*f as usize], nf))); break; } } }
            match bad { None => Oracle::Holds, Some((c, d)) => Oracle::Fails { class: c, detail: d } }
        }
        _ => Oracle::Fails { class: "HelperPanic".into(), detail: "encapsulation helper panicked on non-empty frames".into() },
    } };
    Case { coq, desc: json!({"bucket": format!("helper/{name}/{}{}", if res.is_some() { "ok" } else { "panic" }, if n == 1 && res.as_ref().map_or(false, |s| s.1.len() > 1) { if nf.is_none() { "/1frame-Nfragments-noNoF" } else { "/1frame-Nfragments" } } else { "" }), "frames": frames.iter().map(|(d, fs)| json!({"data_hex": hex(d), "fragment_size": fs})).collect::<Vec<_>>(), "number_of_frames_attr": nf, "fragments_per_frame_nf": format!("{}", if n == 1 && res.as_ref().map_or(false, |s| s.1.len() > 1) { if nf.is_none() { "single-frame/multi-fragment/no-number-of-frames" } else { "single-frame/multi-fragment" } } else { "other" })}),
           key: if applicable { format!("h{kind}:{:?}:{:?}", frames, nf) } else { String::new() }, oracle }
}

fn trans_case(r: &mut Rng, which: usize) -> Case {
    let tss: Vec<_> = TransferSyntaxRegistry.iter().filter(|ts| ts.pixel_data_writer().is_some()).collect();
    let ts = tss[which % tss.len()];
    let bits = if r.chance(2, 3) { 8 } else { 16 };
    let spp = if r.chance(2, 3) { 1 } else { 3 };
    let (rows, cols) = (r.range(1, 7) as u16, r.range(1, 7) as u16);
    let frames = r.range(1, 5) as u32;
    let n = rows as usize * cols as usize * spp as usize * (bits as usize / 8) * frames as usize;
    let px: Vec<u8> = (0..n).map(|_| r.below(256) as u8).collect();
    let mut obj = mk(rows, cols, spp, bits, frames, native_value(&px, r.coin()), uids::EXPLICIT_VR_LITTLE_ENDIAN);
    let ok = catch(|| obj.transcode(ts).map_err(|e| e.to_string()));
    let name = ts.name().split_whitespace().take(2).collect::<Vec<_>>().join("-");
    let bucket = format!("transcode/{name}/b{bits}/spp{spp}/{}", if (rows as usize * cols as usize * spp as usize * (bits as usize / 8)) % 2 == 1 { "odd-frame" } else { "even-frame" });
    let desc = json!({"bucket": bucket, "ts": ts.uid(), "rows": rows, "cols": cols, "spp": spp, "bits_allocated": bits, "frames": frames, "pixels_hex": hex(&px)});
    let key = format!("t:{}:{}x{}x{}b{}f{}:{}", ts.uid(), rows, cols, spp, bits, frames, hex(&px));
    match ok {
        Some(Ok(())) => {
            let s = seq_of(obj.element(tags::PIXEL_DATA).unwrap().value().clone());
            let nf: Option<u32> = obj.number_of_frames();
            let total: Option<u64> = obj.element(tags::ENCAPSULATED_PIXEL_DATA_VALUE_TOTAL_LENGTH).ok().and_then(|e| e.to_int::<u64>().ok());
            let lens: Vec<u64> = s.1.iter().map(|f| f.len() as u64).collect();
            let coq = format!("(KTrans {} {} {} {})", c_list(lens.iter().map(|l| l.to_string())), c_list(s.0.iter().map(|x| x.to_string())),
                              c_n(nf.unwrap_or(u32::MAX)), total.map(|t| t.to_string()).unwrap_or("4294967295".into()));
            let mut bad: Option<(String, String)> = None;
            if s.1.len() != frames as usize { bad = Some((format!("FrameCount:{name}"), format!("{} fragments for {} frames", s.1.len(), frames))); }
            if bad.is_none() { if let Err(e) = check_seq(&s, &vec![1; s.1.len()], &obj, &name) { bad = Some(e); } }
            if bad.is_none() && nf != Some(frames) { bad = Some((format!("NumberOfFrames:{name}"), format!("{:?}", nf))); }
            if bad.is_none() { if let Some(t) = total { if t != lens.iter().sum::<u64>() { bad = Some((format!("TotalLength:{name}"), format!("attribute {} but the fragments total {}", t, lens.iter().sum::<u64>()))); } } }
            if bad.is_none() { for f in 0..frames { let got = obj.frame_pixel_data(f).map(|c| c.to_vec()); if got.as_ref() != s.1.get(f as usize) { bad = Some((format!("FrameExtract:{name}"), format!("frame_pixel_data({f}) returned {:?} bytes", got.map(|v| v.len())))); break; } } }
            Case { coq, desc, key, oracle: match bad { None => Oracle::Holds, Some((c, d)) => Oracle::Fails { class: c, detail: d } } }
        }
        other => Case { coq: String::new(), desc, key: String::new(), oracle: Oracle::Fails { class: format!("TranscodeFailed:{name}"), detail: format!("{:?}", other) } },
    }
}

fn extract_case(r: &mut Rng, fixed: Option<(Vec<u32>, Vec<usize>, Option<u32>)>) -> Case {
    let (bot, lens, nf) = fixed.unwrap_or_else(|| {
        let n = r.range(1, 6) as usize;
        let lens: Vec<usize> = (0..n).map(|_| 2 * r.range(0, 6) as usize + if r.chance(1, 10) { 1 } else { 0 }).collect();
        // a grouping into frames and its exact table, then possibly perturbed
        let mut bot = vec![]; let mut off = 0u32; let mut frames = 0u32;
        for (i, l) in lens.iter().enumerate() { if i == 0 || r.chance(1, 2) { bot.push(off); frames += 1; } off += 8 + *l as u32; }
        match r.below(8) { 0 => { bot.clear(); } 1 => { if let Some(b) = bot.last_mut() { *b += 2; } } 2 => { for (i, b) in bot.iter_mut().enumerate() { *b = b.saturating_sub(8 * i as u32); } } 3 => { bot.pop(); } 4 => { bot.push(off); } _ => {} }
        let nf = match r.below(8) { 0 => None, 1 => Some(n as u32), 2 => Some(frames + 1), _ => Some(frames) };
        (bot, lens, nf)
    });
    let frags: Vec<Vec<u8>> = lens.iter().enumerate().map(|(i, l)| (0..*l).map(|j| (16 * (i + 1) + j) as u8).collect()).collect();
    let s: Seq = (bot, frags);
    let o = put_seq(&s, nf, 1, 1, 1, 8, uids::ENCAPSULATED_UNCOMPRESSED_EXPLICIT_VR_LITTLE_ENDIAN);
    let q: Vec<u32> = (0..=(s.0.len().max(s.1.len()) as u32 + 1)).collect();
    let extr = extract(&o, &q);
    let coq = format!("(KExtract {} {} {} {})", c_opt(nf.map(|x| c_n(x))), c_list(s.0.iter().map(|x| x.to_string())), c_list(s.1.iter().map(|f| c_bytes(f))), c_extr(&extr));
    Case { coq, desc: json!({"bucket": "extract/arbitrary-table", "offset_table": s.0, "fragment_lengths": lens, "number_of_frames_attr": nf}), key: String::new(), oracle: Oracle::NotApplicable }
}

pub fn cases(ctx: &Ctx) -> Vec<Case> {
    let mut r = Rng::new(ctx.seed);
    let mut out = vec![];
    // corpus: the crate's own examples and the witnesses of the defects fixed by 1044874 / f1e186e / 59a3d8c / b60ab7b
    out.push(extract_case(&mut r, Some((vec![0, 36, 60], vec![16, 20, 24, 36], Some(3)))));   // adapters.rs test (lenient table)
    out.push(extract_case(&mut r, Some((vec![0, 52, 84], vec![16, 20, 24, 36], Some(3)))));   // the exact table for it
    // a single frame over several fragments, Number of Frames absent / 1 (seeded change C18c)
    out.push(helper_case_with(&mut r, 1, Some((vec![((1..=13).collect(), 4)], None))));
    out.push(helper_case_with(&mut r, 1, Some((vec![((1..=13).collect(), 4)], Some(1)))));
    out.push(helper_case_with(&mut r, 1, Some((vec![((1..=6).collect(), 2)], None))));
    for w in 0..6 { out.push(trans_case(&mut Rng::new(1000 + w), w as usize)); }
    {
        // 2^24 + 1 bytes in fragments of 2^20: the f32 ceiling counted 16 fragments and lost the last byte
        // (the original witness, fragments of 2, behaves the same but costs 8M allocations); oracle only
        let n = (1usize << 24) + 1;
        let fs = 1u32 << 20;
        let s = catch(|| seq_of(encapsulate_single_frame(vec![7u8; n], fs)));
        let oracle = match &s { Some(s) if s.1.len() == 17 && s.1.iter().all(|f| f.len() == fs as usize) && s.1[16][0] == 7 && s.1[16][1..].iter().all(|&b| b == 0) && s.1[..16].iter().all(|f| f.iter().all(|&b| b == 7)) => Oracle::Holds,
            Some(s) => Oracle::Fails { class: "FragmentsPreserve".into(), detail: format!("2^24+1 bytes in fragments of 2^20: {} fragments holding {} bytes", s.1.len(), s.1.iter().map(|f| f.len()).sum::<usize>()) },
            None => Oracle::Fails { class: "HelperPanic".into(), detail: "panic".into() } };
        out.push(Case { coq: String::new(), desc: json!({"bucket": "corpus:2^24+1-bytes", "frame_len": n, "fragment_size": fs}), key: "big".into(), oracle });
    }
    let mut i = 0usize;
    while out.len() < ctx.n {
        i += 1;
        out.push(match i % 10 { 0 | 1 => helper_case(&mut r, 0), 2 | 3 => helper_case(&mut r, 1), 4 => helper_case(&mut r, 2), 5 | 6 | 7 => trans_case(&mut r, i / 10 + i), _ => extract_case(&mut r, None) });
    }
    out
}
