//! vh_pix — C21/C20/C18: native frames, RLE Lossless decoding, encapsulation
//! (dicom-pixeldata, dicom-encoding, dicom-core fragments, transfer-syntax-registry adapters).
mod obj;
mod c18;
mod c20;
mod c21;
use vhc::*;

fn main() {
    run_main(
        |prop, ctx| match prop {
            "C18" => Some(c18::cases(ctx)),
            "C20" => Some(c20::cases(ctx)),
            "C21" => Some(c21::cases(ctx)),
            _ => None,
        },
        |_prop, _out| false,
    );
}
