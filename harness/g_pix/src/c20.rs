//! C20 — RLE Lossless decoding (transfer-syntax-registry/src/adapters/rle_lossless.rs) against an
//! independent PS3.5 Annex G reference ENCODER with randomised run segmentation.
use crate::obj::*;
use dicom_core::value::{PixelFragmentSequence, Value};
use dicom_dictionary_std::uids;
use dicom_pixeldata::PixelDecoder;
use serde_json::json;
use vhc::*;

/// PackBits with a random split into literal / replicate runs and -128 no-ops (G.3)
pub fn packbits_random(r: &mut Rng, d: &[u8], style: u64) -> Vec<u8> {
    let mut out = vec![];
    let mut i = 0;
    while i < d.len() {
        if r.chance(1, 12) { out.push(0x80); }
        let mut run = 1;
        while i + run < d.len() && d[i + run] == d[i] { run += 1; }
        let replicate = run >= 2 && match style { 0 => true, 1 => false, _ => r.chance(2, 3) };
        if replicate {
            let max = run.min(128);
            let n = if style == 0 || r.coin() { max } else { r.range(2, max as u64) as usize };
            out.push((257 - n) as u8);
            out.push(d[i]);
            i += n;
        } else {
            let max = (d.len() - i).min(128);
            let n = match style { 1 => max, 0 => { // greedy literal up to the next run of >= 3
                    let mut n = 1; while n < max && !(i + n + 2 < d.len() && d[i + n] == d[i + n + 1] && d[i + n] == d[i + n + 2]) { n += 1; } n }
                _ => r.range(1, max as u64) as usize };
            out.push((n - 1) as u8);
            out.extend_from_slice(&d[i..i + n]);
            i += n;
        }
    }
    if r.chance(1, 10) { out.push(0x80); }
    out
}

/// Annex G fragment of one frame: samples[pixel][sample], bps bytes per sample
pub fn annexg_fragment(r: &mut Rng, samples: &[Vec<u32>], spp: usize, bps: usize, style: u64) -> Vec<u8> {
    let mut segs: Vec<Vec<u8>> = vec![];
    for s in 0..spp {
        for k in 0..bps { // most significant byte plane first
            let plane: Vec<u8> = samples.iter().map(|px| ((px[s] >> (8 * (bps - 1 - k))) & 0xff) as u8).collect();
            let mut e = packbits_random(r, &plane, style);
            if e.len() % 2 == 1 { e.push(0); }
            segs.push(e);
        }
    }
    let mut h = vec![0u8; 64];
    h[0..4].copy_from_slice(&(segs.len() as u32).to_le_bytes());
    let mut off = 64u32;
    for (i, s) in segs.iter().enumerate() {
        h[4 + 4 * i..8 + 4 * i].copy_from_slice(&off.to_le_bytes());
        off += s.len() as u32;
    }
    for s in segs { h.extend(s); }
    h
}

fn native(samples: &[Vec<u32>], bps: usize) -> Vec<u8> {
    let mut v = vec![];
    for px in samples { for &s in px { v.extend_from_slice(&s.to_le_bytes()[..bps]); } }
    v
}

struct Spec { rows: u16, cols: u16, spp: u16, bits: u16, frags: Vec<Vec<u8>>, expect: Option<Vec<Vec<u8>>>, query: Vec<u32>, bucket: String }

fn out(r: &Option<Result<Vec<u8>, u32>>) -> String {
    match r { None => c_panic(), Some(Ok(b)) => c_ok(&c_bytes(b)), Some(Err(c)) => c_err(*c) }
}

fn run(s: &Spec) -> Case {
    let seq = PixelFragmentSequence::new(Vec::<u32>::new(), s.frags.clone());
    let obj = mk(s.rows, s.cols, s.spp, s.bits, s.frags.len() as u32, Value::PixelSequence(seq), uids::RLE_LOSSLESS);
    let whole = catch(|| obj.decode_pixel_data().map(|d| d.data().to_vec()).map_err(|e| px_err_class(&e)));
    let per: Vec<(u32, Option<Result<Vec<u8>, u32>>)> = s.query.iter()
        .map(|&f| (f, catch(|| obj.decode_pixel_data_frame(f).map(|d| d.data().to_vec()).map_err(|e| px_err_class(&e))))).collect();
    let coq = c_tuple(&[c_n(s.rows), c_n(s.cols), c_n(s.spp), c_n(s.bits), c_list(s.frags.iter().map(|f| c_bytes(f))), out(&whole),
        c_list(per.iter().map(|(f, o)| c_tuple(&[c_n(*f), out(o)])))]);
    let oracle = match &s.expect {
        None => Oracle::NotApplicable,
        Some(frames) => {
            let mut bad = None;
            let all: Vec<u8> = frames.concat();
            if whole != Some(Ok(all.clone())) {
                bad = Some(format!("whole-object decode differs from the encoded samples: got {:?}, want {:?}", whole.as_ref().map(|r| r.as_ref().map(|v| &v[..v.len().min(12)])), &all[..all.len().min(12)]));
            }
            let mut cat = vec![];
            for (f, o) in &per {
                if (*f as usize) >= frames.len() { continue; }
                match o { Some(Ok(v)) => { cat.extend_from_slice(v); if bad.is_none() && *v != frames[*f as usize] { bad = Some(format!("frame {f} differs from the encoded samples: got {:?} want {:?}", &v[..v.len().min(12)], &frames[*f as usize][..v.len().min(12)])); } }
                          other => if bad.is_none() { bad = Some(format!("frame {f}: {:?}", other.as_ref().map(|r| r.as_ref().map(|_| ())))) } }
            }
            if bad.is_none() && whole != Some(Ok(cat)) { bad = Some("whole-object result is not the concatenation of the per-frame results".into()); }
            // the same object read back from its file image decodes to the same samples
            if bad.is_none() && s.frags.len() % 3 == 1 {
                match catch(|| file_round_trip(&obj).map(|o| o.decode_pixel_data().map(|d| d.data().to_vec()).map_err(|e| px_err_class(&e)))) {
                    Some(Some(Ok(v))) if v == all => {}
                    other => bad = Some(format!("after a file round trip the whole-object decode gives {:?}", other.map(|o| o.map(|r| r.map(|v| v.len()))))),
                }
            }
            let class = if s.bits == 8 && s.spp == 1 { "rle-8bit-mono" } else if s.bits == 16 && s.spp == 3 { "rle-16bit-rgb" } else { "rle-decode" };
            match bad { None => Oracle::Holds, Some(d) => Oracle::Fails { class: class.into(), detail: d } }
        }
    };
    let fr_hex: Vec<String> = s.frags.iter().map(|f| hex(f)).collect();
    Case {
        coq,
        desc: json!({"bucket": s.bucket, "rows": s.rows, "cols": s.cols, "spp": s.spp, "bits_allocated": s.bits, "fragments_hex": fr_hex, "query": s.query}),
        key: if s.expect.is_some() && s.rows > 0 && s.cols > 0 { format!("{}x{}x{}b{}:{}", s.rows, s.cols, s.spp, s.bits, fr_hex.join("|")) } else { String::new() },
        oracle,
    }
}

fn valid(r: &mut Rng, rows: u16, cols: u16, spp: u16, bits: u16, frames: usize, flat: u64, style: u64, tag: &str) -> Spec {
    let bps = (bits / 8) as usize;
    let np = rows as usize * cols as usize;
    let mut frags = vec![];
    let mut expect = vec![];
    for _ in 0..frames {
        // samples with runs (so that replicate runs exist): a value is kept with probability flat/8
        let mut cur: Vec<u32> = (0..spp).map(|_| r.below(1 << bits) as u32).collect();
        let samples: Vec<Vec<u32>> = (0..np).map(|_| {
            for c in cur.iter_mut() { if r.below(8) >= flat { *c = if r.chance(1, 6) { *r.pick(&[0u32, 0x80, 0xff, 0x100, 0xff00, 0x7fff, 0x8000, 0xffff]) & ((1u32 << bits) - 1) } else { r.below(1 << bits) as u32 }; } }
            cur.clone() }).collect();
        frags.push(annexg_fragment(r, &samples, spp as usize, bps, style));
        expect.push(native(&samples, bps));
    }
    let mut query: Vec<u32> = (0..frames as u32).collect();
    query.push(frames as u32);
    Spec { rows, cols, spp, bits, frags, expect: Some(expect), query, bucket: format!("valid/b{bits}/spp{spp}/{tag}") }
}

fn malformed(r: &mut Rng) -> Spec {
    let bits = *r.pick(&[8u16, 8, 16, 16, 12, 1]);
    let okbits = if bits == 8 || bits == 16 { bits } else { 8 };
    let spp = if r.coin() { 1 } else { 3 };
    let (rows, cols) = (r.range(1, 4) as u16, r.range(1, 4) as u16);
    let nfr = r.range(1, 2) as usize;
    let mut s = valid(r, rows, cols, spp, okbits, nfr, 4, 2, "x");
    s.bits = bits;
    s.expect = None;
    let kind = r.below(9);
    let f = &mut s.frags[0];
    let name = match kind {
        0 => { f.truncate(r.below(5) as usize); "short<5" }
        1 => { let n = r.range(4, 70).min(f.len() as u64) as usize; f.truncate(n); "truncated" }
        2 => { let n = *r.pick(&[0u32, 1, 2, 5, 7, 15, 16, 17, 40, 1000]); f[0..4].copy_from_slice(&n.to_le_bytes()); "nseg" }
        3 => { let i = 4 + 4 * r.below(4) as usize; let v = *r.pick(&[0u32, 3, 63, 65, 70, 5000, 0xffff_ffff]); f[i..i + 4].copy_from_slice(&v.to_le_bytes()); "offset" }
        4 => { let n = f.len(); if n > 64 { let i = r.range(64, n as u64 - 1) as usize; f[i] = *r.pick(&[0x80u8, 0xff, 0x81, 0x7f, 0x00]); } "body-byte" }
        5 => { let n = f.len(); f.truncate(n - 1 - r.below(3).min(n as u64 - 1) as usize); "tail-cut" }
        6 => { f.push(0xfe); "replicate-at-end" }
        7 => { s.rows += 1; "more-pixels-than-encoded" }
        _ => { if bits == okbits { s.rows = s.rows.saturating_sub(1); } "fewer-pixels-or-bad-bits" }
    };
    s.query.push(s.frags.len() as u32 + 2);
    s.bucket = format!("malformed/{name}/b{bits}");
    s
}

pub fn cases(ctx: &Ctx) -> Vec<Case> {
    let mut r = Rng::new(ctx.seed);
    let mut specs: Vec<Spec> = vec![];
    // corpus: witnesses of the defect fixed by 70a24cc (8-bit mono shifted, 16-bit RGB byte-swapped)
    {
        let lit = |d: &[u8]| { let mut v = vec![(d.len() - 1) as u8]; v.extend_from_slice(d); if v.len() % 2 == 1 { v.push(0); } v };
        let frag = |segs: Vec<Vec<u8>>| { let mut h = vec![0u8; 64]; h[0] = segs.len() as u8; let mut off = 64u32;
            for (i, s) in segs.iter().enumerate() { h[4 + 4 * i..8 + 4 * i].copy_from_slice(&off.to_le_bytes()); off += s.len() as u32; }
            for s in segs { h.extend(s); } h };
        specs.push(Spec { rows: 2, cols: 2, spp: 1, bits: 8, frags: vec![frag(vec![lit(&[10, 20, 30, 40])])], expect: Some(vec![vec![10, 20, 30, 40]]), query: vec![0, 1], bucket: "corpus:8bit-mono".into() });
        specs.push(Spec { rows: 1, cols: 2, spp: 3, bits: 16,
            frags: vec![frag(vec![lit(&[0x11, 0x12]), lit(&[0x21, 0x22]), lit(&[0x31, 0x32]), lit(&[0x41, 0x42]), lit(&[0x51, 0x52]), lit(&[0x61, 0x62])])],
            expect: Some(vec![vec![0x21, 0x11, 0x41, 0x31, 0x61, 0x51, 0x22, 0x12, 0x42, 0x32, 0x62, 0x52]]), query: vec![0], bucket: "corpus:16bit-rgb".into() });
        specs.push(Spec { rows: 1, cols: 2, spp: 1, bits: 16, frags: vec![frag(vec![lit(&[0x11, 0x12]), lit(&[0x21, 0x22])])],
            expect: Some(vec![vec![0x21, 0x11, 0x22, 0x12]]), query: vec![0], bucket: "corpus:16bit-mono".into() });
        specs.push(Spec { rows: 1, cols: 4, spp: 1, bits: 8, frags: vec![frag(vec![vec![0x80, 0xfe, 7, 0x00, 9, 0x80]])], expect: Some(vec![vec![7, 7, 7, 9]]), query: vec![0], bucket: "corpus:noop-replicate-literal".into() });
        specs.push(Spec { rows: 1, cols: 1, spp: 1, bits: 8, frags: vec![vec![1, 0, 0]], expect: None, query: vec![0], bucket: "corpus:3-byte-fragment".into() });
        specs.push(Spec { rows: 1, cols: 1, spp: 1, bits: 8, frags: vec![vec![0u8; 64]], expect: None, query: vec![0], bucket: "corpus:zero-segments".into() });
    }
    let mut i = 0usize;
    while specs.len() < ctx.n {
        i += 1;
        if i % 6 == 0 { specs.push(malformed(&mut r)); continue; }
        let bits = if r.coin() { 8 } else { 16 };
        let spp = if r.chance(3, 5) { 1 } else { 3 };
        // every 9th valid case is large enough for runs to cross the 128-byte limits
        let big = i % 9 == 0;
        let (rows, cols) = if big { (r.range(9, 17) as u16, r.range(15, 17) as u16) } else {
            let d = |r: &mut Rng| match r.below(10) { 0 => r.range(6, 17) as u16, _ => r.range(1, 5) as u16 };
            (d(&mut r), d(&mut r)) };
        let frames = if big { 1 } else { r.range(1, 4) as usize };
        let flat = if big { *r.pick(&[8u64, 7, 7, 6, 0]) } else { r.below(9) };
        let style = if big { r.below(3) } else { 2 };
        let tag = if big { format!("big/flat{}/style{}", flat, style) } else { format!("small/f{}", frames) };
        specs.push(valid(&mut r, rows, cols, spp, bits, frames, flat, style, &tag));
    }
    specs.iter().map(run).collect()
}
