//! Building in-memory image objects for the pixel-data properties.
use dicom_core::{value::Value, DataElement, PrimitiveValue, VR};
use dicom_dictionary_std::{tags, uids};
use dicom_object::{FileDicomObject, FileMetaTableBuilder, InMemDicomObject};

pub type Obj = FileDicomObject<InMemDicomObject>;

pub fn mk(rows: u16, cols: u16, spp: u16, ba: u16, frames: u32, px: Value<InMemDicomObject>, ts: &str) -> Obj {
    let mut o = InMemDicomObject::new_empty();
    o.put(DataElement::new(tags::SOP_CLASS_UID, VR::UI, uids::SECONDARY_CAPTURE_IMAGE_STORAGE));
    o.put(DataElement::new(tags::SOP_INSTANCE_UID, VR::UI, "1.2.3.4"));
    o.put(DataElement::new(tags::ROWS, VR::US, PrimitiveValue::from(rows)));
    o.put(DataElement::new(tags::COLUMNS, VR::US, PrimitiveValue::from(cols)));
    o.put(DataElement::new(tags::SAMPLES_PER_PIXEL, VR::US, PrimitiveValue::from(spp)));
    o.put(DataElement::new(tags::BITS_ALLOCATED, VR::US, PrimitiveValue::from(ba)));
    o.put(DataElement::new(tags::BITS_STORED, VR::US, PrimitiveValue::from(ba)));
    o.put(DataElement::new(tags::HIGH_BIT, VR::US, PrimitiveValue::from(ba.saturating_sub(1))));
    o.put(DataElement::new(tags::PIXEL_REPRESENTATION, VR::US, PrimitiveValue::from(0u16)));
    o.put(DataElement::new(tags::PHOTOMETRIC_INTERPRETATION, VR::CS, if spp == 1 { "MONOCHROME2" } else { "RGB" }));
    if spp > 1 {
        o.put(DataElement::new(tags::PLANAR_CONFIGURATION, VR::US, PrimitiveValue::from(0u16)));
    }
    o.put(DataElement::new(tags::NUMBER_OF_FRAMES, VR::IS, frames.to_string()));
    o.put(DataElement::new(tags::PIXEL_DATA, if ba == 16 { VR::OW } else { VR::OB }, px));
    o.with_meta(
        FileMetaTableBuilder::new()
            .transfer_syntax(ts)
            .media_storage_sop_class_uid(uids::SECONDARY_CAPTURE_IMAGE_STORAGE)
            .media_storage_sop_instance_uid("1.2.3.4"),
    )
    .unwrap()
}

/// native pixel data value: bytes, or 16-bit words with the same little-endian byte image
pub fn native_value(bytes: &[u8], as_words: bool) -> Value<InMemDicomObject> {
    if as_words && bytes.len() % 2 == 0 {
        let w: Vec<u16> = bytes.chunks(2).map(|c| u16::from_le_bytes([c[0], c[1]])).collect();
        PrimitiveValue::U16(w.into()).into()
    } else {
        PrimitiveValue::from(bytes.to_vec()).into()
    }
}

/// error class of dicom_pixeldata::Error by variant name (1 = FrameOutOfRange, 2 = DecodePixelData, 9 = other)
pub fn px_err_class(e: &dicom_pixeldata::Error) -> u32 {
    let d = format!("{:?}", e);
    if d.starts_with("Error(FrameOutOfRange") { 1 } else if d.starts_with("Error(DecodePixelData") { 2 } else { 9 }
}
