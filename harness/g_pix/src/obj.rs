//! Building in-memory image objects for the pixel-data properties.
use dicom_core::{value::Value, DataElement, PrimitiveValue, VR};
use dicom_dictionary_std::{tags, uids};
use dicom_object::{FileDicomObject, FileMetaTableBuilder, InMemDicomObject};

pub type Obj = FileDicomObject<InMemDicomObject>;

pub fn mk(rows: u16, cols: u16, spp: u16, ba: u16, frames: u32, px: Value<InMemDicomObject>, ts: &str) -> Obj {
    // encapsulated pixel data is always OB (writing a pixel sequence under OW reaches an unreachable!() in the token generator)
    let vr = if ba == 16 && !matches!(px, Value::PixelSequence(_)) { VR::OW } else { VR::OB };
    mk_vr(rows, cols, spp, ba, frames, px, vr, ts)
}

pub fn mk_vr(rows: u16, cols: u16, spp: u16, ba: u16, frames: u32, px: Value<InMemDicomObject>, vr: VR, ts: &str) -> Obj {
    let mut o = InMemDicomObject::new_empty();
    o.put(DataElement::new(tags::SOP_CLASS_UID, VR::UI, uids::SECONDARY_CAPTURE_IMAGE_STORAGE));
    o.put(DataElement::new(tags::SOP_INSTANCE_UID, VR::UI, "1.2.3.4"));
    o.put(DataElement::new(tags::ROWS, VR::US, PrimitiveValue::from(rows)));
    o.put(DataElement::new(tags::COLUMNS, VR::US, PrimitiveValue::from(cols)));
    o.put(DataElement::new(tags::SAMPLES_PER_PIXEL, VR::US, PrimitiveValue::from(spp)));
    o.put(DataElement::new(tags::BITS_ALLOCATED, VR::US, PrimitiveValue::from(ba)));
    o.put(DataElement::new(tags::BITS_STORED, VR::US, PrimitiveValue::from(ba)));
    o.put(DataElement::new(tags::HIGH_BIT, VR::US, PrimitiveValue::from(ba.saturating_sub(1))));
    o.put(DataElement::new(tags::PIXEL_REPRESENTATION, VR::US, PrimitiveValue::from(0u16)));
    o.put(DataElement::new(tags::PHOTOMETRIC_INTERPRETATION, VR::CS, if spp == 1 { "MONOCHROME2" } else { "RGB" }));
    if spp > 1 {
        o.put(DataElement::new(tags::PLANAR_CONFIGURATION, VR::US, PrimitiveValue::from(0u16)));
    }
    o.put(DataElement::new(tags::NUMBER_OF_FRAMES, VR::IS, frames.to_string()));
    o.put(DataElement::new(tags::PIXEL_DATA, vr, px));
    o.with_meta(
        FileMetaTableBuilder::new()
            .transfer_syntax(ts)
            .media_storage_sop_class_uid(uids::SECONDARY_CAPTURE_IMAGE_STORAGE)
            .media_storage_sop_instance_uid("1.2.3.4"),
    )
    .unwrap()
}

/// native pixel data value: bytes, or 16-bit words with the same little-endian byte image
pub fn native_value(bytes: &[u8], as_words: bool) -> Value<InMemDicomObject> {
    if as_words && bytes.len() % 2 == 0 {
        let w: Vec<u16> = bytes.chunks(2).map(|c| u16::from_le_bytes([c[0], c[1]])).collect();
        PrimitiveValue::U16(w.into()).into()
    } else {
        PrimitiveValue::from(bytes.to_vec()).into()
    }
}

/// error class of dicom_pixeldata::Error by variant name (1 = FrameOutOfRange, 2 = DecodePixelData, 9 = other)
pub fn px_err_class(e: &dicom_pixeldata::Error) -> u32 {
    let d = format!("{:?}", e);
    if d.starts_with("Error(FrameOutOfRange") { 1 } else if d.starts_with("Error(DecodePixelData") { 2 } else { 9 }
}

/// How a native Pixel Data value is held in memory.
#[derive(Clone, Copy, Debug, PartialEq)]
pub enum Rep { U8, U16, I16, U32, I32, U64 }
impl Rep {
    pub fn width(self) -> usize { match self { Rep::U8 => 1, Rep::U16 | Rep::I16 => 2, Rep::U32 | Rep::I32 => 4, Rep::U64 => 8 } }
}

/// the value holding `bytes` (length a multiple of the element width) as little-endian elements
pub fn held_value(bytes: &[u8], rep: Rep) -> PrimitiveValue {
    assert!(bytes.len() % rep.width() == 0);
    match rep {
        Rep::U8 => PrimitiveValue::from(bytes.to_vec()),
        Rep::U16 => PrimitiveValue::U16(bytes.chunks(2).map(|c| u16::from_le_bytes([c[0], c[1]])).collect()),
        Rep::I16 => PrimitiveValue::I16(bytes.chunks(2).map(|c| i16::from_le_bytes([c[0], c[1]])).collect()),
        Rep::U32 => PrimitiveValue::U32(bytes.chunks(4).map(|c| u32::from_le_bytes([c[0], c[1], c[2], c[3]])).collect()),
        Rep::I32 => PrimitiveValue::I32(bytes.chunks(4).map(|c| i32::from_le_bytes([c[0], c[1], c[2], c[3]])).collect()),
        Rep::U64 => PrimitiveValue::U64(bytes.chunks(8).map(|c| u64::from_le_bytes([c[0], c[1], c[2], c[3], c[4], c[5], c[6], c[7]])).collect()),
    }
}

/// element width and elements (as unsigned numbers) of the numeric value an object actually holds
pub fn held_elements(p: &PrimitiveValue) -> Option<(usize, Vec<u64>)> {
    Some(match p {
        PrimitiveValue::Empty => (1, vec![]),
        PrimitiveValue::U8(v) => (1, v.iter().map(|&x| x as u64).collect()),
        PrimitiveValue::U16(v) => (2, v.iter().map(|&x| x as u64).collect()),
        PrimitiveValue::I16(v) => (2, v.iter().map(|&x| x as u16 as u64).collect()),
        PrimitiveValue::U32(v) => (4, v.iter().map(|&x| x as u64).collect()),
        PrimitiveValue::I32(v) => (4, v.iter().map(|&x| x as u32 as u64).collect()),
        PrimitiveValue::U64(v) => (8, v.iter().copied().collect()),
        PrimitiveValue::I64(v) => (8, v.iter().map(|&x| x as u64).collect()),
        _ => return None,
    })
}

/// write the object to a DICOM file image and read it back
pub fn file_round_trip(o: &Obj) -> Option<Obj> {
    let mut buf = vec![];
    o.write_all(&mut buf).ok()?;
    dicom_object::from_reader(&buf[..]).ok()
}
