//! C21 — native pixel data frames (pixeldata/src/lib.rs: decode_pixel_data,
//! decode_pixel_data_frame, DecodedPixelData::frame_data).
use crate::obj::*;
use dicom_core::VR;
use dicom_dictionary_std::{tags, uids};
use dicom_pixeldata::PixelDecoder;
use serde_json::json;
use vhc::*;

/// `data`: the byte stream meant to be stored; `rep`: how the value is held in memory (padded with zeros to its
/// element width); `rt`: 0 = decode the object as built, 1 = after a file round trip in Explicit VR LE, 2 = in Implicit VR LE
struct Spec { rows: u16, cols: u16, spp: u16, bits: u16, frames: u32, data: Vec<u8>, rep: Rep, rt: u8, query: Vec<u32>, bucket: String }

fn out(r: Option<Result<Vec<u8>, u32>>) -> String {
    match r { None => c_panic(), Some(Ok(b)) => c_ok(&c_bytes(&b)), Some(Err(c)) => c_err(c) }
}

/// the expected decoded bytes of the whole object, straight from the definition
fn expected_whole(s: &Spec, stored: &[u8]) -> Option<Vec<u8>> {
    let fs = s.rows as usize * s.cols as usize * s.spp as usize;
    let nf = s.frames as usize;
    if s.bits == 1 {
        let total = fs * nf;
        if total.div_ceil(8) > stored.len() { return None; }
        Some((0..total).map(|k| ((stored[k / 8] >> (k % 8)) & 1) * 255).collect())
    } else {
        let n = fs * (s.bits as usize).div_ceil(8) * nf;
        if n > stored.len() { return None; }
        Some(stored[..n].to_vec())
    }
}

fn run(s: &Spec) -> Case {
    // the bytes put into the object: padded with zeros to the element width of the representation;
    // the bytes stored after a file round trip: padded to even length as well
    let mut built_bytes = s.data.clone();
    while built_bytes.len() % s.rep.width() != 0 { built_bytes.push(0); }
    let mut stored = built_bytes.clone();
    if s.rt != 0 && stored.len() % 2 == 1 { stored.push(0); }
    let vr = if s.rep == Rep::U8 { VR::OB } else { VR::OW };
    let ts = if s.rt == 2 { uids::IMPLICIT_VR_LITTLE_ENDIAN } else { uids::EXPLICIT_VR_LITTLE_ENDIAN };
    let built = mk_vr(s.rows, s.cols, s.spp, s.bits, s.frames, held_value(&built_bytes, s.rep).into(), vr, ts);
    let obj = if s.rt == 0 { built } else { match file_round_trip(&built) { Some(o) => o, None => built } };
    // what the decoded object actually holds: element width and elements (printed for the model)
    let (k, vals) = obj.element(tags::PIXEL_DATA).ok().and_then(|e| e.value().primitive().and_then(held_elements)).unwrap_or((1, vec![]));
    let held_bytes: Vec<u8> = vals.iter().flat_map(|v| v.to_le_bytes()[..k].to_vec()).collect();
    let whole = catch(|| obj.decode_pixel_data());
    let whole_o = whole.as_ref().map(|r| r.as_ref().map(|d| d.data().to_vec()).map_err(px_err_class));
    let mut per = vec![];
    let mut per_raw = vec![];
    for &f in &s.query {
        let pf = catch(|| obj.decode_pixel_data_frame(f).map(|d| d.data().to_vec()).map_err(|e| px_err_class(&e)));
        let fd = match &whole {
            Some(Ok(d)) => catch(|| d.frame_data(f).map(|x| x.to_vec()).map_err(|e| px_err_class(&e))),
            _ => Some(Err(0)),
        };
        per.push(c_tuple(&[c_n(f), out(pf.clone()), out(fd.clone())]));
        per_raw.push((f, pf, fd));
    }
    let coq = c_tuple(&[c_n(s.rows), c_n(s.cols), c_n(s.spp), c_n(s.bits), c_n(s.frames), format!("{}%nat", k), c_list(vals.iter().map(|v| v.to_string())), out(whole_o.clone()), c_list(per)]);
    // direct oracle
    let fsz = s.rows as usize * s.cols as usize * s.spp as usize * (s.bits as usize).div_ceil(8);
    let oracle = if held_bytes != stored { Oracle::Fails { class: "native-store".into(), detail: format!("the object holds {} bytes, {} were stored", held_bytes.len(), stored.len()) } } else { match expected_whole(s, &stored) {
        None => Oracle::NotApplicable,
        Some(exp) => {
            let class = if s.bits == 1 && (s.rows as usize * s.cols as usize * s.spp as usize) % 8 != 0 { "OneBitFrameNotByteAligned" }
                else if s.bits != 1 && stored.len() > exp.len() { "NativeTrailingPadding" } else { "native-frames" };
            let class = if k > 1 { format!("{class}/held-as-{}-byte-words", k) } else { class.to_string() };
            let mut bad: Option<String> = None;
            match &whole_o {
                Some(Ok(w)) if *w == exp => {}
                Some(Ok(w)) => bad = Some(format!("whole object: {} bytes, expected {} (frames x frame size)", w.len(), exp.len())),
                other => bad = Some(format!("whole object: {:?}", other.as_ref().map(|r| r.as_ref().map(|_| ())))),
            }
            for (f, pf, fd) in &per_raw {
                if bad.is_some() || *f >= s.frames { continue; }
                let want = &exp[*f as usize * fsz..(*f as usize + 1) * fsz];
                if pf.as_ref().and_then(|r| r.as_ref().ok()).map(|v| &v[..]) != Some(want) {
                    bad = Some(format!("decode_pixel_data_frame({f}) differs from the stored frame: {:?}", pf));
                } else if fd.as_ref().and_then(|r| r.as_ref().ok()).map(|v| &v[..]) != Some(want) {
                    bad = Some(format!("frame_data({f}) on the whole result differs: {:?}", fd));
                }
            }
            match bad { None => Oracle::Holds, Some(d) => Oracle::Fails { class, detail: d } }
        }
    } };
    let trivial = s.rows == 0 || s.cols == 0;
    Case {
        coq,
        desc: json!({"bucket": s.bucket, "rows": s.rows, "cols": s.cols, "spp": s.spp, "bits_allocated": s.bits, "frames": s.frames,
                     "data_hex": hex(&s.data), "held_as": format!("{:?}", s.rep), "file_round_trip": s.rt, "query": s.query}),
        key: if trivial { String::new() } else { format!("{}x{}x{}b{}f{}:{:?}{}:{}", s.rows, s.cols, s.spp, s.bits, s.frames, s.rep, s.rt, hex(&s.data)) },
        oracle,
    }
}

pub fn cases(ctx: &Ctx) -> Vec<Case> {
    let mut r = Rng::new(ctx.seed);
    let mut specs: Vec<Spec> = vec![
        // witnesses of the defects found (fixed by f3f2dd2 / 4fd5c49)
        Spec { rows: 3, cols: 3, spp: 1, bits: 1, frames: 2, data: vec![0b1010_1010, 1, 3], rep: Rep::U8, rt: 0, query: vec![0, 1, 2], bucket: "corpus:1bit-3x3x2".into() },
        Spec { rows: 3, cols: 3, spp: 1, bits: 8, frames: 1, data: vec![1, 2, 3, 4, 5, 6, 7, 8, 9, 0], rep: Rep::U8, rt: 0, query: vec![0, 1], bucket: "corpus:8bit-odd-padded".into() },
        Spec { rows: 2, cols: 4, spp: 3, bits: 1, frames: 2, data: vec![1, 2, 3, 4, 5, 6], rep: Rep::U8, rt: 0, query: vec![0, 1], bucket: "corpus:1bit-spp3".into() },
        Spec { rows: 1, cols: 1, spp: 1, bits: 1, frames: 7, data: vec![0b0101_0101], rep: Rep::U8, rt: 0, query: vec![0, 1, 2, 3, 4, 5, 6, 7], bucket: "corpus:1bit-1x1x7".into() },
        Spec { rows: 5, cols: 3, spp: 1, bits: 1, frames: 3, data: vec![0xff, 0x00, 0xa5, 0x3c, 0x81, 0x1f], rep: Rep::U8, rt: 0, query: vec![0, 1, 2], bucket: "corpus:1bit-5x3x3".into() },
        Spec { rows: 4, cols: 4, spp: 1, bits: 1, frames: 2, data: vec![1, 2, 3], rep: Rep::U8, rt: 0, query: vec![0, 1], bucket: "corpus:1bit-short".into() },
        // value held as 16-bit words (what VR OW yields): odd frame size, odd-numbered frames start inside a word
        Spec { rows: 3, cols: 3, spp: 1, bits: 8, frames: 3, data: (1..=27).collect(), rep: Rep::U16, rt: 0, query: vec![0, 1, 2, 3], bucket: "corpus:8bit-odd-frames-held-as-words".into() },
        Spec { rows: 3, cols: 3, spp: 1, bits: 8, frames: 3, data: (1..=27).collect(), rep: Rep::U8, rt: 2, query: vec![0, 1, 2, 3], bucket: "corpus:8bit-odd-frames-implicit-vr-file".into() },
        Spec { rows: 3, cols: 3, spp: 1, bits: 1, frames: 3, data: vec![0x35, 0xc6, 0x5a, 0x07], rep: Rep::U16, rt: 0, query: vec![0, 1, 2, 3], bucket: "corpus:1bit-held-as-words".into() },
        Spec { rows: 1, cols: 5, spp: 1, bits: 8, frames: 3, data: (1..=15).collect(), rep: Rep::U32, rt: 0, query: vec![0, 1, 2], bucket: "corpus:8bit-held-as-u32".into() },
    ];
    while specs.len() < ctx.n {
        let bits = match r.below(20) { 0..=8 => 1, 9..=13 => 8, 14..=18 => 16, _ => *r.pick(&[12u16, 24, 32]) };
        // mostly small images (the Coq side parses every byte), all sizes 1-17 reached
        let dim = |r: &mut Rng| match r.below(40) { 0 => 0, 1..=5 => *r.pick(&[1u16, 7, 8, 9]), 6..=9 => r.range(6, 17) as u16, _ => r.range(1, 5) as u16 };
        let (rows, cols) = (dim(&mut r), dim(&mut r));
        let spp = if r.chance(2, 3) { 1 } else { 3 };
        let frames = if r.coin() { r.range(1, 3) } else { r.range(1, 7) } as u32;
        let fs = rows as usize * cols as usize * spp as usize;
        let exact = if bits == 1 { (fs * frames as usize).div_ceil(8) } else { fs * (bits as usize).div_ceil(8) * frames as usize };
        let (len, kind) = match r.below(20) {
            0..=11 => (exact, "exact"),
            12..=14 => (exact + exact % 2 + if r.chance(1, 4) { 2 } else { 0 }, "padded"),
            15..=17 => (exact.saturating_sub(1 + r.below(1 + (fs as u64).min(40)) as usize), "short"),
            _ => (exact + r.range(1, 9) as usize, "long"),
        };
        let mut data: Vec<u8> = (0..len).map(|_| if r.chance(1, 8) { *r.pick(&[0u8, 0xff, 0x80, 1]) } else { r.below(256) as u8 }).collect();
        if kind == "padded" && len > exact && r.coin() { for b in &mut data[exact..] { *b = 0; } }
        let mut query: Vec<u32> = (0..frames).collect();
        query.push(frames);
        if r.chance(1, 4) { query.push(frames + r.range(1, 5) as u32); }
        let aligned = if bits == 1 { if fs % 8 == 0 { "aligned" } else { "unaligned" } } else { "bytes" };
        // how the value is held (any depth): bytes, 16-bit words (VR OW), rarely other numeric values;
        // decoded as built, or after a file round trip (Explicit VR LE keeps OB/OW, Implicit VR LE reads OW words)
        let rep = match r.below(20) { 0..=8 => Rep::U8, 9..=16 => Rep::U16, 17 => Rep::I16, 18 => *r.pick(&[Rep::U32, Rep::I32]), _ => Rep::U64 };
        let rt = match r.below(10) { 0..=5 => 0u8, 6 | 7 => 1, _ => 2 };
        let odd = if bits != 1 && (fs * (bits as usize).div_ceil(8)) % 2 == 1 && frames > 1 { "/odd-frame-bytes" } else { "" };
        specs.push(Spec { rows, cols, spp, bits, frames, data, rep, rt, query, bucket: format!("b{bits}/spp{spp}/{kind}/{aligned}/{:?}/rt{rt}{odd}", rep) });
    }
    specs.truncate(ctx.n.max(10));
    specs.iter().map(run).collect()
}
