//! vh_fuzz — C05: untrusted input through every public reading entry point.
mod c05;
mod gen;
use vhc::*;

#[global_allocator]
static GLOBAL: c05::CountingAlloc = c05::CountingAlloc;

fn main() {
    let args: Vec<String> = std::env::args().collect();
    if args.len() >= 3 && args[2] == "worker" {
        c05::worker(&args[3], args[4].parse().unwrap());
        return;
    }
    run_main(
        |prop, ctx| match prop {
            "C05" => Some(c05::cases(ctx)),
            _ => None,
        },
        |_prop, _out| false,
    );
}
