//! Generator of valid in-memory data sets / files / PDUs / JSON used as fuzzing seeds.
use dicom_core::header::Length;
use dicom_core::value::{DataSetSequence, PixelFragmentSequence, PrimitiveValue, Value, C};
use dicom_core::{DataElement, Tag, VR};
use dicom_object::mem::InMemDicomObject;
use dicom_object::meta::FileMetaTableBuilder;
use vhc::Rng;

fn text(r: &mut Rng, max: u64, alphabet: &[u8]) -> String { vhc::rand_ascii(r, max, alphabet) }
const UP: &[u8] = b"ABCDEFGHIJKLMNOPQRSTUVWXYZ0123456789 _";
const ANY: &[u8] = b"abcdefghijklmnopqrstuvwxyzABCDEFGHIJKLMNOPQRSTUVWXYZ0123456789 .,-^=";
const DIG: &[u8] = b"0123456789";
/// long free text with line breaks, tabs and form feeds (the dump abbreviates such values and shows control
/// characters as multi-byte symbols)
const TXT: &[u8] = b"abcdefghij klmnop ABC 0123\n\r\t\x0c.,-";

pub fn prim_for(r: &mut Rng, vr: VR) -> PrimitiveValue {
    let n = match r.below(6) { 0 => 0, 1 | 2 | 3 => 1, _ => r.range(2, 4) } as usize;
    let strs = |r: &mut Rng, f: &dyn Fn(&mut Rng) -> String| -> PrimitiveValue {
        if n == 0 { PrimitiveValue::Empty } else { PrimitiveValue::Strs((0..n).map(|_| f(r)).collect::<C<String>>()) }
    };
    match vr {
        VR::AE | VR::CS | VR::SH => strs(r, &|r| text(r, 12, UP)),
        VR::LO | VR::PN | VR::UC => strs(r, &|r| text(r, 20, ANY)),
        VR::AS => strs(r, &|r| format!("{:03}Y", r.below(120))),
        VR::DA => strs(r, &|r| format!("{:04}{:02}{:02}", r.range(1900, 2100), r.range(1, 12), r.range(1, 28))),
        VR::TM => strs(r, &|r| format!("{:02}{:02}{:02}", r.below(24), r.below(60), r.below(60))),
        VR::DT => strs(r, &|r| format!("{:04}{:02}{:02}{:02}", r.range(1900, 2100), r.range(1, 12), r.range(1, 28), r.below(24))),
        VR::DS => strs(r, &|r| format!("{}.{}", r.below(1000), r.below(100))),
        VR::IS => strs(r, &|r| format!("{}", r.below(100000) as i64 - 50000)),
        VR::UI => strs(r, &|r| format!("1.2.{}.{}", r.below(1000), text(r, 6, DIG).len())),
        VR::LT | VR::ST | VR::UT => { if n == 0 { PrimitiveValue::Empty } else { PrimitiveValue::Str(text(r, 120, TXT)) } }
        VR::UR => { if n == 0 { PrimitiveValue::Empty } else { PrimitiveValue::Str(text(r, 30, ANY)) } }
        VR::US => PrimitiveValue::U16((0..n).map(|_| r.next() as u16).collect()),
        VR::SS => PrimitiveValue::I16((0..n).map(|_| r.next() as i16).collect()),
        VR::UL => PrimitiveValue::U32((0..n).map(|_| r.next() as u32).collect()),
        VR::SL => PrimitiveValue::I32((0..n).map(|_| r.next() as i32).collect()),
        VR::UV => PrimitiveValue::U64((0..n).map(|_| r.next()).collect()),
        VR::SV => PrimitiveValue::I64((0..n).map(|_| r.next() as i64).collect()),
        VR::FL => PrimitiveValue::F32((0..n).map(|_| (r.below(10000) as f32) / 8.0 - 300.0).collect()),
        VR::FD => PrimitiveValue::F64((0..n).map(|_| (r.below(1000000) as f64) / 64.0 - 3000.0).collect()),
        VR::AT => PrimitiveValue::Tags((0..n).map(|_| Tag(r.next() as u16, r.next() as u16)).collect()),
        VR::OW => PrimitiveValue::U16((0..n * 2).map(|_| r.next() as u16).collect()),
        VR::OF => PrimitiveValue::F32((0..n).map(|_| r.below(100) as f32).collect()),
        VR::OD => PrimitiveValue::F64((0..n).map(|_| r.below(100) as f64).collect()),
        VR::OL => PrimitiveValue::U32((0..n).map(|_| r.next() as u32).collect()),
        VR::OV => PrimitiveValue::U64((0..n).map(|_| r.next()).collect()),
        _ => PrimitiveValue::U8((0..n * 3).map(|_| r.next() as u8).collect()), // OB, UN
    }
}

/// (tag, vr) pool: standard attributes of many VRs, private and unknown tags
pub const POOL: &[(u16, u16, VR)] = &[
    (0x0008, 0x0005, VR::CS), (0x0008, 0x0008, VR::CS), (0x0008, 0x0016, VR::UI), (0x0008, 0x0018, VR::UI),
    (0x0008, 0x0020, VR::DA), (0x0008, 0x0030, VR::TM), (0x0008, 0x002A, VR::DT), (0x0008, 0x0050, VR::SH),
    (0x0008, 0x0060, VR::CS), (0x0008, 0x0070, VR::LO), (0x0008, 0x0090, VR::PN), (0x0008, 0x1030, VR::LO),
    (0x0008, 0x0054, VR::AE), (0x0010, 0x0010, VR::PN), (0x0010, 0x0020, VR::LO), (0x0010, 0x1010, VR::AS),
    (0x0010, 0x1030, VR::DS), (0x0010, 0x4000, VR::LT), (0x0018, 0x0050, VR::DS), (0x0018, 0x1151, VR::IS),
    (0x0018, 0x9073, VR::FD), (0x0018, 0x9087, VR::FD), (0x0018, 0x6020, VR::SL), (0x0018, 0x6024, VR::US),
    (0x0020, 0x0013, VR::IS), (0x0020, 0x000D, VR::UI), (0x0020, 0x9057, VR::UL), (0x0020, 0x5000, VR::AT),
    (0x0028, 0x0002, VR::US), (0x0028, 0x0010, VR::US), (0x0028, 0x0011, VR::US), (0x0028, 0x0100, VR::US),
    (0x0028, 0x0101, VR::US), (0x0028, 0x0103, VR::US), (0x0028, 0x0008, VR::IS), (0x0028, 0x0004, VR::CS),
    (0x0028, 0x1052, VR::DS), (0x0028, 0x1053, VR::DS), (0x0028, 0x1050, VR::DS), (0x0028, 0x1051, VR::DS),
    (0x0028, 0x0106, VR::SS), (0x0028, 0x3002, VR::US), (0x0028, 0x9001, VR::UL), (0x0040, 0x9225, VR::FD),
    (0x0040, 0xA043, VR::SQ), (0x0008, 0x1140, VR::SQ), (0x0040, 0x0275, VR::SQ), (0x5200, 0x9229, VR::SQ),
    (0x0042, 0x0011, VR::OB), (0x0066, 0x0016, VR::OF), (0x0070, 0x0022, VR::FL), (0x0040, 0xA160, VR::UT),
    (0x0040, 0xE010, VR::UR), (0x0008, 0x0119, VR::UC), (0x0040, 0xA162, VR::SV), (0x0040, 0xA163, VR::UV),
    (0x0066, 0x0040, VR::OL), (0x0040, 0xA30A, VR::DS), (0x7FE0, 0x0009, VR::OD), (0x0028, 0x1201, VR::OW),
    (0x0009, 0x0010, VR::LO), (0x0009, 0x1001, VR::UN), (0x0009, 0x1002, VR::LO), (0x0011, 0x0010, VR::LO),
    (0x0011, 0x1010, VR::OB), (0x6000, 0x3000, VR::OW), (0x6002, 0x0010, VR::US), (0x0019, 0x0000, VR::UL),
    (0x3333, 0x0002, VR::UN), (0x0040, 0x0244, VR::DA), (0x0040, 0x0245, VR::TM), (0x0008, 0x0201, VR::SH),
];

pub fn dataset(r: &mut Rng, depth: u32, with_pixel: bool) -> InMemDicomObject {
    let mut obj = InMemDicomObject::new_empty();
    let n = r.range(1, 10);
    for _ in 0..n {
        let &(g, e, vr) = r.pick(POOL);
        let tag = Tag(g, e);
        if vr == VR::SQ {
            let items: Vec<InMemDicomObject> = if depth == 0 { vec![] } else { (0..r.below(3)).map(|_| dataset(r, depth - 1, false)).collect() };
            let len = if r.coin() { Length::UNDEFINED } else { Length::UNDEFINED };
            obj.put(DataElement::new(tag, VR::SQ, Value::Sequence(DataSetSequence::new(items, len))));
        } else {
            obj.put(DataElement::new(tag, vr, Value::Primitive(prim_for(r, vr))));
        }
    }
    if with_pixel {
        match r.below(3) {
            0 => {
                let frags: Vec<Vec<u8>> = (0..r.range(1, 3)).map(|_| (0..r.below(6) * 2).map(|_| r.next() as u8).collect()).collect();
                let bot: Vec<u32> = if r.coin() { vec![] } else { vec![0] };
                obj.put(DataElement::new(Tag(0x7FE0, 0x0010), VR::OB, Value::PixelSequence(PixelFragmentSequence::new(bot, frags))));
            }
            1 => { obj.put(DataElement::new(Tag(0x7FE0, 0x0010), VR::OW, PrimitiveValue::U16((0..r.below(20)).map(|_| r.next() as u16).collect()))); }
            _ => { obj.put(DataElement::new(Tag(0x7FE0, 0x0010), VR::OB, PrimitiveValue::U8((0..r.below(40)).map(|_| r.next() as u8).collect()))); }
        }
    }
    obj
}

pub const DATASET_TS: &[&str] = &["1.2.840.10008.1.2", "1.2.840.10008.1.2.1", "1.2.840.10008.1.2.2", "1.2.840.10008.1.2.1.99"];

pub fn dataset_bytes(obj: &InMemDicomObject, ts_uid: &str) -> Option<Vec<u8>> {
    use dicom_encoding::TransferSyntaxIndex;
    let ts = dicom_transfer_syntax_registry::TransferSyntaxRegistry.get(ts_uid)?;
    let mut out = vec![];
    obj.write_dataset_with_ts(&mut out, ts).ok()?;
    Some(out)
}

pub fn file_bytes(obj: &InMemDicomObject, ts_uid: &str) -> Option<Vec<u8>> {
    let meta = FileMetaTableBuilder::new()
        .transfer_syntax(ts_uid)
        .media_storage_sop_class_uid("1.2.840.10008.5.1.4.1.1.7")
        .media_storage_sop_instance_uid("1.2.3.4.5")
        .build().ok()?;
    let f = obj.clone().with_exact_meta(meta);
    let mut out = vec![];
    f.write_all(&mut out).ok()?;
    Some(out)
}

/// image-like object for pixel decoding
pub fn image_object(r: &mut Rng, encapsulated: bool) -> InMemDicomObject {
    let mut obj = InMemDicomObject::new_empty();
    let rows = r.range(1, 6) as u16; let cols = r.range(1, 6) as u16;
    let spp = if r.chance(1, 3) { 3u16 } else { 1 };
    let bits = *r.pick(&[8u16, 16, 1]);
    let bits = if spp == 3 && bits == 1 { 8 } else { bits };
    let frames = r.range(1, 3) as u32;
    let put_us = |o: &mut InMemDicomObject, t: Tag, v: u16| { o.put(DataElement::new(t, VR::US, PrimitiveValue::from(v))); };
    put_us(&mut obj, Tag(0x0028, 0x0002), spp);
    obj.put(DataElement::new(Tag(0x0028, 0x0004), VR::CS, PrimitiveValue::from(if spp == 3 { "RGB" } else { "MONOCHROME2" })));
    if spp == 3 { put_us(&mut obj, Tag(0x0028, 0x0006), r.below(2) as u16); }
    obj.put(DataElement::new(Tag(0x0028, 0x0008), VR::IS, PrimitiveValue::from(frames.to_string())));
    put_us(&mut obj, Tag(0x0028, 0x0010), rows); put_us(&mut obj, Tag(0x0028, 0x0011), cols);
    put_us(&mut obj, Tag(0x0028, 0x0100), bits); put_us(&mut obj, Tag(0x0028, 0x0101), bits); put_us(&mut obj, Tag(0x0028, 0x0102), bits.saturating_sub(1));
    put_us(&mut obj, Tag(0x0028, 0x0103), r.below(2) as u16);
    let frame_bytes = (rows as usize * cols as usize * spp as usize * bits as usize + 7) / 8;
    if encapsulated {
        let frags: Vec<Vec<u8>> = (0..frames).map(|_| (0..r.below(40)).map(|_| r.next() as u8).collect()).collect();
        obj.put(DataElement::new(Tag(0x7FE0, 0x0010), VR::OB, Value::PixelSequence(PixelFragmentSequence::new(vec![], frags))));
    } else {
        let total = frame_bytes * frames as usize;
        let total = if r.chance(1, 4) { total.saturating_sub(r.below(3) as usize) } else { total };
        obj.put(DataElement::new(Tag(0x7FE0, 0x0010), if bits == 16 { VR::OW } else { VR::OB }, PrimitiveValue::U8((0..total).map(|_| r.next() as u8).collect())));
    }
    obj
}
