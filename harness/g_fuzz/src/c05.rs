//! C05 — untrusted input never makes a reader panic, abort or hang.
//! The parent process generates (entry point, input) cases, a child worker runs them under a
//! virtual-memory limit with a per-case watchdog; a dead child is an ABORT of the case it was on.
use crate::gen;
use dicom_core::dictionary::DataDictionary;
use dicom_core::Tag;
use dicom_encoding::TransferSyntaxIndex;
use dicom_object::file::ReadPreamble;
use dicom_object::{FileMetaTable, InMemDicomObject, OpenFileOptions};
use dicom_parser::dataset::lazy_read::LazyDataSetReader;
use dicom_parser::dataset::read::{DataSetReader, DataSetReaderOptions};
use dicom_parser::dataset::LazyDataToken;
use dicom_pixeldata::PixelDecoder;
use dicom_transfer_syntax_registry::TransferSyntaxRegistry;
use serde_json::json;
use std::io::{BufRead, BufReader, Cursor, Write};
use std::str::FromStr;
use std::sync::mpsc;
use std::time::Duration;
use vhc::*;

pub const ENTRIES: &[&str] = &[
    "file_auto", "file_always", "file_never", "meta", "ds_eager", "ds_tokens_flex", "ds_lazy", "collector", "collector_frag",
    "json", "pdu", "pdu_strict", "str_tag", "str_selector", "str_date", "str_time", "str_datetime",
    "str_date_range", "str_time_range", "str_datetime_range", "str_vr", "str_tagrange",
];

const TS_ALL: &[&str] = &[
    "1.2.840.10008.1.2", "1.2.840.10008.1.2.1", "1.2.840.10008.1.2.2", "1.2.840.10008.1.2.1.99",
    "1.2.840.10008.1.2.1.98", "1.2.840.10008.1.2.5", "1.2.840.10008.1.2.4.50", "1.2.840.10008.1.2.4.70",
    "1.2.840.10008.1.2.8.1", "1.2.840.10008.1.2.4.90",
];

/// Counting allocator: records the largest single allocation request of the current case, so that a
/// slow/aborted case can be attributed to "allocates the declared length up-front" rather than to a hang.
pub struct CountingAlloc;
pub static MAX_ALLOC: std::sync::atomic::AtomicUsize = std::sync::atomic::AtomicUsize::new(0);
pub static RES_FD: std::sync::atomic::AtomicI32 = std::sync::atomic::AtomicI32::new(-1);
pub static CUR_IDX: std::sync::atomic::AtomicUsize = std::sync::atomic::AtomicUsize::new(0);
const HUGE: usize = 1 << 30;
/// A single allocation request of 1 GiB or more for an input of a few kilobytes is the
/// "allocate the declared length up-front" behaviour: report it at once (no waiting for 4 GiB to be
/// zeroed, no dependence on machine load or memory limits) and end the worker; the parent restarts it.
fn note(size: usize) {
    use std::sync::atomic::Ordering::Relaxed;
    MAX_ALLOC.fetch_max(size, Relaxed);
    if size >= HUGE {
        let fd = RES_FD.load(Relaxed);
        if fd >= 0 {
            let mut buf = [0u8; 64];
            let mut n = 0;
            let mut put = |b: &[u8], buf: &mut [u8; 64], n: &mut usize| { for &c in b { if *n < 64 { buf[*n] = c; *n += 1; } } };
            let mut num = |mut v: usize, buf: &mut [u8; 64], n: &mut usize| { let mut d = [0u8; 20]; let mut k = 0; if v == 0 { d[0] = b'0'; k = 1; } while v > 0 { d[k] = b'0' + (v % 10) as u8; v /= 10; k += 1; } while k > 0 { k -= 1; if *n < 64 { buf[*n] = d[k]; *n += 1; } } };
            put(b"R ", &mut buf, &mut n); num(CUR_IDX.load(Relaxed), &mut buf, &mut n); put(b" hugealloc maxalloc=", &mut buf, &mut n); num(size, &mut buf, &mut n); put(b"\n", &mut buf, &mut n);
            use std::io::Write; use std::os::fd::FromRawFd;
            let mut f = std::mem::ManuallyDrop::new(unsafe { std::fs::File::from_raw_fd(fd) });
            let _ = f.write_all(&buf[..n]);
        }
        std::process::exit(4);
    }
}
unsafe impl std::alloc::GlobalAlloc for CountingAlloc {
    unsafe fn alloc(&self, l: std::alloc::Layout) -> *mut u8 { note(l.size()); std::alloc::System.alloc(l) }
    unsafe fn dealloc(&self, p: *mut u8, l: std::alloc::Layout) { std::alloc::System.dealloc(p, l) }
    unsafe fn alloc_zeroed(&self, l: std::alloc::Layout) -> *mut u8 { note(l.size()); std::alloc::System.alloc_zeroed(l) }
    unsafe fn realloc(&self, p: *mut u8, l: std::alloc::Layout, n: usize) -> *mut u8 { note(n); std::alloc::System.realloc(p, l, n) }
}

thread_local! { static LAST_PANIC: std::cell::RefCell<String> = std::cell::RefCell::new(String::new()); }
static PANIC_LOC: std::sync::Mutex<String> = std::sync::Mutex::new(String::new());

fn after_open(obj: &dicom_object::DefaultDicomObject) {
    let mut sink = std::io::sink();
    let _ = dicom_dump::DumpOptions::new().dump_file_to(&mut sink, obj);
    let _ = dicom_dump::DumpOptions::new().format(dicom_dump::DumpFormat::Json).dump_file_to(&mut sink, obj);
    // the width-limited paths (what the command line tool uses on a terminal): values are abbreviated.
    // The worker's stdout is /dev/null.
    let _ = dicom_dump::DumpOptions::new().width(24).dump_file(obj);
    let _ = dicom_dump::DumpOptions::new().width(61).dump_file(obj);
    for elem in obj.iter() {
        for w in [20u32, 37, 80] { let _ = dicom_dump::dump_element(&mut sink, elem, w, 1, false, false); }
    }
    if let Ok(px) = obj.decode_pixel_data() { let _ = px.to_vec::<u8>(); let _ = px.number_of_frames(); }
    let _ = obj.decode_pixel_data_frame(0);
    let _ = obj.decode_pixel_data_frame(1);
}

/// Runs one case; returns "ok" or "err". Panics propagate (caught by the caller).
pub fn run_entry(entry: &str, ts_uid: &str, input: &[u8]) -> &'static str {
    let okerr = |b: bool| if b { "ok" } else { "err" };
    match entry {
        "file_auto" | "file_always" | "file_never" => {
            let pre = match entry { "file_auto" => ReadPreamble::Auto, "file_always" => ReadPreamble::Always, _ => ReadPreamble::Never };
            match OpenFileOptions::new().read_preamble(pre).from_reader(Cursor::new(input)) {
                Ok(obj) => { after_open(&obj); "ok" }
                Err(_) => "err",
            }
        }
        "meta" => okerr(FileMetaTable::from_reader(Cursor::new(input)).is_ok()),
        "ds_eager" => {
            let ts = match TransferSyntaxRegistry.get(ts_uid) { Some(t) => t, None => return "err" };
            match InMemDicomObject::read_dataset_with_ts(Cursor::new(input), ts) {
                Ok(obj) => {
                    let mut s = std::io::sink(); let _ = dicom_dump::dump_object_to(&mut s, &obj);
                    let _ = dicom_dump::DumpOptions::new().width(33).dump_object(&obj);
                    for elem in obj.iter() { for w in [20u32, 45] { let _ = dicom_dump::dump_element(&mut s, elem, w, 0, false, false); } }
                    "ok"
                }
                Err(_) => "err",
            }
        }
        "ds_tokens_flex" => {
            let ts = match TransferSyntaxRegistry.get(ts_uid) { Some(t) => t, None => return "err" };
            let r = DataSetReader::new_with_ts_options(Cursor::new(input), ts, DataSetReaderOptions::default().flexible_decoding(true));
            match r { Ok(reader) => { let mut ok = true; for t in reader { if t.is_err() { ok = false; break; } } okerr(ok) } Err(_) => "err" }
        }
        "ds_lazy" => {
            let ts = match TransferSyntaxRegistry.get(ts_uid) { Some(t) => t, None => return "err" };
            let mut r = match LazyDataSetReader::new_with_ts(Cursor::new(input), ts) { Ok(r) => r, Err(_) => return "err" };
            let mut k = 0u32;
            loop {
                k += 1;
                match r.advance() {
                    None => return "ok",
                    Some(Err(_)) => return "err",
                    Some(Ok(tok)) => match tok {
                        LazyDataToken::LazyValue { .. } | LazyDataToken::LazyItemValue { .. } => {
                            let res = if k % 2 == 0 { tok.skip().is_ok() } else { tok.into_owned().is_ok() };
                            if !res { return "err" }
                        }
                        _ => {}
                    },
                }
            }
        }
        "collector" | "collector_frag" => {
            let mut c = dicom_object::collector::DicomCollectorOptions::new().read_preamble(ReadPreamble::Auto).from_reader(BufReader::new(Cursor::new(input)));
            if c.read_file_meta().is_err() { return "err" }
            let mut obj = InMemDicomObject::new_empty();
            if entry == "collector" {
                let a = c.read_dataset_up_to(Tag(0x0010, 0x0010), &mut obj).is_ok();
                let b = c.read_dataset_to_end(&mut obj).is_ok();
                okerr(a && b)
            } else {
                if c.read_dataset_up_to_pixeldata(&mut obj).is_err() { return "err" }
                let mut bot = vec![];
                if c.read_basic_offset_table(&mut bot).is_err() { return "err" }
                let mut buf = vec![];
                for _ in 0..64 { match c.read_next_fragment(&mut buf) { Ok(Some(_)) => {}, Ok(None) => break, Err(_) => return "err" } }
                "ok"
            }
        }
        "json" => {
            let s = match std::str::from_utf8(input) { Ok(s) => s, Err(_) => return "err" };
            okerr(dicom_json::from_str::<InMemDicomObject>(s).is_ok())
        }
        "pdu" | "pdu_strict" => {
            let strict = entry == "pdu_strict";
            okerr(matches!(dicom_ul::pdu::read_pdu(Cursor::new(input), 16384, strict), Ok(_)))
        }
        _ => {
            let s = match std::str::from_utf8(input) { Ok(s) => s, Err(_) => return "err" };
            match entry {
                "str_tag" => okerr(Tag::from_str(s).is_ok()),
                "str_selector" => okerr(dicom_dictionary_std::StandardDataDictionary.parse_selector(s).is_ok()),
                "str_date" => okerr(dicom_core::value::deserialize::parse_date_partial(input).is_ok() | dicom_core::value::deserialize::parse_date(input).is_ok()),
                "str_time" => okerr(dicom_core::value::deserialize::parse_time_partial(input).is_ok() | dicom_core::value::deserialize::parse_time(input).is_ok()),
                "str_datetime" => okerr(dicom_core::value::deserialize::parse_datetime_partial(input).is_ok()),
                "str_date_range" => okerr(dicom_core::value::range::parse_date_range(input).is_ok()),
                "str_time_range" => okerr(dicom_core::value::range::parse_time_range(input).is_ok()),
                "str_datetime_range" => okerr(dicom_core::value::range::parse_datetime_range(input).is_ok()),
                "str_vr" => okerr(dicom_core::VR::from_str(s).is_ok()),
                "str_tagrange" => okerr(dicom_core::dictionary::TagRange::from_str(s).is_ok()),
                _ => "err",
            }
        }
    }
}

// ------------------------------------------------------------------ generation
fn mutate(r: &mut Rng, seed: &[u8]) -> Vec<u8> {
    let mut b = seed.to_vec();
    let rounds = r.range(1, 3);
    for _ in 0..rounds {
        if b.is_empty() { b.push(r.next() as u8); continue; }
        let n = b.len() as u64;
        match r.below(12) {
            0 => { let k = r.below(n + 1) as usize; b.truncate(k); }
            1 => { let i = r.below(n) as usize; b[i] ^= 1 << r.below(8); }
            2 => { let i = r.below(n) as usize; b[i] = r.next() as u8; }
            3 => { // corrupt a 32-bit field
                let i = r.below(n) as usize; let v: [u8; 4] = *r.pick(&[[0xff, 0xff, 0xff, 0xff], [0xff, 0xff, 0xff, 0xff], [0xfe, 0xff, 0x3f, 0x00], [0, 0, 0, 0], [1, 0, 0, 0], [0xff, 0xff, 0x7f, 0x00], [0, 0, 0x80, 0], [3, 0, 0, 0], [0x00, 0x00, 0x3f, 0xff], [0xff, 0xff, 0, 0]]);
                for k in 0..4 { if i + k < b.len() { b[i + k] = v[k]; } }
            }
            4 => { // insert a delimiter / item tag
                let i = (r.below(n + 1) as usize) & !1; let d: &[u8] = *r.pick(&[&[0xfe, 0xff, 0x0d, 0xe0, 0, 0, 0, 0][..], &[0xfe, 0xff, 0xdd, 0xe0, 0, 0, 0, 0], &[0xfe, 0xff, 0x00, 0xe0, 0, 0, 0, 0], &[0xfe, 0xff, 0x00, 0xe0, 0xff, 0xff, 0xff, 0xff]]);
                let i = i.min(b.len()); b.splice(i..i, d.iter().copied());
            }
            5 => { let i = r.below(n) as usize; let k = (r.below(8) as usize + 1).min(b.len() - i); b.drain(i..i + k); }
            6 => { let i = r.below(n) as usize; let j = r.below(n) as usize; let k = (r.below(16) as usize).min(b.len() - j); let chunk: Vec<u8> = b[j..j + k].to_vec(); b.splice(i..i, chunk); }
            7 => { let i = r.below(n) as usize; let x = b[i]; b[i] = x.wrapping_add(1); }
            8 => { let i = r.below(n) as usize; if i + 1 < b.len() { b.swap(i, i + 1); } }
            9 => { // odd length: bump a 16-bit little endian field
                let i = r.below(n) as usize; b[i] |= 1;
            }
            10 => { let k = r.below(6); for _ in 0..k { b.push(r.next() as u8); } }
            _ => { let i = r.below(n) as usize; b[i] = *r.pick(&[0u8, 0xff, 0x20, 0x5c, 0x7f, 0x80]); }
        }
    }
    b
}

fn pdu_seeds(r: &mut Rng) -> Vec<u8> {
    use dicom_ul::pdu::*;
    let pdu = match r.below(7) {
        0 => Pdu::AssociationRQ(AssociationRQ {
            protocol_version: 1, calling_ae_title: "SCU".into(), called_ae_title: "ANY-SCP".into(),
            application_context_name: "1.2.840.10008.3.1.1.1".into(),
            presentation_contexts: (0..r.range(1, 3)).map(|i| PresentationContextProposed { id: (2 * i + 1) as u8, abstract_syntax: "1.2.840.10008.1.1".into(), transfer_syntaxes: vec!["1.2.840.10008.1.2".into(), "1.2.840.10008.1.2.1".into()] }).collect(),
            user_variables: vec![UserVariableItem::MaxLength(16384), UserVariableItem::ImplementationClassUID("1.2.3".into()), UserVariableItem::ImplementationVersionName("X".into()),
                UserVariableItem::SopClassExtendedNegotiationSubItem("1.2.3".into(), vec![1, 2, 3]),
                UserVariableItem::UserIdentityItem(UserIdentity::new(true, UserIdentityType::UsernamePassword, b"u".to_vec(), b"p".to_vec()))],
        }),
        1 => Pdu::AssociationAC(AssociationAC {
            protocol_version: 1, calling_ae_title: "SCU".into(), called_ae_title: "SCP".into(), application_context_name: "1.2.840.10008.3.1.1.1".into(),
            presentation_contexts: vec![PresentationContextResult { id: 1, reason: PresentationContextResultReason::Acceptance, transfer_syntax: "1.2.840.10008.1.2".into() }],
            user_variables: vec![UserVariableItem::MaxLength(0), UserVariableItem::Unknown(0x77, vec![1, 2])],
        }),
        2 => Pdu::AssociationRJ(AssociationRJ { result: AssociationRJResult::Permanent, source: AssociationRJSource::ServiceUser(AssociationRJServiceUserReason::NoReasonGiven) }),
        3 => Pdu::PData { data: (0..r.range(1, 3)).map(|i| PDataValue { presentation_context_id: 1, value_type: if i == 0 { PDataValueType::Command } else { PDataValueType::Data }, is_last: r.coin(), data: (0..r.below(20)).map(|_| r.next() as u8).collect() }).collect() },
        4 => Pdu::ReleaseRQ,
        5 => Pdu::AbortRQ { source: AbortRQSource::ServiceUser },
        _ => Pdu::Unknown { pdu_type: 0x33, data: vec![1, 2, 3].into() },
    };
    let mut out = vec![];
    let _ = write_pdu(&mut out, &pdu);
    out
}

fn rle_fragment(r: &mut Rng) -> Vec<u8> {
    // a syntactically plausible RLE fragment: 64-byte header + packbits segments
    let nseg = r.range(0, 4) as u32;
    let mut segs: Vec<Vec<u8>> = vec![];
    for _ in 0..nseg {
        let mut s = vec![];
        for _ in 0..r.range(1, 4) {
            if r.coin() { let n = r.below(5) as u8; s.push(n); for _ in 0..=n { s.push(r.next() as u8); } }
            else { s.push((257 - r.range(2, 6)) as u8); s.push(r.next() as u8); }
        }
        if s.len() % 2 == 1 { s.push(0x80); }
        segs.push(s);
    }
    let mut out = vec![]; out.extend_from_slice(&nseg.to_le_bytes());
    let mut off = 64u32;
    for i in 0..15 { if (i as usize) < segs.len() { out.extend_from_slice(&off.to_le_bytes()); off += segs[i as usize].len() as u32; } else { out.extend_from_slice(&0u32.to_le_bytes()); } }
    for s in segs { out.extend(s); }
    out
}

fn string_input(r: &mut Rng, entry: &str) -> Vec<u8> {
    let base: &[&str] = match entry {
        "str_tag" => &["(0010,0010)", "0010,0010", "00100010", "(7FE0,0010)", "7fe00010", "000\u{e9}000", "(0010,001\u{e9})", "0010\u{e9}0010", "PatientName"],
        "str_selector" => &["PatientName", "(0040,A730)[1].ConceptNameCodeSequence", "00400275[0].00080100", "ReferencedImageSequence[2].(0008,1155)", "a[999999999999].b", "X.[1]", "[.]"],
        "str_date" => &["20200131", "2020", "202013", "20200230", "2020.01.31", "0000", "99991231", "2020013\u{e9}"],
        "str_time" => &["235959.999999", "12", "1230", "123060", "1230.5", "240000", "12:30:00", "120000.1234567"],
        "str_datetime" => &["20200131235959.999999+0100", "2020+0000", "202001311200-1200", "20200131120000.5+1400", "20200101000000+9999", "20200101&0100"],
        "str_date_range" => &["20200101-20201231", "-2020", "2020-", "2020", "-", "2020-2019", "2020--2021"],
        "str_time_range" => &["1200-1300", "-12", "12-", "120000.5-1200", "-", "13-12"],
        "str_datetime_range" => &["20200101-20201231", "2020+0100-2021+0100", "2020-0500-2021-0500", "-2020", "2020-", "20200101120000.5+0100-", "2020-2021-2022-2023"],
        "str_vr" => &["OB", "ob", "ZZ", "U", "UNN", "\u{e9}"],
        _ => &["(0010,0010)", "(60xx,3000)", "(0020,31xx)", "60xx3000", "(0010,00xx", "\u{e9}\u{e9}\u{e9}\u{e9},\u{e9}"],
    };
    let mut s: Vec<char> = r.pick(base).chars().collect();
    for _ in 0..r.below(3) {
        let n = s.len();
        match r.below(6) {
            0 if n > 0 => { let i = r.below(n as u64) as usize; s[i] = rand_unicode_char(r); }
            1 => { let i = r.below(n as u64 + 1) as usize; s.insert(i, rand_unicode_char(r)); }
            2 if n > 0 => { let i = r.below(n as u64) as usize; s.remove(i); }
            3 if n > 0 => { let i = r.below(n as u64) as usize; s[i] = *r.pick(&['-', '+', '.', ',', '(', ')', '[', ']', '0', '9', 'x', 'F', 'f', ' ', '\0', '\u{e9}', '\u{3000}']); }
            4 => { let k = r.below(n as u64 + 1) as usize; s.truncate(k); }
            _ => {}
        }
    }
    s.into_iter().collect::<String>().into_bytes()
}

pub struct Raw { pub entry: &'static str, pub ts: &'static str, pub input: Vec<u8>, pub valid_seed: bool }

fn corpus() -> Vec<Raw> {
    let b = |h: &str| -> Vec<u8> { (0..h.len() / 2).map(|i| u8::from_str_radix(&h[2 * i..2 * i + 2], 16).unwrap()).collect() };
    vec![
        // witnesses of defects found while designing (DESIGN.md section 9)
        Raw { entry: "ds_lazy", ts: "1.2.840.10008.1.2.1", input: b("feff0de000000000feff00e000000000"), valid_seed: false },
        Raw { entry: "str_tag", ts: "", input: "000\u{e9}000".as_bytes().to_vec(), valid_seed: false },
        Raw { entry: "json", ts: "", input: br#"{"00100010":{"vr":"US","Value":[1],"InlineBinary":"AA=="}}"#.to_vec(), valid_seed: false },
        Raw { entry: "ds_eager", ts: "1.2.840.10008.1.2.1", input: b("280000015553030001020320"), valid_seed: false },
    ]
}

fn tlv_spots(input: &[u8]) -> Vec<usize> {
    let mut spots: Vec<usize> = vec![];
    let mut i = 74usize;
    while i + 4 <= input.len() {
        spots.push(i);
        let l = u16::from_be_bytes([input[i + 2], input[i + 3]]) as usize;
        if input[i] == 0x50 { let mut j = i + 4; while j + 4 <= (i + 4 + l).min(input.len()) { spots.push(j); j += 4 + u16::from_be_bytes([input[j + 2], input[j + 3]]) as usize; } }
        i += 4 + l;
    }
    spots
}

/// every item and user sub-item of a sample A-ASSOCIATE-RQ and -AC with every small / off-by-one declared length
fn pdu_length_corpus() -> Vec<Raw> {
    let mut out = vec![];
    let mut r = Rng::new(7);
    let mut seen = 0;
    while seen < 2 {
        let b = pdu_seeds(&mut r);
        if b.len() > 80 && b[0] == (seen as u8 + 1) {
            seen += 1;
            for at in tlv_spots(&b) {
                let old = u16::from_be_bytes([b[at + 2], b[at + 3]]);
                for new in [0u16, 1, 2, 3, 5, old.wrapping_sub(1), old.wrapping_add(1)] {
                    let mut v = b.clone();
                    v[at + 2..at + 4].copy_from_slice(&new.to_be_bytes());
                    out.push(Raw { entry: if out.len() % 2 == 0 { "pdu" } else { "pdu_strict" }, ts: "", input: v, valid_seed: false });
                }
            }
        }
    }
    out
}

pub fn gen_cases(ctx: &Ctx) -> Vec<Raw> {
    let mut r = Rng::new(ctx.seed);
    let mut out = corpus();
    out.extend(pdu_length_corpus());
    while out.len() < ctx.n {
        let entry = ENTRIES[out.len() % ENTRIES.len()];
        let mut rr = r.fork();
        let r = &mut rr;
        let pristine = r.chance(1, 8);
        let (ts, seed): (&'static str, Vec<u8>) = match entry {
            "file_auto" | "file_always" | "file_never" | "collector" | "collector_frag" => {
                let ts = *r.pick(TS_ALL);
                let encaps = !gen::DATASET_TS.contains(&ts);
                let obj = if r.coin() || encaps { gen::image_object(r, encaps) } else { gen::dataset(r, 2, true) };
                let mut obj = obj;
                if encaps && ts == "1.2.840.10008.1.2.5" {
                    // replace fragments by plausible RLE fragments
                    use dicom_core::value::{PixelFragmentSequence, Value};
                    let frags: Vec<Vec<u8>> = (0..r.range(1, 2)).map(|_| rle_fragment(r)).collect();
                    obj.put(dicom_core::DataElement::new(Tag(0x7FE0, 0x0010), dicom_core::VR::OB, Value::PixelSequence(PixelFragmentSequence::new(vec![], frags))));
                }
                let mut bytes = gen::file_bytes(&obj, ts).unwrap_or_default();
                if entry == "file_never" || (entry == "file_auto" && r.coin()) { if bytes.len() >= 128 { bytes.drain(0..128); } }
                (ts, bytes)
            }
            "meta" => { let obj = gen::dataset(r, 0, false); let f = gen::file_bytes(&obj, "1.2.840.10008.1.2.1").unwrap_or_default(); ("", f.get(128..).map(|s| s.to_vec()).unwrap_or_default()) }
            "ds_eager" | "ds_tokens_flex" | "ds_lazy" => {
                let ts = *r.pick(gen::DATASET_TS);
                let ts = if entry == "ds_tokens_flex" { *r.pick(&["1.2.840.10008.1.2", "1.2.840.10008.1.2.1"]) } else { ts };
                let wp = r.coin(); let obj = gen::dataset(r, 3, wp);
                (ts, gen::dataset_bytes(&obj, ts).unwrap_or_default())
            }
            "json" => {
                let obj = gen::dataset(r, 2, false);
                let s = dicom_json::to_string(&obj).unwrap_or_else(|_| "{}".into());
                // structural mutations at the JSON level
                let s = match r.below(6) {
                    0 => s.replacen("\"Value\":", "\"InlineBinary\":\"AAAA\",\"Value\":", 1),
                    1 => s.replacen("\"vr\":\"", "\"vr\":\"U", 1),
                    2 => s.replacen("\"Value\":[", "\"Value\":[null,{},[1],", 1),
                    3 => s.replacen("\"vr\":", "\"BulkDataURI\":\"x\",\"vr\":", 1),
                    4 => s.replacen("{\"vr\"", "{\"Value\":[1e999,-0.0,18446744073709551616],\"vr\"", 1),
                    _ => s,
                };
                ("", s.into_bytes())
            }
            "pdu" | "pdu_strict" => ("", pdu_seeds(r)),

            _ => ("", string_input(r, entry)),
        };
        let is_str = entry.starts_with("str_");
        let mut input = if pristine || is_str { seed } else { mutate(r, &seed) };
        if (entry == "pdu" || entry == "pdu_strict") && !pristine {
            // structure-aware: cut the tail inside the last item and/or make the outer PDU length consistent again
            match r.below(4) {
                0 if input.len() > 6 => { let cut = r.below(10.min(input.len() as u64 - 6)) as usize; let l = input.len() - cut; input.truncate(l); }
                2 if input.len() > 80 && (input[0] == 1 || input[0] == 2) => {
                    // A-ASSOCIATE-RQ/AC: walk the variable items (type, reserved, 16-bit length) from offset 74,
                    // descend into the user information item, and give one (sub-)item an odd declared length
                    let mut spots: Vec<usize> = vec![];
                    let mut i = 74usize;
                    while i + 4 <= input.len() {
                        spots.push(i);
                        let l = u16::from_be_bytes([input[i + 2], input[i + 3]]) as usize;
                        if input[i] == 0x50 { let mut j = i + 4; while j + 4 <= (i + 4 + l).min(input.len()) { spots.push(j); j += 4 + u16::from_be_bytes([input[j + 2], input[j + 3]]) as usize; } }
                        i += 4 + l;
                    }
                    if !spots.is_empty() {
                        let at = *r.pick(&spots);
                        let old = u16::from_be_bytes([input[at + 2], input[at + 3]]);
                        let new: u16 = *r.pick(&[0u16, 1, 2, 3, 5, old.wrapping_sub(1), old.wrapping_add(1), 0xffff, 0x7fff]);
                        input[at + 2..at + 4].copy_from_slice(&new.to_be_bytes());
                    }
                }
                1 if input.len() >= 6 => { // hand-made P-DATA with a short last item
                    let k = r.below(8) as usize; let il = r.range(0, 6) as u32;
                    let mut v = vec![4u8, 0, 0, 0, 0, 0];
                    if r.coin() { v.extend_from_slice(&[0, 0, 0, 3, 1, 3, 0x55]); }
                    let mut item = il.to_be_bytes().to_vec(); item.extend_from_slice(&[1, 2, 9, 9, 9, 9]); item.truncate(k);
                    v.extend(item); input = v;
                }
                _ => {}
            }
            if r.chance(2, 3) && input.len() >= 6 { let l = (input.len() - 6) as u32; input[2..6].copy_from_slice(&l.to_be_bytes()); }
        }
        out.push(Raw { entry, ts, input, valid_seed: pristine });
    }
    out
}

// ------------------------------------------------------------------ worker (child process)
pub fn worker(file: &str, from: usize) {
    let mut resf = std::fs::OpenOptions::new().create(true).append(true).open(format!("{file}.res")).unwrap();
    { use std::os::fd::AsRawFd; RES_FD.store(resf.as_raw_fd(), std::sync::atomic::Ordering::Relaxed); }
    std::panic::set_hook(Box::new(|info| {
        let loc = info.location().map(|l| format!("{}:{}", l.file(), l.line())).unwrap_or_else(|| "?".into());
        *PANIC_LOC.lock().unwrap_or_else(|e| e.into_inner()) = loc;
    }));
    let f = BufReader::new(std::fs::File::open(file).unwrap());
    for (idx, line) in f.lines().enumerate() {
        if idx < from { continue; }
        let line = line.unwrap();
        let mut it = line.split(' ');
        let entry = it.next().unwrap().to_string(); let ts = it.next().unwrap().to_string(); let hexs = it.next().unwrap_or("");
        let ts = if ts == "-" { String::new() } else { ts };
        let input: Vec<u8> = (0..hexs.len() / 2).map(|i| u8::from_str_radix(&hexs[2 * i..2 * i + 2], 16).unwrap()).collect();
        MAX_ALLOC.store(0, std::sync::atomic::Ordering::Relaxed);
        CUR_IDX.store(idx, std::sync::atomic::Ordering::Relaxed);
        writeln!(resf, "S {idx}").unwrap(); resf.flush().unwrap();
        let (tx, rx) = mpsc::channel();
        std::thread::Builder::new().stack_size(64 << 20).spawn(move || {
            let res = catch(|| run_entry(&entry, &ts, &input));
            let _ = tx.send(res);
        }).unwrap();
        let budget = Duration::from_millis(std::env::var("VH_CASE_MS").ok().and_then(|s| s.parse().ok()).unwrap_or(60000));
        let line = match rx.recv_timeout(budget) {
            Ok(Some(c)) => format!("R {idx} {c} maxalloc={}", MAX_ALLOC.load(std::sync::atomic::Ordering::Relaxed)),
            Ok(None) => { let loc = PANIC_LOC.lock().unwrap_or_else(|e| e.into_inner()).clone(); format!("R {idx} panic {loc}") }
            Err(_) => format!("R {idx} timeout maxalloc={}", MAX_ALLOC.load(std::sync::atomic::Ordering::Relaxed)),
        };
        let timed_out = line.contains(" timeout ");
        writeln!(resf, "{line}").unwrap(); resf.flush().unwrap();
        if timed_out { std::process::exit(3); }
    }
}

fn maxalloc_of(detail: &str) -> usize { detail.split("maxalloc=").nth(1).and_then(|s| s.split_whitespace().next()).and_then(|s| s.parse().ok()).unwrap_or(0) }

fn repo_rel(loc: &str) -> String {
    // keep the path from the crate directory on, so that a class names the call site, not the checkout
    for marker in ["/core/src/", "/parser/src/", "/object/src/", "/encoding/src/", "/json/src/", "/ul/src/", "/pixeldata/src/", "/dump/src/", "/transfer-syntax-registry/src/", "/dictionary-std/src/"] {
        if let Some(i) = loc.find(marker) { return loc[i + 1..].to_string(); }
    }
    if let Some(i) = loc.find("/registry/src/") { return format!("dep:{}", loc[i + 14..].splitn(2, '/').nth(1).unwrap_or("")); }
    loc.to_string()
}

pub fn cases(ctx: &Ctx) -> Vec<Case> {
    let raws = gen_cases(ctx);
    let dir = std::env::temp_dir().join(format!("vh_fuzz_{}_{}", std::process::id(), ctx.seed));
    std::fs::create_dir_all(&dir).unwrap();
    let file = dir.join("cases.txt");
    {
        let mut f = std::io::BufWriter::new(std::fs::File::create(&file).unwrap());
        for c in &raws { writeln!(f, "{} {} {}", c.entry, if c.ts.is_empty() { "-" } else { c.ts }, hex(&c.input)).unwrap(); }
    }
    let exe = std::env::current_exe().unwrap();
    let mut results: Vec<(String, String)> = vec![(String::new(), String::new()); raws.len()];
    let mut from = 0usize;
    while from < raws.len() {
        let resfile = format!("{}.res", file.display());
        let _ = std::fs::remove_file(&resfile);
        let cmd = format!("ulimit -v 24000000; exec '{}' C05 worker '{}' {} >/dev/null 2>&1", exe.display(), file.display(), from);
        let out = std::process::Command::new("sh").arg("-c").arg(cmd).output().unwrap();
        let text = std::fs::read_to_string(&resfile).unwrap_or_default();
        let mut started: Option<usize> = None; let mut last_done: Option<usize> = None;
        for l in text.lines() {
            let p: Vec<&str> = l.splitn(4, ' ').collect();
            if p[0] == "S" { started = p[1].parse().ok(); }
            if p[0] == "R" && p.len() >= 4 { let i: usize = p[1].parse().unwrap(); results[i] = (p[2].to_string(), p[3].to_string()); last_done = Some(i); }
        }
        match (started, last_done) {
            (Some(s), Some(d)) if s == d && d + 1 >= raws.len() && out.status.success() => break,
            (Some(s), d) => {
                if d != Some(s) { results[s] = ("abort".into(), format!("child status {:?}", out.status.code())); }
                from = s + 1;
            }
            (None, _) => { break; }
        }
    }
    let _ = std::fs::remove_dir_all(&dir);
    raws.iter().zip(results).map(|(c, (class, detail))| {
        let oracle = match class.as_str() {
            "ok" | "err" => Oracle::Holds,
            "panic" => Oracle::Fails { class: format!("panic@{}", repo_rel(&detail)), detail: format!("entry={} ts={} input={}", c.entry, c.ts, hex(&c.input)) },
            "hugealloc" => Oracle::Fails { class: "prealloc-declared-length".into(), detail: format!("entry={} ts={} input={} {}", c.entry, c.ts, hex(&c.input), detail) },
            "timeout" | "abort" if maxalloc_of(&detail) >= (256 << 20) => Oracle::Fails { class: "prealloc-declared-length".into(), detail: format!("entry={} ts={} input={} {}", c.entry, c.ts, hex(&c.input), detail) },
            other => Oracle::Fails { class: format!("{}@{}", if other.is_empty() { "notrun" } else { other }, c.entry), detail: format!("entry={} ts={} input={} {}", c.entry, c.ts, hex(&c.input), detail) },
        };
        Case {
            coq: String::new(),
            desc: json!({"bucket": format!("{}:{}", c.entry, class), "entry": c.entry, "ts": c.ts, "input_hex": hex(&c.input), "result": class, "valid_seed": c.valid_seed}),
            key: if c.input.len() > 1 { format!("{}|{}|{}", c.entry, c.ts, hex(&c.input)) } else { String::new() },
            oracle,
        }
    }).collect()
}
