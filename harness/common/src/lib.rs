//! vhc — common part of the verification harness: PRNG, Coq term printers,
//! case records and the command-line driver shared by every group binary.
pub mod util;
pub use util::*;

use std::io::Write;

fn usage() -> ! {
    eprintln!("usage: vh_<group> <Cnn> cases --seed S --n N --out DIR [--shards K] [--tier quick|thorough]\n       vh_<group> <Cnn> tables --out DIR");
    std::process::exit(2)
}

/// Entry point of a group binary. `cases(prop, ctx)` returns None for an unknown property;
/// `tables(prop, out_dir)` writes regenerated Coq tables (Gen/*.v) into out_dir.
pub fn run_main(cases: impl Fn(&str, &Ctx) -> Option<Vec<Case>>, tables: impl Fn(&str, &str) -> bool) {
    if std::env::var("VH_DEBUG").is_err() { std::panic::set_hook(Box::new(|_| {})); }
    let args: Vec<String> = std::env::args().collect();
    if args.len() < 3 { usage() }
    let prop = args[1].as_str();
    let cmd = args[2].as_str();
    let mut seed = 1u64; let mut n = 1000usize; let mut out = String::from("."); let mut shards = 16usize;
    let mut tier = Tier::Quick;
    let mut i = 3;
    while i < args.len() {
        match args[i].as_str() {
            "--seed" => { seed = args[i + 1].parse().unwrap(); i += 2 }
            "--n" => { n = args[i + 1].parse().unwrap(); i += 2 }
            "--out" => { out = args[i + 1].clone(); i += 2 }
            "--shards" => { shards = args[i + 1].parse().unwrap(); i += 2 }
            "--tier" => { tier = if args[i + 1] == "thorough" { Tier::Thorough } else { Tier::Quick }; i += 2 }
            _ => usage(),
        }
    }
    match cmd {
        "cases" => {
            let ctx = Ctx { seed, n, tier };
            let cases = match cases(prop, &ctx) { Some(c) => c, None => { eprintln!("unknown property {prop}"); std::process::exit(2) } };
            std::fs::create_dir_all(&out).unwrap();
            let shards = shards.max(1).min(cases.len().max(1));
            let mut files: Vec<_> = (0..shards)
                .map(|k| std::io::BufWriter::new(std::fs::File::create(format!("{out}/shard_{k}.body")).unwrap()))
                .collect();
            let mut meta = std::io::BufWriter::new(std::fs::File::create(format!("{out}/cases.jsonl")).unwrap());
            for (idx, c) in cases.iter().enumerate() {
                if !c.coq.is_empty() {
                    writeln!(files[idx % shards], "({}, {})", idx, c.coq).unwrap();
                }
                let (o, class, detail) = match &c.oracle {
                    Oracle::Holds => ("holds", "", ""),
                    Oracle::Fails { class, detail } => ("fails", class.as_str(), detail.as_str()),
                    Oracle::NotApplicable => ("na", "", ""),
                };
                let j = serde_json::json!({"idx": idx, "key": c.key, "oracle": o, "class": class, "detail": detail,
                                           "has_coq": !c.coq.is_empty(), "desc": c.desc});
                writeln!(meta, "{}", j).unwrap();
            }
            println!("cases={} shards={}", cases.len(), shards);
        }
        "tables" => { if !tables(prop, &out) { eprintln!("no tables for {prop}"); std::process::exit(2) } }
        _ => usage(),
    }
}
