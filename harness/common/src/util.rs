//! Shared helpers: PRNG, Coq term printers, case records.
#![allow(dead_code)]
use serde_json::Value;
use std::panic::{catch_unwind, AssertUnwindSafe};

/// SplitMix64: every random choice of a run derives from one state.
#[derive(Clone)]
pub struct Rng(pub u64);
impl Rng {
    pub fn new(seed: u64) -> Self { Rng(seed ^ 0x9E37_79B9_7F4A_7C15) }
    pub fn next(&mut self) -> u64 {
        self.0 = self.0.wrapping_add(0x9E37_79B9_7F4A_7C15);
        let mut z = self.0;
        z = (z ^ (z >> 30)).wrapping_mul(0xBF58_476D_1CE4_E5B9);
        z = (z ^ (z >> 27)).wrapping_mul(0x94D0_49BB_1331_11EB);
        z ^ (z >> 31)
    }
    /// uniform in [0, n)
    pub fn below(&mut self, n: u64) -> u64 { if n == 0 { 0 } else { self.next() % n } }
    pub fn range(&mut self, lo: u64, hi: u64) -> u64 { lo + self.below(hi - lo + 1) }
    pub fn coin(&mut self) -> bool { self.next() & 1 == 1 }
    pub fn chance(&mut self, num: u64, den: u64) -> bool { self.below(den) < num }
    pub fn pick<'a, T>(&mut self, xs: &'a [T]) -> &'a T { &xs[self.below(xs.len() as u64) as usize] }
    pub fn fork(&mut self) -> Rng { Rng(self.next()) }
}

#[derive(Clone, Debug)]
pub enum Oracle {
    /// the property (evaluated directly on the implementation) held on this case
    Holds,
    /// the property failed on the implementation; `class` names the failing-input class
    Fails { class: String, detail: String },
    /// this case only feeds the model/implementation comparison
    NotApplicable,
}

#[derive(Clone, Debug)]
pub struct Case {
    /// Coq term of the property's case type (input and what the implementation did)
    pub coq: String,
    /// human/replay description (JSON)
    pub desc: Value,
    /// key for distinctness; empty string = trivial case
    pub key: String,
    pub oracle: Oracle,
}

#[derive(Clone, Copy, PartialEq, Eq, Debug)]
pub enum Tier { Quick, Thorough }

pub struct Ctx { pub seed: u64, pub n: usize, pub tier: Tier }

// ---- Coq term printers (all numbers are N unless stated) ----
pub fn c_n<T: Into<u128>>(x: T) -> String { format!("{}", x.into()) }
pub fn c_z(x: i128) -> String { if x < 0 { format!("({})%Z", x) } else { format!("{}%Z", x) } }
pub fn c_bool(b: bool) -> String { (if b { "true" } else { "false" }).into() }
pub fn c_list<I: IntoIterator<Item = String>>(xs: I) -> String {
    let v: Vec<String> = xs.into_iter().collect();
    format!("[{}]", v.join(";"))
}
pub fn c_bytes(b: &[u8]) -> String { c_list(b.iter().map(|x| x.to_string())) }
/// string as list of Unicode scalar values
pub fn c_str(s: &str) -> String { c_list(s.chars().map(|c| (c as u32).to_string())) }
/// string as list of UTF-8 bytes
pub fn c_utf8(s: &str) -> String { c_bytes(s.as_bytes()) }
pub fn c_opt(o: Option<String>) -> String { match o { Some(s) => format!("(Some {})", s), None => "None".into() } }
pub fn c_pair(a: &str, b: &str) -> String { format!("({}, {})", a, b) }
pub fn c_tuple(xs: &[String]) -> String { format!("({})", xs.join(", ")) }
/// outcome: Ok v / Err class / Panic 0
pub fn c_ok(v: &str) -> String { format!("(Ok {})", v) }
pub fn c_err(class: u32) -> String { format!("(Err {})", class) }
pub fn c_panic() -> String { "(Panic 0)".into() }

/// Run `f`, turning a panic into None. The default panic hook is silenced by main().
pub fn catch<T>(f: impl FnOnce() -> T) -> Option<T> { catch_unwind(AssertUnwindSafe(f)).ok() }

pub fn hex(b: &[u8]) -> String { b.iter().map(|x| format!("{:02x}", x)).collect() }

/// random string helpers
pub fn rand_ascii(r: &mut Rng, max_len: u64, alphabet: &[u8]) -> String {
    let n = r.below(max_len + 1);
    (0..n).map(|_| *r.pick(alphabet) as char).collect()
}
pub fn rand_unicode_char(r: &mut Rng) -> char {
    loop {
        let c = match r.below(10) {
            0..=4 => r.range(0x20, 0x7e) as u32,
            5 => r.range(0, 0x1f) as u32,
            6 => r.range(0x80, 0x7ff) as u32,
            7 => *r.pick(&[0x85u32, 0xa0, 0x1680, 0x2000, 0x200a, 0x2028, 0x2029, 0x202f, 0x205f, 0x3000, 0x200b, 0xfeff]),
            8 => r.range(0x800, 0xffff) as u32,
            _ => r.range(0x10000, 0x10ffff) as u32,
        };
        if let Some(ch) = char::from_u32(c) { return ch; }
    }
}
