//! C13 — attribute operations on InMemDicomObject (object/src/mem.rs apply, apply_leaf, ...).
use crate::rle::{c_bytes, c_str};
use dicom_core::dictionary::{DataDictionary, DataDictionaryEntry};
use dicom_core::ops::{ApplyOp, AttributeAction, AttributeOp, AttributeSelector, AttributeSelectorStep};
use dicom_core::value::{DataSetSequence, DicomDate, PixelFragmentSequence, Value};
use dicom_core::{DataElement, PrimitiveValue, Tag, VR};
use dicom_dictionary_std::StandardDataDictionary;
use dicom_object::ops::ApplyError;
use dicom_object::InMemDicomObject;
use dicom_parser::dataset::IntoTokens;
use dicom_transfer_syntax_registry::TransferSyntaxRegistry;
use dicom_encoding::TransferSyntaxIndex;
use serde_json::json;
use std::collections::BTreeMap;
use vhc::*;

// ---------------------------------------------------------------- canonical tree (also the reference model's state)
#[derive(Clone, Debug, PartialEq)]
pub enum CPrim {
    Empty,
    Str(String),
    Strs(Vec<String>),
    Num(u8, Vec<u64>), // type index, bit patterns
    Tags(Vec<u32>),
    Other(u8, Vec<String>),
}
#[derive(Clone, Debug, PartialEq)]
pub enum CVal {
    Prim(CPrim),
    Seq(Vec<CObj>),
    Pix(Vec<u32>, Vec<Vec<u8>>),
}
pub type CObj = BTreeMap<u32, (u16, CVal)>; // tag -> (vr code, value)

fn vr_code(vr: VR) -> u16 { let b = vr.to_bytes(); ((b[0] as u16) << 8) | b[1] as u16 }
const SQ: u16 = 21329;
const UN: u16 = 21838;
const OB: u16 = 20290;
fn tagn(t: Tag) -> u32 { ((t.0 as u32) << 16) | t.1 as u32 }

pub fn cprim_pub(p: &PrimitiveValue) -> CPrim { cprim(p) }
pub fn c_prim_pub(p: &CPrim) -> String { c_prim(p) }
fn cprim(p: &PrimitiveValue) -> CPrim {
    use PrimitiveValue::*;
    match p {
        Empty => CPrim::Empty,
        Str(s) => CPrim::Str(s.clone()),
        Strs(l) => CPrim::Strs(l.iter().cloned().collect()),
        U8(l) => CPrim::Num(0, l.iter().map(|x| *x as u64).collect()),
        I16(l) => CPrim::Num(1, l.iter().map(|x| *x as u16 as u64).collect()),
        U16(l) => CPrim::Num(2, l.iter().map(|x| *x as u64).collect()),
        I32(l) => CPrim::Num(3, l.iter().map(|x| *x as u32 as u64).collect()),
        U32(l) => CPrim::Num(4, l.iter().map(|x| *x as u64).collect()),
        I64(l) => CPrim::Num(5, l.iter().map(|x| *x as u64).collect()),
        U64(l) => CPrim::Num(6, l.iter().copied().collect()),
        F32(l) => CPrim::Num(7, l.iter().map(|x| x.to_bits() as u64).collect()),
        F64(l) => CPrim::Num(8, l.iter().map(|x| x.to_bits()).collect()),
        Tags(l) => CPrim::Tags(l.iter().map(|t| tagn(*t)).collect()),
        Date(l) => CPrim::Other(0, l.iter().map(|d| d.to_encoded()).collect()),
        DateTime(l) => CPrim::Other(1, l.iter().map(|d| d.to_encoded()).collect()),
        Time(l) => CPrim::Other(2, l.iter().map(|d| d.to_encoded()).collect()),
    }
}
pub fn cobj(o: &InMemDicomObject) -> CObj {
    let mut m = CObj::new();
    for e in o.iter() {
        let v = match e.value() {
            Value::Primitive(p) => CVal::Prim(cprim(p)),
            Value::Sequence(s) => CVal::Seq(s.items().iter().map(cobj).collect()),
            Value::PixelSequence(p) => CVal::Pix(p.offset_table().to_vec(), p.fragments().iter().map(|f| f.to_vec()).collect()),
        };
        m.insert(tagn(e.header().tag), (vr_code(e.header().vr), v));
    }
    m
}

fn c_prim(p: &CPrim) -> String {
    match p {
        CPrim::Empty => "PEmpty".into(),
        CPrim::Str(s) => format!("(PStr {})", c_str(s)),
        CPrim::Strs(l) => format!("(PStrs {})", c_list(l.iter().map(|s| c_str(s)))),
        CPrim::Num(t, l) => format!("(PNum {} {})", t, c_list(l.iter().map(|x| x.to_string()))),
        CPrim::Tags(l) => format!("(PTags {})", c_list(l.iter().map(|x| x.to_string()))),
        CPrim::Other(k, l) => format!("(POther {} {})", k, c_list(l.iter().map(|s| c_str(s)))),
    }
}
fn c_val(v: &CVal) -> String {
    match v {
        CVal::Prim(p) => format!("(VPrim {})", c_prim(p)),
        CVal::Seq(items) => format!("(VSeq {})", c_list(items.iter().map(c_obj))),
        CVal::Pix(bot, fr) => format!("(VPix {} {})", c_list(bot.iter().map(|x| x.to_string())), c_list(fr.iter().map(|f| c_bytes(f)))),
    }
}
pub fn c_obj(o: &CObj) -> String { c_list(o.iter().map(|(t, (vr, v))| format!("({}, {}, {})", t, vr, c_val(v)))) }

// ---------------------------------------------------------------- reference semantics (written from the doc comments of core/src/ops.rs)
#[derive(Clone, Debug)]
enum RAct { Remove, Empty, SetVr(u16), Set(CPrim), SetIfMissing(CPrim), Replace(CPrim), PushStr(String), PushNum(u8, [u64; 9], String), Truncate(usize) }
impl RAct {
    fn constructive(&self) -> bool { matches!(self, RAct::Set(_) | RAct::SetIfMissing(_) | RAct::PushStr(_) | RAct::PushNum(..)) }
}
fn dict_vr(t: u32) -> Option<u16> {
    StandardDataDictionary.by_tag(Tag((t >> 16) as u16, t as u16)).and_then(|e| e.vr().exact()).map(vr_code)
}
fn prim_is_empty(p: &CPrim) -> bool {
    match p {
        CPrim::Empty => true,
        CPrim::Str(s) => s.is_empty(),
        CPrim::Strs(l) => l.iter().map(|s| s.len() + 1).sum::<usize>() <= 1,
        CPrim::Num(_, l) => l.is_empty(),
        CPrim::Tags(l) => l.is_empty(),
        CPrim::Other(_, l) => l.is_empty(),
    }
}
fn new_value(vr: u16, p: &CPrim) -> CVal { if vr == SQ && prim_is_empty(p) { CVal::Seq(vec![]) } else { CVal::Prim(p.clone()) } }
fn default_vr(own: u8) -> u16 { match own { 3 => 21324, 4 => 21836, 1 => 21331, 2 => 21843, 7 => 17996, _ => 17988 } }

/// Err(class) means: the operation fails and the object is left as it was.
fn ref_leaf(o: &CObj, t: u32, a: &RAct) -> Result<CObj, u32> {
    let mut n = o.clone();
    let set = |n: &mut CObj, p: &CPrim| {
        let vr = n.get(&t).map(|e| e.0).unwrap_or_else(|| dict_vr(t).unwrap_or(UN));
        n.insert(t, (vr, new_value(vr, p)));
    };
    match a {
        RAct::Remove => { n.remove(&t); }
        RAct::Empty => { if let Some(e) = n.get_mut(&t) { e.1 = if e.0 == SQ { CVal::Seq(vec![]) } else { CVal::Prim(CPrim::Empty) }; } }
        RAct::SetVr(vr) => {
            if let Some(e) = n.get_mut(&t) {
                let ok = match e.1 { CVal::Seq(_) => *vr == SQ, CVal::Pix(..) => *vr == OB, CVal::Prim(_) => *vr != SQ };
                if ok { e.0 = *vr; }
            }
        }
        RAct::Set(p) => set(&mut n, p),
        RAct::SetIfMissing(p) => { if !n.contains_key(&t) { set(&mut n, p) } }
        RAct::Replace(p) => { if n.contains_key(&t) { set(&mut n, p) } }
        RAct::PushStr(s) => match n.get_mut(&t) {
            None => { n.insert(t, (dict_vr(t).unwrap_or(UN), CVal::Prim(CPrim::Str(s.clone())))); }
            Some(e) => match &mut e.1 {
                CVal::Prim(CPrim::Empty) => e.1 = CVal::Prim(CPrim::Strs(vec![s.clone()])),
                CVal::Prim(CPrim::Str(x)) => e.1 = CVal::Prim(CPrim::Strs(vec![x.clone(), s.clone()])),
                CVal::Prim(CPrim::Strs(l)) => l.push(s.clone()),
                CVal::Prim(_) => return Err(8),
                _ => return Err(3),
            },
        },
        RAct::PushNum(own, casts, text) => match n.get_mut(&t) {
            None => { n.insert(t, (dict_vr(t).unwrap_or(default_vr(*own)), CVal::Prim(CPrim::Num(*own, vec![casts[*own as usize]])))); }
            Some(e) => match &mut e.1 {
                CVal::Prim(CPrim::Empty) => e.1 = CVal::Prim(CPrim::Num(*own, vec![casts[*own as usize]])),
                CVal::Prim(CPrim::Str(x)) => e.1 = CVal::Prim(CPrim::Strs(vec![x.clone(), text.clone()])),
                CVal::Prim(CPrim::Strs(l)) => l.push(text.clone()),
                CVal::Prim(CPrim::Num(ty, l)) => l.push(casts[*ty as usize]),
                CVal::Prim(_) => return Err(8),
                _ => return Err(3),
            },
        },
        RAct::Truncate(k) => {
            if let Some(e) = n.get_mut(&t) {
                match &mut e.1 {
                    CVal::Prim(CPrim::Empty) => {}
                    CVal::Prim(CPrim::Str(_)) => { if *k == 0 { e.1 = CVal::Prim(CPrim::Empty) } }
                    CVal::Prim(CPrim::Strs(l)) => l.truncate(*k),
                    CVal::Prim(CPrim::Num(_, l)) => l.truncate(*k),
                    CVal::Prim(CPrim::Tags(l)) => l.truncate(*k),
                    CVal::Prim(CPrim::Other(_, l)) => l.truncate(*k),
                    CVal::Seq(l) => l.truncate(*k),
                    CVal::Pix(_, f) => f.truncate(*k),
                }
            }
        }
    }
    Ok(n)
}

fn ref_apply(o: &CObj, steps: &[(u32, u32)], leaf: u32, a: &RAct) -> Result<CObj, u32> {
    let Some(((t, item), rest)) = steps.split_first() else { return ref_leaf(o, leaf, a) };
    let mut n = o.clone();
    match n.get_mut(t) {
        None => {
            if !a.constructive() { return Err(6); }
            let vr = dict_vr(*t).unwrap_or(UN);
            if vr != SQ && vr != UN { return Err(7); }
            if *item != 0 { return Err(6); }
            let it = ref_apply(&CObj::new(), rest, leaf, a)?;
            n.insert(*t, (SQ, CVal::Seq(vec![it])));
        }
        Some((_, CVal::Seq(items))) => {
            let i = *item as usize;
            if i < items.len() { items[i] = ref_apply(&items[i], rest, leaf, a)?; }
            else if i == items.len() && a.constructive() { let it = ref_apply(&CObj::new(), rest, leaf, a)?; items.push(it); }
            else { return Err(6); }
        }
        Some(_) => return Err(7),
    }
    Ok(n)
}

// ---------------------------------------------------------------- generators
const STD_TAGS: &[(u16, u16)] = &[
    (0x0008, 0x0005), (0x0008, 0x0008), (0x0008, 0x0018), (0x0008, 0x0020), (0x0008, 0x0060), (0x0010, 0x0010), (0x0010, 0x0020), (0x0010, 0x1010),
    (0x0018, 0x0050), (0x0020, 0x0013), (0x0028, 0x0010), (0x0028, 0x0011), (0x0028, 0x0100), (0x0028, 0x1052), (0x0018, 0x6020), (0x0018, 0x6024),
    (0x0008, 0x1140), (0x0040, 0xA730), (0x0018, 0x6011), (0x0040, 0x0275), (0x0028, 0x0009), (0x0020, 0x9158), (0x0018, 0x9087), (0x0028, 0x0106),
    (0x7FE0, 0x0010),
];
const PRIV_TAGS: &[(u16, u16)] = &[(0x0009, 0x0010), (0x0009, 0x1001), (0x0009, 0x1002), (0x0011, 0x1001), (0x0043, 0x102A)];
const UNK_TAGS: &[(u16, u16)] = &[(0x0008, 0x0FFF), (0x0012, 0x7777), (0x5555, 0x0002), (0x0018, 0xFFF0)];
const SEQ_TAGS: &[(u16, u16)] = &[(0x0008, 0x1140), (0x0040, 0xA730), (0x0018, 0x6011), (0x0040, 0x0275)];

fn pick_tag(r: &mut Rng) -> Tag {
    let (g, e) = match r.below(10) { 0..=5 => *r.pick(STD_TAGS), 6 | 7 => *r.pick(PRIV_TAGS), _ => *r.pick(UNK_TAGS) };
    Tag(g, e)
}
fn pick_seq_tag(r: &mut Rng) -> Tag {
    let (g, e) = match r.below(20) { 0..=11 => *r.pick(SEQ_TAGS), 12 => *r.pick(STD_TAGS), 13..=16 => *r.pick(PRIV_TAGS), _ => *r.pick(UNK_TAGS) };
    Tag(g, e)
}
fn small_str(r: &mut Rng) -> String {
    match r.below(8) { 0 => String::new(), 1 => "A".into(), 2 => "ISO_IR 100".into(), 3 => "12".into(), 4 => "1.5".into(), _ => rand_ascii(r, 7, b"ABCdef^ 0123.") }
}
fn gen_prim(r: &mut Rng) -> PrimitiveValue {
    use PrimitiveValue as P;
    match r.below(16) {
        0 => P::Empty,
        1 | 2 | 3 => P::Str(small_str(r)),
        4 | 5 => { let n = r.below(4); P::Strs((0..n).map(|_| small_str(r)).collect()) }
        6 => { let n = r.below(4); P::U16((0..n).map(|_| r.below(70000) as u16).collect()) }
        7 => { let n = r.below(3); P::I16((0..n).map(|_| r.next() as i16).collect()) }
        8 => { let n = r.below(3); P::U32((0..n).map(|_| r.next() as u32).collect()) }
        9 => { let n = r.below(3); P::I32((0..n).map(|_| r.next() as i32).collect()) }
        10 => { let n = r.below(3); P::F32((0..n).map(|_| *r.pick(&[0.0f32, -1.5, 3.25e10, f32::NAN, 1e-3])).collect()) }
        11 => { let n = r.below(3); P::F64((0..n).map(|_| *r.pick(&[0.0f64, -2.5, 1e300, f64::INFINITY, 0.1])).collect()) }
        12 => { let n = r.below(5); P::U8((0..n).map(|_| r.below(256) as u8).collect()) }
        13 => { let n = r.below(3); P::Tags((0..n).map(|_| pick_tag(r)).collect()) }
        14 => P::Date([DicomDate::from_ymd(2020, 1 + r.below(12) as u8, 1 + r.below(28) as u8).unwrap()].as_ref().into()),
        _ => { let n = r.below(3); if r.coin() { P::U64((0..n).map(|_| r.next()).collect()) } else { P::I64((0..n).map(|_| r.next() as i64).collect()) } }
    }
}
/// a value suited to the VR (so that the object can be written and read back)
fn gen_prim_for(r: &mut Rng, vr: VR) -> PrimitiveValue {
    use PrimitiveValue as P;
    let n = r.below(3) + 1;
    match vr {
        VR::US => P::U16((0..n).map(|_| r.next() as u16).collect()),
        VR::SS => P::I16((0..n).map(|_| r.next() as i16).collect()),
        VR::UL => P::U32((0..n).map(|_| r.next() as u32).collect()),
        VR::SL => P::I32((0..n).map(|_| r.next() as i32).collect()),
        VR::FL => P::F32((0..n).map(|_| (r.below(1000) as f32) / 8.0).collect()),
        VR::FD => P::F64((0..n).map(|_| (r.below(1000) as f64) / 8.0).collect()),
        VR::OB | VR::UN | VR::OW => P::U8((0..2 * n).map(|_| r.below(256) as u8).collect()),
        VR::AT => P::Tags((0..n).map(|_| pick_tag(r)).collect()),
        VR::DA => P::Str("20200131".into()),
        VR::DS => P::Str(format!("{}.5", r.below(100))),
        VR::IS => P::Str(format!("{}", r.below(1000))),
        VR::UI => P::Str(format!("1.2.{}", r.below(1000))),
        VR::CS => { if r.coin() { P::Str(rand_ascii(r, 6, b"ABCDEF_")) } else { P::Strs((0..n).map(|_| rand_ascii(r, 5, b"ABCXYZ") + "Q").collect()) } }
        _ => P::Str(rand_ascii(r, 8, b"ABCdef^ 0123") + "x"),
    }
}
fn std_vr(t: Tag) -> VR {
    StandardDataDictionary.by_tag(t).and_then(|e| e.vr().exact()).unwrap_or(if t.0 % 2 == 1 && t.1 <= 0xFF { VR::LO } else { VR::UN })
}

fn gen_object(r: &mut Rng, depth: u32, wild: bool) -> InMemDicomObject {
    let mut o = InMemDicomObject::new_empty();
    let n = r.below(6);
    for _ in 0..n {
        let t = pick_tag(r);
        let vr = std_vr(t);
        if t == Tag(0x7FE0, 0x0010) {
            if r.coin() {
                let nf = r.below(3);
                let frags: Vec<Vec<u8>> = (0..nf).map(|_| { let l = 2 * r.below(3); (0..l).map(|_| r.below(256) as u8).collect() }).collect();
                let bot: Vec<u32> = if r.coin() { vec![] } else { vec![0] };
                o.put(DataElement::new(t, VR::OB, Value::PixelSequence(PixelFragmentSequence::new(bot, frags))));
            } else {
                o.put(DataElement::new(t, VR::OW, PrimitiveValue::U8((0..4).map(|_| r.below(256) as u8).collect())));
            }
        } else if vr == VR::SQ {
            let ni = if depth == 0 { 0 } else { r.below(3) };
            let items: Vec<InMemDicomObject> = (0..ni).map(|_| gen_object(r, depth - 1, wild)).collect();
            o.put(DataElement::new(t, VR::SQ, DataSetSequence::from(items)));
        } else if wild && r.chance(1, 4) {
            o.put(DataElement::new(t, vr, gen_prim(r)));
        } else {
            o.put(DataElement::new(t, vr, gen_prim_for(r, vr)));
        }
    }
    o
}

fn casts_u(x: u64, own: u8) -> ([u64; 9], String, AttributeAction) {
    // returns (the number cast to each element type (bit patterns), its text, the action)
    match own {
        3 => { let n = x as i32; ([n as u8 as u64, n as i16 as u16 as u64, n as u16 as u64, n as u32 as u64, n as u32 as u64, n as i64 as u64, n as u64, (n as f32).to_bits() as u64, (n as f64).to_bits()], n.to_string(), AttributeAction::PushI32(n)) }
        4 => { let n = x as u32; ([n as u8 as u64, n as i16 as u16 as u64, n as u16 as u64, n as i32 as u32 as u64, n as u64, n as i64 as u64, n as u64, (n as f32).to_bits() as u64, (n as f64).to_bits()], n.to_string(), AttributeAction::PushU32(n)) }
        1 => { let n = x as i16; ([n as u8 as u64, n as u16 as u64, n as u16 as u64, n as i32 as u32 as u64, n as u32 as u64, n as i64 as u64, n as u64, (n as f32).to_bits() as u64, (n as f64).to_bits()], n.to_string(), AttributeAction::PushI16(n)) }
        2 => { let n = x as u16; ([n as u8 as u64, n as i16 as u16 as u64, n as u64, n as i32 as u32 as u64, n as u32 as u64, n as i64 as u64, n as u64, (n as f32).to_bits() as u64, (n as f64).to_bits()], n.to_string(), AttributeAction::PushU16(n)) }
        7 => { let n = f32::from_bits(x as u32); ([n as u8 as u64, n as i16 as u16 as u64, n as u16 as u64, n as i32 as u32 as u64, n as u32 as u64, n as i64 as u64, n as u64, n.to_bits() as u64, (n as f64).to_bits()], n.to_string(), AttributeAction::PushF32(n)) }
        _ => { let n = f64::from_bits(x); ([n as u8 as u64, n as i16 as u16 as u64, n as u16 as u64, n as i32 as u32 as u64, n as u32 as u64, n as i64 as u64, n as u64, (n as f32).to_bits() as u64, n.to_bits()], n.to_string(), AttributeAction::PushF64(n)) }
    }
}

struct GenOp { op: AttributeOp, steps: Vec<(u32, u32)>, leaf: u32, ract: RAct, coq: String, desc: String }

fn gen_op(r: &mut Rng, cur: &InMemDicomObject) -> GenOp {
    // selector: 0..3 nested steps; biased towards existing paths
    let depth = match r.below(10) { 0..=4 => 0, 5..=7 => 1, 8 => 2, _ => 3 };
    let mut steps: Vec<(Tag, u32)> = vec![];
    let mut here: Option<&InMemDicomObject> = Some(cur);
    for _ in 0..depth {
        let mut t = pick_seq_tag(r);
        if let Some(o) = here {
            let seqs: Vec<Tag> = o.iter().filter(|e| e.items().is_some()).map(|e| e.header().tag).collect();
            if !seqs.is_empty() && r.chance(2, 3) { t = *r.pick(&seqs); }
        }
        let n_items = here.and_then(|o| o.get(t)).and_then(|e| e.items()).map(|i| i.len() as u32);
        let item = match n_items { Some(n) => match r.below(12) { 0 => n + 1, 1 | 2 | 3 => n, _ => r.below(n as u64 + 1) as u32 }, None => *r.pick(&[0u32, 0, 0, 0, 0, 0, 0, 1]) };
        here = here.and_then(|o| o.get(t)).and_then(|e| e.items()).and_then(|i| i.get(item as usize));
        steps.push((t, item));
    }
    let mut leaf = pick_tag(r);
    if let Some(o) = here {
        let tags: Vec<Tag> = o.iter().map(|e| e.header().tag).collect();
        if !tags.is_empty() && r.coin() { leaf = *r.pick(&tags); }
    }
    // most of the time keep value-setting actions away from sequence attributes (known class PrimitiveUnderSqVr)
    let leaf_is_sq = std_vr(leaf) == VR::SQ || here.and_then(|o| o.get(leaf)).map(|e| e.header().vr == VR::SQ).unwrap_or(false);
    let s = small_str(r);
    let roll = r.below(22);
    let roll = if leaf_is_sq && (5..=19).contains(&roll) && r.chance(4, 5) { *r.pick(&[0u64, 2, 3, 20]) } else { roll };
    let (action, ract, ca): (AttributeAction, RAct, String) = match roll {
        0 | 1 => (AttributeAction::Remove, RAct::Remove, "ARemove".into()),
        2 => (AttributeAction::Empty, RAct::Empty, "AEmpty".into()),
        3 | 4 => { let vr = *r.pick(&[VR::LO, VR::SQ, VR::UN, VR::US, VR::OB, VR::IS, VR::PN]); (AttributeAction::SetVr(vr), RAct::SetVr(vr_code(vr)), format!("(ASetVr {})", vr_code(vr))) }
        5 | 6 => { let p = if r.chance(1, 3) { gen_prim(r) } else { gen_prim_for(r, std_vr(leaf)) }; let c = cprim(&p); (AttributeAction::Set(p), RAct::Set(c.clone()), format!("(ASet {})", c_prim(&c))) }
        7 | 8 => (AttributeAction::SetStr(s.clone().into()), RAct::Set(CPrim::Str(s.clone())), format!("(ASet (PStr {}))", c_str(&s))),
        9 => { let p = gen_prim(r); let c = cprim(&p); (AttributeAction::SetIfMissing(p), RAct::SetIfMissing(c.clone()), format!("(ASetIfMissing {})", c_prim(&c))) }
        10 => (AttributeAction::SetStrIfMissing(s.clone().into()), RAct::SetIfMissing(CPrim::Str(s.clone())), format!("(ASetIfMissing (PStr {}))", c_str(&s))),
        11 => { let p = gen_prim(r); let c = cprim(&p); (AttributeAction::Replace(p), RAct::Replace(c.clone()), format!("(AReplace {})", c_prim(&c))) }
        12 => (AttributeAction::ReplaceStr(s.clone().into()), RAct::Replace(CPrim::Str(s.clone())), format!("(AReplace (PStr {}))", c_str(&s))),
        13 | 14 | 15 => (AttributeAction::PushStr(s.clone().into()), RAct::PushStr(s.clone()), format!("(APushStr {})", c_str(&s))),
        16 | 17 | 18 | 19 => {
            let own = *r.pick(&[3u8, 4, 1, 2, 7, 8]);
            let x = match r.below(6) { 0 => 0, 1 => u64::MAX, 2 => 300, 3 => 70000, 4 => (-1.5f64).to_bits(), _ => r.next() };
            let x = if own == 7 && r.coin() { (*r.pick(&[1.5f32, -3.0e9, 1e20, f32::NAN, 255.9])).to_bits() as u64 } else if own == 8 && r.coin() { (*r.pick(&[2.5f64, -1.0, 1e40, f64::NAN, 65535.7])).to_bits() } else { x };
            let (casts, text, act) = casts_u(x, own);
            (act, RAct::PushNum(own, casts, text.clone()), format!("(APushNum {} {} {})", own, c_list(casts.iter().map(|c| c.to_string())), c_str(&text)))
        }
        _ => { let k = r.below(3) as usize; (AttributeAction::Truncate(k), RAct::Truncate(k), format!("(ATruncate {})", k)) }
    };
    let mut sel_steps: Vec<AttributeSelectorStep> = steps.iter().map(|(t, i)| AttributeSelectorStep::Nested { tag: *t, item: *i }).collect();
    sel_steps.push(AttributeSelectorStep::Tag(leaf));
    let selector = AttributeSelector::new(sel_steps).unwrap();
    let desc = format!("{} {:?}", selector, action);
    let csteps = c_list(steps.iter().map(|(t, i)| format!("({}, {})", tagn(*t), i)));
    GenOp {
        op: AttributeOp { selector, action },
        steps: steps.iter().map(|(t, i)| (tagn(*t), *i)).collect(),
        leaf: tagn(leaf),
        ract,
        coq: format!("({}, {}, {})", csteps, tagn(leaf), ca),
        desc,
    }
}

fn apply_err_class(e: &ApplyError) -> u32 {
    match e {
        ApplyError::UnsupportedAttribute => 1,
        ApplyError::Mandatory => 2,
        ApplyError::IncompatibleTypes { .. } => 3,
        ApplyError::IllegalExtend => 4,
        ApplyError::UnsupportedAction => 5,
        ApplyError::MissingSequence { .. } => 6,
        ApplyError::NotASequence { .. } => 7,
        ApplyError::Modify { .. } => 8,
        _ => 9,
    }
}

// ---------------------------------------------------------------- write / read back
fn shape_ok(o: &CObj) -> bool {
    o.iter().all(|(t, (vr, v))| match v {
        CVal::Prim(_) => *vr != SQ,
        CVal::Seq(items) => *vr == SQ && items.iter().all(shape_ok),
        CVal::Pix(..) => *vr == OB && *t == 0x7FE0_0010,
    })
}
fn kind_ok(o: &CObj) -> bool {
    o.iter().all(|(t, (vr, v))| match v {
        CVal::Prim(_) => true,
        CVal::Seq(items) => *vr == SQ && items.iter().all(kind_ok),
        CVal::Pix(..) => *vr == OB && *t == 0x7FE0_0010,
    })
}
/// value kind and VR go together well enough for the value to survive encoding
fn compat(vr: u16, p: &CPrim) -> bool {
    let v = [(vr >> 8) as u8, vr as u8];
    match (&v, p) {
        (_, CPrim::Empty) => true,
        (b"US", CPrim::Num(2, _)) | (b"SS", CPrim::Num(1, _)) | (b"UL", CPrim::Num(4, _)) | (b"SL", CPrim::Num(3, _)) | (b"FL", CPrim::Num(7, _)) | (b"FD", CPrim::Num(8, _)) => true,
        (b"OB", CPrim::Num(0, _)) | (b"UN", CPrim::Num(0, _)) => true,
        (b"AT", CPrim::Tags(_)) => true,
        (b"AE" | b"AS" | b"CS" | b"LO" | b"LT" | b"PN" | b"SH" | b"ST" | b"UC" | b"UI" | b"UR" | b"UT" | b"DS" | b"IS" | b"DA" | b"TM" | b"DT", CPrim::Str(_) | CPrim::Strs(_)) => true,
        _ => false,
    }
}
fn all_compat(o: &CObj) -> bool {
    o.values().all(|(vr, v)| match v { CVal::Prim(p) => compat(*vr, p), CVal::Seq(items) => items.iter().all(all_compat), CVal::Pix(..) => true })
}
/// structure of an object: tags, kinds, item counts (what must survive any write/read), plus text of compatible values
fn skeleton(o: &InMemDicomObject, with_values: bool) -> String {
    let mut v = vec![];
    for e in o.iter() {
        let t = e.header().tag;
        let d = match e.value() {
            Value::Primitive(p) => {
                if e.header().vr == VR::SQ { "S[]".to_string() }
                else if with_values {
                    // binary values of odd length come back padded with one zero byte
                    let p = match p { PrimitiveValue::U8(b) if b.len() % 2 == 1 => { let mut b = b.to_vec(); b.push(0); PrimitiveValue::U8(b.into()) } _ => p.clone() };
                    // padding and white space around the components of a value are not significant
                    let t = p.to_str();
                    let comps: Vec<&str> = t.split('\\').map(|c| c.trim_matches(|c: char| c == ' ' || c == '\0')).collect();
                    format!("P:{}", comps.join("\\"))
                } else { "P".into() }
            }
            Value::Sequence(s) => format!("S[{}]", s.items().iter().map(|i| skeleton(i, with_values)).collect::<Vec<_>>().join("|")),
            Value::PixelSequence(p) => format!("X{:?}{:?}", p.offset_table(), p.fragments()),
        };
        v.push(format!("{}={}", t, d));
    }
    v.join(",")
}

/// Implicit VR: the reader takes the VR from the dictionary, so the structure only survives when
/// the dictionary does not call a non-sequence element a sequence
fn ile_safe(o: &CObj) -> bool {
    o.iter().all(|(t, (_, v))| match v {
        CVal::Prim(_) => dict_vr(*t) != Some(SQ),
        CVal::Seq(items) => items.iter().all(ile_safe),
        CVal::Pix(..) => true,
    })
}

const TS_LIST: &[&str] = &["1.2.840.10008.1.2", "1.2.840.10008.1.2.1", "1.2.840.10008.1.2.2", "1.2.840.10008.1.2.1.99"];

/// None: fine. Some(class, detail): the object cannot be written / does not read back.
fn write_read(o: &InMemDicomObject, values: bool) -> Option<(String, String)> {
    let ile_ok = ile_safe(&cobj(o));
    for uid in TS_LIST {
        if *uid == "1.2.840.10008.1.2" && !ile_ok { continue; }
        let ts = TransferSyntaxRegistry.get(uid).unwrap();
        let mut out = vec![];
        match catch(|| o.write_dataset_with_ts(&mut out, ts)) {
            None => return Some(("WritePanic".into(), format!("ts {}", uid))),
            Some(Err(e)) => return Some(("WriteError".into(), format!("ts {}: {}", uid, e))),
            Some(Ok(())) => {}
        }
        match catch(|| InMemDicomObject::read_dataset_with_ts(&out[..], ts)) {
            None => return Some(("ReadBackPanic".into(), format!("ts {}", uid))),
            Some(Err(e)) => return Some(("ReadBackError".into(), format!("ts {}: {}", uid, e))),
            Some(Ok(o2)) => {
                // implicit VR: value comparison only where the dictionary knows the VR; keep to structure there
                let vals = values && *uid != "1.2.840.10008.1.2";
                if skeleton(o, vals) != skeleton(&o2, vals) {
                    return Some(("ReadBackDiffers".into(), format!("ts {}: {} -> {}", uid, skeleton(o, vals), skeleton(&o2, vals))));
                }
            }
        }
    }
    None
}

/// a data set sequence stored under a tag that the dictionary lists with a non-sequence VR
/// (possible through nested constructive operations when that VR is not exact, e.g. Pixel Data "OB or OW")
fn seq_under_non_sq_tag(o: &CObj) -> bool {
    o.iter().any(|(t, (_, v))| match v {
        CVal::Seq(items) => {
            let listed_non_sq = StandardDataDictionary.by_tag(Tag((*t >> 16) as u16, *t as u16)).map(|e| e.vr().exact() != Some(VR::SQ)).unwrap_or(false);
            listed_non_sq || items.iter().any(seq_under_non_sq_tag)
        }
        _ => false,
    })
}

fn tokens_panic(o: &InMemDicomObject) -> bool { catch(|| o.clone().into_tokens().count()).is_none() }

fn tags_of(o: &CObj, acc: &mut Vec<u32>) {
    for (t, (_, v)) in o { acc.push(*t); if let CVal::Seq(items) = v { for i in items { tags_of(i, acc) } } }
}

fn history_case(r: &mut Rng, init: InMemDicomObject, nops: usize, bucket: &str, fixed_ops: Option<Vec<GenOp>>) -> Case {
    let mut obj = init.clone();
    let c0 = cobj(&obj);
    let mut tags: Vec<u32> = vec![];
    tags_of(&c0, &mut tags);
    let mut steps = vec![];
    let mut descs = vec![];
    let mut fail: Option<(String, String)> = None;
    // a failure of a known class does not end the scrutiny of the history: a later failure of another class replaces it
    const KNOWN: &[&str] = &["PrimitiveUnderSqVr", "SequenceUnderNonSqTag"];
    let is_open = |f: &Option<(String, String)>| match f { None => true, Some((c, _)) => KNOWN.contains(&c.as_str()) };
    let mut fixed = fixed_ops.map(|v| v.into_iter());
    let mut all_shape_ok = shape_ok(&c0);
    for _ in 0..nops {
        let g = match fixed.as_mut() { Some(it) => match it.next() { Some(g) => g, None => break }, None => gen_op(r, &obj) };
        for (t, _) in &g.steps { tags.push(*t); }
        tags.push(g.leaf);
        let before = cobj(&obj);
        let res = catch(|| ApplyOp::apply(&mut obj, g.op.clone()));
        let after = cobj(&obj);
        let cres = match &res { None => c_panic(), Some(Ok(())) => c_ok("tt"), Some(Err(e)) => c_err(apply_err_class(e)) };
        descs.push(format!("{} => {}", g.desc, cres));
        // reference semantics
        let want = ref_apply(&before, &g.steps, g.leaf, &g.ract);
        if is_open(&fail) {
            let prev = fail.take();
            match (&want, &res) {
                (Ok(w), Some(Ok(()))) => { if *w != after { fail = Some(("RefinementDiffers".into(), format!("{}: expected {:?} got {:?}", g.desc, w, after))); } }
                (Err(c), Some(Err(e))) => {
                    if *c != apply_err_class(e) { fail = Some(("ErrorClassDiffers".into(), format!("{}: expected {} got {}", g.desc, c, apply_err_class(e)))); }
                    else if before != after {
                        let class = if !g.steps.is_empty() && g.ract.constructive() { "NestedFailureLeavesPath" } else { "FailedOpChangedObject" };
                        fail = Some((class.into(), format!("{}: {:?} -> {:?}", g.desc, before, after)));
                    }
                }
                (_, None) => fail = Some(("ApplyPanic".into(), g.desc.clone())),
                _ => fail = Some(("OutcomeDiffers".into(), format!("{}: expected {:?} got {}", g.desc, want.as_ref().map(|_| "Ok").map_err(|e| *e), cres))),
            }
            if fail.is_none() { fail = prev; }
        }
        let wp = tokens_panic(&obj);
        all_shape_ok = all_shape_ok && shape_ok(&after);
        if is_open(&fail) {
            let prev = fail.take();
            if wp {
                let class = if !shape_ok(&after) { "WritePanicShape" } else { "WritePanic" };
                fail = Some((class.into(), format!("after {}", g.desc)));
            } else if shape_ok(&after) {
                if let Some((c, d)) = write_read(&obj, all_compat(&after)) {
                    let c = if seq_under_non_sq_tag(&after) && c.starts_with("ReadBack") { "SequenceUnderNonSqTag".to_string() } else { c };
                    fail = Some((c, format!("after {}: {}", g.desc, d)));
                }
            } else {
                let class = if kind_ok(&after) { "PrimitiveUnderSqVr" } else { "ShapeBroken" };
                fail = Some((class.into(), format!("after {}: value kind and VR disagree: {:?}", g.desc, after)));
            }
            if fail.is_none() { fail = prev; }
        }
        steps.push(format!("({}, {}, {}, {})", g.coq, cres, c_obj(&after), c_bool(wp)));
    }
    tags.sort(); tags.dedup();
    let tbl = c_list(tags.iter().map(|t| format!("({}, {})", t, c_opt(dict_vr(*t).map(|v| v.to_string())))));
    let oracle = match fail { Some((class, detail)) => Oracle::Fails { class, detail }, None => Oracle::Holds };
    Case {
        coq: format!("({}, {}, {})", tbl, c_obj(&c0), c_list(steps)),
        desc: json!({"bucket": bucket, "initial": format!("{:?}", c0), "ops": descs}),
        key: if descs.is_empty() { String::new() } else { format!("{:?}|{:?}", c0, descs) },
        oracle,
    }
}

fn mk_op(steps: &[(Tag, u32)], leaf: Tag, action: AttributeAction, ract: RAct, ca: &str) -> GenOp {
    let mut sel_steps: Vec<AttributeSelectorStep> = steps.iter().map(|(t, i)| AttributeSelectorStep::Nested { tag: *t, item: *i }).collect();
    sel_steps.push(AttributeSelectorStep::Tag(leaf));
    let selector = AttributeSelector::new(sel_steps).unwrap();
    let desc = format!("{} {:?}", selector, action);
    GenOp { op: AttributeOp { selector, action }, steps: steps.iter().map(|(t, i)| (tagn(*t), *i)).collect(), leaf: tagn(leaf), ract,
            coq: format!("({}, {}, {})", c_list(steps.iter().map(|(t, i)| format!("({}, {})", tagn(*t), i))), tagn(leaf), ca), desc }
}

pub fn cases(ctx: &Ctx) -> Vec<Case> {
    let mut r = Rng::new(ctx.seed);
    let mut out = vec![];
    // ---- fixed corpus: the suspected defects of DESIGN section 9 and the ones found while modelling
    {
        let pn = Tag(0x0010, 0x0010);
        // failing push on a U16 element must leave it in place
        let mut o = InMemDicomObject::new_empty();
        o.put(DataElement::new(Tag(0x0028, 0x0010), VR::US, PrimitiveValue::from(512u16)));
        o.put(DataElement::new(Tag(0x0028, 0x0009), VR::AT, PrimitiveValue::Tags([Tag(0x18, 0x1063)].as_ref().into())));
        let ops = vec![
            mk_op(&[], Tag(0x0028, 0x0009), AttributeAction::PushStr("x".into()), RAct::PushStr("x".into()), "(APushStr [120])"),
            { let (c, t, a) = casts_u(7, 2); mk_op(&[], Tag(0x0028, 0x0009), a, RAct::PushNum(2, c, t.clone()), &format!("(APushNum 2 {} {})", c_list(c.iter().map(|x| x.to_string())), c_str(&t))) },
            { let (c, t, a) = casts_u(7, 2); mk_op(&[], Tag(0x0028, 0x0010), a, RAct::PushNum(2, c, t.clone()), &format!("(APushNum 2 {} {})", c_list(c.iter().map(|x| x.to_string())), c_str(&t))) },
        ];
        out.push(history_case(&mut r, o, 3, "corpus-failed-push", Some(ops)));
        // constructive nested op on a private and on an unknown tag, then write
        let ops = vec![
            mk_op(&[(Tag(0x0009, 0x1001), 0)], pn, AttributeAction::SetStr("A^B".into()), RAct::Set(CPrim::Str("A^B".into())), "(ASet (PStr [65;94;66]))"),
            mk_op(&[(Tag(0x0012, 0x7777), 0), (Tag(0x0008, 0x1140), 0)], Tag(0x0008, 0x0018), AttributeAction::SetStr("1.2".into()), RAct::Set(CPrim::Str("1.2".into())), "(ASet (PStr [49;46;50]))"),
        ];
        out.push(history_case(&mut r, InMemDicomObject::new_empty(), 2, "corpus-unknown-tag-sequence", Some(ops)));
        // SetVr on a missing attribute; SetVr LO on a sequence; SetVr SQ on a string
        let mut o = InMemDicomObject::new_empty();
        o.put(DataElement::new(Tag(0x0008, 0x1140), VR::SQ, DataSetSequence::from(vec![InMemDicomObject::new_empty()])));
        o.put(DataElement::new(pn, VR::PN, PrimitiveValue::from("A^B")));
        let ops = vec![
            mk_op(&[], Tag(0x0010, 0x0020), AttributeAction::SetVr(VR::LO), RAct::SetVr(vr_code(VR::LO)), &format!("(ASetVr {})", vr_code(VR::LO))),
            mk_op(&[], Tag(0x0008, 0x1140), AttributeAction::SetVr(VR::LO), RAct::SetVr(vr_code(VR::LO)), &format!("(ASetVr {})", vr_code(VR::LO))),
            mk_op(&[], pn, AttributeAction::SetVr(VR::SQ), RAct::SetVr(SQ), &format!("(ASetVr {})", SQ)),
            mk_op(&[], pn, AttributeAction::SetVr(VR::LO), RAct::SetVr(vr_code(VR::LO)), &format!("(ASetVr {})", vr_code(VR::LO))),
        ];
        out.push(history_case(&mut r, o, 4, "corpus-setvr", Some(ops)));
        // (fixed 857a4f4) a failing constructive nested operation used to leave the created path behind
        let ops = vec![
            mk_op(&[(Tag(0x0008, 0x1140), 0), (pn, 0)], Tag(0x0010, 0x0020), AttributeAction::SetStr("x".into()), RAct::Set(CPrim::Str("x".into())), "(ASet (PStr [120]))"),
        ];
        out.push(history_case(&mut r, InMemDicomObject::new_empty(), 1, "corpus-nested-failure", Some(ops)));
        // known: a sequence created under the Pixel Data tag (dictionary VR "OB or OW" is not exact) does not read back in implicit VR
        let ops = vec![mk_op(&[(Tag(0x7FE0, 0x0010), 0)], Tag(0x0011, 0x1001), AttributeAction::SetStr("x".into()), RAct::Set(CPrim::Str("x".into())), "(ASet (PStr [120]))")];
        out.push(history_case(&mut r, InMemDicomObject::new_empty(), 1, "corpus-sequence-under-pixel-data", Some(ops)));
        // known: a non-empty primitive value set on an element whose VR is SQ
        let mut o = InMemDicomObject::new_empty();
        o.put(DataElement::new(Tag(0x0008, 0x1140), VR::SQ, DataSetSequence::from(vec![InMemDicomObject::new_empty()])));
        let ops = vec![mk_op(&[], Tag(0x0008, 0x1140), AttributeAction::SetStr("x".into()), RAct::Set(CPrim::Str("x".into())), "(ASet (PStr [120]))")];
        out.push(history_case(&mut r, o, 1, "corpus-primitive-under-sq", Some(ops)));
    }
    while out.len() < ctx.n {
        let wild = r.chance(1, 4);
        let init = if r.chance(1, 5) { InMemDicomObject::new_empty() } else { gen_object(&mut r, 2, wild) };
        let nops = match r.below(10) { 0 => 30, 1 | 2 => r.range(10, 20) as usize, _ => r.range(1, 9) as usize };
        out.push(history_case(&mut r, init, nops, if wild { "history-wild" } else { "history" }, None));
    }
    out
}
