//! vh_obj — properties about dicom-object (file meta group, attribute operations, lazy reader / collector).
mod c06;
mod c09;
mod c13;
mod rle;
use vhc::*;

fn main() {
    run_main(
        |prop, ctx| match prop {
            "C06" => Some(c06::cases(ctx)),
            "C09" => Some(c09::cases(ctx)),
            "C13" => Some(c13::cases(ctx)),
            _ => None,
        },
        |_prop, _out| false,
    );
}
