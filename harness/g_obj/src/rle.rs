//! Coq list printers that compress long runs (`repeat x n`), so that 64 KiB values do not
//! overflow coqc's parser stack.
pub fn c_nums(xs: &[u64]) -> String {
    if xs.len() < 512 { return format!("[{}]", xs.iter().map(|x| x.to_string()).collect::<Vec<_>>().join(";")); }
    let mut parts: Vec<String> = vec![];
    let mut lit: Vec<String> = vec![];
    let mut i = 0;
    while i < xs.len() {
        let mut j = i;
        while j < xs.len() && xs[j] == xs[i] { j += 1; }
        if j - i >= 64 {
            if !lit.is_empty() { parts.push(format!("[{}]", lit.join(";"))); lit.clear(); }
            parts.push(format!("repeat {} {}%nat", xs[i], j - i));
        } else {
            for _ in i..j { lit.push(xs[i].to_string()); }
        }
        i = j;
    }
    if !lit.is_empty() { parts.push(format!("[{}]", lit.join(";"))); }
    if parts.is_empty() { "[]".into() } else { format!("({})", parts.join(" ++ ")) }
}
pub fn c_bytes(b: &[u8]) -> String { c_nums(&b.iter().map(|x| *x as u64).collect::<Vec<_>>()) }
pub fn c_str(s: &str) -> String { c_nums(&s.chars().map(|c| c as u64).collect::<Vec<_>>()) }
