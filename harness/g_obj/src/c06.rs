//! C06 — lazy reader and collector agree with the eager reader
//! (parser/src/dataset/lazy_read.rs, object/src/collector.rs, object/src/mem.rs build_object).
use crate::c13::{c_obj, c_prim_pub as c_prim, cobj, cprim_pub as cprim, CObj, CVal};
use crate::rle::c_bytes;
use dicom_core::{Length, Tag};
use dicom_encoding::TransferSyntaxIndex;
use dicom_object::file::ReadPreamble;
use dicom_object::{DicomCollector, FileMetaTableBuilder, InMemDicomObject, OpenFileOptions};
use dicom_parser::dataset::lazy_read::LazyDataSetReader;
use dicom_parser::dataset::read::DataSetReader;
use dicom_parser::dataset::{DataToken, LazyDataToken};
use dicom_transfer_syntax_registry::TransferSyntaxRegistry;
use serde_json::json;
use std::io::Cursor;
use vhc::*;

// ---------------------------------------------------------------- raw data set generator (independent of the dicom-rs writer)
#[derive(Clone, Debug)]
pub enum Node {
    Prim { tag: u32, vr: [u8; 2], bytes: Vec<u8> },
    Seq { tag: u32, undef: bool, items: Vec<(bool, Vec<Node>)> },
    /// encapsulated pixel data: offset table, fragments
    Pix { bot: Vec<u32>, frags: Vec<Vec<u8>> },
}
impl Node {
    fn tag(&self) -> u32 { match self { Node::Prim { tag, .. } | Node::Seq { tag, .. } => *tag, Node::Pix { .. } => 0x7FE0_0010 } }
}
#[derive(Clone, Copy, Debug, PartialEq)]
pub enum Ts { Ile, Ele, Ebe }
impl Ts {
    pub fn uid(self) -> &'static str { match self { Ts::Ile => "1.2.840.10008.1.2", Ts::Ele => "1.2.840.10008.1.2.1", Ts::Ebe => "1.2.840.10008.1.2.2" } }
    fn u16(self, x: u16) -> [u8; 2] { if self == Ts::Ebe { x.to_be_bytes() } else { x.to_le_bytes() } }
    fn u32(self, x: u32) -> [u8; 4] { if self == Ts::Ebe { x.to_be_bytes() } else { x.to_le_bytes() } }
}
fn long_vr(vr: &[u8; 2]) -> bool { matches!(vr, b"OB" | b"OW" | b"OF" | b"OD" | b"OL" | b"OV" | b"SQ" | b"UC" | b"UN" | b"UR" | b"UT" | b"SV" | b"UV") }

fn enc_header(ts: Ts, tag: u32, vr: &[u8; 2], len: u32, out: &mut Vec<u8>) {
    out.extend_from_slice(&ts.u16((tag >> 16) as u16));
    out.extend_from_slice(&ts.u16(tag as u16));
    if ts == Ts::Ile { out.extend_from_slice(&ts.u32(len)); return; }
    out.extend_from_slice(vr);
    if long_vr(vr) { out.extend_from_slice(&[0, 0]); out.extend_from_slice(&ts.u32(len)); } else { out.extend_from_slice(&ts.u16(len as u16)); }
}
fn enc_item_tag(ts: Ts, el: u16, len: u32, out: &mut Vec<u8>) {
    out.extend_from_slice(&ts.u16(0xFFFE)); out.extend_from_slice(&ts.u16(el)); out.extend_from_slice(&ts.u32(len));
}
pub fn enc_nodes(ts: Ts, nodes: &[Node], out: &mut Vec<u8>) {
    for n in nodes {
        match n {
            Node::Prim { tag, vr, bytes } => { enc_header(ts, *tag, vr, bytes.len() as u32, out); out.extend_from_slice(bytes); }
            Node::Seq { tag, undef, items } => {
                let mut body = vec![];
                for (iu, inner) in items {
                    let mut ib = vec![];
                    enc_nodes(ts, inner, &mut ib);
                    if *iu { enc_item_tag(ts, 0xE000, 0xFFFF_FFFF, &mut body); body.extend_from_slice(&ib); enc_item_tag(ts, 0xE00D, 0, &mut body); }
                    else { enc_item_tag(ts, 0xE000, ib.len() as u32, &mut body); body.extend_from_slice(&ib); }
                }
                if *undef { enc_header(ts, *tag, b"SQ", 0xFFFF_FFFF, out); out.extend_from_slice(&body); enc_item_tag(ts, 0xE0DD, 0, out); }
                else { enc_header(ts, *tag, b"SQ", body.len() as u32, out); out.extend_from_slice(&body); }
            }
            Node::Pix { bot, frags } => {
                enc_header(ts, 0x7FE0_0010, b"OB", 0xFFFF_FFFF, out);
                enc_item_tag(ts, 0xE000, 4 * bot.len() as u32, out);
                for x in bot { out.extend_from_slice(&ts.u32(*x)); }
                for f in frags { enc_item_tag(ts, 0xE000, f.len() as u32, out); out.extend_from_slice(f); }
                enc_item_tag(ts, 0xE0DD, 0, out);
            }
        }
    }
}

// tags with their dictionary VR (so that implicit VR reads them the same way)
const PRIMS: &[(u32, &[u8; 2])] = &[
    (0x0008_0008, b"CS"), (0x0008_0018, b"UI"), (0x0008_0020, b"DA"), (0x0008_0060, b"CS"), (0x0008_1030, b"LO"), (0x0010_0010, b"PN"), (0x0010_0020, b"LO"),
    (0x0018_0050, b"DS"), (0x0020_0013, b"IS"), (0x0028_0010, b"US"), (0x0028_0011, b"US"), (0x0028_0100, b"US"), (0x0028_1052, b"DS"), (0x0018_6020, b"SL"),
    (0x0018_6024, b"US"), (0x0020_9158, b"LT"), (0x0018_9087, b"FD"), (0x0028_0009, b"AT"), (0x0020_4000, b"LT"), (0x0040_A30A, b"DS"), (0x0042_0011, b"OB"),
];
const SEQS: &[u32] = &[0x0008_1140, 0x0018_6011, 0x0040_0275, 0x0040_A730, 0x0008_1115];
const PRIVS: &[u32] = &[0x0009_1001, 0x0011_1001, 0x0043_102A];

fn prim_bytes(r: &mut Rng, vr: &[u8; 2]) -> Vec<u8> {
    let n = r.below(4) as usize;
    match vr {
        b"US" => (0..2 * n).map(|_| r.below(256) as u8).collect(),
        b"SL" | b"AT" => (0..4 * n).map(|_| r.below(256) as u8).collect(),
        b"FD" => (0..8 * n.min(2)).map(|_| r.below(64) as u8).collect(),
        b"OB" | b"UN" => (0..2 * n).map(|_| r.below(256) as u8).collect(),
        b"DA" => if n == 0 { vec![] } else { b"20200131".to_vec() },
        b"DS" | b"IS" => if n == 0 { vec![] } else { let s = format!("{}", r.below(9999)); let mut b = s.into_bytes(); if b.len() % 2 == 1 { b.push(b' '); } b },
        b"UI" => { let mut b = format!("1.2.{}", r.below(9999)).into_bytes(); if b.len() % 2 == 1 { b.push(0); } b }
        _ => { let mut b = rand_ascii(r, 9, b"ABCDEF^ xyz019").into_bytes(); if b.len() % 2 == 1 { b.push(b' '); } b }
    }
}

fn gen_pix(r: &mut Rng) -> Node {
    let nf = *r.pick(&[0usize, 1, 1, 2, 3]);
    let frags: Vec<Vec<u8>> = (0..nf).map(|_| { let l = *r.pick(&[0usize, 0, 2, 4, 6, 8]); (0..l).map(|_| r.below(256) as u8).collect() }).collect();
    let bot: Vec<u32> = match r.below(3) { 0 => vec![], 1 => vec![0], _ => { let mut v = vec![]; let mut acc = 0u32; for f in &frags { v.push(acc); acc += 8 + f.len() as u32; } v } };
    Node::Pix { bot, frags }
}

pub fn gen_nodes(r: &mut Rng, depth: u32, top: bool, ts: Ts) -> Vec<Node> {
    let mut tags: Vec<u32> = vec![];
    let n = r.below(7);
    for _ in 0..n {
        let t = match r.below(10) { 0..=5 => r.pick(PRIMS).0, 6 | 7 => *r.pick(SEQS), _ => *r.pick(PRIVS) };
        if !tags.contains(&t) { tags.push(t); }
    }
    tags.sort();
    let mut out = vec![];
    for t in tags {
        if SEQS.contains(&t) {
            let ni = if depth == 0 { 0 } else { r.below(3) };
            let items = (0..ni).map(|_| (r.coin(), gen_nodes(r, depth - 1, false, ts))).collect();
            out.push(Node::Seq { tag: t, undef: r.coin(), items });
        } else if PRIVS.contains(&t) {
            // private attributes: UN in explicit VR; implicit VR reads them as UN too
            out.push(Node::Prim { tag: t, vr: *b"UN", bytes: prim_bytes(r, b"UN") });
        } else {
            let vr = PRIMS.iter().find(|p| p.0 == t).unwrap().1;
            out.push(Node::Prim { tag: t, vr: *vr, bytes: prim_bytes(r, vr) });
        }
    }
    if top && r.chance(2, 5) {
        // attributes of the pixel data group below Pixel Data: Extended Offset Table (OV), its Lengths (OV),
        // Encapsulated Pixel Data Value Total Length (UV)
        for (t, vr) in [(0x7FE0_0001u32, b"OV"), (0x7FE0_0002, b"OV"), (0x7FE0_0003, b"UV")] {
            if r.chance(2, 3) { out.push(Node::Prim { tag: t, vr: *vr, bytes: (0..8 * r.range(1, 2)).map(|_| r.below(256) as u8).collect() }); }
        }
    }
    if top && r.chance(3, 5) {
        if r.chance(3, 4) { out.push(gen_pix(r)); }
        else { out.push(Node::Prim { tag: 0x7FE0_0010, vr: *b"OW", bytes: (0..2 * r.below(5)).map(|_| r.below(256) as u8).collect() }); }
        if r.chance(1, 4) { out.push(Node::Prim { tag: 0x7FE0_0020 + 0x1_0000, vr: *b"OB", bytes: vec![1, 2] }); } // something after the pixel data (7FE1,0020)
    }
    out
}

pub fn make_file(ts: Ts, nodes: &[Node], preamble: bool) -> Vec<u8> {
    let meta = FileMetaTableBuilder::new().transfer_syntax(ts.uid()).media_storage_sop_class_uid("1.2.840.10008.5.1.4.1.1.7").media_storage_sop_instance_uid("1.2.3.4").build().unwrap();
    let mut f = if preamble { vec![0u8; 128] } else { vec![] };
    f.extend_from_slice(b"DICM");
    meta.write(&mut f).unwrap();
    enc_nodes(ts, nodes, &mut f);
    f
}

// ---------------------------------------------------------------- token printing
fn tok_canon(t: &DataToken, ts: Ts) -> String {
    match t {
        // the lazy reader hands the offset table over as plain bytes
        DataToken::OffsetTable(v) => format!("ItemValue({:?})", v.iter().flat_map(|x| ts.u32(*x)).collect::<Vec<u8>>()),
        DataToken::ItemValue(b) => format!("ItemValue({:?})", b),
        DataToken::PrimitiveValue(p) => format!("Value({:?})", cprim(p)),
        other => format!("{:?}", other),
    }
}
fn len_n(l: Length) -> u64 { l.0 as u64 }
fn c_token(t: &DataToken, raw: Option<&Vec<u8>>) -> String {
    match t {
        DataToken::ElementHeader(h) => format!("(THeader {} {} {})", ((h.tag.0 as u32) << 16) | h.tag.1 as u32, { let b = h.vr.to_bytes(); ((b[0] as u32) << 8) | b[1] as u32 }, len_n(h.len)),
        DataToken::PrimitiveValue(p) => format!("(TValue {} {})", c_prim(&cprim(p)), c_bytes(raw.map(|v| &v[..]).unwrap_or(&[]))),
        DataToken::SequenceStart { tag, len } => format!("(TSeqStart {} {})", ((tag.0 as u32) << 16) | tag.1 as u32, len_n(*len)),
        DataToken::PixelSequenceStart => "TPixStart".into(),
        DataToken::SequenceEnd => "TSeqEnd".into(),
        DataToken::ItemStart { len } => format!("(TItemStart {})", len_n(*len)),
        DataToken::ItemEnd => "TItemEnd".into(),
        DataToken::OffsetTable(v) => format!("(TOffsets {})", c_list(v.iter().map(|x| x.to_string()))),
        DataToken::ItemValue(b) => format!("(TItemValue {})", c_bytes(b)),
    }
}

/// eager token stream of a data set (None on a reader error/panic)
fn eager_tokens(ds: &[u8], ts: Ts) -> Option<Vec<DataToken>> {
    let tsx = TransferSyntaxRegistry.get(ts.uid()).unwrap();
    catch(|| { let r = DataSetReader::new_with_ts(ds, tsx).ok()?; r.collect::<Result<Vec<_>, _>>().ok() }).flatten()
}
/// lazy token stream, every token turned into an owned one; also the raw bytes of element values
fn lazy_tokens(ds: &[u8], ts: Ts) -> Option<(Vec<DataToken>, Vec<Vec<u8>>)> {
    let tsx = TransferSyntaxRegistry.get(ts.uid()).unwrap();
    catch(|| {
        let mut out = vec![];
        let mut r = LazyDataSetReader::new_with_ts(Cursor::new(ds), tsx).ok()?;
        while let Some(t) = r.advance() { out.push(t.ok()?.into_owned().ok()?); }
        // second pass: raw bytes of the element values
        let mut raws = vec![];
        let mut r = LazyDataSetReader::new_with_ts(Cursor::new(ds), tsx).ok()?;
        while let Some(t) = r.advance() {
            let t = t.ok()?;
            match t {
                LazyDataToken::LazyValue { .. } => { let mut b = vec![]; t.read_value_into(&mut b).ok()?; raws.push(b); }
                other => { other.skip().ok()?; }
            }
        }
        Some((out, raws))
    }).flatten()
}

// ---------------------------------------------------------------- the case
fn tag_of(t: u32) -> Tag { Tag((t >> 16) as u16, t as u16) }

fn pix_of(o: &CObj) -> Option<&CVal> { o.get(&0x7FE0_0010).map(|e| &e.1) }

fn stop_pool(r: &mut Rng, nodes: &[Node]) -> u32 {
    let tags: Vec<u32> = nodes.iter().map(|n| n.tag()).collect();
    match r.below(6) {
        0 if !tags.is_empty() => *r.pick(&tags),
        1 if !tags.is_empty() => *r.pick(&tags) + 1,
        2 if !tags.is_empty() => r.pick(&tags).saturating_sub(1),
        3 => *r.pick(&[0u32, 0x0008_0000, 0x7FE0_0010, 0xFFFF_FFFF, 0x0028_0000, 0x7FE0_0000, 0x7FE0_0001, 0x7FE0_0003, 0x7FE0_0004, 0x7FE0_0011]),
        _ => { let p = r.pick(PRIMS).0; p + r.below(2) as u32 }
    }
}


fn run_case(r: &mut Rng, dir: &std::path::Path, idx: usize, ts: Ts, nodes: Vec<Node>, bucket: &str, forced_splits: Option<Vec<(bool, u32)>>) -> Case {
    let preamble = r.chance(4, 5);
    let file = make_file(ts, &nodes, preamble);
    let mut ds = vec![]; enc_nodes(ts, &nodes, &mut ds);
    let path = dir.join(format!("c{}.dcm", idx));
    std::fs::write(&path, &file).unwrap();
    let mut fail: Option<(String, String)> = None;
    let mut set_fail = |c: &str, d: String| { if fail.is_none() { fail = Some((c.to_string(), d)); } };

    // the whole file, eagerly
    let whole = catch(|| dicom_object::open_file(&path)).and_then(|x| x.ok());
    let Some(whole) = whole else {
        let _ = std::fs::remove_file(&path);
        return Case { coq: String::new(), desc: json!({"bucket": bucket, "note": "generated file does not open", "ts": ts.uid()}), key: String::new(),
                      oracle: Oracle::Fails { class: "WholeFileDoesNotOpen".into(), detail: format!("{:?}", nodes) } };
    };
    let wobj = cobj(&whole);
    let wmeta = whole.meta().clone();

    // ---- lazy vs eager token streams
    let et = eager_tokens(&ds, ts);
    let lt = lazy_tokens(&ds, ts);
    match (&et, &lt) {
        (Some(e), Some((l, _))) => {
            let a: Vec<String> = e.iter().map(|t| tok_canon(t, ts)).collect();
            let b: Vec<String> = l.iter().map(|t| tok_canon(t, ts)).collect();
            if a != b { set_fail("LazyEagerTokensDiffer", format!("eager {:?} lazy {:?}", a, b)); }
        }
        _ => set_fail("TokenReaderFailed", format!("eager ok={} lazy ok={}", et.is_some(), lt.is_some())),
    }

    // ---- collector with random split points
    // every portion through one of the entry points: read_dataset_up_to(tag) or read_dataset_up_to_pixeldata()
    let nsplits = r.below(4) as usize;
    let mut splits: Vec<(bool, u32)> = (0..nsplits).map(|_| if r.chance(1, 3) { (true, 0x7FE0_0010) } else { (false, stop_pool(r, &nodes)) }).collect();
    if r.chance(2, 3) { splits.sort_by_key(|s| s.1); }
    if let Some(f) = forced_splits { splits = f; }
    let coll = catch(|| -> Result<(dicom_object::FileMetaTable, InMemDicomObject, Vec<CObj>), String> {
        let mut c = DicomCollector::open_file(&path).map_err(|e| e.to_string())?;
        let m = c.read_file_meta().map_err(|e| e.to_string())?.clone();
        let mut o = InMemDicomObject::new_empty();
        let mut parts = vec![];
        for (pix, s) in &splits {
            if *pix { c.read_dataset_up_to_pixeldata(&mut o).map_err(|e| e.to_string())?; } else { c.read_dataset_up_to(tag_of(*s), &mut o).map_err(|e| e.to_string())?; }
            parts.push(cobj(&o));
        }
        c.read_dataset_to_end(&mut o).map_err(|e| e.to_string())?;
        Ok((m, o, parts))
    });
    let mut c_parts = String::from("[]");
    let mut c_final = String::from("(Err 9)");
    match &coll {
        None => set_fail("CollectorPanic", format!("splits {:x?}", splits)),
        Some(Err(e)) => set_fail("CollectorError", format!("splits {:x?}: {}", splits, e)),
        Some(Ok((m, o, parts))) => {
            if *m != wmeta { set_fail("CollectorMetaDiffers", String::new()); }
            let co = cobj(o);
            if co != wobj { set_fail("CollectorObjectDiffers", format!("splits {:x?}: whole {:?} collected {:?}", splits, wobj, co)); }
            // every portion: after reading up to s_1 .. s_i the object holds exactly the elements below max(s_1 .. s_i)
            let mut hi = 0u32;
            for ((_, s), part) in splits.iter().zip(parts.iter()) {
                hi = hi.max(*s);
                let want: CObj = wobj.iter().filter(|(t, _)| **t < hi).map(|(t, v)| (*t, v.clone())).collect();
                if *part != want { set_fail("CollectorPortionDiffers", format!("splits {:x?}: after stop {:x} expected tags {:x?} got {:x?}", splits, s, want.keys().collect::<Vec<_>>(), part.keys().collect::<Vec<_>>())); }
            }
            c_parts = c_list(parts.iter().map(c_obj));
            c_final = c_ok(&c_obj(&co));
        }
    }

    // ---- fragments one by one, offset table separately
    let want_bot = r.coin();
    let frag = catch(|| -> Result<(Option<Option<(u32, Vec<u32>)>>, Vec<(u32, Vec<u8>)>), String> {
        let mut c = DicomCollector::open_file(&path).map_err(|e| e.to_string())?;
        let bot = if want_bot { let mut t = vec![]; let n = c.read_basic_offset_table(&mut t).map_err(|e| e.to_string())?; Some(n.map(|n| (n, t))) } else { None };
        let mut frs = vec![];
        loop {
            let mut b = vec![];
            match c.read_next_fragment(&mut b).map_err(|e| e.to_string())? { Some(n) => frs.push((n, b)), None => break }
            if frs.len() > 64 { return Err("too many fragments".into()); }
        }
        Ok((bot, frs))
    });
    let mut c_frag = String::from("(Err 9)");
    match &frag {
        None => set_fail("FragmentPanic", String::new()),
        Some(Err(e)) => set_fail("FragmentError", e.clone()),
        Some(Ok((bot, frs))) => {
            // expected from the whole object
            let mut expect: Vec<Vec<u8>> = vec![];
            let mut expect_bot: Option<Vec<u32>> = None;
            match pix_of(&wobj) {
                Some(CVal::Pix(b, f)) => { expect_bot = Some(b.clone()); if !want_bot { expect.push(b.iter().flat_map(|x| ts.u32(*x)).collect()); } expect.extend(f.iter().cloned()); }
                Some(CVal::Prim(_)) => { let raw = nodes.iter().find_map(|n| match n { Node::Prim { tag: 0x7FE0_0010, bytes, .. } => Some(bytes.clone()), _ => None }).unwrap_or_default();
                    // native pixel data: one fragment (asking for the offset table consumes the value)
                    if !want_bot { expect.push(raw); } }
                _ => {}
            }
            // anything after the pixel data is also handed over as "fragments" (elements' values): only compare the pixel part
            let got: Vec<Vec<u8>> = frs.iter().map(|x| x.1.clone()).collect();
            let trailing = nodes.iter().filter(|n| n.tag() > 0x7FE0_0010).count();
            if got.len() < expect.len() || got[..expect.len()] != expect[..] || got.len() > expect.len() + trailing {
                set_fail("FragmentsDiffer", format!("bot_first={} expected {:?} got {:?}", want_bot, expect, got));
            }
            if let Some(b) = bot {
                let gb = b.as_ref().map(|x| x.1.clone());
                let eb = match pix_of(&wobj) { Some(CVal::Pix(..)) => expect_bot.clone(), _ => None };
                if gb != eb { set_fail("OffsetTableDiffers", format!("expected {:?} got {:?}", eb, gb)); }
            }
            let cb = match bot { None => "None".to_string(), Some(None) => "(Some None)".into(), Some(Some((n, t))) => format!("(Some (Some ({}, {})))", n, c_list(t.iter().map(|x| x.to_string()))) };
            c_frag = c_ok(&format!("({}, {})", cb, c_list(frs.iter().map(|(n, b)| format!("({}, {})", n, c_bytes(b))))));
        }
    }

    // ---- read_until / read_to
    let stop = stop_pool(r, &nodes);
    let mode = r.below(3); // 0 until, 1 to, 2 both
    let stop2 = if mode == 2 { if r.coin() { stop } else { stop_pool(r, &nodes) } } else { 0 };
    let mut opts = OpenFileOptions::new();
    let (mut cu, mut ct) = ("None".to_string(), "None".to_string());
    if mode == 0 || mode == 2 { opts = opts.read_until(tag_of(stop)); cu = format!("(Some {})", stop); }
    if mode == 1 { opts = opts.read_to(tag_of(stop)); ct = format!("(Some {})", stop); }
    if mode == 2 { opts = opts.read_to(tag_of(stop2)); ct = format!("(Some {})", stop2); }
    let by_path = r.coin();
    let part = catch(|| if by_path { opts.open_file(&path) } else { opts.read_preamble(ReadPreamble::Auto).from_reader(&file[..]) });
    let mut c_part = String::from("(Err 9)");
    match part {
        None => set_fail("ReadUntilPanic", String::new()),
        Some(Err(e)) => set_fail("ReadUntilError", e.to_string()),
        Some(Ok(p)) => {
            let got = cobj(&p);
            let want: CObj = wobj.iter().filter(|(t, _)| {
                let until_ok = if mode == 0 || mode == 2 { **t < stop } else { true };
                let to_ok = if mode == 1 { **t <= stop } else if mode == 2 { **t <= stop2 } else { true };
                until_ok && to_ok
            }).map(|(t, v)| (*t, v.clone())).collect();
            if got != want { set_fail("ReadUntilDiffers", format!("until {} to {} : want {:?} got {:?}", cu, ct, want.keys().collect::<Vec<_>>(), got.keys().collect::<Vec<_>>())); }
            c_part = c_ok(&c_obj(&got));
        }
    }
    let _ = std::fs::remove_file(&path);

    // ---- the Coq case: eager token stream (+ raw value bytes), endianness, the observations
    let coq = match (&et, &lt) {
        (Some(e), Some((l, raws))) => {
            let mut k = 0usize;
            let toks = c_list(e.iter().map(|t| { let raw = if matches!(t, DataToken::PrimitiveValue(_)) { k += 1; raws.get(k - 1) } else { None }; c_token(t, raw) }));
            let ltoks = c_list(l.iter().map(|t| c_token(t, None)));
            format!("(CFile {} {} {} {} {} {} {} {} {} {} {})", c_bool(ts == Ts::Ebe), toks, ltoks, c_obj(&wobj),
                    c_list(splits.iter().map(|(p, s)| format!("({}, {})", c_bool(*p), s))), c_parts, c_final, c_bool(want_bot), c_frag, format!("({}, {})", cu, ct), c_part)
        }
        _ => String::new(),
    };
    let oracle = match fail { Some((class, detail)) => Oracle::Fails { class, detail }, None => Oracle::Holds };
    Case {
        coq,
        desc: json!({"bucket": bucket, "ts": ts.uid(), "preamble": preamble, "nodes": format!("{:?}", nodes), "splits": splits, "bot_first": want_bot, "until": cu, "to": ct}),
        key: if nodes.is_empty() { String::new() } else { format!("{:?}|{:?}|{:?}|{}|{}|{}", ts, nodes, splits, want_bot, cu, ct) },
        oracle,
    }
}

pub fn cases(ctx: &Ctx) -> Vec<Case> {
    let mut r = Rng::new(ctx.seed);
    let dir = std::env::temp_dir().join(format!("vh_obj_c06_{}_{}", std::process::id(), ctx.seed));
    std::fs::create_dir_all(&dir).unwrap();
    let mut out = vec![];
    // ---- corpus: offset table empty / non-empty, zero-length fragments, native pixel data
    let pn = Node::Prim { tag: 0x0010_0010, vr: *b"PN", bytes: b"A^B ".to_vec() };
    for ts in [Ts::Ele, Ts::Ile, Ts::Ebe] {
        out.push(run_case(&mut r, &dir, out.len(), ts, vec![pn.clone(), Node::Pix { bot: vec![], frags: vec![vec![1, 2, 3, 4], vec![5, 6]] }], "corpus-empty-bot", None));
        out.push(run_case(&mut r, &dir, out.len(), ts, vec![pn.clone(), Node::Pix { bot: vec![0, 12], frags: vec![vec![1, 2, 3, 4], vec![5, 6]] }], "corpus-bot", None));
        out.push(run_case(&mut r, &dir, out.len(), ts, vec![pn.clone(), Node::Pix { bot: vec![], frags: vec![vec![], vec![7, 8], vec![]] }], "corpus-zero-length-fragments", None));
        out.push(run_case(&mut r, &dir, out.len(), ts, vec![pn.clone(), Node::Pix { bot: vec![0], frags: vec![] }], "corpus-no-fragments", None));
        out.push(run_case(&mut r, &dir, out.len(), ts, vec![pn.clone(), Node::Prim { tag: 0x7FE0_0010, vr: *b"OW", bytes: vec![1, 2, 3, 4] }], "corpus-native", None));
        out.push(run_case(&mut r, &dir, out.len(), ts, vec![Node::Seq { tag: 0x0008_1140, undef: false, items: vec![(false, vec![pn.clone()]), (true, vec![]), (false, vec![])] }, pn.clone()], "corpus-defined-lengths", None));
    }
    // attributes of group 7FE0 below Pixel Data: every stop-before-Pixel-Data variant must deliver them
    for ts in [Ts::Ele, Ts::Ile, Ts::Ebe] {
        let nodes = vec![pn.clone(), Node::Prim { tag: 0x7FE0_0001, vr: *b"OV", bytes: vec![0; 8] }, Node::Prim { tag: 0x7FE0_0002, vr: *b"OV", bytes: vec![4, 0, 0, 0, 0, 0, 0, 0] },
                         Node::Prim { tag: 0x7FE0_0003, vr: *b"UV", bytes: vec![12, 0, 0, 0, 0, 0, 0, 0] }, Node::Pix { bot: vec![], frags: vec![vec![1, 2, 3, 4]] }];
        out.push(run_case(&mut r, &dir, out.len(), ts, nodes.clone(), "corpus-pixel-group-attributes", Some(vec![(true, 0x7FE0_0010)])));
        out.push(run_case(&mut r, &dir, out.len(), ts, nodes, "corpus-pixel-group-attributes", Some(vec![(false, 0x0010_0020), (true, 0x7FE0_0010), (false, 0x7FE0_0002)])));
    }
    while out.len() < ctx.n {
        let ts = *r.pick(&[Ts::Ile, Ts::Ele, Ts::Ebe]);
        let nodes = gen_nodes(&mut r, 2, true, ts);
        let i = out.len();
        out.push(run_case(&mut r, &dir, i, ts, nodes, "generated", None));
    }
    let _ = std::fs::remove_dir_all(&dir);
    out
}
