//! C09 — file meta group: group length, write/read round trip, attribute operations,
//! preamble detection (object/src/meta.rs, object/src/mem.rs).
use dicom_core::ops::{ApplyOp, AttributeAction, AttributeOp, AttributeSelector};
use dicom_core::{dicom_value, DataElement, PrimitiveValue, Tag, VR};
use dicom_object::meta::{Error as MetaError, FileMetaTable, FileMetaTableBuilder};
use dicom_object::ops::ApplyError;
use dicom_object::file::ReadPreamble;
use dicom_object::{FileDicomObject, InMemDicomObject, OpenFileOptions, ReadError};
use serde_json::json;
use std::io::Read;
use vhc::*;
use crate::rle::{c_bytes, c_str};

// ---------------------------------------------------------------- printing
fn c_ostr(o: &Option<String>) -> String { c_opt(o.as_ref().map(|s| c_str(s))) }
fn c_obytes(o: &Option<Vec<u8>>) -> String { c_opt(o.as_ref().map(|b| c_bytes(b))) }

pub fn c_meta(t: &FileMetaTable) -> String {
    format!(
        "(mk_meta {} ({},{}) {} {} {})",
        t.information_group_length,
        t.information_version[0],
        t.information_version[1],
        c_list([&t.media_storage_sop_class_uid, &t.media_storage_sop_instance_uid, &t.transfer_syntax, &t.implementation_class_uid].iter().map(|s| c_str(s))),
        c_list([&t.implementation_version_name, &t.source_application_entity_title, &t.sending_application_entity_title, &t.receiving_application_entity_title, &t.private_information_creator_uid].iter().map(|o| c_ostr(o))),
        c_obytes(&t.private_information)
    )
}

fn fields(t: &FileMetaTable) -> (u32, [u8; 2], Vec<String>, Vec<Option<String>>, Option<Vec<u8>>) {
    (
        t.information_group_length,
        t.information_version,
        vec![t.media_storage_sop_class_uid.clone(), t.media_storage_sop_instance_uid.clone(), t.transfer_syntax.clone(), t.implementation_class_uid.clone()],
        vec![t.implementation_version_name.clone(), t.source_application_entity_title.clone(), t.sending_application_entity_title.clone(), t.receiving_application_entity_title.clone(), t.private_information_creator_uid.clone()],
        t.private_information.clone(),
    )
}

fn meta_err_class(e: &MetaError) -> u32 {
    match e {
        MetaError::ReadMagicCode { .. } => 1,
        MetaError::NotDicom { .. } => 2,
        MetaError::DecodeElement { .. } => 3,
        MetaError::UnexpectedTag { .. } => 4,
        MetaError::UnexpectedDataValueLength { .. } => 5,
        MetaError::UndefinedValueLength { .. } => 6,
        MetaError::ReadValueData { .. } => 7,
        MetaError::MissingElement { .. } => 8,
        MetaError::DecodeText { .. } => 9,
        MetaError::AllocationSize { .. } => 10,
        MetaError::WriteSet { .. } => 11,
        _ => 12,
    }
}

fn apply_err_class(e: &ApplyError) -> u32 {
    match e {
        ApplyError::UnsupportedAttribute => 1,
        ApplyError::Mandatory => 2,
        ApplyError::IncompatibleTypes { .. } => 3,
        ApplyError::IllegalExtend => 4,
        ApplyError::UnsupportedAction => 5,
        ApplyError::MissingSequence { .. } => 6,
        ApplyError::NotASequence { .. } => 7,
        ApplyError::Modify { .. } => 8,
        _ => 9,
    }
}

// ---------------------------------------------------------------- generators
#[derive(Clone, Debug)]
struct BInput {
    ver: Option<[u8; 2]>,
    s4: [Option<String>; 4], // sop class, sop instance, ts, impl class
    o5: [Option<String>; 5], // impl version, src ae, snd ae, rcv ae, private creator
    pinfo: Option<Vec<u8>>,
}

const TS_POOL: &[&str] = &["1.2.840.10008.1.2", "1.2.840.10008.1.2.1", "1.2.840.10008.1.2.2", "1.2.840.10008.1.2.1.99", "1.2.840.10008.1.2.4.50", "1.2.3.4"];

fn uid(r: &mut Rng) -> String {
    match r.below(12) {
        0 => String::new(),
        1 => (*r.pick(TS_POOL)).to_string(),
        2 => format!("{}\0", r.pick(TS_POOL)),
        3 => format!("{} ", r.pick(TS_POOL)),
        _ => {
            let n = r.range(1, 12);
            let mut s = String::from("1.2");
            for _ in 0..n { s.push('.'); s.push_str(&r.below(100000).to_string()); }
            s.truncate(r.range(3, 64) as usize);
            s
        }
    }
}

fn title(r: &mut Rng) -> String {
    match r.below(10) {
        0 => String::new(),
        1 => " ".into(),
        2 => "A".into(),
        3 => "DICM".into(),
        4 => format!("{}  ", rand_ascii(r, 8, b"ABCXYZ_09")),
        5 => format!("{}\0", rand_ascii(r, 8, b"ABCXYZ_09")),
        _ => rand_ascii(r, 16, b"ABCDEFGHIJKLMNOPQRSTUVWXYZ_0123456789 -"),
    }
}

/// kind: 0 = ASCII, 1 = may contain Latin-1 / non Latin-1 characters (outside the property's hypotheses)
fn spice(r: &mut Rng, s: String, kind: u32) -> String {
    if kind == 0 || !r.chance(1, 3) { return s; }
    let mut v: Vec<char> = s.chars().collect();
    let c = *r.pick(&['é', 'ÿ', '\u{80}', 'Ā', '€', '\u{10400}', '\u{a0}', '\u{3000}']);
    let at = r.below(v.len() as u64 + 1) as usize;
    v.insert(at, c);
    v.into_iter().collect()
}

fn gen_input(r: &mut Rng, kind: u32) -> BInput {
    let mut s4: [Option<String>; 4] = Default::default();
    for (i, slot) in s4.iter_mut().enumerate() {
        let present = if i == 2 { !r.chance(1, 25) } else { !r.chance(1, 6) };
        if present {
            let s = if i == 2 && r.chance(3, 4) { (*r.pick(TS_POOL)).to_string() } else { uid(r) };
            *slot = Some(spice(r, s, kind));
        }
    }
    let mut o5: [Option<String>; 5] = Default::default();
    for (i, slot) in o5.iter_mut().enumerate() {
        if r.coin() {
            let s = if i == 4 { uid(r) } else { title(r) };
            *slot = Some(spice(r, s, kind));
        }
    }
    let pinfo = if r.chance(1, 3) {
        let n = *r.pick(&[0u64, 1, 2, 3, 4, 7, 8]);
        let mut b: Vec<u8> = (0..n).map(|_| r.below(256) as u8).collect();
        if n > 0 && r.coin() { *b.last_mut().unwrap() = 0; }
        Some(b)
    } else { None };
    BInput { ver: if r.chance(1, 4) { None } else { Some([r.below(3) as u8, r.below(3) as u8]) }, s4, o5, pinfo }
}

fn c_builder(b: &BInput) -> String {
    format!(
        "(mk_builder {} {} {} {})",
        c_opt(b.ver.map(|v| format!("({},{})", v[0], v[1]))),
        c_list(b.s4.iter().map(c_ostr)),
        c_list(b.o5.iter().map(c_ostr)),
        c_obytes(&b.pinfo)
    )
}

fn run_builder(b: &BInput) -> Result<FileMetaTable, MetaError> {
    let mut fb = FileMetaTableBuilder::new();
    if let Some(v) = b.ver { fb = fb.information_version(v); }
    if let Some(s) = &b.s4[0] { fb = fb.media_storage_sop_class_uid(s.clone()); }
    if let Some(s) = &b.s4[1] { fb = fb.media_storage_sop_instance_uid(s.clone()); }
    if let Some(s) = &b.s4[2] { fb = fb.transfer_syntax(s.clone()); }
    if let Some(s) = &b.s4[3] { fb = fb.implementation_class_uid(s.clone()); }
    if let Some(s) = &b.o5[0] { fb = fb.implementation_version_name(s.clone()); }
    if let Some(s) = &b.o5[1] { fb = fb.source_application_entity_title(s.clone()); }
    if let Some(s) = &b.o5[2] { fb = fb.sending_application_entity_title(s.clone()); }
    if let Some(s) = &b.o5[3] { fb = fb.receiving_application_entity_title(s.clone()); }
    if let Some(s) = &b.o5[4] { fb = fb.private_information_creator_uid(s.clone()); }
    if let Some(p) = &b.pinfo { fb = fb.private_information(p.clone()); }
    fb.build()
}

const TAG_POOL: &[(u16, u16)] = &[
    (2, 0x10), (2, 2), (2, 3), (2, 0x12), (2, 0x13), (2, 0x16), (2, 0x17), (2, 0x18), (2, 0x100), // the nine string attributes
    (2, 0), (2, 1), (2, 0x102), (2, 0x26), (2, 0x11), (0x10, 0x10), (8, 0x18),
];

fn gen_value(r: &mut Rng, kind: u32) -> (PrimitiveValue, String) {
    match r.below(8) {
        0 => (PrimitiveValue::Empty, "PVOther".into()),
        1 => (dicom_value!(U16, [1, 2]), "PVOther".into()),
        2 => (PrimitiveValue::Strs(Default::default()), "(PVStrs [])".into()),
        3 => {
            let u = uid(r); let a = spice(r, u, kind); let b = title(r);
            (PrimitiveValue::Strs([a.clone(), b.clone()].as_ref().into()), format!("(PVStrs [{};{}])", c_str(&a), c_str(&b)))
        }
        _ => {
            let s = if r.coin() { uid(r) } else { title(r) };
            let s = spice(r, s, kind);
            (PrimitiveValue::Str(s.clone()), format!("(PVStr {})", c_str(&s)))
        }
    }
}

fn gen_op(r: &mut Rng, kind: u32) -> (AttributeOp, String, String) {
    let (g, e) = if r.chance(4, 5) { TAG_POOL[r.below(9) as usize] } else { *r.pick(TAG_POOL) };
    let tag = Tag(g, e);
    let nested = r.chance(1, 30);
    let selector: AttributeSelector = if nested { (tag, 0u32, Tag(0x0010, 0x0010)).into() } else { tag.into() };
    let s = { let s = if r.coin() { uid(r) } else { title(r) }; spice(r, s, kind) };
    let (action, ca): (AttributeAction, String) = match r.below(20) {
        0 => (AttributeAction::Remove, "ARemove".into()),
        1 => (AttributeAction::Empty, "AEmpty".into()),
        2 => (AttributeAction::SetVr(VR::LO), "ASetVr".into()),
        3 | 4 => { let (v, c) = gen_value(r, kind); (AttributeAction::Set(v), format!("(ASet {})", c)) }
        5 | 6 | 7 => (AttributeAction::SetStr(s.clone().into()), format!("(ASetStr {})", c_str(&s))),
        8 => { let (v, c) = gen_value(r, kind); (AttributeAction::SetIfMissing(v), format!("(ASetIfMissing {})", c)) }
        9 | 10 => (AttributeAction::SetStrIfMissing(s.clone().into()), format!("(ASetStrIfMissing {})", c_str(&s))),
        11 => { let (v, c) = gen_value(r, kind); (AttributeAction::Replace(v), format!("(AReplace {})", c)) }
        12 | 13 => (AttributeAction::ReplaceStr(s.clone().into()), format!("(AReplaceStr {})", c_str(&s))),
        14 => (AttributeAction::PushStr(s.clone().into()), "APushStr".into()),
        15 => (match r.below(6) {
            0 => AttributeAction::PushI32(-1), 1 => AttributeAction::PushU32(7), 2 => AttributeAction::PushI16(3),
            3 => AttributeAction::PushU16(9), 4 => AttributeAction::PushF32(1.5), _ => AttributeAction::PushF64(2.5) }, "APushNum".into()),
        16 => (AttributeAction::Truncate(r.below(3) as usize), "ATruncate".into()),
        17 => (AttributeAction::Remove, "ARemove".into()),
        _ => (AttributeAction::Empty, "AEmpty".into()),
    };
    let cstep = if nested { "SNested".to_string() } else { format!("(STag {})", ((g as u32) << 16) | e as u32) };
    let desc = format!("{:?}{} {:?}", tag, if nested { "[0].(0010,0010)" } else { "" }, action);
    (AttributeOp { selector, action }, format!("({}, {})", cstep, ca), desc)
}

// ---------------------------------------------------------------- observation of one table
fn is_ascii_table(t: &FileMetaTable) -> bool {
    let (_, _, s4, o5, _) = fields(t);
    s4.iter().all(|s| s.is_ascii()) && o5.iter().flatten().all(|s| s.is_ascii())
}

struct Obs { coq_w: String, coq_r: String, fail: Option<(String, String)>, applicable: bool }

/// write the table, read it back (after "DICM", followed by `tail`), evaluate the property directly
fn observe(t: &FileMetaTable, tail: &[u8]) -> Obs {
    let mut out = Vec::new();
    let w = catch(|| t.write(&mut out));
    let mut fail = None;
    let applicable = is_ascii_table(t);
    let (coq_w, coq_r) = match w {
        None => (c_panic(), c_panic()),
        Some(Err(_)) => (c_err(1), c_err(0)),
        Some(Ok(())) => {
            // oracle 1: recorded group length = bytes after the group length element
            if applicable && out.len() >= 12 && t.information_group_length as usize != out.len() - 12 {
                fail = Some(("GroupLengthMismatch".to_string(), format!("recorded {} actual {}", t.information_group_length, out.len() - 12)));
            }
            let mut file = b"DICM".to_vec();
            file.extend_from_slice(&out);
            file.extend_from_slice(tail);
            let mut cur = std::io::Cursor::new(&file[..]);
            let r = catch(|| FileMetaTable::from_reader(&mut cur));
            let cr = match r {
                None => c_panic(),
                Some(Err(e)) => c_err(meta_err_class(&e)),
                Some(Ok(t2)) => {
                    let rest = &file[cur.position() as usize..];
                    if applicable && fail.is_none() {
                        if t2 != *t { fail = Some(("RoundTripNotEqual".into(), format!("{:?} -> {:?}", fields(t), fields(&t2)))); }
                        else if rest != tail { fail = Some(("RoundTripLeftover".into(), format!("{} bytes left instead of {}", rest.len(), tail.len()))); }
                    }
                    c_ok(&format!("({}, {})", c_meta(&t2), c_bytes(rest)))
                }
            };
            if applicable && fail.is_none() && !matches!(r_ok(&cr), true) {
                fail = Some(("RoundTripReadFailed".into(), cr.clone()));
            }
            (c_ok(&c_bytes(&out)), cr)
        }
    };
    Obs { coq_w, coq_r, fail, applicable }
}
fn r_ok(c: &str) -> bool { c.starts_with("(Ok") }

fn too_long(t: &FileMetaTable) -> bool {
    let (_, _, s4, o5, _) = fields(t);
    s4.iter().any(|s| s.len() > 65534) || o5.iter().flatten().any(|s| s.len() > 65534)
}

fn table_case(r: &mut Rng, idx: usize, input: BInput, kind: u32, nops: usize, bucket: &str) -> Case {
    let iu = c_str(dicom_object::IMPLEMENTATION_CLASS_UID);
    let inm = c_str(dicom_object::IMPLEMENTATION_VERSION_NAME);
    let tail: Vec<u8> = if r.coin() { vec![] } else { vec![8, 0, 5, 0, b'C', b'S', 2, 0, b'A', b' '] };
    let built = run_builder(&input);
    let mut fail: Option<(String, String)> = None;
    let mut applicable = false;
    let mut descs = vec![];
    let coq = match &built {
        Err(e) => format!("(CTable {} {} {} {} {} {} {} [])", iu, inm, c_builder(&input), c_err(meta_err_class(e)), c_bytes(&tail), c_err(0), c_err(0)),
        Ok(t0) => {
            let o = observe(t0, &tail);
            applicable = o.applicable;
            if fail.is_none() { fail = o.fail.clone(); }
            let mut t = t0.clone();
            let mut steps = vec![];
            for _ in 0..nops {
                let (op, cop, d) = gen_op(r, kind);
                let before = t.clone();
                let res = catch(|| ApplyOp::apply(&mut t, op));
                let cres = match &res { None => c_panic(), Some(Ok(())) => c_ok("tt"), Some(Err(e)) => c_err(apply_err_class(e)) };
                descs.push(format!("{} => {}", d, cres));
                // oracle: a failing operation leaves the table untouched
                if !matches!(res, Some(Ok(()))) && fields(&before) != fields(&t) && fail.is_none() {
                    fail = Some(("FailedOpChangedTable".into(), d.clone()));
                }
                let o = observe(&t, &tail);
                applicable = applicable || o.applicable;
                if fail.is_none() && !too_long(&t) { fail = o.fail.clone(); }
                steps.push(format!("({}, {}, {}, {}, {})", cop, cres, c_meta(&t), o.coq_w, o.coq_r));
            }
            format!("(CTable {} {} {} {} {} {} {} {})", iu, inm, c_builder(&input), c_ok(&c_meta(t0)), c_bytes(&tail), o.coq_w, o.coq_r, c_list(steps))
        }
    };
    let oracle = match fail {
        Some((class, detail)) => Oracle::Fails { class, detail },
        None if applicable => Oracle::Holds,
        None => Oracle::NotApplicable,
    };
    Case {
        coq,
        desc: json!({"bucket": bucket, "builder": format!("{:?}", input), "ops": descs, "tail": tail.len()}),
        key: format!("T{}|{:?}|{:?}", idx % 1, input, descs),
        oracle,
    }
}

// ---------------------------------------------------------------- arbitrary bytes through from_reader
fn read_case(r: &mut Rng, bucket: &str, bytes: Vec<u8>) -> Case {
    let iu = c_str(dicom_object::IMPLEMENTATION_CLASS_UID);
    let inm = c_str(dicom_object::IMPLEMENTATION_VERSION_NAME);
    let _ = r;
    let mut cur = std::io::Cursor::new(&bytes[..]);
    let t0 = std::time::Instant::now();
    let res = catch(|| FileMetaTable::from_reader(&mut cur));
    let slow = t0.elapsed().as_secs() >= 20;
    let cr = match res {
        None => c_panic(),
        Some(Err(e)) => c_err(meta_err_class(&e)),
        Some(Ok(t)) => c_ok(&format!("({}, {})", c_meta(&t), c_bytes(&bytes[cur.position() as usize..]))),
    };
    Case {
        coq: format!("(CRead {} {} {} {})", iu, inm, c_bytes(&bytes), cr),
        desc: json!({"bucket": bucket, "bytes": hex(&bytes), "result": cr.chars().take(40).collect::<String>()}),
        key: format!("R{}", hex(&bytes)),
        // reading a few hundred bytes takes milliseconds, unless memory for a (corrupted) declared length is allocated and filled first
        oracle: if slow { Oracle::Fails { class: "MetaReadAllocatesDeclaredLength".into(), detail: format!("{} bytes took {:?}", bytes.len(), t0.elapsed()) } } else { Oracle::NotApplicable },
    }
}

fn mutate(r: &mut Rng, mut b: Vec<u8>) -> Vec<u8> {
    match r.below(8) {
        0 => { let n = r.below(b.len() as u64 + 1) as usize; b.truncate(n); b }
        1 => { if !b.is_empty() { let i = r.below(b.len() as u64) as usize; b[i] ^= 1 << r.below(8); } b }
        2 => { // corrupt the recorded group length
            if b.len() >= 16 { let d = *r.pick(&[1u32, 2, 7, 8, 9, 100]); let g = u32::from_le_bytes([b[12], b[13], b[14], b[15]]);
                let g2 = if r.coin() { g.wrapping_add(d) } else { g.saturating_sub(d) }; b[12..16].copy_from_slice(&g2.to_le_bytes()); }
            b }
        3 => { // unknown group-2 element / off-group element appended inside the group
            let extra: Vec<u8> = if r.coin() { vec![2, 0, 0x26, 0, b'U', b'R', 0, 0, 2, 0, 0, 0, b'x', b' '] } else { vec![8, 0, 5, 0, b'C', b'S', 2, 0, b'A', b' '] };
            if b.len() >= 16 { let g = u32::from_le_bytes([b[12], b[13], b[14], b[15]]) + extra.len() as u32; b[12..16].copy_from_slice(&g.to_le_bytes()); }
            b.extend_from_slice(&extra); b }
        4 => { // a length field set to a large / undefined value
            if b.len() > 40 { let i = 16 + 8 + r.below(8) as usize; b[i] = 0xff; b[i + 1] = 0xff; } b }
        5 => { if b.len() > 30 { let i = r.range(4, b.len() as u64 - 1) as usize; b[i] = *r.pick(&[0u8, 0xff, 0xfe, b'A', b'E', b'0']); } b }
        6 => { b.extend_from_slice(&[0xfe, 0xff, 0x0d, 0xe0, 0, 0, 0, 0]); b }
        _ => b,
    }
}

/// Structure-aware malformations of a valid group ("DICM" + group), run under catch_unwind:
/// group length smaller / larger than the real group, element lengths beyond the group or the input,
/// odd lengths, unknown VR codes, long-form VRs on string tags, undefined lengths, delimiters.
fn elements_of(b: &[u8]) -> Vec<(usize, usize, usize)> {
    // (offset of the element, offset of its length field, size of the length field) for the explicit VR LE group after "DICM"
    let mut v = vec![];
    let mut i = 4;
    while i + 8 <= b.len() {
        let vr = [b[i + 4], b[i + 5]];
        let short = matches!(&vr, b"AE" | b"AS" | b"AT" | b"CS" | b"DA" | b"DS" | b"DT" | b"FL" | b"FD" | b"IS" | b"LO" | b"LT" | b"PN" | b"SH" | b"SL" | b"SS" | b"ST" | b"TM" | b"UI" | b"UL" | b"US");
        let (lo, ls, len) = if short { (i + 6, 2, u16::from_le_bytes([b[i + 6], b[i + 7]]) as usize) }
            else { if i + 12 > b.len() { break; } (i + 8, 4, u32::from_le_bytes([b[i + 8], b[i + 9], b[i + 10], b[i + 11]]) as usize) };
        v.push((i, lo, ls));
        i = lo + ls + len;
    }
    v
}
fn set_len(b: &mut [u8], lo: usize, ls: usize, len: u32) {
    if ls == 2 { b[lo..lo + 2].copy_from_slice(&(len as u16).to_le_bytes()); } else { b[lo..lo + 4].copy_from_slice(&len.to_le_bytes()); }
}
fn get_len(b: &[u8], lo: usize, ls: usize) -> u32 {
    if ls == 2 { u16::from_le_bytes([b[lo], b[lo + 1]]) as u32 } else { u32::from_le_bytes([b[lo], b[lo + 1], b[lo + 2], b[lo + 3]]) }
}
fn malform(r: &mut Rng, mut b: Vec<u8>) -> (Vec<u8>, &'static str) {
    let els = elements_of(&b);
    if els.len() < 2 { return (b, "malformed-none"); }
    let glen = u32::from_le_bytes([b[12], b[13], b[14], b[15]]);
    let k = 1 + r.below(els.len() as u64 - 1) as usize; // not the group length element itself
    let (eo, lo, ls) = els[k];
    match r.below(12) {
        0 => { // group length smaller: ends inside or between elements
            let cut = *r.pick(&[0u32, 1, 7, 8, 9, 13, 14, 15, 22]).min(&glen);
            let g = if r.coin() { cut } else { glen.saturating_sub(cut.max(1)) };
            b[12..16].copy_from_slice(&g.to_le_bytes()); (b, "malformed-glen-smaller") }
        1 => { // group length larger than the real group (reads into what follows / end of input)
            let g = glen.saturating_add(*r.pick(&[1u32, 2, 7, 8, 9, 12, 100, 65536, 0x7fff_ffff, 0xffff_fff0]));
            b[12..16].copy_from_slice(&g.to_le_bytes());
            if r.coin() { b.extend_from_slice(&[8, 0, 5, 0, b'C', b'S', 2, 0, b'A', b' ']); }
            (b, "malformed-glen-larger") }
        2 => { b[12..16].copy_from_slice(&r.pick(&[0u32, 0xffff_ffff, 0xffff_fffe, 0x8000_0000]).to_le_bytes()); (b, "malformed-glen-extreme") }
        3 => { // element length beyond the group / the input (bounded: no huge allocations)
            let l = get_len(&b, lo, ls);
            let add = if ls == 2 { *r.pick(&[2u32, 100, 60000]) } else { *r.pick(&[2u32, 100, 70000, 1 << 24]) };
            set_len(&mut b, lo, ls, l.saturating_add(add)); (b, "malformed-len-beyond") }
        4 => { let l = get_len(&b, lo, ls); set_len(&mut b, lo, ls, if r.coin() { l.wrapping_add(1) } else { l.saturating_sub(1) }); (b, "malformed-odd-length") }
        5 => { // odd length with the group length kept consistent: drop / add one value byte
            let l = get_len(&b, lo, ls);
            if l > 0 && r.coin() { set_len(&mut b, lo, ls, l - 1); b.remove(lo + ls); b[12..16].copy_from_slice(&glen.wrapping_sub(1).to_le_bytes()); }
            else { set_len(&mut b, lo, ls, l.wrapping_add(1)); b.insert(lo + ls, b'x'); b[12..16].copy_from_slice(&glen.wrapping_add(1).to_le_bytes()); }
            (b, "malformed-odd-consistent") }
        6 => { let vr = *r.pick(&[*b"ZZ", [0, 0], *b"ui", *b"UN", *b"OB", *b"SQ", *b"UT", *b"OW", [0xff, 0xff], *b"UL", *b"US"]); b[eo + 4] = vr[0]; b[eo + 5] = vr[1];
            (b, "malformed-vr") }
        7 => { if ls == 4 { set_len(&mut b, lo, ls, 0xffff_ffff); } else { set_len(&mut b, lo, ls, 0xffff); } (b, "malformed-undefined-length") }
        8 => { // an element of another group / an item delimiter in place of the tag
            let t: [u8; 4] = *r.pick(&[[0xfe, 0xff, 0x0d, 0xe0], [0xfe, 0xff, 0x00, 0xe0], [0xfe, 0xff, 0xdd, 0xe0], [8, 0, 5, 0], [2, 0, 0xff, 0xff], [0, 0, 0, 0]]);
            b[eo..eo + 4].copy_from_slice(&t); (b, "malformed-tag") }
        9 => { // duplicate an element (last one wins), group length adjusted or not
            let end = if k + 1 < els.len() { els[k + 1].0 } else { b.len() };
            let el: Vec<u8> = b[eo..end].to_vec();
            let at = end; for (j, x) in el.iter().enumerate() { b.insert(at + j, *x); }
            if r.coin() { b[12..16].copy_from_slice(&(glen + el.len() as u32).to_le_bytes()); }
            (b, "malformed-duplicate") }
        10 => { // group length element itself: wrong VR / wrong length
            if r.coin() { b[8] = b'O'; b[9] = b'B'; } else { b[10] = *r.pick(&[0u8, 2, 3, 5, 8]); }
            (b, "malformed-glen-element") }
        _ => { let n = r.below(b.len() as u64 + 1) as usize; b.truncate(n); (b, "malformed-truncated") }
    }
}

// ---------------------------------------------------------------- preamble
struct Chunked<'a> { data: &'a [u8], pos: usize, first: usize }
impl<'a> Read for Chunked<'a> {
    fn read(&mut self, buf: &mut [u8]) -> std::io::Result<usize> {
        let lim = if self.pos == 0 { self.first } else { usize::MAX };
        let n = buf.len().min(self.data.len() - self.pos).min(lim);
        buf[..n].copy_from_slice(&self.data[self.pos..self.pos + n]);
        self.pos += n;
        Ok(n)
    }
}

fn open_class(res: Option<Result<FileDicomObject<InMemDicomObject>, ReadError>>) -> (String, Option<FileDicomObject<InMemDicomObject>>) {
    match res {
        None => (c_panic(), None),
        Some(Ok(o)) => (c_ok(&c_meta(o.meta())), Some(o)),
        Some(Err(ReadError::ParseMetaDataSet { source, .. })) => (c_err(meta_err_class(&source)), None),
        Some(Err(ReadError::ReadFile { .. })) | Some(Err(ReadError::ReadPreambleBytes { .. })) => (c_err(20), None),
        Some(Err(_)) => (c_err(30), None),
    }
}

fn popt(o: u64) -> (ReadPreamble, &'static str) {
    match o { 0 => (ReadPreamble::Auto, "PAuto"), 1 => (ReadPreamble::Never, "PNever"), _ => (ReadPreamble::Always, "PAlways") }
}

fn canon_obj(o: &FileDicomObject<InMemDicomObject>) -> String {
    let mut v = vec![];
    for e in o.iter() { v.push(format!("{:?}:{:?}:{:?}", e.header().tag, e.header().vr, e.value().to_str().ok())); }
    let m = o.meta();
    let tr = |s: &String| s.trim_end_matches(|c: char| c.is_whitespace() || c == '\0').to_string();
    let (g, ver, s4, o5, p) = fields(m);
    let s4: Vec<String> = s4.iter().map(tr).collect();
    let o5: Vec<Option<String>> = o5.iter().map(|o| o.as_ref().map(tr)).collect();
    let p = p.map(|mut b| { if b.len() % 2 == 0 && b.last() == Some(&0) { b.pop(); } b });
    format!("{:?}|{}", (g, ver, s4, o5, p), v.join(";"))
}

/// `file`: complete bytes; `k`: size of the first chunk delivered by the byte source.
/// `expect`: Some(canonical object) when the file was produced by write_all (with or without its preamble removed)
fn preamble_case(dir: &std::path::Path, idx: usize, bucket: &str, file: Vec<u8>, k: usize, opt: u64, expect: Option<String>) -> Case {
    // whether the file was produced WITH its 128-byte preamble (whatever the preamble contains)
    let with_preamble = !bucket.contains("without") && !bucket.contains("dicm-at-128");
    let iu = c_str(dicom_object::IMPLEMENTATION_CLASS_UID);
    let inm = c_str(dicom_object::IMPLEMENTATION_VERSION_NAME);
    let (ropt, copt) = popt(opt);
    let path = dir.join(format!("p{}.dcm", idx));
    std::fs::write(&path, &file).unwrap();
    let (cp, op) = open_class(catch(|| OpenFileOptions::new().read_preamble(ropt).open_file(&path)));
    let _ = std::fs::remove_file(&path);
    let (cr, or) = open_class(catch(|| OpenFileOptions::new().read_preamble(ropt).from_reader(Chunked { data: &file, pos: 0, first: k.max(1) })));
    let oracle = match (&expect, opt) {
        (Some(want), 0) => {
            let gp = op.as_ref().map(canon_obj);
            let gr = or.as_ref().map(canon_obj);
            if gp.as_deref() == Some(want) && gr.as_deref() == Some(want) { Oracle::Holds }
            else {
                // classify the failing input precisely
                let dicm128 = file.len() >= 132 && &file[128..132] == b"DICM";
                let class = if !with_preamble && &file[0..4.min(file.len())] == b"DICM" && dicm128 { "NoPreambleDicmAt128" }
                    else if gp.as_deref() == Some(want) && k.min(8192) < file.len().min(132) { "ShortFirstRead" }
                    else { "PreambleReadBack" };
                Oracle::Fails { class: class.into(), detail: format!("by_path={} by_reader={} first_chunk={} want={} got_path={:?}", cp.chars().take(30).collect::<String>(), cr.chars().take(30).collect::<String>(), k, want, gp) }
            }
        }
        _ => Oracle::NotApplicable,
    };
    Case {
        coq: format!("(CPreamble {} {} {} {} {} {} {})", iu, inm, c_bytes(&file), k.max(1), copt, cp, cr),
        desc: json!({"bucket": bucket, "file_len": file.len(), "head": hex(&file[..file.len().min(8)]), "first_chunk": k, "opt": copt, "by_path": cp.chars().take(24).collect::<String>(), "by_reader": cr.chars().take(24).collect::<String>()}),
        key: format!("P{}|{}|{}|{}", hex(&file), k, opt, bucket),
        oracle,
    }
}

fn simple_file(r: &mut Rng, ver_name: Option<&str>) -> (Vec<u8>, String) {
    let mut obj = InMemDicomObject::new_empty();
    obj.put(DataElement::new(Tag(0x0010, 0x0010), VR::PN, PrimitiveValue::from(rand_ascii(r, 9, b"ABC^ def"))));
    if r.coin() { obj.put(DataElement::new(Tag(0x0010, 0x0020), VR::LO, PrimitiveValue::from(rand_ascii(r, 6, b"0123456789")))); }
    let ts = *r.pick(&["1.2.840.10008.1.2", "1.2.840.10008.1.2.1", "1.2.840.10008.1.2.2"]);
    let mut b = FileMetaTableBuilder::new().transfer_syntax(ts).media_storage_sop_class_uid(uid(r) + "1").media_storage_sop_instance_uid(uid(r) + "2");
    if let Some(v) = ver_name { b = b.implementation_class_uid("1.2.3").implementation_version_name(v); }
    let f = obj.with_meta(b).unwrap();
    let mut out = vec![];
    f.write_all(&mut out).unwrap();
    (out, canon_obj(&f))
}

/// a complete file WITHOUT preamble whose bytes 128..132 are "DICM" (inside Implementation Version Name)
fn dicm128_file() -> (Vec<u8>, String) {
    let mut obj = InMemDicomObject::new_empty();
    obj.put(DataElement::new(Tag(0x0010, 0x0010), VR::PN, PrimitiveValue::from("A^B")));
    let b = FileMetaTableBuilder::new().transfer_syntax("1.2.840.10008.1.2.1").media_storage_sop_class_uid("1.2.3.4")
        .media_storage_sop_instance_uid("1.2.3.4.5.6").implementation_class_uid("1.2.3").implementation_version_name("xxxxxxxxxxxxDICM");
    let f = obj.with_meta(b).unwrap();
    let mut out = vec![];
    f.write_all(&mut out).unwrap();
    (out[128..].to_vec(), canon_obj(&f))
}

/// A file whose meta group has no Media Storage SOP Class/Instance UID while the data set has
/// SOP Class/Instance UID: opening it fills the table from the data set. The table obtained must
/// still satisfy the group length property (oracle only; the inference is outside the Coq model).
fn inferred_case(r: &mut Rng, k: usize) -> Case {
    let mut obj = InMemDicomObject::new_empty();
    let cls = if k % 2 == 0 { "1.2.840.10008.5.1.4.1.1.7".to_string() } else { uid(r) + "7" };
    let inst = uid(r) + "1";
    obj.put(DataElement::new(Tag(0x0008, 0x0016), VR::UI, PrimitiveValue::from(cls.clone())));
    obj.put(DataElement::new(Tag(0x0008, 0x0018), VR::UI, PrimitiveValue::from(inst.clone())));
    let meta = FileMetaTableBuilder::new().transfer_syntax("1.2.840.10008.1.2.1").build().unwrap();
    let f = obj.with_exact_meta(meta);
    let mut file = vec![];
    f.write_all(&mut file).unwrap();
    let res = catch(|| dicom_object::from_reader(&file[..]));
    let oracle = match res {
        Some(Ok(o)) => {
            let m = o.meta().clone();
            let mut w = vec![];
            match m.write(&mut w) {
                Ok(()) if m.information_group_length as usize == w.len() - 12 => {
                    // and the file written from the opened object reads back
                    let mut again = vec![];
                    let ok = o.write_all(&mut again).is_ok() && dicom_object::from_reader(&again[..]).map(|o2| canon_obj(&o2) == canon_obj(&o)).unwrap_or(false);
                    if ok { Oracle::Holds } else { Oracle::Fails { class: "InferredSopStaleLength".into(), detail: "rewritten file does not read back".into() } }
                }
                Ok(()) => Oracle::Fails { class: "InferredSopStaleLength".into(), detail: format!("recorded {} actual {} (class {:?} instance {:?})", m.information_group_length, w.len() - 12, cls, inst) },
                Err(e) => Oracle::Fails { class: "InferredSopWrite".into(), detail: format!("{e}") },
            }
        }
        _ => Oracle::Fails { class: "InferredSopOpen".into(), detail: "could not open".into() },
    };
    Case { coq: String::new(), desc: json!({"bucket": "inferred-sop", "class_uid": cls, "instance_uid": inst}), key: format!("I{}|{}", cls, inst), oracle }
}

pub fn cases(ctx: &Ctx) -> Vec<Case> {
    let mut r = Rng::new(ctx.seed);
    let mut out = vec![];
    let dir = std::env::temp_dir().join(format!("vh_obj_c09_{}_{}", std::process::id(), ctx.seed));
    std::fs::create_dir_all(&dir).unwrap();

    // ---- fixed corpus
    {
        // the three tables of the crate's own tests + boundary strings
        let base = BInput { ver: Some([0, 1]), s4: [Some("1.2.840.10008.5.1.4.1.1.1".into()), Some("1.2.3.4.5.12345678.1234567890.1234567.123456789.1234567".into()), Some("1.2.840.10008.1.2.1".into()), Some("1.2.345.6.7890.1.234".into())],
            o5: [Some("RUSTY_DICOM_269".into()), Some("".into()), None, None, None], pinfo: None };
        out.push(table_case(&mut r, 0, base.clone(), 0, 6, "corpus"));
        let mut b = base.clone(); b.s4[3] = None; b.o5[0] = Some("ignored".into());
        out.push(table_case(&mut r, 0, b, 0, 6, "corpus-default-impl"));
        let mut b = base.clone(); b.s4[2] = None;
        out.push(table_case(&mut r, 0, b, 0, 0, "corpus-missing-ts"));
        for n in [65534usize, 65535] {
            let mut b = base.clone(); b.o5[1] = Some("A".repeat(n));
            out.push(table_case(&mut r, 0, b, 0, 0, "corpus-long"));
        }
        let mut b = base.clone(); b.pinfo = Some(vec![1, 0, 0]); b.o5[4] = Some("1.2.3".into());
        out.push(table_case(&mut r, 0, b, 0, 8, "corpus-private"));
        let mut b = base.clone(); b.s4[0] = Some("1.2.é".into());
        out.push(table_case(&mut r, 0, b, 1, 2, "corpus-latin1"));
    }
    {
        // truncated at every offset: a minimal group and one with every optional element
        let minimal = FileMetaTableBuilder::new().transfer_syntax("1.2.840.10008.1.2").build().unwrap();
        let full = FileMetaTableBuilder::new().transfer_syntax("1.2.3").media_storage_sop_class_uid("1.2").media_storage_sop_instance_uid("1")
            .implementation_class_uid("1.9").implementation_version_name("V").source_application_entity_title("A").sending_application_entity_title("B")
            .receiving_application_entity_title("C").private_information_creator_uid("1.8").private_information(vec![1u8, 2, 3]).build().unwrap();
        for t in [&minimal, &full] {
            let mut bytes = b"DICM".to_vec();
            t.write(&mut bytes).unwrap();
            let step = if ctx.tier == Tier::Thorough || bytes.len() < 120 { 1 } else { 3 };
            let mut n = 0;
            while n <= bytes.len() { out.push(read_case(&mut r, "malformed-truncated-every-offset", bytes[..n].to_vec())); n += step; }
        }
    }
    {
        // a corrupted header declaring ~3.7 GiB in a source of 60 bytes (fixed 083d532: used to allocate and zero-fill it first)
        let mut bytes = b"DICM".to_vec();
        bytes.extend_from_slice(&[2, 0, 0, 0, b'U', b'L', 4, 0, 40, 0, 0, 0]);
        bytes.extend_from_slice(&[2, 0, 0x10, 0, b'z', b'z', 0, 0, 0, 0, 0, 0xe0]);
        bytes.extend_from_slice(b"1.2.840.10008.1.2.1\0");
        out.push(read_case(&mut r, "corpus-huge-declared-length", bytes));
    }
    out.push(inferred_case(&mut r, 0));
    out.push(inferred_case(&mut r, 1));
    // preamble corpus: known findings and boundaries
    {
        let (f, want) = simple_file(&mut r, None);
        out.push(preamble_case(&dir, out.len(), "pre-corpus-with", f.clone(), 8192, 0, Some(want.clone())));
        out.push(preamble_case(&dir, out.len(), "pre-corpus-without", f[128..].to_vec(), 8192, 0, Some(want.clone())));
        // application-defined preamble content, also carrying the magic code at offsets 0, 1, 64, 124:
        // the file must open like the one with the all-zero preamble
        for at in [0usize, 1, 64, 124] {
            let mut g = f.clone();
            g[at..at + 4].copy_from_slice(b"DICM");
            out.push(preamble_case(&dir, out.len(), "pre-corpus-preamble-with-dicm", g, 8192, 0, Some(want.clone())));
        }
        { let mut g = f.clone(); for (i, b) in g[..128].iter_mut().enumerate() { *b = (i as u8).wrapping_mul(37).wrapping_add(1); }
          out.push(preamble_case(&dir, out.len(), "pre-corpus-preamble-arbitrary", g, 8192, 0, Some(want.clone()))); }
        // byte source whose first read is short (ShortFirstRead)
        out.push(preamble_case(&dir, out.len(), "pre-corpus-short-first-read", f.clone(), 100, 0, Some(want.clone())));
        out.push(preamble_case(&dir, out.len(), "pre-corpus-first-read-131", f.clone(), 131, 0, Some(want.clone())));
        out.push(preamble_case(&dir, out.len(), "pre-corpus-first-read-132", f.clone(), 132, 0, Some(want.clone())));
        // file without preamble that has "DICM" at offset 128 (NoPreambleDicmAt128)
        let (np, w) = dicm128_file();
        assert!(np.len() >= 132 && &np[128..132] == b"DICM" && &np[0..4] == b"DICM");
        out.push(preamble_case(&dir, out.len(), "pre-corpus-dicm-at-128", np, 8192, 0, Some(w)));
    }

    // ---- generated
    let n = ctx.n;
    while out.len() < n {
        let i = out.len();
        match i % 10 {
            0..=3 => { let inp = gen_input(&mut r, 0); let k = r.range(0, 12) as usize; out.push(table_case(&mut r, i, inp, 0, k, "table-ascii")); }
            4 | 5 => { let inp = gen_input(&mut r, (i % 2) as u32); let k = r.range(0, 8) as usize; out.push(table_case(&mut r, i, inp, 1, k, "table-nonascii")); }
            7 => {
                // valid group, structure-aware malformation
                let inp = gen_input(&mut r, 0);
                let mut bytes = b"DICM".to_vec();
                if let Ok(t) = run_builder(&inp) { let mut w = vec![]; if t.write(&mut w).is_ok() { bytes.extend_from_slice(&w); } }
                let (mut bytes, mut bucket) = malform(&mut r, bytes);
                if r.chance(1, 4) { let (b2, _) = malform(&mut r, bytes); bytes = b2; bucket = "malformed-twice"; }
                out.push(read_case(&mut r, bucket, bytes));
            }
            6 => {
                // valid group, mutated
                let kd = if r.chance(1, 6) { 1 } else { 0 }; let inp = gen_input(&mut r, kd);
                let mut bytes = b"DICM".to_vec();
                if let Ok(t) = run_builder(&inp) { let mut w = vec![]; if t.write(&mut w).is_ok() { bytes.extend_from_slice(&w); } }
                if r.coin() { bytes.extend_from_slice(&[8, 0, 5, 0, b'C', b'S', 2, 0, b'A', b' ']); }
                let k = r.below(3);
                for _ in 0..k { bytes = mutate(&mut r, bytes); }
                out.push(read_case(&mut r, if k == 0 { "read-valid" } else { "read-mutated" }, bytes));
            }
            _ => {
                let with_name = if r.chance(1, 3) { Some(format!("{}DICM", "y".repeat(r.below(40) as usize))) } else { None };
                let (f, want) = simple_file(&mut r, with_name.as_deref());
                let opt = if r.chance(2, 3) { 0 } else { r.range(1, 2) };
                let k = *r.pick(&[8192usize, 8192, 8192, 4096, 3, 4, 5, 100, 131, 132, 133, 200]);
                match r.below(8) {
                    0 | 1 => out.push(preamble_case(&dir, i, "pre-with", f, k, opt, Some(want))),
                    2 => out.push(preamble_case(&dir, i, "pre-without", f[128..].to_vec(), k, opt, Some(want))),
                    3 => { if r.chance(1, 4) { let (g, w) = dicm128_file(); out.push(preamble_case(&dir, i, "pre-without-dicm128", g, k, opt, Some(w))); }
                           else { out.push(preamble_case(&dir, i, "pre-without", f[128..].to_vec(), k, opt, Some(want))) } }
                    4 => { // preamble of arbitrary content, possibly carrying "DICM" (offsets 0, 1, 64, 124, random)
                        let mut g = f.clone();
                        if r.coin() { for b in g[..128].iter_mut() { *b = r.below(256) as u8; } }
                        if r.chance(2, 3) { let at = *r.pick(&[0usize, 0, 1, 64, 124, 60, 100]); g[at..at + 4].copy_from_slice(b"DICM"); }
                        out.push(preamble_case(&dir, i, "pre-arbitrary-preamble", g, k, opt, Some(want)));
                    }
                    5 => { // short / garbage files
                        let n = *r.pick(&[0usize, 1, 3, 4, 5, 127, 128, 131, 132, 133, 140]);
                        let mut g: Vec<u8> = (0..n).map(|_| r.below(256) as u8).collect();
                        if n >= 4 && r.coin() { g[0..4].copy_from_slice(b"DICM"); }
                        if n >= 132 && r.coin() { g[128..132].copy_from_slice(b"DICM"); }
                        out.push(preamble_case(&dir, i, "pre-garbage", g, k, opt, None));
                    }
                    6 => { let n = r.below(f.len() as u64 + 1) as usize; out.push(preamble_case(&dir, i, "pre-truncated", f[..n].to_vec(), k, opt, None)); }
                    _ => { let mut g = vec![0u8; 128]; g.extend_from_slice(&f); out.push(preamble_case(&dir, i, "pre-double-preamble", g, k, opt, None)); }
                }
            }
        }
    }
    // PartialEq cases ride along (cheap)
    for _ in 0..(n / 20).max(5) {
        let a = gen_input(&mut r, 0);
        let mut b = a.clone();
        match r.below(5) {
            0 => { if let Some(s) = b.s4[0].as_mut() { s.push(*r.pick(&['\0', ' ', 'x'])); } }
            1 => { if let Some(s) = b.o5[1].as_mut() { s.push(*r.pick(&['\0', ' ', 'x', '\u{a0}'])); } else { b.o5[1] = Some(String::new()); } }
            2 => { if let Some(p) = b.pinfo.as_mut() { p.push(0); } else { b.pinfo = Some(vec![]); } }
            3 => { b.ver = Some([1, 1]); }
            _ => {}
        }
        if let (Ok(ta), Ok(tb)) = (run_builder(&a), run_builder(&b)) {
            // compare without the builder's padding getting in the way: also a raw variant
            let mut tb2 = tb.clone();
            if r.coin() { tb2.information_group_length = ta.information_group_length; }
            let eq = ta == tb2;
            out.push(Case { coq: format!("(CEq {} {} {})", c_meta(&ta), c_meta(&tb2), c_bool(eq)), desc: json!({"bucket": "partial-eq", "eq": eq}), key: format!("E{:?}{:?}", fields(&ta), fields(&tb2)), oracle: Oracle::NotApplicable });
        }
    }
    let _ = std::fs::remove_dir_all(&dir);
    out
}
