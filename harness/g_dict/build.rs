//! Build script of g_dict: the names of the `pub const` items of
//! /repo/dictionary-std/src/{tags,uids}.rs cannot be enumerated through any API, so they are
//! read syntactically here and turned into tables that REFERENCE the real crate's constants
//! (`dicom_dictionary_std::tags::NAME`): names and doc keywords come from the source text,
//! values from the compiled crate.
use std::fmt::Write as _;
use std::{env, fs, path::Path};

/// the dicom-rs tree under verification: /repo, or $VERIF_REPO (scratch worktrees)
fn repo() -> String { env::var("VERIF_REPO").unwrap_or_else(|_| "/repo".to_string()) }

#[allow(non_snake_case)]
fn main() {
    let (TAGS, UIDS) = (format!("{}/dictionary-std/src/tags.rs", repo()), format!("{}/dictionary-std/src/uids.rs", repo()));
    println!("cargo:rerun-if-env-changed=VERIF_REPO");
    println!("cargo:rerun-if-changed={TAGS}");
    println!("cargo:rerun-if-changed={UIDS}");
    println!("cargo:rerun-if-changed=build.rs");
    let out_dir = env::var("OUT_DIR").unwrap();

    // ---- tag constants ----
    let src = fs::read_to_string(&TAGS).expect("read tags.rs");
    let mut out = String::new();
    out.push_str("pub static TAG_CONSTS: &[(&str, &str, &str, dicom_core::dictionary::TagRange)] = &[\n");
    let mut doc: Option<String> = None;
    let mut n = 0usize;
    for line in src.lines() {
        let l = line.trim();
        if let Some(d) = l.strip_prefix("///") {
            // only the LAST doc line before the item counts
            doc = Some(d.trim().to_string());
        } else if l.starts_with("#[") || l.is_empty() {
            // attributes between doc and item
            if l.is_empty() { doc = None; }
        } else if let Some(rest) = l.strip_prefix("pub const ") {
            if let Some((name, after)) = rest.split_once(':') {
                let name = name.trim();
                let ty = after.split('=').next().unwrap_or("").trim();
                if ty == "Tag" || ty == "TagRange" {
                    let d = doc.clone().unwrap_or_default();
                    let mut it = d.split_whitespace();
                    let alias = it.next().unwrap_or("");
                    let tagtxt = it.next().unwrap_or("");
                    let val = if ty == "Tag" {
                        format!("dicom_core::dictionary::TagRange::Single(dicom_dictionary_std::tags::{name})")
                    } else {
                        format!("dicom_dictionary_std::tags::{name}")
                    };
                    writeln!(out, "    ({name:?}, {alias:?}, {tagtxt:?}, {val}),").unwrap();
                    n += 1;
                }
            }
            doc = None;
        } else {
            doc = None;
        }
    }
    out.push_str("];\n");
    writeln!(out, "pub const TAG_CONSTS_LEN: usize = {n};").unwrap();
    // number of `E {` rows in the source of ENTRIES (completeness cross-check of the compiled table)
    let rows = src.lines().filter(|l| l.trim_start().starts_with("E {")).count();
    writeln!(out, "pub const TAG_ENTRY_ROWS_IN_SOURCE: usize = {rows};").unwrap();

    // ---- UID constants ----
    let src = fs::read_to_string(&UIDS).expect("read uids.rs");
    out.push_str("pub static UID_CONSTS: &[(&str, &str, &str)] = &[\n");
    let mut doc: Option<String> = None;
    for line in src.lines() {
        let l = line.trim();
        if let Some(d) = l.strip_prefix("///") {
            doc = Some(d.trim().to_string());
        } else if l.starts_with("#[") {
        } else if let Some(rest) = l.strip_prefix("pub const ") {
            if let Some((name, after)) = rest.split_once(':') {
                let name = name.trim();
                let ty = after.split('=').next().unwrap_or("").trim();
                if ty == "&str" {
                    let d = doc.clone().unwrap_or_default();
                    writeln!(out, "    ({name:?}, {d:?}, dicom_dictionary_std::uids::{name}),").unwrap();
                }
            }
            doc = None;
        } else {
            doc = None;
        }
    }
    out.push_str("];\n");
    fs::write(Path::new(&out_dir).join("consts.rs"), out).unwrap();
    // the generated source tables are pub(crate): compile the source files themselves into this crate
    let mods = format!("#[allow(dead_code, unused_imports, deprecated)]\n#[path = {TAGS:?}]\nmod tags_src;\n#[allow(dead_code, unused_imports, deprecated)]\n#[path = {UIDS:?}]\nmod uids_src;\n");
    fs::write(Path::new(&out_dir).join("src_mods.rs"), mods).unwrap();
}
