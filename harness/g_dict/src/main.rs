//! vh_dict — table-driven properties: C15 (standard data dictionary) and C16 (transfer syntax registry).
//!
//! The generated source tables of dicom-dictionary-std are `pub(crate)`; they are compiled into
//! this crate as modules straight from /repo's working tree (rustc is the "translator"), and the
//! real crate's registries are then compared against them.
// `mod tags_src;` and `mod uids_src;` with #[path] into the tree under verification (see build.rs)
include!(concat!(env!("OUT_DIR"), "/src_mods.rs"));
#[allow(dead_code, deprecated)]
mod consts { include!(concat!(env!("OUT_DIR"), "/consts.rs")); }

mod c15;
mod c16;
use vhc::*;

fn main() {
    run_main(
        |prop, ctx| match prop {
            "C15" => Some(c15::cases(ctx)),
            "C16" => Some(c16::cases(ctx)),
            _ => None,
        },
        |prop, out| match prop {
            "C15" => c15::tables(out),
            "C16" => c16::tables(out),
            _ => false,
        },
    );
}
