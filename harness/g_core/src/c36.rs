//! C36 — AE addresses print/parse (ul/src/address.rs: Display/FromStr of FullAeAddr<T>, AeAddr<T>)
use dicom_ul::address::{AeAddr, FullAeAddr, ParseAeAddressError};
use serde_json::json;
use std::fmt::Display;
use std::net::{Ipv4Addr, Ipv6Addr, SocketAddr, SocketAddrV4, SocketAddrV6};
use std::str::FromStr;
use vhc::*;

const TITLE_CHARS: &[u8] = b"ABCDEFGHIJKLMNOPQRSTUVWXYZ0123456789_- ";

fn title(r: &mut Rng) -> String {
    match r.below(16) {
        0 => String::new(),                                        // the empty title (known class)
        1 => "@".into(),
        2 => { let mut s = rand_ascii(r, 8, TITLE_CHARS); s.insert(r.below(s.len() as u64 + 1) as usize, '@'); s }
        3 => { let mut s = rand_ascii(r, 8, TITLE_CHARS); s.push('\\'); s }     // backslash but no '@'
        4 => (0..r.range(1, 5)).map(|_| rand_unicode_char(r)).collect(),       // may contain '@' by chance
        5 => " ".into(),
        6 => (0..r.range(1, 4)).map(|_| *r.pick(&['@', '\\', 'A'])).collect(),
        _ => { let n = r.range(1, 16); (0..n).map(|_| *r.pick(TITLE_CHARS) as char).collect() }
    }
}

fn v4(r: &mut Rng) -> SocketAddrV4 {
    let ip = match r.below(4) { 0 => Ipv4Addr::new(127, 0, 0, 1), 1 => Ipv4Addr::new(0, 0, 0, 0), 2 => Ipv4Addr::new(255, 255, 255, 255), _ => Ipv4Addr::from(r.next() as u32) };
    let rp = r.next() as u16;
    SocketAddrV4::new(ip, *r.pick(&[0u16, 104, 11112, 65535, rp]))
}
fn v6(r: &mut Rng) -> SocketAddrV6 {
    let ip = match r.below(5) {
        0 => Ipv6Addr::LOCALHOST, 1 => Ipv6Addr::UNSPECIFIED,
        2 => Ipv4Addr::from(r.next() as u32).to_ipv6_mapped(),
        3 => { let mut seg = [0u16; 8]; for s in seg.iter_mut() { if r.coin() { *s = r.next() as u16 } } Ipv6Addr::from(seg) }
        _ => Ipv6Addr::from(((r.next() as u128) << 64) | r.next() as u128),
    };
    let scope = if r.chance(1, 4) { r.next() as u32 } else { 0 };
    let rp = r.next() as u16;
    SocketAddrV6::new(ip, *r.pick(&[0u16, 104, 65535, rp]), 0, scope)
}
fn host(r: &mut Rng) -> String {
    match r.below(8) {
        0 => String::new(),
        1 => format!("user@{}:104", rand_ascii(r, 6, b"abc.")),     // address text containing '@'
        2 => "@".into(),
        3 => v4(r).to_string(),
        4 => v6(r).to_string(),
        5 => (0..r.below(6)).map(|_| rand_unicode_char(r)).collect(),
        _ => format!("{}.example.com:{}", rand_ascii(r, 8, b"abcdefghijklmnopqrstuvwxyz0123456789-"), r.below(65536)),
    }
}

/// text handed to the parsers when it is not the printed form
fn wild_text(r: &mut Rng, printed: &str) -> String {
    match r.below(6) {
        0 => { // drop or duplicate one char of the printed form
            let cs: Vec<char> = printed.chars().collect();
            if cs.is_empty() { return "@".into() }
            let k = r.below(cs.len() as u64) as usize;
            let mut o: Vec<char> = cs.clone();
            if r.coin() { o.remove(k); } else { o.insert(k, cs[k]); }
            o.into_iter().collect()
        }
        1 => format!("{}@{}", title(r), host(r)),
        2 => format!("{}@{}", title(r), if r.coin() { v4(r).to_string() } else { v6(r).to_string() }),
        3 => host(r),
        4 => (0..r.below(10)).map(|_| if r.chance(1, 4) { '@' } else { rand_unicode_char(r) }).collect(),
        _ => format!("@{}", printed),
    }
}

fn parse_table<T: FromStr + Display>(text: &str) -> Vec<(String, Option<String>)> {
    let mut keys = vec![text.to_string()];
    if let Some((_, rest)) = text.split_once('@') { keys.push(rest.to_string()); }
    keys.into_iter().map(|k| { let v = k.parse::<T>().ok().map(|a| a.to_string()); (k, v) }).collect()
}

fn c_outcome_str(v: &Option<String>) -> String { match v { Some(s) => c_ok(&c_str(s)), None => c_err(2) } }

fn one<T>(r: &mut Rng, ty: &str, kind: u64, t: Option<String>, addr: T, force_printed: bool) -> Case
where
    T: FromStr + Display + Clone + PartialEq,
    <T as FromStr>::Err: std::error::Error + 'static,
{
    let addr_text = addr.to_string();
    // ---- implementation: print
    let printed = if kind == 0 {
        FullAeAddr::new(t.clone().unwrap_or_default(), addr.clone()).to_string()
    } else {
        match &t { Some(t) => AeAddr::new(t.clone(), addr.clone()).to_string(), None => AeAddr::new_socket_addr(addr.clone()).to_string() }
    };
    let text = if force_printed || r.chance(3, 5) { printed.clone() } else { wild_text(r, &printed) };
    // ---- implementation: parse (canonical: title option, printed address)
    let parse_full = |s: &str| -> Result<(Option<String>, T), u32> {
        match FullAeAddr::<T>::from_str(s) {
            Ok(f) => { let (t, a) = f.into_parts(); Ok((Some(t), a)) }
            Err(ParseAeAddressError::MissingPart) => Err(1),
            Err(ParseAeAddressError::ParseSocketAddress { .. }) => Err(2),
        }
    };
    let parse_ae = |s: &str| -> Result<(Option<String>, T), u32> {
        match AeAddr::<T>::from_str(s) { Ok(a) => Ok(a.into_parts()), Err(_) => Err(2) }
    };
    let parse = |s: &str| if kind == 0 { parse_full(s) } else { parse_ae(s) };
    let parsed = catch(|| parse(&text));
    let parsed_c = match &parsed {
        None => c_panic(),
        Some(Ok((t, a))) => c_ok(&c_pair(&c_opt(t.as_ref().map(|s| c_str(s))), &c_str(&a.to_string()))),
        Some(Err(e)) => c_err(*e),
    };
    let tbl = parse_table::<T>(&text);
    // ---- direct oracle: the property text on the implementation
    let title_s = if kind == 0 { Some(t.clone().unwrap_or_default()) } else { t.clone() };
    let oracle = match &title_s {
        Some(ts) if ts.contains('@') => Oracle::NotApplicable,
        _ => {
            let back = catch(|| parse(&printed));
            let want = (title_s.clone(), addr.clone());
            match back {
                Some(Ok(ref got)) if *got == want => Oracle::Holds,
                other => {
                    let class = match &title_s { Some(ts) if ts.is_empty() => "EmptyTitle", Some(_) => "titled-roundtrip", None => "untitled-roundtrip" };
                    Oracle::Fails { class: class.into(), detail: format!("{} {:?}@{} printed {:?} parsed back {:?}", if kind == 0 { "FullAeAddr" } else { "AeAddr" }, title_s, addr_text, printed,
                        other.map(|r| r.map(|(t, a)| (t, a.to_string())))) }
                }
            }
        }
    };
    let coq = c_tuple(&[
        c_n(kind), c_opt(t.as_ref().map(|s| c_str(s))), c_str(&addr_text), c_str(&printed), c_str(&text),
        c_list(tbl.iter().map(|(k, v)| c_pair(&c_str(k), &c_outcome_str(v)))), parsed_c.clone(),
    ]);
    let bucket = format!("{}/{}/{}/{}", if kind == 0 { "full" } else { "ae" }, ty,
        match &title_s { None => "untitled", Some(s) if s.is_empty() => "empty-title", Some(s) if s.contains('@') => "title-with-at", _ => "titled" },
        if text == printed { "printed" } else { "wild" });
    let trivial = title_s.as_deref().map_or(false, |s| s.is_empty()) && addr_text.is_empty();
    Case {
        coq,
        desc: json!({"bucket": bucket, "type": ty, "kind": if kind == 0 { "FullAeAddr" } else { "AeAddr" }, "title": t, "addr": addr_text,
                     "printed": printed, "text": text, "parsed": parsed_c}),
        key: if trivial { String::new() } else { format!("{}|{}|{:?}|{}|{}", kind, ty, t, addr_text, text) },
        oracle,
    }
}

pub fn cases(ctx: &Ctx) -> Vec<Case> {
    let mut r = Rng::new(ctx.seed);
    let mut out = vec![];
    // fixed corpus first: witnesses of the known class and boundary shapes
    let lo = SocketAddr::from(([127, 0, 0, 1], 104));
    out.push(one(&mut r, "SocketAddr", 0, Some(String::new()), lo, true));            // EmptyTitle (FullAeAddr)
    out.push(one(&mut r, "SocketAddr", 1, Some(String::new()), lo, true));            // EmptyTitle (AeAddr)
    out.push(one(&mut r, "String", 0, Some(String::new()), String::new(), true));
    out.push(one(&mut r, "String", 1, None, "user@host:104".to_string(), true));      // untitled, '@' in the address
    out.push(one(&mut r, "String", 1, None, "@".to_string(), true));
    out.push(one(&mut r, "String", 1, None, String::new(), true));
    out.push(one(&mut r, "String", 0, Some("ABC".into()), "DICOM@pacs.archive.example.com:104".to_string(), true));
    out.push(one(&mut r, "String", 0, Some("A@B".into()), "h:1".to_string(), true)); // escaped '@' does not parse back
    out.push(one(&mut r, "SocketAddr", 1, None, lo, true));
    out.push(one(&mut r, "SocketAddrV6", 0, Some("STORE-SCP".into()), SocketAddrV6::new(Ipv6Addr::LOCALHOST, 104, 0, 7), true));
    while out.len() < ctx.n {
        let kind = r.below(2);
        let t = if kind == 1 && r.chance(1, 4) { None } else { Some(title(&mut r)) };
        let c = match r.below(5) {
            0 | 1 => { let a = host(&mut r); one(&mut r, "String", kind, t, a, false) }
            2 => { let a = if r.coin() { SocketAddr::V4(v4(&mut r)) } else { SocketAddr::V6(v6(&mut r)) }; one(&mut r, "SocketAddr", kind, t, a, false) }
            3 => { let a = v4(&mut r); one(&mut r, "SocketAddrV4", kind, t, a, false) }
            _ => { let a = v6(&mut r); one(&mut r, "SocketAddrV6", kind, t, a, false) }
        };
        out.push(c);
    }
    out
}
