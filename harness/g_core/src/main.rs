//! vh_core — properties about pure functions of dicom-core (and ul::address).
mod c11;
mod c14;
mod c17;
mod c36;
use vhc::*;

fn main() {
    run_main(
        |prop, ctx| match prop {
            "C11" => Some(c11::cases(ctx)),
            "C14" => Some(c14::cases(ctx)),
            "C17" => Some(c17::cases(ctx)),
            "C36" => Some(c36::cases(ctx)),
            _ => None,
        },
        |prop, out| match prop {
            "C14" => c14::tables(out),
            _ => false,
        },
    );
}
