//! vh_core — properties about pure functions of dicom-core (and ul::address).
mod c17;
use vhc::*;

fn main() {
    run_main(
        |prop, ctx| match prop {
            "C17" => Some(c17::cases(ctx)),
            _ => None,
        },
        |_prop, _out| false,
    );
}
