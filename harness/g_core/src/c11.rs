//! C11 — numeric conversions exact or fail; extend / truncate (core/src/value/primitive.rs)
use dicom_core::value::{ConvertValueError, DicomDate, DicomDateTime, DicomTime, InvalidValueReadError, ModifyValueError, PrimitiveValue};
use dicom_core::Tag;
use serde_json::json;
use vhc::*;

// ------------------------------------------------------------------ pools
fn dates() -> Vec<DicomDate> { vec![DicomDate::from_y(1999).unwrap(), DicomDate::from_ym(2001, 2).unwrap(), DicomDate::from_ymd(2020, 12, 31).unwrap(), DicomDate::from_ymd(1900, 1, 1).unwrap()] }
fn times() -> Vec<DicomTime> { vec![DicomTime::from_h(7).unwrap(), DicomTime::from_hm(23, 59).unwrap(), DicomTime::from_hms(0, 0, 0).unwrap(), DicomTime::from_hms_milli(12, 30, 1, 5).unwrap()] }
fn datetimes() -> Vec<DicomDateTime> { dates().into_iter().map(DicomDateTime::from_date).collect() }

const PADS: &[&str] = &["", " ", "  ", "\0", " \0", "\t", "\n", "\u{a0}", "\u{3000}", "\u{2003}", "\0\0 "];
const INTERESTING: &[i128] = &[0, 1, -1, 7, 9, 10, 127, 128, 255, 256, -128, -129, 32767, 32768, -32768, -32769, 65535, 65536, 2147483647, 2147483648, -2147483648, -2147483649,
    4294967295, 4294967296, 9223372036854775807, 9223372036854775808, -9223372036854775808, -9223372036854775809, 18446744073709551615, 18446744073709551616, 99999999999999999999999];

fn int_in(r: &mut Rng, lo: i128, hi: i128) -> i128 {
    let cands: Vec<i128> = INTERESTING.iter().cloned().filter(|x| *x >= lo && *x <= hi).collect();
    match r.below(4) {
        0 if !cands.is_empty() => *r.pick(&cands),
        1 => *r.pick(&[lo, hi, lo + 1, hi - 1]),
        2 => { let span = (hi - lo) as u128 + 1; lo + ((r.next() as u128 | ((r.next() as u128) << 64)) % span) as i128 }
        _ => { let v = r.below(300) as i128 - 20; v.clamp(lo, hi) }
    }
}
fn num_text(r: &mut Rng) -> String {
    let core = match r.below(12) {
        0 => String::new(),
        1 => "+".into(), 2 => "-".into(),
        3 => format!("{}", *r.pick(INTERESTING)),
        4 => format!("+{}", r.pick(INTERESTING).abs()),
        5 => format!("{:05}", r.below(100000)),
        6 => format!("-{:03}", r.below(1000)),
        7 => r.pick(&["1 2", "12a", "0x10", "1e3", "1.0", "１２", "--1", "+-1", "1_000", "٣", "-0", "+0", "00", "1\02"]).to_string(),
        _ => format!("{}", r.below(70000) as i128 - 2000),
    };
    core
}
fn padded(r: &mut Rng, core: &str) -> String { format!("{}{}{}", r.pick(PADS), core, r.pick(PADS)) }
fn float_text(r: &mut Rng) -> String {
    let core = match r.below(8) {
        0 => *r.pick(&["1.5", "-6.75", "1e10", "1E-3", "inf", "-inf", "NaN", "nan", "+3.", ".5", "0", "-0", "1e400", "1e-400", "3.4028236e38", "16777217"]),
        1 => *r.pick(&["", "abc", "1,5", "1.5.2", "e5", "0x1p3", "1 5"]),
        _ => "",
    };
    if core.is_empty() && r.coin() { format!("{}.{}", r.below(1000), r.below(1000)) } else { core.to_string() }
}
fn f32_bits(r: &mut Rng) -> u32 { match r.below(4) { 0 => *r.pick(&[0u32, 0x8000_0000, 0x3f80_0000, 0x7f80_0000, 0xff80_0000, 0x7fc0_0000, 0x7fa0_0001, 0x4b80_0000, 0x4f00_0000, 0xcf00_0001, 0x7f7f_ffff, 1, 0x477f_ff00, 0xc300_0000, 0x4380_0000]), 1 => ((r.below(2000) as f32) / 8.0 - 100.0).to_bits(), _ => r.next() as u32 } }
fn f64_bits(r: &mut Rng) -> u64 { match r.below(4) { 0 => *r.pick(&[0u64, 0x8000_0000_0000_0000, 0x3ff0_0000_0000_0000, 0x7ff0_0000_0000_0000, 0xfff0_0000_0000_0000, 0x7ff8_0000_0000_0000, 0x7ff4_0000_0000_0001, 0x47ef_ffff_e000_0000, 0x47f0_0000_0000_0000, 0x43e0_0000_0000_0000, 0xc3e0_0000_0000_0001, 0x40ef_ffe0_0000_0000, 1]), 1 => ((r.below(200000) as f64) / 16.0 - 5000.0).to_bits(), _ => r.next() } }

fn rand_len(r: &mut Rng) -> usize { match r.below(9) { 0 => 0, 1 | 2 | 3 => 1, 4 | 5 => 2, 6 => 3, _ => r.range(2, 6) as usize } }

fn rand_value(r: &mut Rng, variant: u64) -> PrimitiveValue {
    let n = rand_len(r);
    match variant {
        0 => PrimitiveValue::Empty,
        1 => PrimitiveValue::Strs((0..n).map(|_| { let c = if r.chance(1, 5) { float_text(r) } else { num_text(r) }; padded(r, &c) }).collect()),
        2 => { let c = if r.chance(1, 5) { float_text(r) } else { num_text(r) }; PrimitiveValue::Str(padded(r, &c)) }
        3 => PrimitiveValue::U8((0..n).map(|_| int_in(r, 0, 255) as u8).collect()),
        4 => PrimitiveValue::I16((0..n).map(|_| int_in(r, -32768, 32767) as i16).collect()),
        5 => PrimitiveValue::U16((0..n).map(|_| int_in(r, 0, 65535) as u16).collect()),
        6 => PrimitiveValue::I32((0..n).map(|_| int_in(r, i32::MIN as i128, i32::MAX as i128) as i32).collect()),
        7 => PrimitiveValue::U32((0..n).map(|_| int_in(r, 0, u32::MAX as i128) as u32).collect()),
        8 => PrimitiveValue::I64((0..n).map(|_| int_in(r, i64::MIN as i128, i64::MAX as i128) as i64).collect()),
        9 => PrimitiveValue::U64((0..n).map(|_| int_in(r, 0, u64::MAX as i128) as u64).collect()),
        10 => PrimitiveValue::F32((0..n).map(|_| f32::from_bits(f32_bits(r))).collect()),
        11 => PrimitiveValue::F64((0..n).map(|_| f64::from_bits(f64_bits(r))).collect()),
        12 => PrimitiveValue::Tags((0..n).map(|_| Tag(r.next() as u16, r.next() as u16)).collect()),
        13 => { let p = dates(); PrimitiveValue::Date((0..n).map(|_| *r.pick(&p)).collect()) }
        14 => { let p = datetimes(); PrimitiveValue::DateTime((0..n).map(|_| *r.pick(&p)).collect()) }
        _ => { let p = times(); PrimitiveValue::Time((0..n).map(|_| *r.pick(&p)).collect()) }
    }
}
const VARIANT_NAMES: &[&str] = &["Empty", "Strs", "Str", "U8", "I16", "U16", "I32", "U32", "I64", "U64", "F32", "F64", "Tags", "Date", "DateTime", "Time"];
fn variant_of(v: &PrimitiveValue) -> usize {
    match v { PrimitiveValue::Empty => 0, PrimitiveValue::Strs(_) => 1, PrimitiveValue::Str(_) => 2, PrimitiveValue::U8(_) => 3, PrimitiveValue::I16(_) => 4, PrimitiveValue::U16(_) => 5,
        PrimitiveValue::I32(_) => 6, PrimitiveValue::U32(_) => 7, PrimitiveValue::I64(_) => 8, PrimitiveValue::U64(_) => 9, PrimitiveValue::F32(_) => 10, PrimitiveValue::F64(_) => 11,
        PrimitiveValue::Tags(_) => 12, PrimitiveValue::Date(_) => 13, PrimitiveValue::DateTime(_) => 14, PrimitiveValue::Time(_) => 15 }
}

// ------------------------------------------------------------------ Coq printers
fn c_zs<I: IntoIterator<Item = i128>>(xs: I) -> String { c_list(xs.into_iter().map(c_z)) }
fn c_value(v: &PrimitiveValue) -> String {
    match v {
        PrimitiveValue::Empty => "PEmpty".into(),
        PrimitiveValue::Strs(l) => format!("(PStrs {})", c_list(l.iter().map(|s| c_str(s)))),
        PrimitiveValue::Str(s) => format!("(PStr {})", c_str(s)),
        PrimitiveValue::U8(l) => format!("(PNum KU8 {})", c_zs(l.iter().map(|x| *x as i128))),
        PrimitiveValue::I16(l) => format!("(PNum KI16 {})", c_zs(l.iter().map(|x| *x as i128))),
        PrimitiveValue::U16(l) => format!("(PNum KU16 {})", c_zs(l.iter().map(|x| *x as i128))),
        PrimitiveValue::I32(l) => format!("(PNum KI32 {})", c_zs(l.iter().map(|x| *x as i128))),
        PrimitiveValue::U32(l) => format!("(PNum KU32 {})", c_zs(l.iter().map(|x| *x as i128))),
        PrimitiveValue::I64(l) => format!("(PNum KI64 {})", c_zs(l.iter().map(|x| *x as i128))),
        PrimitiveValue::U64(l) => format!("(PNum KU64 {})", c_zs(l.iter().map(|x| *x as i128))),
        PrimitiveValue::F32(l) => format!("(PF32 {})", c_list(l.iter().map(|x| x.to_bits().to_string()))),
        PrimitiveValue::F64(l) => format!("(PF64 {})", c_list(l.iter().map(|x| x.to_bits().to_string()))),
        PrimitiveValue::Tags(l) => format!("(POther 0 {})", c_list(l.iter().map(|t| ((t.group() as u32) * 65536 + t.element() as u32).to_string()))),
        PrimitiveValue::Date(l) => { let p = dates(); format!("(POther 1 {})", c_list(l.iter().map(|d| p.iter().position(|x| x == d).map_or(999, |i| i).to_string()))) }
        PrimitiveValue::DateTime(l) => { let p = datetimes(); format!("(POther 2 {})", c_list(l.iter().map(|d| p.iter().position(|x| x == d).map_or(999, |i| i).to_string()))) }
        PrimitiveValue::Time(l) => { let p = times(); format!("(POther 3 {})", c_list(l.iter().map(|d| p.iter().position(|x| x == d).map_or(999, |i| i).to_string()))) }
    }
}
fn conv_err_class(e: &ConvertValueError) -> u32 {
    match e.cause.as_deref() {
        None => 1,
        Some(InvalidValueReadError::ParseInteger { .. }) => 2,
        Some(InvalidValueReadError::NarrowConvert { .. }) => 3,
        Some(InvalidValueReadError::ParseFloat { .. }) => 4,
        Some(_) => 99,
    }
}
fn modify_err_class(e: &ModifyValueError) -> u32 { match e { ModifyValueError::IncompatibleStringType { .. } => 5, ModifyValueError::IncompatibleNumberType { .. } => 6, _ => 99 } }

// ------------------------------------------------------------------ independent arithmetic view of a value
fn trim_num(s: &str) -> &str { s.trim_matches(|c: char| c.is_whitespace() || c == '\0') }
/// independent big-integer reading of a decimal text under Rust's syntax; Err(()) = not a number; Ok(None) = beyond i128 (out of every range)
fn text_int(signed: bool, s: &str) -> Result<Option<i128>, ()> {
    let b = s.as_bytes();
    let (neg, ds) = match b.first() { Some(b'+') => (false, &b[1..]), Some(b'-') if signed => (true, &b[1..]), _ => (false, b) };
    if ds.is_empty() || !ds.iter().all(|c| c.is_ascii_digit()) { return Err(()) }
    let mut v: i128 = 0;
    for c in ds { v = match v.checked_mul(10).and_then(|x| x.checked_add((*c - b'0') as i128)) { Some(x) => x, None => return Ok(None) } }
    Ok(Some(if neg { -v } else { v }))
}
/// None = this variant has no integer view; Some(items) where an item is Ok(Some(z)) number, Ok(None) number out of all ranges, Err(()) not a number
fn int_items(signed: bool, v: &PrimitiveValue) -> Option<Vec<Result<Option<i128>, ()>>> {
    Some(match v {
        PrimitiveValue::Empty => vec![],
        PrimitiveValue::Str(s) => vec![text_int(signed, trim_num(s))],
        PrimitiveValue::Strs(l) => l.iter().map(|s| text_int(signed, trim_num(s))).collect(),
        PrimitiveValue::U8(l) => l.iter().map(|x| Ok(Some(*x as i128))).collect(),
        PrimitiveValue::I16(l) => l.iter().map(|x| Ok(Some(*x as i128))).collect(),
        PrimitiveValue::U16(l) => l.iter().map(|x| Ok(Some(*x as i128))).collect(),
        PrimitiveValue::I32(l) => l.iter().map(|x| Ok(Some(*x as i128))).collect(),
        PrimitiveValue::U32(l) => l.iter().map(|x| Ok(Some(*x as i128))).collect(),
        PrimitiveValue::I64(l) => l.iter().map(|x| Ok(Some(*x as i128))).collect(),
        PrimitiveValue::U64(l) => l.iter().map(|x| Ok(Some(*x as i128))).collect(),
        _ => return None,
    })
}

macro_rules! int_case {
    ($t:ty, $name:expr, $coqt:expr, $signed:expr, $v:expr, $bucket:expr) => {{
        let v: &PrimitiveValue = $v;
        let single = catch(|| v.to_int::<$t>());
        let multi = catch(|| v.to_multi_int::<$t>());
        let c_single = match &single { None => c_panic(), Some(Ok(x)) => c_ok(&c_z(*x as i128)), Some(Err(e)) => c_err(conv_err_class(e)) };
        let c_multi = match &multi { None => c_panic(), Some(Ok(l)) => c_ok(&c_zs(l.iter().map(|x| *x as i128))), Some(Err(e)) => c_err(conv_err_class(e)) };
        // direct oracle: exact or fail, one result per item, first item for the single conversion
        let (lo, hi) = (<$t>::MIN as i128, <$t>::MAX as i128);
        let oracle = match (int_items($signed, v), &single, &multi) {
            (_, None, _) | (_, _, None) => Oracle::Fails { class: "conversion-panics".into(), detail: format!("{:?} to {}", v, $name) },
            (None, Some(s), Some(m)) => if s.is_err() && m.is_err() { Oracle::NotApplicable } else { Oracle::Fails { class: "int-from-nonnumeric".into(), detail: format!("{:?} to {} gave {:?} / {:?}", v, $name, s.as_ref().ok(), m.as_ref().ok()) } },
            (Some(items), Some(s), Some(m)) => {
                let fits = |it: &Result<Option<i128>, ()>| matches!(it, Ok(Some(z)) if *z >= lo && *z <= hi);
                let want_multi: Option<Vec<i128>> = if items.iter().all(fits) { Some(items.iter().map(|it| it.unwrap().unwrap()).collect()) } else { None };
                let want_single: Option<i128> = items.first().and_then(|it| if fits(it) { Some(it.unwrap().unwrap()) } else { None });
                let got_multi: Option<Vec<i128>> = m.as_ref().ok().map(|l| l.iter().map(|x| *x as i128).collect());
                let got_single: Option<i128> = s.as_ref().ok().map(|x| *x as i128);
                if got_multi != want_multi {
                    let class = if items.is_empty() { "empty-value-not-empty-list" } else if got_multi.is_some() && want_multi.is_none() { "int-not-exact" } else { "multi-int-mismatch" };
                    Oracle::Fails { class: class.into(), detail: format!("{:?}.to_multi_int::<{}>() = {:?}, arithmetic says {:?}", v, $name, got_multi, want_multi) }
                } else if got_single != want_single {
                    Oracle::Fails { class: "single-int-mismatch".into(), detail: format!("{:?}.to_int::<{}>() = {:?}, arithmetic says {:?}", v, $name, got_single, want_single) }
                } else { Oracle::Holds }
            }
        };
        Case {
            coq: format!("(CInt {} {} {} {})", $coqt, c_value(v), c_single, c_multi),
            desc: json!({"bucket": format!("int/{}/{}/{}", VARIANT_NAMES[variant_of(v)], $name, $bucket), "value": format!("{:?}", v), "target": $name, "to_int": c_single, "to_multi_int": c_multi}),
            key: if v.multiplicity() == 0 && variant_of(v) > 11 { String::new() } else { format!("i|{}|{:?}", $name, v) },
            oracle,
        }
    }};
}

fn int_case(r: &mut Rng, v: &PrimitiveValue, which: u64, bucket: &str) -> Case {
    let _ = r;
    match which {
        0 => int_case!(u8, "u8", "T_u8", false, v, bucket), 1 => int_case!(i8, "i8", "T_i8", true, v, bucket),
        2 => int_case!(u16, "u16", "T_u16", false, v, bucket), 3 => int_case!(i16, "i16", "T_i16", true, v, bucket),
        4 => int_case!(u32, "u32", "T_u32", false, v, bucket), 5 => int_case!(i32, "i32", "T_i32", true, v, bucket),
        6 => int_case!(u64, "u64", "T_u64", false, v, bucket), 7 => int_case!(i64, "i64", "T_i64", true, v, bucket),
        8 => int_case!(usize, "usize", "T_usize", false, v, bucket), _ => int_case!(isize, "isize", "T_isize", true, v, bucket),
    }
}

// ------------------------------------------------------------------ floats
#[derive(Clone, PartialEq, Debug)]
enum FSrc { Text(String), Int(i128), F32(u32), F64(u64) }
fn c_fsrc(s: &FSrc) -> String { match s { FSrc::Text(t) => format!("(FromText {})", c_str(t)), FSrc::Int(z) => format!("(FromInt {})", c_z(*z)), FSrc::F32(b) => format!("(FromFloat (F32b {}))", b), FSrc::F64(b) => format!("(FromFloat (F64b {}))", b) } }
fn float_items(v: &PrimitiveValue) -> Option<Vec<FSrc>> {
    Some(match v {
        PrimitiveValue::Empty => vec![],
        PrimitiveValue::Str(s) => vec![FSrc::Text(trim_num(s).to_string())],
        PrimitiveValue::Strs(l) => l.iter().map(|s| FSrc::Text(trim_num(s).to_string())).collect(),
        PrimitiveValue::U8(l) => l.iter().map(|x| FSrc::Int(*x as i128)).collect(),
        PrimitiveValue::I16(l) => l.iter().map(|x| FSrc::Int(*x as i128)).collect(),
        PrimitiveValue::U16(l) => l.iter().map(|x| FSrc::Int(*x as i128)).collect(),
        PrimitiveValue::I32(l) => l.iter().map(|x| FSrc::Int(*x as i128)).collect(),
        PrimitiveValue::U32(l) => l.iter().map(|x| FSrc::Int(*x as i128)).collect(),
        PrimitiveValue::I64(l) => l.iter().map(|x| FSrc::Int(*x as i128)).collect(),
        PrimitiveValue::U64(l) => l.iter().map(|x| FSrc::Int(*x as i128)).collect(),
        PrimitiveValue::F32(l) => l.iter().map(|x| FSrc::F32(x.to_bits())).collect(),
        PrimitiveValue::F64(l) => l.iter().map(|x| FSrc::F64(x.to_bits())).collect(),
        _ => return None,
    })
}
/// the std operation the conversion amounts to (independent of dicom-rs)
fn std_conv(to64: bool, s: &FSrc) -> Option<u64> {
    if to64 {
        match s { FSrc::Text(t) => t.parse::<f64>().ok().map(|x| x.to_bits()), FSrc::Int(z) => Some((*z as f64).to_bits()), FSrc::F32(b) => Some((f32::from_bits(*b) as f64).to_bits()), FSrc::F64(b) => Some(*b) }
    } else {
        match s { FSrc::Text(t) => t.parse::<f32>().ok().map(|x| x.to_bits() as u64), FSrc::Int(z) => Some((*z as f32).to_bits() as u64), FSrc::F32(b) => Some(*b as u64), FSrc::F64(b) => Some((f64::from_bits(*b) as f32).to_bits() as u64) }
    }
}
fn float_case(v: &PrimitiveValue, to64: bool, bucket: &str) -> Case {
    let (single, multi): (Option<Result<u64, u32>>, Option<Result<Vec<u64>, u32>>) = if to64 {
        (catch(|| v.to_float64().map(|x| x.to_bits()).map_err(|e| conv_err_class(&e))), catch(|| v.to_multi_float64().map(|l| l.iter().map(|x| x.to_bits()).collect()).map_err(|e| conv_err_class(&e))))
    } else {
        (catch(|| v.to_float32().map(|x| x.to_bits() as u64).map_err(|e| conv_err_class(&e))), catch(|| v.to_multi_float32().map(|l| l.iter().map(|x| x.to_bits() as u64).collect()).map_err(|e| conv_err_class(&e))))
    };
    let c_single = match &single { None => c_panic(), Some(Ok(b)) => c_ok(&b.to_string()), Some(Err(e)) => c_err(*e) };
    let c_multi = match &multi { None => c_panic(), Some(Ok(l)) => c_ok(&c_list(l.iter().map(|b| b.to_string()))), Some(Err(e)) => c_err(*e) };
    let tgt = if to64 { "TF64" } else { "TF32" };
    let items = float_items(v);
    // oracle table: what std answers for each distinct source item
    let mut tbl: Vec<(FSrc, Option<u64>)> = vec![];
    if let Some(its) = &items { for it in its { if !tbl.iter().any(|(k, _)| k == it) { tbl.push((it.clone(), std_conv(to64, it))) } } }
    let c_tbl = c_list(tbl.iter().map(|(k, r)| format!("({}, {}, {})", tgt, c_fsrc(k), c_opt(r.map(|b| b.to_string())))));
    let oracle = match (&items, &single, &multi) {
        (_, None, _) | (_, _, None) => Oracle::Fails { class: "conversion-panics".into(), detail: format!("{:?} to {}", v, tgt) },
        (None, Some(s), Some(m)) => if s.is_err() && m.is_err() { Oracle::NotApplicable } else { Oracle::Fails { class: "float-from-nonnumeric".into(), detail: format!("{:?}", v) } },
        (Some(its), Some(s), Some(m)) => {
            let conv: Vec<Option<u64>> = its.iter().map(|i| std_conv(to64, i)).collect();
            let want_multi: Option<Vec<u64>> = conv.iter().cloned().collect();
            let want_single: Option<u64> = conv.first().cloned().flatten();
            if m.as_ref().ok() != want_multi.as_ref() {
                let class = if its.is_empty() { "empty-value-not-empty-list" } else if m.as_ref().map_or(false, |l| l.len() != its.len()) { "multi-float-count" } else { "multi-float-mismatch" };
                Oracle::Fails { class: class.into(), detail: format!("{:?}.to_multi_{}() = {:?}, item-wise std conversion says {:?}", v, if to64 { "float64" } else { "float32" }, m, want_multi) }
            } else if s.as_ref().ok() != want_single.as_ref() {
                Oracle::Fails { class: "single-float-mismatch".into(), detail: format!("{:?}: single {:?}, first item converts to {:?}", v, s, want_single) }
            } else { Oracle::Holds }
        }
    };
    Case {
        coq: format!("(CFloat {} {} (OT {} [] [] []) {} {})", tgt, c_value(v), c_tbl, c_single, c_multi),
        desc: json!({"bucket": format!("float/{}/{}/{}", VARIANT_NAMES[variant_of(v)], tgt, bucket), "value": format!("{:?}", v), "single": c_single, "multi": c_multi}),
        key: if v.multiplicity() == 0 && variant_of(v) > 11 { String::new() } else { format!("f|{}|{:?}", tgt, v) },
        oracle,
    }
}

// ------------------------------------------------------------------ histories of extend / truncate
#[derive(Clone, Debug)]
enum XNum { Int(i128), F32(u32), F64(u64) }
fn c_xnum(x: &XNum) -> String { match x { XNum::Int(z) => format!("(XInt {})", c_z(*z)), XNum::F32(b) => format!("(XFloat (F32b {}))", b), XNum::F64(b) => format!("(XFloat (F64b {}))", b) } }
#[derive(Clone, Debug)]
enum Op { ExtStr(Vec<String>), ExtNum(u8, Vec<XNum>), Truncate(usize) }
const SRC_NAMES: &[&str] = &["SU16", "SI16", "SI32", "SU32", "SF32", "SF64"];

fn rand_op(r: &mut Rng, cur: &PrimitiveValue) -> Op {
    match r.below(10) {
        0 | 1 => Op::ExtStr((0..r.below(3)).map(|_| { let c = num_text(r); padded(r, &c) }).collect()),
        2 | 3 | 4 => {
            let len = cur.multiplicity() as usize;
            Op::Truncate(*r.pick(&[0usize, 0, 1, len.saturating_sub(1), len, len + 1, 2, 1000, usize::MAX]))
        }
        _ => {
            let src = r.below(6) as u8;
            let n = r.below(4);
            let xs = (0..n).map(|_| match src {
                0 => XNum::Int(int_in(r, 0, 65535)), 1 => XNum::Int(int_in(r, -32768, 32767)),
                2 => XNum::Int(int_in(r, i32::MIN as i128, i32::MAX as i128)), 3 => XNum::Int(int_in(r, 0, u32::MAX as i128)),
                4 => XNum::F32(f32_bits(r)), _ => XNum::F64(f64_bits(r)),
            }).collect();
            Op::ExtNum(src, xs)
        }
    }
}
fn apply(v: &mut PrimitiveValue, op: &Op) -> Result<(), u32> {
    match op {
        Op::ExtStr(ss) => v.extend_str(ss.iter().cloned()).map_err(|e| modify_err_class(&e)),
        Op::Truncate(k) => { v.truncate(*k); Ok(()) }
        Op::ExtNum(src, xs) => {
            let ints = || xs.iter().map(|x| match x { XNum::Int(z) => *z, _ => 0 });
            match src {
                0 => v.extend_u16(ints().map(|z| z as u16)), 1 => v.extend_i16(ints().map(|z| z as i16)),
                2 => v.extend_i32(ints().map(|z| z as i32)), 3 => v.extend_u32(ints().map(|z| z as u32)),
                4 => v.extend_f32(xs.iter().map(|x| match x { XNum::F32(b) => f32::from_bits(*b), _ => 0.0 })),
                _ => v.extend_f64(xs.iter().map(|x| match x { XNum::F64(b) => f64::from_bits(*b), _ => 0.0 })),
            }.map_err(|e| modify_err_class(&e))
        }
    }
}
fn c_op(op: &Op) -> String {
    match op {
        Op::ExtStr(ss) => format!("(OExtStr {})", c_list(ss.iter().map(|s| c_str(s)))),
        Op::ExtNum(src, xs) => format!("(OExtNum {} {})", SRC_NAMES[*src as usize], c_list(xs.iter().map(c_xnum))),
        Op::Truncate(k) => format!("(OTruncate {})", if *k > 100000 { "100000".to_string() } else { k.to_string() }),
    }
}
/// canonical items of a value (for the list-model oracle)
fn items(v: &PrimitiveValue) -> Vec<String> {
    match v {
        PrimitiveValue::Empty => vec![],
        PrimitiveValue::Str(s) => vec![format!("s:{}", s)],
        PrimitiveValue::Strs(l) => l.iter().map(|s| format!("s:{}", s)).collect(),
        PrimitiveValue::U8(l) => l.iter().map(|x| format!("i:{}", x)).collect(),
        PrimitiveValue::I16(l) => l.iter().map(|x| format!("i:{}", x)).collect(),
        PrimitiveValue::U16(l) => l.iter().map(|x| format!("i:{}", x)).collect(),
        PrimitiveValue::I32(l) => l.iter().map(|x| format!("i:{}", x)).collect(),
        PrimitiveValue::U32(l) => l.iter().map(|x| format!("i:{}", x)).collect(),
        PrimitiveValue::I64(l) => l.iter().map(|x| format!("i:{}", x)).collect(),
        PrimitiveValue::U64(l) => l.iter().map(|x| format!("i:{}", x)).collect(),
        PrimitiveValue::F32(l) => l.iter().map(|x| format!("f:{}", x.to_bits())).collect(),
        PrimitiveValue::F64(l) => l.iter().map(|x| format!("d:{}", x.to_bits())).collect(),
        PrimitiveValue::Tags(l) => l.iter().map(|x| format!("t:{}", x)).collect(),
        PrimitiveValue::Date(l) => l.iter().map(|x| format!("D:{:?}", x)).collect(),
        PrimitiveValue::DateTime(l) => l.iter().map(|x| format!("DT:{:?}", x)).collect(),
        PrimitiveValue::Time(l) => l.iter().map(|x| format!("T:{:?}", x)).collect(),
    }
}
fn wrap_to(variant: usize, z: i128) -> i128 {
    match variant { 3 => z as u8 as i128, 4 => z as i16 as i128, 5 => z as u16 as i128, 6 => z as i32 as i128, 7 => z as u32 as i128, 8 => z as i64 as i128, 9 => z as u64 as i128, _ => z }
}
/// expected new items for an integer extension, when they can be said without float arithmetic
fn expected_new(before: &PrimitiveValue, src: u8, xs: &[XNum]) -> Option<Vec<String>> {
    let var = variant_of(before);
    xs.iter().map(|x| match (x, var) {
        (XNum::Int(z), 1 | 2) => Some(format!("s:{}", z)),
        (XNum::Int(z), 3..=9) => Some(format!("i:{}", wrap_to(var, *z))),
        (XNum::Int(z), 0) => Some(format!("i:{}", z)),
        (XNum::F32(b), 10) => Some(format!("f:{}", b)),
        (XNum::F64(b), 11) => Some(format!("d:{}", b)),
        (XNum::F32(b), 0) if src == 4 => Some(format!("f:{}", b)),
        (XNum::F64(b), 0) if src == 5 => Some(format!("d:{}", b)),
        _ => None,
    }).collect()
}

fn hist_case(r: &mut Rng, start: PrimitiveValue, ops: Vec<Op>, bucket: &str) -> Case {
    let _ = r;
    let mut v = start.clone();
    let mut steps = vec![];
    let mut fail: Option<(String, String)> = None;
    // oracle tables for float-involving casts, from std operations
    let mut t_ascast: Vec<String> = vec![]; let mut t_f2i: Vec<String> = vec![]; let mut t_disp: Vec<String> = vec![];
    for op in &ops {
        let before = v.clone();
        let res = match catch(|| { let mut w = before.clone(); let r = apply(&mut w, op); (r, w) }) {
            Some((r, w)) => { v = w; Some(r) }
            None => None,
        };
        // list-model oracle
        let (ib, ia) = (items(&before), items(&v));
        match (op, &res) {
            (_, None) => { fail.get_or_insert(("modify-panics".into(), format!("{:?} on {:?}", op, before))); }
            (Op::Truncate(k), _) => {
                let want: Vec<String> = ib.iter().take(*k).cloned().collect();
                if ia != want { fail.get_or_insert(("truncate-items".into(), format!("{:?}.truncate({}) has items {:?}, expected {:?}", before, k, ia, want))); }
            }
            (Op::ExtStr(ss), Some(Ok(()))) => {
                let mut want = ib.clone(); want.extend(ss.iter().map(|s| format!("s:{}", s)));
                if ia != want || variant_of(&before) > 2 { fail.get_or_insert(("extend-str-items".into(), format!("{:?}.extend_str({:?}) -> {:?}", before, ss, v))); }
            }
            (Op::ExtNum(src, xs), Some(Ok(()))) => {
                let ok_prefix = ia.len() == ib.len() + xs.len() && ia[..ib.len()] == ib[..];
                let ok_new = match expected_new(&before, *src, xs) { Some(w) => ia[ib.len().min(ia.len())..] == w[..], None => true };
                if !ok_prefix || !ok_new || variant_of(&before) > 11 { fail.get_or_insert(("extend-num-items".into(), format!("{:?}.extend_{}({:?}) -> {:?}", before, SRC_NAMES[*src as usize], xs, v))); }
            }
            (Op::ExtStr(_), Some(Err(_))) => { if variant_of(&before) <= 2 || ia != ib { fail.get_or_insert(("extend-str-error".into(), format!("{:?} {:?} -> {:?}", before, op, v))); } }
            (Op::ExtNum(..), Some(Err(_))) => { if variant_of(&before) <= 11 || ia != ib { fail.get_or_insert(("extend-num-error".into(), format!("{:?} {:?} -> {:?}", before, op, v))); } }
        }
        if let Op::ExtNum(_, xs) = op {
            for x in xs {
                let var = variant_of(&before);
                match (x, var) {
                    (XNum::Int(z), 10) => t_ascast.push(format!("(TF32, {}, {})", c_xnum(x), (*z as f32).to_bits())),
                    (XNum::Int(z), 11) => t_ascast.push(format!("(TF64, {}, {})", c_xnum(x), (*z as f64).to_bits())),
                    (XNum::F64(b), 10) => t_ascast.push(format!("(TF32, {}, {})", c_xnum(x), (f64::from_bits(*b) as f32).to_bits())),
                    (XNum::F32(b), 11) => t_ascast.push(format!("(TF64, {}, {})", c_xnum(x), (f32::from_bits(*b) as f64).to_bits())),
                    (XNum::F32(_) | XNum::F64(_), 3..=9) => {
                        let f = match x { XNum::F32(b) => f32::from_bits(*b) as f64, XNum::F64(b) => f64::from_bits(*b), _ => 0.0 };
                        // f32 -> int and f64 -> int casts agree with casting the exactly widened f64
                        let z: i128 = match var { 3 => f as u8 as i128, 4 => f as i16 as i128, 5 => f as u16 as i128, 6 => f as i32 as i128, 7 => f as u32 as i128, 8 => f as i64 as i128, _ => f as u64 as i128 };
                        let k = ["", "", "", "KU8", "KI16", "KU16", "KI32", "KU32", "KI64", "KU64"][var];
                        let fx = match x { XNum::F32(b) => format!("(F32b {})", b), XNum::F64(b) => format!("(F64b {})", b), _ => String::new() };
                        t_f2i.push(format!("({}, {}, {})", k, fx, c_z(z)));
                    }
                    (XNum::F32(b), 1 | 2) => t_disp.push(format!("((F32b {}), {})", b, c_str(&f32::from_bits(*b).to_string()))),
                    (XNum::F64(b), 1 | 2) => t_disp.push(format!("((F64b {}), {})", b, c_str(&f64::from_bits(*b).to_string()))),
                    _ => {}
                }
            }
        }
        let c_res = match &res { None => c_panic(), Some(Ok(())) => c_ok("tt"), Some(Err(e)) => c_err(*e) };
        steps.push(format!("({}, {}, {})", c_op(op), c_res, c_value(&v)));
    }
    let mult = start.multiplicity();
    let mult_ok = mult as usize == items(&start).len();
    if !mult_ok { fail.get_or_insert(("multiplicity".into(), format!("{:?} multiplicity {}", start, mult))); }
    Case {
        coq: format!("(CHist (OT [] {} {} {}) {} {} {})", c_list(t_ascast), c_list(t_f2i), c_list(t_disp), c_value(&start), mult, c_list(steps)),
        desc: json!({"bucket": format!("history/{}/{}", VARIANT_NAMES[variant_of(&start)], bucket), "start": format!("{:?}", start), "ops": format!("{:?}", ops), "end": format!("{:?}", v)}),
        key: if ops.is_empty() { String::new() } else { format!("h|{:?}|{:?}", start, ops) },
        oracle: match fail { None => Oracle::Holds, Some((class, detail)) => Oracle::Fails { class, detail } },
    }
}

pub fn cases(ctx: &Ctx) -> Vec<Case> {
    let mut r = Rng::new(ctx.seed);
    let mut out = vec![];
    // ---- fixed corpus: witnesses of the three repaired defects, boundaries
    let empties: Vec<PrimitiveValue> = vec![PrimitiveValue::Empty, PrimitiveValue::Strs(Default::default()), PrimitiveValue::U8(Default::default()), PrimitiveValue::I16(Default::default()),
        PrimitiveValue::U16(Default::default()), PrimitiveValue::I32(Default::default()), PrimitiveValue::U32(Default::default()), PrimitiveValue::I64(Default::default()), PrimitiveValue::U64(Default::default()),
        PrimitiveValue::F32(Default::default()), PrimitiveValue::F64(Default::default())];
    for v in &empties {
        out.push(int_case(&mut r, v, 5, "corpus-empty"));
        out.push(int_case(&mut r, v, 0, "corpus-empty"));
        out.push(float_case(v, false, "corpus-empty"));
        out.push(float_case(v, true, "corpus-empty"));
    }
    out.push(hist_case(&mut r, PrimitiveValue::Str("x".into()), vec![Op::Truncate(0)], "corpus"));
    out.push(hist_case(&mut r, PrimitiveValue::Str("x".into()), vec![Op::Truncate(1), Op::Truncate(5)], "corpus"));
    out.push(hist_case(&mut r, PrimitiveValue::U16([1u16, 2].into_iter().collect()), vec![Op::ExtNum(1, vec![XNum::Int(-1)]), Op::ExtNum(3, vec![XNum::Int(70000)]), Op::Truncate(3)], "corpus"));
    out.push(hist_case(&mut r, PrimitiveValue::Tags([Tag(8, 8)].into_iter().collect()), vec![Op::ExtNum(0, vec![XNum::Int(1)]), Op::ExtStr(vec!["a".into()]), Op::Truncate(0)], "corpus"));
    for (s, w) in [("256", 0u64), ("255", 0), ("-1", 0), ("-0", 0), ("+0", 1), ("-128", 1), ("-129", 1), (" 42 ", 2), ("\042\0", 2), ("4 2", 2), ("", 2), ("18446744073709551615", 6), ("18446744073709551616", 6), ("-9223372036854775808", 7), ("9223372036854775808", 7), ("１", 2), ("\u{a0}7\u{3000}", 3)] {
        out.push(int_case(&mut r, &PrimitiveValue::Str(s.to_string()), w, "corpus-text"));
    }
    out.push(int_case(&mut r, &PrimitiveValue::U16([65535u16].into_iter().collect()), 3, "corpus"));
    out.push(int_case(&mut r, &PrimitiveValue::I16([-1i16].into_iter().collect()), 2, "corpus"));
    out.push(int_case(&mut r, &PrimitiveValue::U64([u64::MAX].into_iter().collect()), 7, "corpus"));
    out.push(int_case(&mut r, &PrimitiveValue::I32([1i32, -1].into_iter().collect()), 4, "corpus"));
    // ---- generated
    while out.len() < ctx.n {
        let variant = if r.chance(1, 8) { r.range(12, 15) } else { r.below(12) };
        let v = rand_value(&mut r, variant);
        match r.below(10) {
            0..=4 => { let w = r.below(10); out.push(int_case(&mut r, &v, w, "gen")); }
            5 | 6 => { let to64 = r.coin(); out.push(float_case(&v, to64, "gen")); }
            _ => {
                let nops = r.range(1, 5);
                let mut ops = vec![];
                let mut cur = v.clone();
                for _ in 0..nops { let op = rand_op(&mut r, &cur); let _ = catch(|| apply(&mut cur, &op)); ops.push(op); }
                out.push(hist_case(&mut r, v, ops, "gen"));
            }
        }
    }
    out
}
