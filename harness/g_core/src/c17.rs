//! C17 — PersonName text round trip (core/src/value/person_name.rs)
use vhc::*;
use dicom_core::value::person_name::{PersonName, PersonNameBuilder};
use serde_json::json;

fn comp(r: &mut Rng, clean: bool) -> String {
    let n = r.below(6);
    let mut s: String = (0..n).map(|_| {
        if r.chance(1, 8) { *r.pick(&['^', '=', '\\', ' ', '\t', '\u{a0}', '\u{3000}', 'é']) } else { rand_unicode_char(r) }
    }).collect();
    if clean {
        s = s.replace('^', "x");
        s = s.trim().to_string();
    }
    s
}

fn comps_of(p: &PersonName) -> Vec<Option<String>> {
    vec![p.family(), p.given(), p.middle(), p.prefix(), p.suffix()].into_iter().map(|o| o.map(|s| s.to_string())).collect()
}

fn c_comps(c: &[Option<String>]) -> String { c_list(c.iter().map(|o| c_opt(o.as_ref().map(|s| c_str(s))))) }

pub fn cases(ctx: &Ctx) -> Vec<Case> {
    let mut r = Rng::new(ctx.seed);
    let mut out = vec![];
    for i in 0..ctx.n {
        let mask = (i % 32) as u32;
        let clean = !r.chance(1, 5);
        let comps: Vec<Option<String>> = (0..5).map(|k| if mask >> k & 1 == 1 { Some(comp(&mut r, clean)) } else { None }).collect();
        let mut b = PersonNameBuilder::new();
        if let Some(s) = &comps[0] { b.with_family(s.clone()); }
        if let Some(s) = &comps[1] { b.with_given(s.clone()); }
        if let Some(s) = &comps[2] { b.with_middle(s.clone()); }
        if let Some(s) = &comps[3] { b.with_prefix(s.clone()); }
        if let Some(s) = &comps[4] { b.with_suffix(s.clone()); }
        let p = b.build();
        // the implementation may panic (a seeded change did: String::truncate off a char boundary):
        // a panic inside the property's domain is an oracle failure, not a harness crash
        let printed = match catch(|| p.to_dicom_string()) {
            Some(s) => s,
            None => {
                let is_clean = comps.iter().flatten().all(|s| !s.contains('^') && s.trim() == s);
                out.push(Case {
                    coq: String::new(),
                    desc: json!({"components": comps, "panic": "to_dicom_string", "bucket": "panic"}),
                    key: format!("{:?}|panic", comps),
                    oracle: if is_clean { Oracle::Fails { class: "to-dicom-string-panics".into(), detail: format!("{:?}", comps) } } else { Oracle::NotApplicable },
                });
                continue;
            }
        };
        // arbitrary text for from_text: the printed form, or a random string with extra carets/space
        let text = if r.chance(2, 3) { printed.clone() } else {
            let n = r.below(12);
            (0..n).map(|_| if r.chance(1, 3) { '^' } else if r.chance(1, 6) { ' ' } else { rand_unicode_char(&mut r) }).collect()
        };
        let parsed_c = match catch(|| comps_of(&PersonName::from_text(&text))) {
            Some(c) => c,
            None => {
                out.push(Case {
                    coq: String::new(),
                    desc: json!({"text": text, "panic": "from_text", "bucket": "panic"}),
                    key: format!("{}|panic", text),
                    oracle: Oracle::Fails { class: "from-text-panics".into(), detail: format!("{:?}", text) },
                });
                continue;
            }
        };
        // direct oracle on the implementation: clean components round-trip (Some "" == absent)
        let is_clean = comps.iter().flatten().all(|s| !s.contains('^') && s.trim() == s);
        let oracle = if is_clean {
            let back = catch(|| comps_of(&PersonName::from_text(&printed))).unwrap_or_default();
            let want: Vec<Option<String>> = comps.iter().map(|o| o.clone().filter(|s| !s.is_empty())).collect();
            if back == want { Oracle::Holds } else { Oracle::Fails { class: "roundtrip".into(), detail: format!("{:?} -> {:?} -> {:?}", comps, printed, back) } }
        } else { Oracle::NotApplicable };
        let coq = c_tuple(&[c_comps(&comps), c_str(&printed), c_str(&text), c_comps(&parsed_c)]);
        out.push(Case {
            coq,
            desc: json!({"components": comps, "printed": printed, "text": text, "parsed": parsed_c}),
            key: if comps.iter().any(|c| c.as_ref().map_or(false, |s| !s.is_empty())) { format!("{:?}|{}", comps, text) } else { String::new() },
            oracle,
        });
    }
    out
}
