//! Shared by C19 and C22: in-memory image objects and f64 literals for Coq.
use dicom_core::{DataElement, PrimitiveValue, VR};
use dicom_dictionary_std::{tags, uids};
use dicom_object::{FileDicomObject, FileMetaTableBuilder, InMemDicomObject};

/// A native image description; `px` are the Pixel Data bytes (little endian samples).
#[derive(Clone, Debug)]
pub struct Img {
    pub rows: u16, pub cols: u16, pub spp: u16, pub ba: u16, pub bs: u16, pub signed: bool,
    pub frames: u32, pub px: Vec<u8>, pub rescale: Option<(f64, f64)>, pub with_nframes: bool,
}

impl Img {
    pub fn mono(rows: u16, cols: u16, ba: u16, bs: u16, signed: bool, frames: u32, px: Vec<u8>) -> Img {
        Img { rows, cols, spp: 1, ba, bs, signed, frames, px, rescale: None, with_nframes: true }
    }
    pub fn to_object(&self, ts_uid: &str) -> FileDicomObject<InMemDicomObject> {
        let mut o = InMemDicomObject::new_empty();
        o.put(DataElement::new(tags::SOP_CLASS_UID, VR::UI, uids::SECONDARY_CAPTURE_IMAGE_STORAGE));
        o.put(DataElement::new(tags::SOP_INSTANCE_UID, VR::UI, "1.2.826.0.1.3680043.8.498.1"));
        o.put(DataElement::new(tags::ROWS, VR::US, PrimitiveValue::from(self.rows)));
        o.put(DataElement::new(tags::COLUMNS, VR::US, PrimitiveValue::from(self.cols)));
        o.put(DataElement::new(tags::SAMPLES_PER_PIXEL, VR::US, PrimitiveValue::from(self.spp)));
        o.put(DataElement::new(tags::BITS_ALLOCATED, VR::US, PrimitiveValue::from(self.ba)));
        o.put(DataElement::new(tags::BITS_STORED, VR::US, PrimitiveValue::from(self.bs)));
        o.put(DataElement::new(tags::HIGH_BIT, VR::US, PrimitiveValue::from(self.bs.wrapping_sub(1))));
        o.put(DataElement::new(tags::PIXEL_REPRESENTATION, VR::US, PrimitiveValue::from(self.signed as u16)));
        o.put(DataElement::new(tags::PHOTOMETRIC_INTERPRETATION, VR::CS, if self.spp == 1 { "MONOCHROME2" } else { "RGB" }));
        if self.spp > 1 { o.put(DataElement::new(tags::PLANAR_CONFIGURATION, VR::US, PrimitiveValue::from(0u16))); }
        if self.with_nframes { o.put(DataElement::new(tags::NUMBER_OF_FRAMES, VR::IS, self.frames.to_string())); }
        if let Some((s, i)) = self.rescale {
            o.put(DataElement::new(tags::RESCALE_SLOPE, VR::DS, PrimitiveValue::from(s)));
            o.put(DataElement::new(tags::RESCALE_INTERCEPT, VR::DS, PrimitiveValue::from(i)));
        }
        if self.ba == 16 {
            let w: Vec<u16> = self.px.chunks(2).map(|c| u16::from_le_bytes([c[0], *c.get(1).unwrap_or(&0)])).collect();
            o.put(DataElement::new(tags::PIXEL_DATA, VR::OW, PrimitiveValue::U16(w.into())));
        } else {
            o.put(DataElement::new(tags::PIXEL_DATA, VR::OB, PrimitiveValue::from(self.px.clone())));
        }
        o.with_meta(FileMetaTableBuilder::new().transfer_syntax(ts_uid)
            .media_storage_sop_class_uid(uids::SECONDARY_CAPTURE_IMAGE_STORAGE)
            .media_storage_sop_instance_uid("1.2.826.0.1.3680043.8.498.1")).unwrap()
    }
}

/// f64 as an exact Coq primitive-float term (hexadecimal literal)
pub fn c_f64(x: f64) -> String {
    if x.is_nan() { return "PrimFloat.nan".into(); }
    if x.is_infinite() { return if x > 0.0 { "PrimFloat.infinity".into() } else { "PrimFloat.neg_infinity".into() }; }
    let bits = x.to_bits();
    let neg = bits >> 63 == 1;
    let e = ((bits >> 52) & 0x7ff) as i64;
    let m = bits & 0x000f_ffff_ffff_ffff;
    if e == 0 && m == 0 { return if neg { "PrimFloat.neg_zero".into() } else { "PrimFloat.zero".into() }; }
    let body = if e == 0 { format!("0x0.{:013x}p-1022", m) } else { format!("0x1.{:013x}p{}", m, e - 1023) };
    if neg { format!("(-{})%float", body) } else { format!("({})%float", body) }
}
