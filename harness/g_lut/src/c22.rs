//! C22 — Modality / VOI LUT outputs (pixeldata/src/lut.rs, transform.rs, lib.rs convert_pixel_slice)
//!
//! Two kinds of cases:
//!  * LUT level: a `Lut<T>` is built with one of the five public constructors; the
//!    whole table (read through `get(i)`, i < 2^bits) is summarised by two checksums
//!    that the Coq model recomputes from its own table, plus `get` on raw values with
//!    garbage above the high bit.
//!  * pipeline level: `DecodedPixelData::to_vec_with_options` on a one-row monochrome
//!    image (8 or 16 bits allocated, any bits stored, both pixel representations).
//! The direct oracle evaluates the PS3.3 formulas (C.11.2.1.2.1, C.11.2.1.3.2,
//! C.11.2.1.3.1, in the standard's operation order, f64) on the stored value
//! interpreted with bits stored / pixel representation, for EVERY 16-bit raw value.
use crate::util::*;
use dicom_pixeldata::{
    ConvertOptions, Lut, ModalityLutOption, PixelDecoder, Rescale, VoiLutFunction, VoiLutOption,
    WindowLevel, WindowLevelTransform,
};
use serde_json::json;
use vhc::*;

// ---------------------------------------------------------------- independent oracle
/// PS3.5 8.1.1 / PS3.3 C.7.6.3.1.x: the low `bits` bits, two's complement when signed.
fn stored_value(bits: u32, signed: bool, raw: u32) -> i64 {
    let v = if bits >= 32 { raw } else { raw & ((1u32 << bits) - 1) };
    if signed {
        // sign-extend from bit (bits-1) with shifts (independent of the LUT's comparison)
        (((v as i64) << (64 - bits)) >> (64 - bits)) as i64
    } else {
        v as i64
    }
}

/// PS3.3 formulas with y_min = 0, the standard's operation order.
fn ps33_linear(x: f64, c: f64, w: f64, ymax: f64) -> f64 {
    let ymin = 0.0;
    if x <= c - 0.5 - (w - 1.0) / 2.0 { ymin }
    else if x > c - 0.5 + (w - 1.0) / 2.0 { ymax }
    else { ((x - (c - 0.5)) / (w - 1.0) + 0.5) * (ymax - ymin) + ymin }
}
fn ps33_linear_exact(x: f64, c: f64, w: f64, ymax: f64) -> f64 {
    let ymin = 0.0;
    if x <= c - w / 2.0 { ymin }
    else if x > c + w / 2.0 { ymax }
    else { ((x - c) / w + 0.5) * (ymax - ymin) + ymin }
}
fn ps33_sigmoid(x: f64, c: f64, w: f64, ymax: f64) -> f64 {
    let ymin = 0.0;
    (ymax - ymin) / (1.0 + f64::exp(-4.0 * (x - c) / w)) + ymin
}
/// conversion to the output type: truncation toward zero, must fit
fn to_target(y: f64, tmin: i64, tmax: i64) -> Option<i64> {
    if y.is_nan() { return None; }
    let t = y.trunc();
    if t < tmin as f64 || t > tmax as f64 { None } else { Some(t as i64) }
}
/// exact-addition test (Knuth TwoSum): is a + b computed without rounding?
fn add_exact(a: f64, b: f64) -> bool {
    let s = a + b;
    if !s.is_finite() { return false; }
    let bb = s - a;
    let err = (a - (s - bb)) + (b - bb);
    err == 0.0
}

#[derive(Clone, Copy, Debug)]
pub struct Params { pub slope: f64, pub intercept: f64, pub func: u8, pub center: f64, pub width: f64 }

fn clamp_width(func: u8, w: f64) -> f64 {
    // PS3.3: width >= 1 (LINEAR, SIGMOID), >= 0 (LINEAR_EXACT); the library clamps
    let lo = if func == 1 { 0.0 } else { 1.0 };
    if w.is_nan() || w < lo { lo } else { w }
}

/// expected f64 output of constructor `ctor` on pixel value x
fn expected_y(ctor: u8, p: &Params, ymax: f64, x: f64) -> f64 {
    let v = if ctor == 0 || ctor == 1 || ctor == 3 { p.slope * x + p.intercept } else { x };
    if ctor == 0 { return v; }
    let w = clamp_width(p.func, p.width);
    match p.func { 0 => ps33_linear(v, p.center, w, ymax), 1 => ps33_linear_exact(v, p.center, w, ymax), _ => ps33_sigmoid(v, p.center, w, ymax) }
}

fn ymax_for(ctor: u8, bits: u32) -> f64 {
    if ctor >= 3 { 255.0 } else {
        let ba = [1u32, 2, 4, 8, 16, 32].into_iter().find(|b| *b >= bits).unwrap_or(32);
        ((1u64 << ba) - 1) as f64
    }
}

/// is the window's lower/upper bound computed exactly (no rounding away from the window)?
fn bounds_exact(p: &Params) -> bool {
    let w = clamp_width(p.func, p.width);
    if p.func == 0 {
        let c = p.center - 0.5; let h = (w - 1.0) / 2.0;
        add_exact(p.center, -0.5) && add_exact(w, -1.0) && add_exact(c, -h) && add_exact(c, h)
    } else {
        let h = w / 2.0;
        add_exact(p.center, -h) && add_exact(p.center, h)
    }
}

// ---------------------------------------------------------------- running the implementation
pub trait Target: num_traits::NumCast + Copy + Send + Sync + 'static { const ID: u8; const MIN: i64; const MAX: i64; fn to_i64(self) -> i64; }
impl Target for u8 { const ID: u8 = 0; const MIN: i64 = 0; const MAX: i64 = 255; fn to_i64(self) -> i64 { self as i64 } }
impl Target for u16 { const ID: u8 = 1; const MIN: i64 = 0; const MAX: i64 = 65535; fn to_i64(self) -> i64 { self as i64 } }
impl Target for i16 { const ID: u8 = 2; const MIN: i64 = -32768; const MAX: i64 = 32767; fn to_i64(self) -> i64 { self as i64 } }
impl Target for i32 { const ID: u8 = 3; const MIN: i64 = i32::MIN as i64; const MAX: i64 = i32::MAX as i64; fn to_i64(self) -> i64 { self as i64 } }

fn func_of(f: u8) -> VoiLutFunction { match f { 0 => VoiLutFunction::Linear, 1 => VoiLutFunction::LinearExact, _ => VoiLutFunction::Sigmoid } }

pub enum LutRun { Table(Vec<i64>, Box<dyn Fn(u32) -> i64>), CreateErr(usize, f64), Panicked }

fn build<T>(ctor: u8, bits: u16, signed: bool, p: &Params) -> LutRun
where T: Target {
    let p = *p;
    let r = catch(move || {
        let rescale = Rescale::new(p.slope, p.intercept);
        let voi = WindowLevelTransform::new(func_of(p.func), WindowLevel { width: p.width, center: p.center });
        match ctor {
            0 => Lut::<T>::new_rescale(bits, signed, rescale),
            1 => Lut::<T>::new_rescale_and_window(bits, signed, rescale, voi),
            _ => Lut::<T>::new_window(bits, signed, voi),
        }
    });
    finish(r, bits)
}
fn build8(ctor: u8, bits: u16, signed: bool, p: &Params) -> LutRun {
    let p = *p;
    let r = catch(move || {
        let rescale = Rescale::new(p.slope, p.intercept);
        let voi = WindowLevelTransform::new(func_of(p.func), WindowLevel { width: p.width, center: p.center });
        if ctor == 3 { Lut::new_rescale_and_window_8bit(bits, signed, rescale, voi) } else { Lut::new_window_8bit(bits, signed, voi) }
    });
    finish::<u8>(r, bits)
}
fn finish<T: Target>(r: Option<Result<Lut<T>, dicom_pixeldata::CreateLutError>>, bits: u16) -> LutRun {
    match r {
        None => LutRun::Panicked,
        Some(Err(e)) => LutRun::CreateErr(e.index(), e.y_value()),
        Some(Ok(lut)) => {
            let n = 1u32 << bits;
            let table: Vec<i64> = (0..n).map(|i| lut.get(i).to_i64()).collect();
            LutRun::Table(table, Box::new(move |s: u32| lut.get(s).to_i64()))
        }
    }
}

pub fn run_lut(ctor: u8, bits: u16, signed: bool, tgt: u8, p: &Params) -> LutRun {
    if ctor >= 3 { return build8(ctor, bits, signed, p); }
    match tgt { 0 => build::<u8>(ctor, bits, signed, p), 1 => build::<u16>(ctor, bits, signed, p), 2 => build::<i16>(ctor, bits, signed, p), _ => build::<i32>(ctor, bits, signed, p) }
}

fn tgt_range(ctor: u8, tgt: u8) -> (i64, i64) {
    let t = if ctor >= 3 { 0 } else { tgt };
    match t { 0 => (0, 255), 1 => (0, 65535), 2 => (-32768, 32767), _ => (i32::MIN as i64, i32::MAX as i64) }
}

// ---------------------------------------------------------------- generators
const TGT_NAMES: [&str; 4] = ["u8", "u16", "i16", "i32"];
const FN_NAMES: [&str; 3] = ["LINEAR", "LINEAR_EXACT", "SIGMOID"];
const SLOPES: &[f64] = &[1.0, 1.0, 1.0, 2.0, 0.5, 0.25, 1.5, -1.0, -0.5, 0.0, 3.0, 0.125, 10.0, 100.0, 0.0009765625, 0.37, 1e-3, 2.5e4];
const INTERCEPTS: &[f64] = &[0.0, 0.0, -1024.0, -1000.5, 32768.0, -32768.0, 1.0, 0.5, -0.25, 1e6, -7.0, 1023.75, 0.1];
const WIDTHS: &[f64] = &[0.0, 1.0, -1.0, -100.0, 0.5, 1.5, 2.0, 3.0, 4.0, 100.0, 300.0, 255.0, 256.0, 4096.0, 65536.0, 1e9, 1.0000000000000002, 0.999, 2.25, 1e-300];

fn pick_params(r: &mut Rng, bits: u32, signed: bool, ctor: u8) -> Params {
    let size = 1i64 << bits.min(16).max(1);
    let slope = if r.chance(1, 40) { *r.pick(&[f64::NAN, f64::INFINITY, 1e308, -1e308]) } else { *r.pick(SLOPES) };
    let intercept = if r.chance(1, 40) { *r.pick(&[f64::NAN, f64::NEG_INFINITY, 1e308, 9007199254740992.0]) } else { *r.pick(INTERCEPTS) };
    // range of the rescaled values, to place the window where it matters
    let (lo, hi) = if signed { (-(size / 2), size / 2 - 1) } else { (0, size - 1) };
    let (vlo, vhi) = if ctor == 2 || ctor == 4 { (lo as f64, hi as f64) } else {
        let a = slope * lo as f64 + intercept; let b = slope * hi as f64 + intercept;
        if a.is_finite() && b.is_finite() { (a.min(b), a.max(b)) } else { (lo as f64, hi as f64) }
    };
    let span = (vhi - vlo).max(1.0);
    let center = match r.below(10) {
        0 => 0.0,
        1 => vlo, 2 => vhi,
        3 => (vlo + vhi) / 2.0,
        4 => ((vlo + vhi) / 2.0).floor() + 0.5,
        5 => vlo - 3.0, 6 => vhi + 2.5,
        7 => *r.pick(&[50.0, 2048.0, 127.5, 128.0, -100.0, 40.5, 32767.0, 1000.25, 0.1, 1e15]),
        _ => (vlo + (r.below(1025) as f64 / 1024.0) * span * 1.2 - 0.1 * span).round() + *r.pick(&[0.0, 0.5, 0.25]),
    };
    let width = if r.chance(1, 50) { *r.pick(&[f64::NAN, f64::INFINITY, f64::NEG_INFINITY]) }
        else if r.chance(1, 3) { *r.pick(WIDTHS) }
        else { match r.below(5) { 0 => span, 1 => span + 1.0, 2 => (span / 2.0).floor(), 3 => (r.below(2 * span as u64 % (1 << 40) + 2) as f64) / 2.0, _ => (r.below(64) as f64) / 4.0 } };
    let func = match r.below(12) { 0..=5 => 0, 6..=9 => 1, _ => 2 };
    Params { slope, intercept, func, center, width }
}

fn raw_samples(r: &mut Rng, bits: u32) -> Vec<u32> {
    let b = bits.min(31).max(1);
    let size = 1u32 << b;
    let mut v = vec![0, 1, size / 2, (size / 2).wrapping_sub(1), size - 1, size, size + 1, size | (size / 2), 0xFFFF, 0x10000, 0xFFFF_FFFF, 0x8000, 0x7FFF, 0xFF, 0x80];
    for _ in 0..12 { v.push(r.next() as u32 >> r.below(32)); }
    for _ in 0..6 { v.push((r.next() as u32 & (size - 1)) | (1u32 << r.range(b as u64, 31))); }
    v
}

pub struct LutSpec { pub ctor: u8, pub bits: u16, pub signed: bool, pub tgt: u8, pub p: Params }

fn lut_case(spec: &LutSpec, r: &mut Rng, tag: &str) -> Case {
    let LutSpec { ctor, bits, signed, tgt, p } = spec;
    let (ctor, bits, signed, tgt) = (*ctor, *bits, *signed, *tgt);
    let run = run_lut(ctor, bits, signed, tgt, p);
    let ymax = ymax_for(ctor, bits as u32);
    let (tmin, tmax) = tgt_range(ctor, tgt);
    let valid_bits = bits >= 1 && bits <= 16;
    // ---- oracle, directly on the implementation
    let mut oracle = Oracle::Holds;
    let fail = |class: &str, detail: String| Oracle::Fails { class: class.into(), detail };
    let window = ctor != 0;
    let finite_params = p.slope.is_finite() && p.intercept.is_finite() && p.center.is_finite() && p.width.is_finite();
    let outward_class = window && p.func != 2 && !bounds_exact(p);
    let samples = raw_samples(r, bits as u32);
    let (status, a, b, yv, sample_vals): (u8, i128, i128, f64, Vec<(u32, i64)>) = match &run {
        LutRun::Panicked => {
            if valid_bits { oracle = fail("panic", format!("constructor panicked for bits_stored {bits}")); } else { oracle = Oracle::NotApplicable; }
            (2, 0, 0, 0.0, vec![])
        }
        LutRun::CreateErr(idx, y) => {
            // legitimate only if the formula value really does not fit the output type
            let x = stored_value(bits as u32, signed, *idx as u32) as f64;
            let want = expected_y(ctor, p, ymax, x);
            let same = want.to_bits() == y.to_bits() || (want.is_nan() && y.is_nan()) || want == *y;
            if !same { oracle = fail("formula", format!("CreateLutError at {idx}: y={y:e}, formula gives {want:e}")); }
            else if to_target(want, tmin, tmax).is_some() { oracle = fail("formula", format!("CreateLutError at {idx} although y={y:e} fits")); }
            else if window && finite_params && ymax <= tmax as f64 && !(want >= 0.0 && want <= ymax) {
                oracle = fail(if outward_class { "WindowBoundsRoundedOutward" } else { "range" }, format!("window output {want:e} outside [0,{ymax}] at index {idx}"));
            } else if !finite_params || !window { oracle = Oracle::NotApplicable; }
            (1, *idx as i128, 0, *y, vec![])
        }
        LutRun::Table(table, get) => {
            let (mut ps, mut bs) = (0i128, 0i128);
            for e in table { ps += *e as i128; bs += ps; }
            let sv: Vec<(u32, i64)> = samples.iter().map(|s| (*s, get(*s))).collect();
            // every 16-bit raw value (garbage above the high bit included) against the formula
            let mut prev: Option<i64> = None;
            let mono_applies = window && p.func != 2 && p.slope >= 0.0 && finite_params || (ctor == 0 && p.slope >= 0.0 && finite_params);
            'outer: for raw in 0u32..=0xFFFF {
                let x = stored_value(bits as u32, signed, raw);
                let want = to_target(expected_y(ctor, p, ymax, x as f64), tmin, tmax);
                let got = get(raw);
                if want != Some(got) { oracle = fail("formula", format!("raw {raw:#x} (value {x}): lut {got}, PS3.3 formula {want:?}")); break 'outer; }
                if window && finite_params && (got < 0 || got as f64 > ymax) {
                    oracle = fail(if outward_class { "WindowBoundsRoundedOutward" } else { "range" }, format!("raw {raw:#x} (value {x}): output {got} outside [0,{ymax}]"));
                    break 'outer;
                }
            }
            // monotonicity in the pixel value (walk the values in increasing order)
            if matches!(oracle, Oracle::Holds) && mono_applies {
                let size = 1i64 << bits;
                let (lo, hi) = if signed { (-(size / 2), size / 2 - 1) } else { (0, size - 1) };
                for x in lo..=hi {
                    let raw = (x as u32) & ((size - 1) as u32);
                    let got = get(raw);
                    if let Some(pv) = prev { if got < pv {
                        oracle = fail(if outward_class { "WindowBoundsRoundedOutward" } else { "monotone" }, format!("value {x}: output {got} < previous {pv}"));
                        break;
                    } }
                    prev = Some(got);
                }
            }
            (0, ps, bs, 0.0, sv)
        }
    };
    let _ = a; let _ = b;
    let coq = if p.func == 2 && ctor != 0 { String::new() } else {
        format!("(CLut ({}, {}, {}, {}, ({}, {}), ({}, {}, {}), ({}, {}, {}, {}), {}))",
            ctor, bits, c_bool(signed), tgt, c_f64(p.slope), c_f64(p.intercept), p.func, c_f64(p.center), c_f64(p.width),
            status, c_z(a), c_z(b), c_f64(yv),
            c_list(sample_vals.iter().map(|(s, v)| format!("({}, {})", s, c_z(*v as i128)))))
    };
    let bucket = format!("lut/{}/{}/bits{}/{}", ["rescale", "rescale+window", "window", "rescale+window8", "window8"][ctor as usize],
        if ctor == 0 { "-" } else { ["linear", "linear_exact", "sigmoid"][p.func as usize] },
        match bits { 0 => "0", 1..=7 => "1-7", 8 => "8", 9..=12 => "9-12", 13..=16 => "13-16", _ => ">16" },
        ["ok", "create-error", "panic"][status as usize]);
    Case {
        coq,
        desc: json!({"bucket": bucket, "tag": tag, "ctor": ctor, "bits_stored": bits, "signed": signed, "target": TGT_NAMES[if ctor >= 3 {0} else {tgt as usize}],
                     "slope": p.slope, "intercept": p.intercept, "function": FN_NAMES[p.func as usize], "center": p.center, "width": p.width,
                     "slope_bits": format!("{:#018x}", p.slope.to_bits()), "intercept_bits": format!("{:#018x}", p.intercept.to_bits()),
                     "center_bits": format!("{:#018x}", p.center.to_bits()), "width_bits": format!("{:#018x}", p.width.to_bits())}),
        key: if status == 2 { String::new() } else { format!("L{}|{}|{}|{}|{:x}|{:x}|{}|{:x}|{:x}", ctor, bits, signed, tgt, p.slope.to_bits(), p.intercept.to_bits(), p.func, p.center.to_bits(), p.width.to_bits()) },
        oracle,
    }
}

pub struct PipeSpec { pub ba: u16, pub bs: u16, pub signed: bool, pub tgt: u8, pub slope: f64, pub intercept: f64, pub voi: Option<(u8, f64, f64)>, pub over: bool, pub raw: Vec<u16> }

fn run_pipe<T: Target>(s: &PipeSpec) -> Option<Result<Vec<i64>, String>> {
    let n = s.raw.len();
    let px: Vec<u8> = if s.ba == 8 { s.raw.iter().map(|v| *v as u8).collect() } else { s.raw.iter().flat_map(|v| v.to_le_bytes()).collect() };
    let mut img = Img::mono(1, n as u16, s.ba, s.bs, s.signed, 1, px);
    if !s.over { img.rescale = Some((s.slope, s.intercept)); } else { img.rescale = Some((1.0, 0.0)); }
    let obj = img.to_object(dicom_dictionary_std::uids::EXPLICIT_VR_LITTLE_ENDIAN);
    let mut opt = ConvertOptions::new();
    if s.over { opt = opt.with_modality_lut(ModalityLutOption::Override(Rescale::new(s.slope, s.intercept))); }
    if let Some((f, c, w)) = s.voi { opt = opt.with_voi_lut(VoiLutOption::CustomWithFunction(WindowLevel { width: w, center: c }, func_of(f))); }
    catch(move || {
        let d = obj.decode_pixel_data().map_err(|e| e.to_string())?;
        let v: Vec<T> = d.to_vec_with_options(&opt).map_err(|e| e.to_string())?;
        Ok(v.into_iter().map(|x| x.to_i64()).collect())
    })
}

fn pipe_case(s: &PipeSpec, tag: &str) -> Case {
    let res = match s.tgt { 0 => run_pipe::<u8>(s), 1 => run_pipe::<u16>(s), 2 => run_pipe::<i16>(s), _ => run_pipe::<i32>(s) };
    let (tmin, tmax) = tgt_range(0, s.tgt);
    // oracle: the property text, sample by sample
    let bits_ok = s.bs >= 1 && s.bs <= s.ba;
    let p = Params { slope: s.slope, intercept: s.intercept, func: s.voi.map_or(0, |v| v.0), center: s.voi.map_or(0.0, |v| v.1), width: s.voi.map_or(1.0, |v| v.2) };
    let ctor = if s.voi.is_some() { 1 } else { 0 };
    let lut_bits = s.bs as u32;
    let ymax = ymax_for(ctor, lut_bits);
    // the LUT covers every value of bits_stored bits: conversion fails iff some table entry does not fit
    let table_fits = bits_ok && {
        let size = 1i64 << s.bs;
        let (lo, hi) = if s.signed { (-(size / 2), size / 2 - 1) } else { (0, size - 1) };
        (lo..=hi).all(|x| to_target(expected_y(ctor, &p, ymax, x as f64), tmin, tmax).is_some())
    };
    let oracle = if !bits_ok || p.func == 2 && ctor == 1 { Oracle::NotApplicable } else {
        match &res {
            None => Oracle::Fails { class: "panic".into(), detail: "to_vec_with_options panicked".into() },
            Some(Err(e)) => if table_fits { Oracle::Fails { class: "formula".into(), detail: format!("conversion failed ({e}) although every value fits") } } else { Oracle::NotApplicable },
            Some(Ok(v)) => {
                let mut o = if table_fits { Oracle::Holds } else { Oracle::Fails { class: "formula".into(), detail: "conversion succeeded although a table value does not fit".into() } };
                for (raw, got) in s.raw.iter().zip(v.iter()) {
                    let x = stored_value(s.bs as u32, s.signed, *raw as u32);
                    let want = to_target(expected_y(ctor, &p, ymax, x as f64), tmin, tmax);
                    if want != Some(*got) {
                        o = Oracle::Fails { class: "stored-value".into(), detail: format!("bits_allocated {} bits_stored {} signed {}: raw {:#x} is pixel value {}, expected output {:?}, got {}", s.ba, s.bs, s.signed, raw, x, want, got) };
                        break;
                    }
                }
                o
            }
        }
    };
    let res_c = match &res { None => c_panic(), Some(Err(_)) => c_err(1), Some(Ok(v)) => c_ok(&c_list(v.iter().map(|x| c_z(*x as i128)))) };
    let coq = if p.func == 2 && ctor == 1 { String::new() } else {
        format!("(CPipe ({}, {}, {}, {}, ({}, {}), {}, {}, {}))", s.ba, s.bs, c_bool(s.signed), s.tgt, c_f64(s.slope), c_f64(s.intercept),
            c_opt(s.voi.map(|(f, c, w)| format!("({}, {}, {})", f, c_f64(c), c_f64(w)))),
            c_list(s.raw.iter().map(|x| x.to_string())), res_c)
    };
    let bucket = format!("pipe/ba{}/bs{}/{}/{}/{}", s.ba, if s.bs == s.ba { "=ba" } else if s.bs == 0 || s.bs > s.ba { "invalid" } else { "<ba" },
        if s.signed { "signed" } else { "unsigned" }, if s.voi.is_some() { "window" } else { "modality-only" },
        match &res { None => "panic", Some(Err(_)) => "error", Some(Ok(_)) => "ok" });
    Case {
        coq,
        desc: json!({"bucket": bucket, "tag": tag, "bits_allocated": s.ba, "bits_stored": s.bs, "signed": s.signed, "target": TGT_NAMES[s.tgt as usize],
                     "slope": s.slope, "intercept": s.intercept, "override_rescale": s.over, "voi": s.voi.map(|(f, c, w)| json!({"function": f, "center": c, "width": w})),
                     "raw_samples": s.raw}),
        key: format!("P{}|{}|{}|{}|{:x}|{:x}|{:?}|{:?}", s.ba, s.bs, s.signed, s.tgt, s.slope.to_bits(), s.intercept.to_bits(), s.voi.map(|v| (v.0, v.1.to_bits(), v.2.to_bits())), s.raw),
        oracle,
    }
}

fn pick_bits(r: &mut Rng, i: usize, quick: bool) -> u16 {
    // every width 1..16 in turn; the big tables are thinned out in the quick tier
    let b = (i % 16) as u16 + 1;
    if quick && b >= 13 && r.chance(5, 6) { r.range(1, 12) as u16 }
    else if quick && b >= 9 && r.chance(1, 2) { r.range(1, 8) as u16 } else { b }
}

pub fn cases(ctx: &Ctx) -> Vec<Case> {
    let mut r = Rng::new(ctx.seed);
    let mut out = vec![];
    let quick = ctx.tier == Tier::Quick;
    // ---- fixed corpus: regression witnesses and boundary cases first
    let lin = |c: f64, w: f64| Params { slope: 1.0, intercept: 0.0, func: 0, center: c, width: w };
    let corpus_l: Vec<LutSpec> = vec![
        // the unit tests' parameters
        LutSpec { ctor: 4, bits: 16, signed: false, tgt: 0, p: lin(2048.0, 4096.0) },
        LutSpec { ctor: 4, bits: 16, signed: false, tgt: 0, p: lin(2048.0, 1.0) },
        LutSpec { ctor: 4, bits: 8, signed: true, tgt: 0, p: lin(0.0, 100.0) },
        LutSpec { ctor: 4, bits: 8, signed: true, tgt: 0, p: lin(0.0, 1.0) },
        LutSpec { ctor: 0, bits: 10, signed: true, tgt: 2, p: Params { slope: 2.0, intercept: -1024.0, ..lin(0.0, 1.0) } },
        LutSpec { ctor: 1, bits: 12, signed: false, tgt: 1, p: Params { intercept: -1024.0, ..lin(50.0, 300.0) } },
        // degenerate widths
        LutSpec { ctor: 2, bits: 8, signed: false, tgt: 0, p: lin(128.0, 0.0) },
        LutSpec { ctor: 2, bits: 8, signed: false, tgt: 0, p: lin(128.0, -5.0) },
        LutSpec { ctor: 2, bits: 8, signed: false, tgt: 0, p: Params { func: 1, ..lin(128.0, 0.0) } },
        LutSpec { ctor: 2, bits: 8, signed: false, tgt: 0, p: Params { func: 1, ..lin(128.0, -3.0) } },
        LutSpec { ctor: 2, bits: 8, signed: true, tgt: 0, p: Params { func: 1, ..lin(0.5, 1.0) } },
        LutSpec { ctor: 2, bits: 7, signed: true, tgt: 1, p: Params { func: 2, ..lin(0.0, 20.0) } },
        // smallest tables, sign boundary
        LutSpec { ctor: 0, bits: 1, signed: true, tgt: 2, p: lin(0.0, 1.0) },
        LutSpec { ctor: 0, bits: 1, signed: false, tgt: 0, p: lin(0.0, 1.0) },
        LutSpec { ctor: 2, bits: 3, signed: true, tgt: 0, p: lin(0.0, 8.0) },
        // output type too narrow: CreateLutError
        LutSpec { ctor: 0, bits: 9, signed: false, tgt: 0, p: lin(0.0, 1.0) },
        LutSpec { ctor: 1, bits: 12, signed: false, tgt: 0, p: lin(2048.0, 4096.0) },
        LutSpec { ctor: 0, bits: 8, signed: true, tgt: 1, p: lin(0.0, 1.0) },
        // bits_stored outside 1..=32: panics (documented)
        LutSpec { ctor: 0, bits: 0, signed: false, tgt: 1, p: lin(0.0, 1.0) },
        LutSpec { ctor: 0, bits: 33, signed: false, tgt: 1, p: lin(0.0, 1.0) },
        // known finding WindowBoundsRoundedOutward: |center| so large that c + (w-1)/2 rounds away
        LutSpec { ctor: 1, bits: 8, signed: false, tgt: 1, p: Params { slope: 1.0, intercept: 9007199254740992.0, func: 0, center: 9007199254740994.0, width: 3.0 } },
    ];
    for (k, s) in corpus_l.iter().enumerate() { out.push(lut_case(s, &mut r, &format!("corpus-lut-{k}"))); }
    let corpus_p: Vec<PipeSpec> = vec![
        // 8 bits allocated, 5 stored, signed: 0x1f is -1, bits above the high bit are ignored (fixed defect)
        PipeSpec { ba: 8, bs: 5, signed: true, tgt: 3, slope: 1.0, intercept: 0.0, voi: None, over: false, raw: vec![0x1f, 0x10, 0x0f, 0xff, 0x3f, 0x00] },
        PipeSpec { ba: 8, bs: 5, signed: false, tgt: 3, slope: 2.0, intercept: -3.0, voi: None, over: true, raw: vec![0x1f, 0x20, 0xe1, 0xff] },
        PipeSpec { ba: 16, bs: 5, signed: true, tgt: 3, slope: 1.0, intercept: 0.0, voi: None, over: false, raw: vec![0x1f, 0x10, 0x0f, 0xffff, 0x3f, 0x00] },
        PipeSpec { ba: 16, bs: 12, signed: true, tgt: 2, slope: 1.0, intercept: -1024.0, voi: None, over: false, raw: vec![0x0800, 0x07ff, 0xf800, 0x0fff, 0] },
        PipeSpec { ba: 16, bs: 12, signed: false, tgt: 1, slope: 1.0, intercept: -1024.0, voi: Some((0, 50.0, 300.0)), over: false, raw: vec![824, 1224, 1074, 0x1000 | 1074, 0xffff] },
        PipeSpec { ba: 8, bs: 8, signed: true, tgt: 0, slope: 1.0, intercept: 0.0, voi: Some((0, 0.0, 100.0)), over: false, raw: vec![0xce, 50, 10, 0x80, 0x7f] },
        PipeSpec { ba: 8, bs: 0, signed: false, tgt: 3, slope: 1.0, intercept: 0.0, voi: None, over: false, raw: vec![1, 2, 255] },
        PipeSpec { ba: 8, bs: 12, signed: false, tgt: 3, slope: 1.0, intercept: 0.0, voi: None, over: false, raw: vec![1, 2, 255] },
    ];
    for (k, s) in corpus_p.iter().enumerate() { out.push(pipe_case(s, &format!("corpus-pipe-{k}"))); }
    // ---- generated
    let mut i = 0usize;
    let mut nl = 0usize;
    while out.len() < ctx.n {
        i += 1;
        if i % 4 == 0 {
            // pipeline case
            let ba: u16 = if r.coin() { 8 } else { 16 };
            let bs: u16 = if r.chance(1, 30) { if ba == 8 { *r.pick(&[0u16, 9, 17]) } else { 0 } }
                else if r.chance(1, 4) && (ba == 8 || !quick || r.chance(1, 8)) { ba }
                else { let hi = if ba == 16 && quick { if r.chance(1, 4) { 12 } else { 9 } } else { ba as u64 }; r.range(1, hi) as u16 };
            let signed = r.coin();
            let tgt = if r.chance(3, 5) { 3 } else { r.below(4) as u8 };
            let voi = if r.chance(1, 3) {
                let p = pick_params(&mut r, bs.clamp(1, 16) as u32, signed, 1);
                Some((p.func, p.center, p.width))
            } else { None };
            let slope = *r.pick(SLOPES); let intercept = *r.pick(INTERCEPTS);
            let n = r.range(1, 24) as usize;
            let mask = if bs == 0 || bs >= 16 { 0xffffu16 } else { (1u16 << bs) - 1 };
            let raw: Vec<u16> = (0..n).map(|_| {
                let v = r.next() as u16;
                let v = match r.below(6) { 0 => v & mask, 1 => mask, 2 => (mask >> 1) + 1, 3 => mask >> 1, _ => v };
                if ba == 8 { v & 0xff } else { v }
            }).collect();
            out.push(pipe_case(&PipeSpec { ba, bs, signed, tgt, slope, intercept, voi, over: r.coin(), raw }, "gen"));
        } else {
            let bits = if r.chance(1, 80) { *r.pick(&[0u16, 33, 40]) } else { { nl += 1; pick_bits(&mut r, nl, quick) } };
            let signed = r.coin();
            let ctor = match r.below(10) { 0 | 1 => 0, 2..=4 => 1, 5 | 6 => 2, 7 | 8 => 3, _ => 4 } as u8;
            let p = pick_params(&mut r, bits as u32, signed, ctor);
            // output type: mostly one that can hold the results
            let tgt: u8 = if ctor == 0 { if r.chance(3, 4) { 3 } else { r.below(4) as u8 } }
                else if bits <= 8 { if r.chance(1, 2) { 0 } else { r.below(4) as u8 } }
                else if r.chance(5, 6) { *r.pick(&[1u8, 3]) } else { r.below(4) as u8 };
            out.push(lut_case(&LutSpec { ctor, bits, signed, tgt, p }, &mut r, "gen"));
        }
    }
    out
}
