//! C19 — lossless transcoding preserves pixel data (pixeldata/src/transcode.rs,
//! lib.rs decode_pixel_data, transfer-syntax-registry adapters uncompressed.rs / deflated.rs)
//!
//! A native image is transcoded to a target transfer syntax (native LE/BE/implicit,
//! Encapsulated Uncompressed, Deflated Image Frame Compression), optionally written
//! to a byte stream and read back, optionally transcoded to a second target, and
//! finally transcoded to Explicit VR Little Endian. Oracle: byte equality of the
//! pixel data and consistency of the image attributes with its length.
use crate::util::*;
use dicom_core::value::Value;
use dicom_dictionary_std::{tags, uids};
use dicom_encoding::{adapters::EncodeOptions, TransferSyntaxIndex};
use dicom_object::{FileDicomObject, InMemDicomObject};
use dicom_pixeldata::Transcode;
use dicom_transfer_syntax_registry::TransferSyntaxRegistry;
use serde_json::json;
use vhc::*;

pub const TS: [&str; 5] = [
    uids::IMPLICIT_VR_LITTLE_ENDIAN,
    uids::EXPLICIT_VR_LITTLE_ENDIAN,
    uids::EXPLICIT_VR_BIG_ENDIAN,
    uids::ENCAPSULATED_UNCOMPRESSED_EXPLICIT_VR_LITTLE_ENDIAN,
    uids::DEFLATED_IMAGE_FRAME_COMPRESSION,
];
const STATUS: [&str; 3] = ["ok", "error", "panic"];
const TS_NAMES: [&str; 5] = ["ILE", "ELE", "EBE", "EncapsulatedUncompressed", "DeflatedImageFrame"];

type Obj = FileDicomObject<InMemDicomObject>;

/// what the object looks like: (ts index, pixel data: native bytes or fragments, NumberOfFrames, (7FE0,0003))
#[derive(Debug, Clone)]
pub struct Snap { pub ts: Option<usize>, pub native: Option<Vec<u8>>, pub frags: Option<Vec<Vec<u8>>>, pub nframes: Option<i64>, pub total: Option<u64>,
                  pub rows: Option<u16>, pub cols: Option<u16>, pub spp: Option<u16>, pub ba: Option<u16> }

fn snap(o: &Obj) -> Snap {
    let ts = TS.iter().position(|u| *u == o.meta().transfer_syntax());
    let (native, frags) = match o.element(tags::PIXEL_DATA).ok().map(|e| e.value()) {
        Some(Value::Primitive(p)) => (Some(p.to_bytes().to_vec()), None),
        Some(Value::PixelSequence(s)) => (None, Some(s.fragments().iter().map(|f| f.to_vec()).collect())),
        _ => (None, None),
    };
    let u16_of = |t| o.element(t).ok().and_then(|e| e.to_int::<u16>().ok());
    Snap { ts, native, frags,
        nframes: o.element(tags::NUMBER_OF_FRAMES).ok().and_then(|e| e.to_int::<i64>().ok()),
        total: o.element(tags::ENCAPSULATED_PIXEL_DATA_VALUE_TOTAL_LENGTH).ok().and_then(|e| e.to_int::<u64>().ok()),
        rows: u16_of(tags::ROWS), cols: u16_of(tags::COLUMNS), spp: u16_of(tags::SAMPLES_PER_PIXEL), ba: u16_of(tags::BITS_ALLOCATED) }
}

/// encode options of a hop: (quality, effort); (None, None) goes through `transcode`, anything else
/// through `transcode_with_options`
pub type Opts = (Option<u8>, Option<u8>);

fn transcode_to(o: &mut Obj, ts: usize, opts: Opts) -> Result<(), String> {
    let t = TransferSyntaxRegistry.get(TS[ts]).ok_or("unknown ts")?;
    if opts == (None, None) { return o.transcode(t).map_err(|e| e.to_string()); }
    let mut options = EncodeOptions::new();
    options.quality = opts.0;
    options.effort = opts.1;
    o.transcode_with_options(t, options).map_err(|e| e.to_string())
}

fn write_read(o: &Obj) -> Result<Obj, String> {
    let mut buf = Vec::new();
    o.write_all(&mut buf).map_err(|e| format!("write: {e}"))?;
    dicom_object::from_reader(&buf[..]).map_err(|e| format!("read: {e}"))
}

#[derive(Debug, Clone)]
pub struct Step { pub ts: usize, pub via_file: bool, pub opts: Opts }

pub struct Spec { pub img: Img, pub src: usize, pub steps: Vec<Step>, pub with_model: bool }

/// Runs the path; returns the snapshot after every step (the last step is always "to ELE").
fn run(spec: &Spec) -> Option<Result<Vec<Snap>, (Vec<Snap>, String)>> {
    let img = spec.img.clone(); let src = spec.src; let steps = spec.steps.clone();
    catch(move || {
        let mut o = img.to_object(TS[src]);
        let mut snaps = vec![];
        for st in steps.iter().chain(std::iter::once(&Step { ts: 1, via_file: false, opts: (None, None) })) {
            if let Err(e) = transcode_to(&mut o, st.ts, st.opts) { return Err((snaps, e)); }
            if st.via_file { match write_read(&o) { Ok(o2) => o = o2, Err(e) => return Err((snaps, e)) } }
            snaps.push(snap(&o));
        }
        Ok(snaps)
    })
}

fn c_snap(s: &Snap) -> String {
    // (ts, pixel value, NumberOfFrames, total length)
    let pv = match (&s.native, &s.frags) {
        (Some(b), _) => format!("(PNative {})", c_bytes(b)),
        // Deflated Image Frame fragments are reported by what they inflate to (independent use of flate2)
        (_, Some(f)) if s.ts == Some(4) => format!("(PFrags {})", c_list(f.iter().map(|x| {
            use std::io::Read;
            let mut out = Vec::new();
            match flate2::read::DeflateDecoder::new(&x[..]).read_to_end(&mut out) { Ok(_) => c_bytes(&out), Err(_) => c_bytes(x) }
        }))),
        (_, Some(f)) => format!("(PFrags {})", c_list(f.iter().map(|x| c_bytes(x)))),
        _ => "PNone".into(),
    };
    format!("({}, {}, {}, {})", s.ts.map_or(99, |t| t), pv, c_opt(s.nframes.map(|n| c_z(n as i128))), c_opt(s.total.map(|n| n.to_string())))
}

fn case_of(spec: &Spec, tag: &str) -> Case {
    let img = &spec.img;
    let res = run(spec);
    let expected_len = img.rows as usize * img.cols as usize * img.spp as usize * (img.ba as usize / 8) * img.frames as usize;
    let wf = img.px.len() == expected_len && (img.ba == 8 || img.ba == 16) && img.frames >= 1 && (img.with_nframes || img.frames == 1);
    // ---- oracle
    let fails = |class: &str, detail: String| Oracle::Fails { class: class.into(), detail };
    let odd_frame = (expected_len / img.frames.max(1) as usize) % 2 == 1;
    let oracle = if !wf { Oracle::NotApplicable } else {
        match &res {
            None => fails("panic", "transcoding panicked".into()),
            Some(Err((_, e))) => fails("error", format!("step failed: {e}")),
            Some(Ok(snaps)) => {
                let last = snaps.last().unwrap();
                let mut o = Oracle::Holds;
                // intermediate states: fragment count, total length attribute
                for (k, s) in snaps.iter().enumerate() {
                    if let Some(f) = &s.frags {
                        if f.len() != img.frames as usize { o = fails("fragments", format!("step {k}: {} fragments for {} frames", f.len(), img.frames)); break; }
                        if s.nframes != Some(img.frames as i64) { o = fails("attributes", format!("step {k}: NumberOfFrames {:?}, {} frames", s.nframes, img.frames)); break; }
                        let sum: u64 = f.iter().map(|x| x.len() as u64).sum();
                        if s.total != Some(sum) { o = fails("total-length", format!("step {k} ({}): (7FE0,0003) = {:?}, fragments total {} bytes", TS_NAMES[s.ts.unwrap_or(1)], s.total, sum)); break; }
                    }
                    if (s.rows, s.cols, s.spp, s.ba) != (Some(img.rows), Some(img.cols), Some(img.spp), Some(img.ba)) { o = fails("attributes", format!("step {k}: image attributes changed: {:?}", s)); break; }
                }
                if matches!(o, Oracle::Holds) {
                    match &last.native {
                        None => o = fails("not-native", "pixel data not native after transcoding to Explicit VR Little Endian".into()),
                        Some(b) => {
                            // the value of a native element written to a stream is padded to even length (PS3.5 7.1.1):
                            // that one trailing byte is not pixel data
                            let via_file_native = spec.steps.iter().any(|s| s.via_file && s.ts < 3);
                            let b2: &[u8] = if via_file_native && expected_len % 2 == 1 && b.len() == expected_len + 1 && b[expected_len] == 0 { &b[..expected_len] } else { &b[..] };
                            if b2 != &img.px[..] {
                                let class = if odd_frame && spec.steps.iter().any(|s| s.via_file && s.ts == 3) && b.len() > expected_len { "odd frame byte size through encapsulated uncompressed" } else { "pixel-data" };
                                o = fails(class, format!("pixel data differs: {} bytes in, {} bytes out (first difference at {:?})", img.px.len(), b.len(),
                                    b.iter().zip(img.px.iter()).position(|(x, y)| x != y)));
                            } else if last.ts != Some(1) { o = fails("attributes", "transfer syntax is not Explicit VR Little Endian".into()); }
                            else if last.nframes.map_or(img.frames != 1, |n| n != img.frames as i64) { o = fails("attributes", format!("NumberOfFrames {:?} for {} frames", last.nframes, img.frames)); }
                        }
                    }
                }
                o
            }
        }
    };
    // ---- Coq case
    let (snaps, status): (Vec<Snap>, u8) = match &res { None => (vec![], 2), Some(Err((s, _))) => (s.clone(), 1), Some(Ok(s)) => (s.clone(), 0) };
    let coq = if !spec.with_model { String::new() } else { format!("(({}, {}, {}, {}, {}, {}), {}, {}, {}, ({}, {}))",
        img.rows, img.cols, img.spp, img.ba, c_opt(if img.with_nframes { Some(img.frames.to_string()) } else { None }), c_bytes(&img.px),
        spec.src, c_list(spec.steps.iter().map(|s| format!("({}, {})", s.ts, c_bool(s.via_file)))),
        0, status, c_list(snaps.iter().map(c_snap))) };
    let path: Vec<String> = std::iter::once(TS_NAMES[spec.src].to_string()).chain(spec.steps.iter().map(|s| format!("{}{}{}", TS_NAMES[s.ts], if s.via_file { "+file" } else { "" },
        if s.opts == (None, None) { String::new() } else { format!("[q={:?},e={:?}]", s.opts.0, s.opts.1) }))).collect();
    let frame_bytes = expected_len / img.frames.max(1) as usize;
    let size_class = if frame_bytes >= 65535 { "/large-frame" } else { "" };
    let opt_class = if spec.steps.iter().any(|s| s.opts != (None, None)) { "/with-options" } else { "" };
    let plain_path: Vec<String> = std::iter::once(TS_NAMES[spec.src].to_string()).chain(spec.steps.iter().map(|s| format!("{}{}", TS_NAMES[s.ts], if s.via_file { "+file" } else { "" }))).collect();
    let bucket = format!("{}/{}bit/spp{}/{}/{}{}{}", plain_path.join(">"), img.ba, img.spp, if img.frames > 1 { "multi" } else { "single" }, if !wf { "malformed" } else if odd_frame { "odd-frame" } else { "even-frame" }, size_class, opt_class);
    Case {
        coq,
        desc: json!({"bucket": bucket, "tag": tag, "rows": img.rows, "cols": img.cols, "samples_per_pixel": img.spp, "bits_allocated": img.ba, "frames": img.frames,
                     "number_of_frames_present": img.with_nframes, "pixel_bytes": img.px.len(), "frame_bytes": frame_bytes, "modelled": spec.with_model, "pixels_hex": hex(&img.px[..img.px.len().min(64)]), "path": path,
                     "status": STATUS[status as usize]}),
        key: if img.px.is_empty() { String::new() } else if img.px.len() > 4096 {
            let sum = img.px.iter().fold(0u64, |a, b| a.wrapping_mul(1099511628211).wrapping_add(*b as u64));
            format!("{:?}|{}|{}|{}|{}|{}|{:x}", path, img.rows, img.cols, img.spp, img.ba, img.px.len(), sum)
        } else { format!("{:?}|{}|{}|{}|{}|{}", path, img.rows, img.cols, img.spp, img.ba, hex(&img.px)) },
        oracle,
    }
}

/// effort / quality classes of `EncodeOptions` (0..=100): absent, none, minimal, middle, maximal
const OPT_POOL: &[Option<u8>] = &[None, Some(0), Some(1), Some(50), Some(100), Some(10), Some(11), Some(99)];

fn pick_opts(r: &mut Rng) -> Opts {
    if r.chance(1, 2) { return (None, None); }
    let q = match r.below(4) { 0 => Some(0u8), 1 => Some(100), 2 => Some(r.below(101) as u8), _ => None };
    let e = if r.chance(1, 6) { Some(r.below(256) as u8) } else { *r.pick(OPT_POOL) };
    (q, e)
}

fn rand_img(r: &mut Rng, odd_bias: bool) -> Img {
    let ba: u16 = if r.coin() { 8 } else { 16 };
    let spp: u16 = if r.chance(1, 3) { 3 } else { 1 };
    let dims: &[u16] = if odd_bias { &[1, 3, 5, 7, 3, 1] } else { &[1, 2, 3, 4, 5, 6, 7, 8, 16, 17] };
    let rows = *r.pick(dims); let cols = *r.pick(dims);
    let frames = match r.below(6) { 0 | 1 => 1, 2 => 2, 3 => 3, _ => r.range(1, 6) as u32 };
    let n = rows as usize * cols as usize * spp as usize * (ba as usize / 8) * frames as usize;
    let style = r.below(4);
    let px: Vec<u8> = (0..n).map(|i| match style { 0 => r.next() as u8, 1 => (i % 251) as u8 + 1, 2 => if r.chance(1, 8) { r.next() as u8 } else { 0 }, _ => 0xff - (i % 7) as u8 }).collect();
    Img { rows, cols, spp, ba, bs: ba, signed: false, frames, px, rescale: None, with_nframes: frames > 1 || r.coin() }
}

pub fn cases(ctx: &Ctx) -> Vec<Case> {
    let mut r = Rng::new(ctx.seed);
    let mut out = vec![];
    // ---- corpus
    let probe = Img { rows: 3, cols: 3, spp: 1, ba: 8, bs: 8, signed: false, frames: 2, px: (1..=18).collect(), rescale: None, with_nframes: true };
    for (k, steps) in [
        vec![Step { ts: 3, via_file: true, opts: (None, None) }],   // odd frames through encapsulated uncompressed and a file (DESIGN section 9)
        vec![Step { ts: 3, via_file: false, opts: (None, None) }],
        vec![Step { ts: 4, via_file: true, opts: (None, None) }],
        vec![Step { ts: 4, via_file: false, opts: (None, None) }],
        vec![Step { ts: 2, via_file: true, opts: (None, None) }],
        vec![Step { ts: 0, via_file: false, opts: (None, None) }],
        vec![Step { ts: 3, via_file: true, opts: (None, None) }, Step { ts: 4, via_file: true, opts: (None, None) }],
        vec![Step { ts: 4, via_file: false, opts: (None, None) }, Step { ts: 3, via_file: false, opts: (None, None) }],
    ].into_iter().enumerate() {
        out.push(case_of(&Spec { img: probe.clone(), src: 1, steps, with_model: true }, &format!("corpus-{k}")));
    }
    let one = Img { rows: 1, cols: 1, spp: 1, ba: 8, bs: 8, signed: false, frames: 1, px: vec![0xAB], rescale: None, with_nframes: false };
    out.push(case_of(&Spec { img: one.clone(), src: 1, steps: vec![Step { ts: 3, via_file: true, opts: (None, None) }], with_model: true }, "corpus-1px"));
    out.push(case_of(&Spec { img: one.clone(), src: 0, steps: vec![Step { ts: 4, via_file: true, opts: (None, None) }], with_model: true }, "corpus-1px-deflate"));
    let w16 = Img { rows: 1, cols: 3, spp: 1, ba: 16, bs: 16, signed: false, frames: 3, px: (1..=18).collect(), rescale: None, with_nframes: true };
    out.push(case_of(&Spec { img: w16.clone(), src: 2, steps: vec![Step { ts: 3, via_file: true, opts: (None, None) }], with_model: true }, "corpus-16bit-from-EBE"));
    // malformed: pixel data shorter than the attributes say
    let short = Img { px: (1..=17).collect(), ..probe.clone() };
    out.push(case_of(&Spec { img: short, src: 1, steps: vec![Step { ts: 3, via_file: false, opts: (None, None) }], with_model: true }, "corpus-short"));
    // ---- the public EncodeOptions space on a small image, every lossless target (modelled)
    for ts in [3usize, 4] {
        for q in [None, Some(0u8), Some(100)] {
            for e in OPT_POOL {
                out.push(case_of(&Spec { img: probe.clone(), src: 1, steps: vec![Step { ts, via_file: false, opts: (q, *e) }], with_model: true }, "corpus-options"));
            }
        }
    }
    // ---- large frames (oracle only: no huge literal goes to coqc): frame sizes around the 16-bit
    // limits of block-structured codecs (65535 / 65536 / 65537+ bytes, 2^17), every effort class
    let large: &[(u16, u16, u16, u16, u32)] = &[
        // rows, cols, samples, bits allocated, frames
        (255, 257, 1, 8, 1),    // 65535
        (256, 256, 1, 8, 1),    // 65536
        (2, 32769, 1, 8, 1),    // 65538
        (3, 10923, 1, 16, 1),   // 65538
        (181, 181, 1, 16, 2),   // 65522 x 2 frames
        (128, 256, 1, 16, 2),   // 65536 x 2 frames
        (256, 512, 1, 8, 1),    // 2^17
        (3, 43691, 1, 8, 1),    // 2^17 + 1
        (149, 147, 3, 8, 1),    // 65709, 3 samples
        (256, 256, 3, 16, 1),   // 393216
    ];
    let n_large = if ctx.tier == Tier::Quick { large.len() * 3 } else { large.len() * OPT_POOL.len() * 2 };
    for k in 0..n_large {
        if out.len() >= ctx.n { break; }
        let (rows, cols, spp, ba, frames) = large[k % large.len()];
        let n = rows as usize * cols as usize * spp as usize * (ba as usize / 8) * frames as usize;
        let style = r.below(3);
        let px: Vec<u8> = (0..n).map(|i| match style { 0 => r.next() as u8, 1 => (i % 251) as u8, _ => if r.chance(1, 16) { r.next() as u8 } else { 7 } }).collect();
        let img = Img { rows, cols, spp, ba, bs: ba, signed: false, frames, px, rescale: None, with_nframes: true };
        // every effort class appears on every size within two runs of the size list
        // first pass: no compression at all on every size; then the effort classes rotate over the sizes
        let e = if k < large.len() { Some(0) } else { OPT_POOL[(k / large.len() + k) % OPT_POOL.len()] };
        let ts = if k % 7 == 6 { 3 } else { 4 };
        out.push(case_of(&Spec { img, src: 1, steps: vec![Step { ts, via_file: r.chance(1, 3), opts: (if r.coin() { None } else { Some(100) }, e) }], with_model: false }, "large"));
    }
    // ---- generated
    let mut i = 0usize;
    while out.len() < ctx.n {
        i += 1;
        let mut img = rand_img(&mut r, i % 3 == 0);
        if r.chance(1, 25) {
            // malformed stream: wrong amount of pixel data
            match r.below(3) { 0 => { img.px.pop(); if img.ba == 16 { img.px.pop(); } } 1 => { img.px.push(7); if img.ba == 16 { img.px.push(9); } } _ => { img.px.truncate(img.px.len() / 2); if img.ba == 16 && img.px.len() % 2 == 1 { img.px.pop(); } } }
        }
        let src = *r.pick(&[1usize, 1, 0, 2]);
        let first = match i % 5 { 0 => 3, 1 => 4, 2 => 3, 3 => 4, _ => *r.pick(&[0usize, 1, 2]) };
        let mut steps = vec![Step { ts: first, via_file: r.chance(1, 2), opts: pick_opts(&mut r) }];
        if r.chance(1, 4) { steps.push(Step { ts: *r.pick(&[3usize, 4, 0, 2, 3, 4]), via_file: r.chance(1, 2), opts: pick_opts(&mut r) }); }
        // 8-bit samples in an OW element written in big endian: how the stream codec lays out the
        // bytes of such a value is the data set writer/reader's business (C01), not transcoding's
        if img.ba == 8 { for s in steps.iter_mut() { if s.ts == 2 { s.via_file = false; } } }
        out.push(case_of(&Spec { img, src, steps, with_model: true }, "gen"));
    }
    out
}
