//! vh_lut — C22 (LUT outputs) and C19 (lossless transcoding) on dicom-pixeldata.
mod util;
mod c19;
mod c22;
use vhc::*;

fn main() {
    run_main(
        |prop, ctx| match prop {
            "C19" => Some(c19::cases(ctx)),
            "C22" => Some(c22::cases(ctx)),
            _ => None,
        },
        |_prop, _out| false,
    );
}
