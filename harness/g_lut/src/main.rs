//! vh_lut — C22 (LUT outputs) and C19 (lossless transcoding) on dicom-pixeldata.
mod util;
mod c22;
use vhc::*;

fn main() {
    run_main(
        |prop, ctx| match prop {
            "C22" => Some(c22::cases(ctx)),
            _ => None,
        },
        |_prop, _out| false,
    );
}
