//! C12 — partial dates, times and date-times: text round trip, byte length,
//! earliest/latest bounds, range texts (core/src/value/{partial,deserialize,range,primitive}.rs)
use chrono::{DateTime, Datelike, Duration, FixedOffset, NaiveDate, NaiveDateTime, NaiveTime, Timelike};
use dicom_core::value::deserialize::{
    parse_date, parse_date_partial, parse_datetime_partial, parse_time, parse_time_partial, Error as DeErr,
};
use dicom_core::value::partial::Error as PErr;
use dicom_core::value::range::{
    parse_date_range, parse_datetime_range_custom, parse_time_range, DateRange, DateTimeRange,
    Error as RErr, FailOnAmbiguousRange, IgnoreTimeZone, TimeRange, ToKnownTimeZone, ToLocalTimeZone,
};
use dicom_core::value::{AsRange, DicomDate, DicomDateTime, DicomTime, PreciseDateTime, PrimitiveValue};
use serde_json::json;
use vhc::*;

// ---------------------------------------------------------------- error classes (see Model/DateTime.v)
fn p_class(e: &PErr) -> u32 {
    match e {
        PErr::InvalidComponent { .. } => 40,
        PErr::FractionPrecisionRange { .. } => 41,
        PErr::FractionPrecisionMismatch { .. } => 42,
        PErr::DateTimeFromPartials { .. } => 43,
        PErr::Conversion { .. } => 44,
        PErr::ImpreciseValue { .. } => 45,
        _ => 49,
    }
}
fn d_class(e: &DeErr) -> u32 {
    match e {
        DeErr::UnexpectedEndOfElement { .. } => 1,
        DeErr::InvalidNumberLength { .. } => 2,
        DeErr::InvalidNumberToken { .. } => 3,
        DeErr::PartialValue { source, .. } => match source {
            PErr::InvalidComponent { .. } => 4,
            PErr::FractionPrecisionRange { .. } => 5,
            PErr::FractionPrecisionMismatch { .. } => 6,
            _ => 18,
        },
        DeErr::InvalidComponent { .. } => 7,
        DeErr::InvalidTimeZoneSignToken { .. } => 8,
        DeErr::InvalidDateTime { .. } => 9,
        DeErr::SecsOutOfBounds { .. } => 10,
        DeErr::IncompleteValue { .. } => 11,
        DeErr::InvalidTime { .. } => 12,
        DeErr::FractionDelimiter { .. } => 13,
        DeErr::InvalidDate { .. } => 14,
        _ => 19,
    }
}
fn r_class(e: &RErr) -> u32 {
    match e {
        RErr::UnexpectedEndOfElement { .. } => 20,
        RErr::RangeInversion { .. } => 21,
        RErr::NoRangeSeparator { .. } => 22,
        RErr::SeparatorCount { .. } => 23,
        RErr::InvalidDateTime { .. } => 24,
        RErr::ImpreciseValue { .. } => 25,
        RErr::InvalidDate { .. } => 26,
        RErr::InvalidTime { .. } => 27,
        RErr::InvalidTimeMicro { .. } => 28,
        RErr::AmbiguousDtRange { .. } => 29,
        RErr::Parse { source, .. } => 100 + d_class(source),
        _ => 39,
    }
}

// ---------------------------------------------------------------- Coq printers
fn c_date(d: &DicomDate) -> String {
    match (d.month(), d.day()) {
        (None, _) => format!("(DYear {})", d.year()),
        (Some(m), None) => format!("(DMonth {} {})", d.year(), m),
        (Some(m), Some(dd)) => format!("(DDay {} {} {})", d.year(), m, dd),
    }
}
fn frac_of(t: &DicomTime) -> Option<(u32, u8)> {
    let fp = t.fraction_precision();
    if fp == 0 { None } else { Some((t.fraction_str().parse::<u32>().unwrap(), fp)) }
}
fn c_time(t: &DicomTime) -> String {
    match (t.minute(), t.second(), frac_of(t)) {
        (None, _, _) => format!("(THour {})", t.hour()),
        (Some(m), None, _) => format!("(TMinute {} {})", t.hour(), m),
        (Some(m), Some(s), None) => format!("(TSecond {} {} {})", t.hour(), m, s),
        (Some(m), Some(s), Some((f, fp))) => format!("(TFrac {} {} {} {} {})", t.hour(), m, s, f, fp),
    }
}
fn c_dt(v: &DicomDateTime) -> String {
    format!(
        "(mkDT {} {} {})",
        c_date(v.date()),
        c_opt(v.time().map(c_time)),
        c_opt(v.time_zone().map(|z| c_z(z.local_minus_utc() as i128)))
    )
}
fn c_ymd(d: &NaiveDate) -> String { format!("({}, {}, {})", d.year(), d.month(), d.day()) }
fn c_hmsu(t: &NaiveTime) -> String {
    format!("({}, {}, {}, {})", t.hour(), t.minute(), t.second(), t.nanosecond() / 1000)
}
fn c_ndt(p: &NaiveDateTime) -> String { format!("({}, {})", c_ymd(&p.date()), c_hmsu(&p.time())) }
fn c_tzp(p: &DateTime<FixedOffset>) -> String {
    format!("({}, {})", c_ndt(&p.naive_local()), c_z(p.offset().local_minus_utc() as i128))
}
fn c_precise(p: &PreciseDateTime) -> String {
    match p {
        PreciseDateTime::Naive(n) => format!("(PNaive {})", c_ndt(n)),
        PreciseDateTime::TimeZone(z) => {
            format!("(PTz {} {})", c_ndt(&z.naive_local()), c_z(z.offset().local_minus_utc() as i128))
        }
    }
}
fn c_res<T, E>(r: &Result<T, E>, f: impl Fn(&T) -> String, cls: impl Fn(&E) -> u32) -> String {
    match r { Ok(v) => c_ok(&f(v)), Err(e) => c_err(cls(e)) }
}
/// result of a call made under catch_unwind: None = it panicked
fn c_caught<T, E>(r: &Option<Result<T, E>>, f: impl Fn(&T) -> String, cls: impl Fn(&E) -> u32) -> String {
    match r { None => c_panic(), Some(r) => c_res(r, f, cls) }
}
fn panic_oracle<T>(r: &Option<T>, what: &str, b: &[u8], otherwise: Oracle) -> Oracle {
    if r.is_none() { fails("parser-panic", format!("{} panicked on {:?} (bytes {})", what, show(b), hex(b))) } else { otherwise }
}
fn c_date_range(r: &DateRange) -> String {
    format!("({}, {})", c_opt(r.start().map(c_ymd)), c_opt(r.end().map(c_ymd)))
}
fn c_time_range(r: &TimeRange) -> String {
    format!("({}, {})", c_opt(r.start().map(c_hmsu)), c_opt(r.end().map(c_hmsu)))
}
fn c_dt_range(r: &DateTimeRange) -> String {
    match r {
        DateTimeRange::Naive { start, end } => {
            format!("(RNaive {} {})", c_opt(start.as_ref().map(c_ndt)), c_opt(end.as_ref().map(c_ndt)))
        }
        DateTimeRange::TimeZone { start, end } => {
            format!("(RTz {} {})", c_opt(start.as_ref().map(c_tzp)), c_opt(end.as_ref().map(c_tzp)))
        }
    }
}

const EPOCH_DAYS: i128 = 719_528; // 0000-01-01 .. 1970-01-01
const DAY_US: i128 = 86_400_000_000;
fn precise_us(p: &PreciseDateTime) -> i128 {
    EPOCH_DAYS * DAY_US
        + match p {
            PreciseDateTime::Naive(n) => n.and_utc().timestamp_micros() as i128,
            PreciseDateTime::TimeZone(z) => z.timestamp_micros() as i128,
        }
}

// ---------------------------------------------------------------- byte lengths through the public API
fn da_len(d: DicomDate) -> usize { (PrimitiveValue::Date(vec![d, d].into()).calculate_byte_len() - 2) / 2 }
fn tm_len(t: DicomTime) -> usize { (PrimitiveValue::Time(vec![t, t].into()).calculate_byte_len() - 2) / 2 }
fn dt_len(t: DicomDateTime) -> usize { (PrimitiveValue::DateTime(vec![t, t].into()).calculate_byte_len() - 2) / 2 }

// ---------------------------------------------------------------- consistency (direct, on chrono values)
fn date_consistent(v: &DicomDate, p: &NaiveDate) -> bool {
    p.year() == *v.year() as i32
        && v.month().map_or(true, |m| p.month() == *m as u32)
        && v.day().map_or(true, |d| p.day() == *d as u32)
}
fn time_consistent(v: &DicomTime, p: &NaiveTime) -> bool {
    let us = p.nanosecond() / 1000;
    p.hour() == *v.hour() as u32
        && v.minute().map_or(true, |m| p.minute() == *m as u32)
        && v.second().map_or(true, |s| p.second() == *s as u32)
        && frac_of(v).map_or(true, |(f, fp)| us < 1_000_000 && us / 10u32.pow(6 - fp as u32) == f)
}
fn dt_consistent(v: &DicomDateTime, p: &NaiveDateTime) -> bool {
    date_consistent(v.date(), &p.date()) && v.time().map_or(true, |t| time_consistent(t, &p.time()))
}

fn fails(class: &str, detail: String) -> Oracle { Oracle::Fails { class: class.into(), detail } }

/// own Gregorian month length (independent of chrono)
fn dim(y: u32, m: u32) -> u32 {
    match m {
        1 | 3 | 5 | 7 | 8 | 10 | 12 => 31,
        4 | 6 | 9 | 11 => 30,
        _ => if y % 4 == 0 && (y % 100 != 0 || y % 400 == 0) { 29 } else { 28 },
    }
}

/// The property evaluated directly on a date value.
fn date_oracle(v: DicomDate, r: &mut Rng) -> Oracle {
    let enc = v.to_encoded();
    match parse_date_partial(enc.as_bytes()) {
        Ok((back, rest)) if back == v && rest.is_empty() => {}
        other => return fails("date-roundtrip", format!("{:?} -> {} -> {:?}", v, enc, other.map(|x| (x.0, x.1.to_vec())).ok())),
    }
    if enc.len() != da_len(v) { return fails("date-length", format!("{} vs {}", enc, da_len(v))); }
    let y = *v.year() as u32;
    let cal_ok = match (v.month(), v.day()) { (Some(m), Some(d)) => *d as u32 <= dim(y, *m as u32), _ => true };
    let (lo, hi) = (v.earliest(), v.latest());
    if !cal_ok {
        return if lo.is_err() && hi.is_err() { Oracle::Holds } else { fails("date-bounds-defined", format!("{:?}: bounds of a non-calendar date", v)) };
    }
    let (lo, hi) = match (lo, hi) { (Ok(a), Ok(b)) => (a, b), _ => return fails("date-bounds-defined", format!("{:?}: no bounds", v)) };
    let m = v.month().map_or(1 + r.below(12) as u32, |m| *m as u32);
    let d = v.day().map_or(1 + r.below(dim(y, m) as u64) as u32, |d| *d as u32);
    let p = NaiveDate::from_ymd_opt(y as i32, m, d).unwrap();
    let ok = lo <= hi && date_consistent(&v, &lo) && date_consistent(&v, &hi) && lo <= p && p <= hi
        && lo.pred_opt().map_or(true, |q| !date_consistent(&v, &q))
        && hi.succ_opt().map_or(true, |q| !date_consistent(&v, &q))
        && v.range().map_or(false, |rg| rg.start() == Some(&lo) && rg.end() == Some(&hi));
    if ok { Oracle::Holds } else { fails("date-bounds", format!("{:?}: [{}, {}] p={}", v, lo, hi, p)) }
}

fn time_oracle(v: DicomTime, r: &mut Rng) -> Oracle {
    let enc = v.to_encoded();
    match parse_time_partial(enc.as_bytes()) {
        Ok((back, rest)) if back == v && rest.is_empty() => {}
        other => return fails("time-roundtrip", format!("{:?} -> {} -> {:?}", v, enc, other.map(|x| (x.0, x.1.to_vec())).ok())),
    }
    if enc.len() != tm_len(v) { return fails("time-length", format!("{} vs {}", enc, tm_len(v))); }
    let (lo, hi) = (v.earliest(), v.latest());
    if v.second() == Some(&60) {
        return if lo.is_err() && hi.is_err() { Oracle::Holds } else { fails("time-bounds-defined", format!("{:?}: bounds of a leap second", v)) };
    }
    let (lo, hi) = match (lo, hi) { (Ok(a), Ok(b)) => (a, b), _ => return fails("time-bounds-defined", format!("{:?}: no bounds", v)) };
    let mi = v.minute().map_or(r.below(60) as u32, |m| *m as u32);
    let s = v.second().map_or(r.below(60) as u32, |s| *s as u32);
    let us = match frac_of(&v) {
        None => r.below(1_000_000) as u32,
        Some((f, fp)) => { let k = 10u32.pow(6 - fp as u32); f * k + r.below(k as u64) as u32 }
    };
    let p = NaiveTime::from_hms_micro_opt(*v.hour() as u32, mi, s, us).unwrap();
    let us1 = Duration::microseconds(1);
    let min_t = NaiveTime::from_hms_opt(0, 0, 0).unwrap();
    let max_t = NaiveTime::from_hms_micro_opt(23, 59, 59, 999_999).unwrap();
    let ok = lo <= hi && time_consistent(&v, &lo) && time_consistent(&v, &hi) && lo <= p && p <= hi
        && time_consistent(&v, &p)
        && (lo == min_t || !time_consistent(&v, &(lo - us1)))
        && (hi == max_t || !time_consistent(&v, &(hi + us1)))
        && v.range().map_or(false, |rg| rg.start() == Some(&lo) && rg.end() == Some(&hi));
    if ok { Oracle::Holds } else { fails("time-bounds", format!("{:?}: [{}, {}] p={}", v, lo, hi, p)) }
}

fn zone_is_dicom(z: &FixedOffset) -> bool {
    let s = z.local_minus_utc();
    s % 60 == 0 && (-12 * 3600..=14 * 3600).contains(&s)
}

fn dt_oracle(v: DicomDateTime, _r: &mut Rng) -> Oracle {
    if v.time_zone().map_or(false, |z| !zone_is_dicom(z)) { return Oracle::NotApplicable; }
    let enc = v.to_encoded();
    match parse_datetime_partial(enc.as_bytes()) {
        Ok(back) if back == v => {}
        other => return fails("datetime-roundtrip", format!("{:?} -> {} -> {:?}", v, enc, other.ok())),
    }
    if enc.len() != dt_len(v) { return fails("datetime-length", format!("{} vs {}", enc, dt_len(v))); }
    let d = v.date();
    let y = *d.year() as u32;
    let cal_ok = match (d.month(), d.day()) { (Some(m), Some(dd)) => *dd as u32 <= dim(y, *m as u32), _ => true };
    let leap = v.time().map_or(false, |t| t.second() == Some(&60));
    let (lo, hi) = (v.earliest(), v.latest());
    if !cal_ok || leap {
        return if lo.is_err() && hi.is_err() { Oracle::Holds } else { fails("datetime-bounds-defined", format!("{:?}: bounds should not exist", v)) };
    }
    let (lo, hi) = match (lo, hi) { (Ok(a), Ok(b)) => (a, b), _ => return fails("datetime-bounds-defined", format!("{:?}: no bounds", v)) };
    // same zone on both ends; compare local naive date-times
    let (ln, hn) = match (&lo, &hi, v.time_zone()) {
        (PreciseDateTime::Naive(a), PreciseDateTime::Naive(b), None) => (*a, *b),
        (PreciseDateTime::TimeZone(a), PreciseDateTime::TimeZone(b), Some(z)) if a.offset() == z && b.offset() == z => (a.naive_local(), b.naive_local()),
        _ => return fails("datetime-bounds", format!("{:?}: zone of the bounds differs from the value's", v)),
    };
    let us1 = Duration::microseconds(1);
    let ok = lo <= hi && dt_consistent(&v, &ln) && dt_consistent(&v, &hn)
        && !dt_consistent(&v, &(ln - us1)) && !dt_consistent(&v, &(hn + us1));
    if ok { Oracle::Holds } else { fails("datetime-bounds", format!("{:?}: [{}, {}]", v, ln, hn)) }
}

// ---------------------------------------------------------------- generators
const YEARS: &[u16] = &[0, 1, 4, 99, 100, 400, 999, 1000, 1100, 1160, 1200, 1201, 1259, 1260, 1582, 1899, 1900, 1970, 1999, 2000, 2023, 2024, 2100, 9996, 9999];
fn gen_year(r: &mut Rng) -> u16 { if r.chance(1, 2) { *r.pick(YEARS) } else { r.below(10000) as u16 } }
/// A valid value that the implementation refuses to build is itself a failure of the property.
type Gen<T> = Result<T, String>;
fn refused(detail: String) -> Case {
    Case { coq: String::new(), desc: json!({"bucket": "refused-valid-value", "what": detail}), key: format!("refused/{}", detail), oracle: fails("valid-value-refused", detail) }
}
fn gen_date_p(r: &mut Rng, prec: u64) -> Gen<DicomDate> {
    let y = gen_year(r);
    let m = if r.chance(1, 3) { *r.pick(&[1u8, 2, 12]) } else { 1 + r.below(12) as u8 };
    let d = if r.chance(1, 2) { *r.pick(&[1u8, 28, 29, 30, 31]) } else { 1 + r.below(31) as u8 };
    match prec {
        0 => DicomDate::from_y(y),
        1 => DicomDate::from_ym(y, m),
        _ => DicomDate::from_ymd(y, m, d),
    }.map_err(|e| format!("date ({}, {}, {}) precision {}: {}", y, m, d, prec, e))
}
fn gen_date(r: &mut Rng) -> Gen<DicomDate> { let p = r.below(3); gen_date_p(r, p) }
/// a time of precision 0 (hour) .. 3 (second) or 4.. = fraction with fp = prec-3
fn gen_time_p(r: &mut Rng, prec: u64) -> Gen<DicomTime> {
    let h = if r.chance(1, 3) { *r.pick(&[0u8, 23]) } else { r.below(24) as u8 };
    let m = if r.chance(1, 3) { *r.pick(&[0u8, 59]) } else { r.below(60) as u8 };
    let s = if r.chance(1, 3) { *r.pick(&[0u8, 59, 60]) } else { r.below(61) as u8 };
    let err = |e: String| format!("time ({}, {}, {}) precision {}: {}", h, m, s, prec, e);
    match prec {
        0 => DicomTime::from_h(h).map_err(|e| err(e.to_string())),
        1 => DicomTime::from_hm(h, m).map_err(|e| err(e.to_string())),
        2 => DicomTime::from_hms(h, m, s).map_err(|e| err(e.to_string())),
        _ => {
            let fp = (prec - 2) as u32; // 1..=6
            let k = 10u32.pow(fp);
            let f = match r.below(4) { 0 => 0, 1 => k - 1, 2 => 1, _ => r.below(k as u64) as u32 };
            match fp {
                3 if r.coin() => DicomTime::from_hms_milli(h, m, s, f).map_err(|e| err(e.to_string())),
                6 if r.coin() => DicomTime::from_hms_micro(h, m, s, f).map_err(|e| err(e.to_string())),
                // other fraction precisions are only reachable through the parser
                _ => {
                    let text = format!("{:02}{:02}{:02}.{:0w$}", h, m, s, f, w = fp as usize);
                    match parse_time_partial(text.as_bytes()) {
                        Ok((t, rest)) if rest.is_empty() && t.fraction_precision() as u32 == fp => Ok(t),
                        other => Err(format!("valid TM text {} parsed to {:?}", text, other.map(|x| (x.0, x.1.to_vec())).ok())),
                    }
                }
            }
        }
    }
}
fn gen_time(r: &mut Rng) -> Gen<DicomTime> { let p = r.below(9); gen_time_p(r, p) }
const ZONES: &[i32] = &[0, 60, -60, 3600, -3600, 19800, -12600, 50400, -43200, 50340, -43140, 43200, 36000, -36000, 39600, -39600];
fn gen_zone(r: &mut Rng) -> FixedOffset {
    let s = if r.chance(1, 2) { *r.pick(ZONES) } else { (r.below(26 * 60 + 1) as i32 - 12 * 60) * 60 };
    FixedOffset::east_opt(s).unwrap()
}
fn gen_dt(r: &mut Rng) -> Gen<DicomDateTime> {
    let zone = if r.coin() { Some(gen_zone(r)) } else { None };
    let with_time = r.chance(3, 5);
    let date = if with_time { gen_date_p(r, 2)? } else { gen_date(r)? };
    Ok(match (with_time, zone) {
        (true, Some(z)) => DicomDateTime::from_date_and_time_with_time_zone(date, gen_time(r)?, z).map_err(|e| e.to_string())?,
        (true, None) => DicomDateTime::from_date_and_time(date, gen_time(r)?).map_err(|e| e.to_string())?,
        (false, Some(z)) => DicomDateTime::from_date_with_time_zone(date, z),
        (false, None) => DicomDateTime::from_date(date),
    })
}

const POOL: &[u8] = b"0123456789012345678901234567890123456789.+-: xA/\\";
fn mutate(r: &mut Rng, s: &str) -> Vec<u8> {
    let mut b = s.as_bytes().to_vec();
    for _ in 0..r.range(0, 2) {
        let n = b.len();
        match r.below(7) {
            0 if n > 0 => { b.remove(r.below(n as u64) as usize); }
            1 => { b.insert(r.below(n as u64 + 1) as usize, *r.pick(POOL)); }
            2 if n > 0 => { let i = r.below(n as u64) as usize; b[i] = *r.pick(POOL); }
            3 => { b.truncate(r.below(n as u64 + 1) as usize); }
            4 => { for _ in 0..r.range(1, 4) { b.push(*r.pick(POOL)); } }
            5 if n > 0 => { let i = r.below(n as u64) as usize; b[i] = b'0' + r.below(10) as u8; }
            _ => { if n > 1 { let i = r.below(n as u64 - 1) as usize; b.swap(i, i + 1); } }
        }
    }
    b
}
/// byte sequences that are not DICOM date/time text: multi-byte UTF-8, invalid UTF-8, NUL, signs, overlong digit runs
const WILD: &[&[u8]] = &[b"\xc3\xa9", b"\xef\xbc\x8b", b"\xf0\x9f\x95\x90", b"\xff", b"\x80", b"\x00", b"\xe2\x80", b"-", b"+", b"--", b"+-", b".", b"..",
    b"9999999999", b"00000000000000000000", b"4294967296", b"256", b"\\", b" ", b"\xd9\xa1\xd9\xa2" /* arabic-indic digits */, b"\xef\xbc\x91" /* fullwidth 1 */];
fn inject(r: &mut Rng, base: &[u8]) -> Vec<u8> {
    let mut b = base.to_vec();
    for _ in 0..r.range(1, 2) {
        let at = r.below(b.len() as u64 + 1) as usize;
        let w = *r.pick(WILD);
        if r.chance(1, 4) && at < b.len() { let end = (at + w.len()).min(b.len()); b.splice(at..end, w.iter().cloned()); }
        else { b.splice(at..at, w.iter().cloned()); }
    }
    b
}
fn wild_text(r: &mut Rng, max: u64) -> Vec<u8> {
    let n = r.below(max + 1);
    (0..n).map(|_| match r.below(4) { 0 => r.below(256) as u8, 1 => *r.pick(b".+-"), _ => b'0' + r.below(10) as u8 }).collect()
}
/// `base` with each WILD-like insert at every offset (deterministic block of the corpus)
fn every_offset(base: &[u8], inserts: &[&[u8]]) -> Vec<Vec<u8>> {
    let mut out = vec![];
    for at in 0..=base.len() { for w in inserts { let mut b = base.to_vec(); b.splice(at..at, w.iter().cloned()); out.push(b); } }
    out
}
fn rand_text(r: &mut Rng, max: u64) -> Vec<u8> {
    let n = r.below(max + 1);
    (0..n).map(|_| *r.pick(POOL)).collect()
}
fn show(b: &[u8]) -> String { String::from_utf8_lossy(b).into_owned() }

// ---------------------------------------------------------------- cases
fn case_date(v: DicomDate, r: &mut Rng) -> Case {
    let enc = v.to_encoded();
    let (lo, hi) = (v.earliest(), v.latest());
    let lo_day = lo.as_ref().ok().map(|d| c_z(d.num_days_from_ce() as i128 + 365));
    let coq = format!("(CDate {} {} {} {} {} {})", c_date(&v), c_utf8(&enc), da_len(v),
        c_res(&lo, c_ymd, r_class), c_res(&hi, c_ymd, r_class), c_opt(lo_day));
    let bucket = match (v.month(), v.day()) { (None, _) => "date/year", (_, None) => "date/month", _ => "date/day" };
    Case { coq, desc: json!({"bucket": bucket, "value": format!("{:?}", v), "encoded": enc}), key: format!("D{}", enc), oracle: date_oracle(v, r) }
}
fn case_time(v: DicomTime, r: &mut Rng) -> Case {
    let enc = v.to_encoded();
    let (lo, hi) = (v.earliest(), v.latest());
    let coq = format!("(CTime {} {} {} {} {})", c_time(&v), c_utf8(&enc), tm_len(v),
        c_res(&lo, c_hmsu, r_class), c_res(&hi, c_hmsu, r_class));
    let bucket = match (v.minute(), v.second(), v.fraction_precision()) {
        (None, _, _) => "time/hour".to_string(), (_, None, _) => "time/minute".into(), (_, _, 0) => "time/second".into(),
        (_, _, fp) => format!("time/fraction{}", fp),
    };
    Case { coq, desc: json!({"bucket": bucket, "value": format!("{:?}", v), "encoded": enc}), key: format!("T{}", enc), oracle: time_oracle(v, r) }
}
fn case_dt(v: DicomDateTime, r: &mut Rng) -> Case {
    let enc = v.to_encoded();
    let (lo, hi) = (v.earliest(), v.latest());
    let lo_us = lo.as_ref().ok().map(|p| c_z(precise_us(p)));
    let coq = format!("(CDT {} {} {} {} {} {})", c_dt(&v), c_utf8(&enc), dt_len(v),
        c_res(&lo, c_precise, r_class), c_res(&hi, c_precise, r_class), c_opt(lo_us));
    let bucket = format!("datetime/{}{}{}", match (v.date().month(), v.date().day()) { (None, _) => "Y", (_, None) => "YM", _ => "YMD" },
        if v.time().is_some() { "+time" } else { "" },
        match v.time_zone() { None => "", Some(z) if z.local_minus_utc() < 0 => "+west", Some(z) if !zone_is_dicom(z) => "+badzone", _ => "+east" });
    Case { coq, desc: json!({"bucket": bucket, "value": format!("{:?}", v), "encoded": enc}), key: format!("DT{}", enc), oracle: dt_oracle(v, r) }
}
fn case_mk_date(kind: u32, y: u16, m: u8, d: u8) -> Case {
    let res = match kind { 0 => DicomDate::from_y(y), 1 => DicomDate::from_ym(y, m), _ => DicomDate::from_ymd(y, m, d) };
    let want = y <= 9999 && (kind < 1 || (1..=12).contains(&m)) && (kind < 2 || (1..=31).contains(&d));
    let oracle = if res.is_ok() == want { Oracle::Holds } else { fails("date-constructor-validation", format!("kind {} ({}, {}, {}) -> {:?}", kind, y, m, d, res.as_ref().ok())) };
    let coq = format!("(CMkDate {} {} {} {} {})", kind, y, m, d, c_res(&res, c_date, p_class));
    Case { coq, desc: json!({"bucket": "constructor/date", "kind": kind, "args": [y, m, d]}), key: format!("MD{}/{}/{}/{}", kind, y, m, d), oracle }
}
fn case_mk_time(kind: u32, h: u8, m: u8, s: u8, f: u32) -> Case {
    let res = match kind {
        0 => DicomTime::from_h(h), 1 => DicomTime::from_hm(h, m), 2 => DicomTime::from_hms(h, m, s),
        3 => DicomTime::from_hms_milli(h, m, s, f), _ => DicomTime::from_hms_micro(h, m, s, f),
    };
    // a constructed time must be a valid one: its text parses back to it
    let want = h <= 23 && (kind < 1 || m <= 59) && (kind < 2 || s <= 60) && (kind != 3 || f <= 999) && (kind < 4 || f <= 999_999);
    let oracle = match &res {
        Ok(t) => match parse_time_partial(t.to_encoded().as_bytes()) {
            Ok((b, rest)) if b == *t && rest.is_empty() && want => Oracle::Holds,
            _ => fails("time-constructor-validation", format!("kind {} ({}, {}, {}, {}) accepted but {} does not parse back", kind, h, m, s, f, t.to_encoded())),
        },
        Err(_) => if want { fails("time-constructor-validation", format!("kind {} ({}, {}, {}, {}) refused", kind, h, m, s, f)) } else { Oracle::Holds },
    };
    let coq = format!("(CMkTime {} {} {} {} {} {})", kind, h, m, s, f, c_res(&res, c_time, p_class));
    Case { coq, desc: json!({"bucket": "constructor/time", "kind": kind, "args": [h, m, s, f]}), key: format!("MT{}/{}/{}/{}/{}", kind, h, m, s, f), oracle }
}
fn utf8_from_str_agrees<T: std::str::FromStr + PartialEq>(b: &[u8], direct: Option<&T>) -> bool {
    // the FromStr impls are the byte parsers applied to as_bytes(): same answer, no panic
    match std::str::from_utf8(b) {
        Ok(t) => match catch(|| t.parse::<T>().ok()) { Some(v) => v.as_ref() == direct, None => false },
        Err(_) => true,
    }
}
fn case_parse_date(b: &[u8]) -> Case {
    let res = catch(|| parse_date_partial(b).map(|x| (x.0, x.1.to_vec())));
    let coq = format!("(CParseDate {} {})", c_bytes(b), c_caught(&res, |x| format!("({}, {})", c_date(&x.0), c_bytes(&x.1)), d_class));
    let ok = matches!(&res, Some(Ok(_)));
    let direct = res.as_ref().and_then(|r| r.as_ref().ok()).map(|x| x.0);
    let oracle = panic_oracle(&res, "parse_date_partial", b, if utf8_from_str_agrees::<DicomDate>(b, direct.as_ref()) { Oracle::Holds } else { fails("parser-panic", format!("DicomDate::from_str disagrees or panics on {:?}", show(b))) });
    Case { coq, desc: json!({"bucket": if ok { "parse/date/ok" } else { "parse/date/err" }, "text": show(b), "hex": hex(b)}), key: format!("PD{}", hex(b)), oracle }
}
fn case_parse_time(b: &[u8]) -> Case {
    let res = catch(|| parse_time_partial(b).map(|x| (x.0, x.1.to_vec())));
    let coq = format!("(CParseTime {} {})", c_bytes(b), c_caught(&res, |x| format!("({}, {})", c_time(&x.0), c_bytes(&x.1)), d_class));
    let ok = matches!(&res, Some(Ok(_)));
    let direct = res.as_ref().and_then(|r| r.as_ref().ok()).map(|x| x.0);
    let oracle = panic_oracle(&res, "parse_time_partial", b, if utf8_from_str_agrees::<DicomTime>(b, direct.as_ref()) { Oracle::Holds } else { fails("parser-panic", format!("DicomTime::from_str disagrees or panics on {:?}", show(b))) });
    Case { coq, desc: json!({"bucket": if ok { "parse/time/ok" } else { "parse/time/err" }, "text": show(b), "hex": hex(b)}), key: format!("PT{}", hex(b)), oracle }
}
fn case_parse_dt(b: &[u8]) -> Case {
    let res = catch(|| parse_datetime_partial(b));
    let coq = format!("(CParseDT {} {})", c_bytes(b), c_caught(&res, c_dt, d_class));
    // whatever parses must print back to a text that parses to the same value; its bounds must not panic
    let oracle = match &res {
        None => panic_oracle(&res, "parse_datetime_partial", b, Oracle::Holds),
        Some(Ok(v)) => {
            if catch(|| (v.earliest().is_ok(), v.latest().is_ok())).is_none() { fails("parser-panic", format!("earliest/latest panicked on the value parsed from {:?}", show(b))) }
            else if !utf8_from_str_agrees::<DicomDateTime>(b, Some(v)) { fails("parser-panic", format!("DicomDateTime::from_str disagrees or panics on {:?}", show(b))) }
            else if v.time_zone().map_or(true, zone_is_dicom) {
                match parse_datetime_partial(v.to_encoded().as_bytes()) {
                    Ok(b2) if b2 == *v => Oracle::Holds,
                    other => fails("datetime-roundtrip", format!("{} -> {:?} -> {} -> {:?}", show(b), v, v.to_encoded(), other.ok())),
                }
            } else { Oracle::Holds }
        }
        Some(Err(_)) => Oracle::Holds,
    };
    let ok = matches!(&res, Some(Ok(_)));
    Case { coq, desc: json!({"bucket": if ok { "parse/datetime/ok" } else { "parse/datetime/err" }, "text": show(b), "hex": hex(b)}), key: format!("PDT{}", hex(b)), oracle }
}
fn case_parse_date_full(b: &[u8]) -> Case {
    let res = catch(|| parse_date(b));
    let coq = format!("(CParseDateFull {} {})", c_bytes(b), c_caught(&res, c_ymd, d_class));
    let ok = matches!(&res, Some(Ok(_)));
    Case { coq, desc: json!({"bucket": if ok { "parse/date-full/ok" } else { "parse/date-full/err" }, "text": show(b), "hex": hex(b)}), key: format!("PDF{}", hex(b)), oracle: panic_oracle(&res, "parse_date", b, Oracle::Holds) }
}
fn case_parse_time_full(b: &[u8]) -> Case {
    let res = catch(|| parse_time(b).map(|x| (x.0, x.1.to_vec())));
    let coq = format!("(CParseTimeFull {} {})", c_bytes(b), c_caught(&res, |x| format!("({}, {})", c_hmsu(&x.0), c_bytes(&x.1)), d_class));
    let ok = matches!(&res, Some(Ok(_)));
    Case { coq, desc: json!({"bucket": if ok { "parse/time-full/ok" } else { "parse/time-full/err" }, "text": show(b), "hex": hex(b)}), key: format!("PTF{}", hex(b)), oracle: panic_oracle(&res, "parse_time", b, Oracle::Holds) }
}
fn case_date_range(b: &[u8], ab: Option<(DicomDate, DicomDate)>) -> Case {
    let caught = catch(|| parse_date_range(b));
    let coq = format!("(CDateRange {} {})", c_bytes(b), c_caught(&caught, c_date_range, r_class));
    if caught.is_none() { return Case { coq, desc: json!({"bucket": "range/date/panic", "text": show(b), "hex": hex(b)}), key: format!("RD{}", hex(b)), oracle: panic_oracle(&caught, "parse_date_range", b, Oracle::Holds) }; }
    let res = caught.unwrap();
    let oracle = match ab.and_then(|(a, bb)| Some((a.earliest().ok()?, bb.latest().ok()?))) {
        Some((lo, hi)) => {
            let good = if lo <= hi { matches!(&res, Ok(rg) if rg.start() == Some(&lo) && rg.end() == Some(&hi)) } else { matches!(&res, Err(RErr::RangeInversion { .. })) };
            if good { Oracle::Holds } else { fails("date-range-text", format!("{} -> {:?}, want [{}, {}]", show(b), res.as_ref().ok(), lo, hi)) }
        }
        None => Oracle::NotApplicable,
    };
    Case { coq, desc: json!({"bucket": if ab.is_some() { "range/date/A-B" } else { "range/date/other" }, "text": show(b)}), key: format!("RD{}", hex(b)), oracle }
}
fn case_time_range(b: &[u8], ab: Option<(DicomTime, DicomTime)>) -> Case {
    let caught = catch(|| parse_time_range(b));
    let coq = format!("(CTimeRange {} {})", c_bytes(b), c_caught(&caught, c_time_range, r_class));
    if caught.is_none() { return Case { coq, desc: json!({"bucket": "range/time/panic", "text": show(b), "hex": hex(b)}), key: format!("RT{}", hex(b)), oracle: panic_oracle(&caught, "parse_time_range", b, Oracle::Holds) }; }
    let res = caught.unwrap();
    let oracle = match ab.and_then(|(a, bb)| Some((a.earliest().ok()?, bb.latest().ok()?))) {
        Some((lo, hi)) => {
            let good = if lo <= hi { matches!(&res, Ok(rg) if rg.start() == Some(&lo) && rg.end() == Some(&hi)) } else { matches!(&res, Err(RErr::RangeInversion { .. })) };
            if good { Oracle::Holds } else { fails("time-range-text", format!("{} -> {:?}, want [{}, {}]", show(b), res.as_ref().ok(), lo, hi)) }
        }
        None => Oracle::NotApplicable,
    };
    Case { coq, desc: json!({"bucket": if ab.is_some() { "range/time/A-B" } else { "range/time/other" }, "text": show(b)}), key: format!("RT{}", hex(b)), oracle }
}
// ---------------------------------------------------------------- date-time range oracle (own arithmetic)
/// days since 1970-01-01 of a proleptic Gregorian date (no chrono involved)
fn days_from_civil(y: i64, m: i64, d: i64) -> i64 {
    let y = if m <= 2 { y - 1 } else { y };
    let era = (if y >= 0 { y } else { y - 399 }) / 400;
    let yoe = y - era * 400;
    let doy = (153 * (m + if m > 2 { -3 } else { 9 }) + 2) / 5 + d - 1;
    let doe = yoe * 365 + yoe / 4 - yoe / 100 + doy;
    era * 146_097 + doe - 719_468
}
/// local microseconds (since 1970-01-01T00:00 local) of the earliest and the latest instant a value denotes,
/// from its components alone; None when it denotes none (not a calendar date, second 60)
fn own_bounds(v: &DicomDateTime) -> Option<(i128, i128)> {
    let d = v.date();
    let y = *d.year() as u32;
    let (m_lo, m_hi) = d.month().map_or((1, 12), |m| (*m as u32, *m as u32));
    let (d_lo, d_hi) = d.day().map_or((1, dim(y, m_hi)), |x| (*x as u32, *x as u32));
    if d_hi > dim(y, m_hi) || d_lo < 1 { return None; }
    let (t_lo, t_hi): (i128, i128) = match v.time() {
        None => (0, DAY_US - 1),
        Some(t) => {
            let h = *t.hour() as i128;
            let (mi_lo, mi_hi) = t.minute().map_or((0, 59), |x| (*x as i128, *x as i128));
            let (s_lo, s_hi) = t.second().map_or((0, 59), |x| (*x as i128, *x as i128));
            if s_hi > 59 { return None; }
            let (f_lo, f_hi) = frac_of(t).map_or((0, 999_999), |(f, fp)| { let k = 10i128.pow(6 - fp as u32); (f as i128 * k, f as i128 * k + k - 1) });
            (((h * 60 + mi_lo) * 60 + s_lo) * 1_000_000 + f_lo, ((h * 60 + mi_hi) * 60 + s_hi) * 1_000_000 + f_hi)
        }
    };
    Some((days_from_civil(y as i64, m_lo as i64, d_lo as i64) as i128 * DAY_US + t_lo,
          days_from_civil(y as i64, m_hi as i64, d_hi as i64) as i128 * DAY_US + t_hi))
}
/// (is the bound zoned, microseconds since the Unix epoch: UTC when zoned, local when naive)
fn actual_bound(p: &PreciseDateTime) -> (bool, i128) {
    match p {
        PreciseDateTime::Naive(n) => (false, n.and_utc().timestamp_micros() as i128),
        PreciseDateTime::TimeZone(z) => (true, z.timestamp_micros() as i128),
    }
}
/// The property text evaluated directly: `A-B` is the interval from the earliest instant of A to the latest
/// of B; a bound without offset is read as LOCAL time in the zone the strategy names (mode 0: the system
/// zone, 1: the zone of the other bound, 2: refuse, 3: drop the known offset and compare local times).
fn dt_range_oracle(mode: u32, text: &[u8], a: &DicomDateTime, b: &DicomDateTime, res: &Result<DateTimeRange, RErr>) -> Oracle {
    let mode_name = ["ToLocalTimeZone", "ToKnownTimeZone", "FailOnAmbiguousRange", "IgnoreTimeZone"][mode.min(3) as usize];
    let (za, zb) = (a.time_zone().map(|z| z.local_minus_utc() as i128), b.time_zone().map(|z| z.local_minus_utc() as i128));
    if a.time_zone().map_or(false, |z| !zone_is_dicom(z)) || b.time_zone().map_or(false, |z| !zone_is_dicom(z)) { return Oracle::NotApplicable; }
    let west = |z: Option<i128>| z.map_or(false, |s| s < 0);
    let known = west(za) && !west(zb) && tz_like(*b.date().year());
    let class = if known { "AmbiguousWestOffsetRange" } else { "datetime-range-instants" };
    let bad = |why: String| fails(class, format!("{} strategy {}: {}; got {:?}", show(text), mode_name, why, res.as_ref().map_err(|e| e.to_string())));
    let (lo, hi) = match (own_bounds(a), own_bounds(b)) {
        (Some(x), Some(y)) => (x.0, y.1),
        // a bound that denotes no instant: the text cannot be an interval
        _ => return if res.is_err() || known || (west(zb) && !west(za)) { Oracle::Holds } else { bad("a bound denotes no instant, the text must be refused".into()) },
    };
    // expected: Err(refused) | zoned interval in UTC | naive interval in local time
    enum Want { Refuse, Zoned(i128, i128), Naive(i128, i128) }
    let us = 1_000_000i128;
    let want = match (za, zb) {
        (Some(x), Some(y)) => Want::Zoned(lo - x * us, hi - y * us),
        (None, None) => Want::Naive(lo, hi),
        (x, y) => match mode {
            0 => { let l = local_offset() as i128; Want::Zoned(lo - x.unwrap_or(l) * us, hi - y.unwrap_or(l) * us) }
            1 => { let k = x.or(y).unwrap(); Want::Zoned(lo - k * us, hi - k * us) }
            2 => Want::Refuse,
            _ => Want::Naive(lo, hi),
        },
    };
    let (accept, want_zoned, ws, we) = match want { Want::Refuse => (false, false, 0, 0), Want::Zoned(s, e) => (s <= e, true, s, e), Want::Naive(s, e) => (s <= e, false, s, e) };
    if !accept {
        // when the only west offset is B's, a refused first split is retried at B's offset dash: the property is silent
        if west(zb) && !west(za) { return Oracle::NotApplicable; }
        let good = match (res, &want) { (Err(RErr::AmbiguousDtRange { .. }), Want::Refuse) => true, (Err(RErr::RangeInversion { .. }), Want::Zoned(..) | Want::Naive(..)) => true, _ => false };
        return if good { Oracle::Holds } else { bad(format!("must be refused ({})", if matches!(want, Want::Refuse) { "ambiguous" } else { "inverted" })) };
    }
    match res {
        Ok(rg) => match (rg.start(), rg.end()) {
            (Some(s), Some(e)) => {
                let ((sz, sv), (ez, ev)) = (actual_bound(&s), actual_bound(&e));
                if sz == want_zoned && ez == want_zoned && sv == ws && ev == we { Oracle::Holds }
                else { bad(format!("want {} [{} us, {} us] since the Unix epoch, got [{} us, {} us] (zoned: {}, {})", if want_zoned { "UTC" } else { "local" }, ws, we, sv, ev, sz, ez)) }
            }
            _ => bad("a bound is missing".into()),
        },
        Err(_) => bad(format!("the interval [{} us, {} us] is in order and must be accepted", ws, we)),
    }
}

fn local_offset() -> i32 { chrono::Local::now().offset().local_minus_utc() }
/// the digits of `y` read as hhmm form a valid west offset
fn tz_like(y: u16) -> bool { (y / 100) as u32 * 60 + (y % 100) as u32 <= 720 }
fn case_dt_range(mode: u32, b: &[u8], ab: Option<(DicomDateTime, DicomDateTime)>) -> Case {
    let caught = catch(|| match mode {
        0 => parse_datetime_range_custom::<ToLocalTimeZone>(b),
        1 => parse_datetime_range_custom::<ToKnownTimeZone>(b),
        2 => parse_datetime_range_custom::<FailOnAmbiguousRange>(b),
        _ => parse_datetime_range_custom::<IgnoreTimeZone>(b),
    });
    let cmode = match mode { 0 => format!("(AmbLocal {})", c_z(local_offset() as i128)), 1 => "AmbKnown".into(), 2 => "AmbFail".into(), _ => "AmbIgnore".into() };
    let coq = format!("(CDTRange {} {} {})", cmode, c_bytes(b), c_caught(&caught, c_dt_range, r_class));
    if caught.is_none() { return Case { coq, desc: json!({"bucket": "range/datetime/panic", "mode": mode, "text": show(b), "hex": hex(b)}), key: format!("RDT{}/{}", mode, hex(b)), oracle: panic_oracle(&caught, "parse_datetime_range", b, Oracle::Holds) }; }
    let res = caught.unwrap();
    let oracle = match &ab { Some((a, bb)) => dt_range_oracle(mode, b, a, bb, &res), None => Oracle::NotApplicable };
    Case { coq, desc: json!({"bucket": format!("range/datetime/{}{}", if ab.is_some() { "A-B" } else { "other" }, b.iter().filter(|c| **c == b'-').count()), "mode": mode, "text": show(b)}), key: format!("RDT{}/{}", mode, hex(b)), oracle }
}

// ---------------------------------------------------------------- exhaustive sweeps on the implementation
fn sweep_dates() -> Case {
    let mut n = 0u64;
    let mut bad: Option<String> = None;
    let mut check = |v: Result<DicomDate, PErr>, want_lo: Option<(u32, u32, u32)>, want_hi: Option<(u32, u32, u32)>, len: usize| {
        n += 1;
        if bad.is_some() { return; }
        let v = match v { Ok(v) => v, Err(e) => { bad = Some(format!("valid date refused: {}", e)); return; } };
        let enc = v.to_encoded();
        let rt = matches!(parse_date_partial(enc.as_bytes()), Ok((b, rest)) if b == v && rest.is_empty());
        let f = |d: NaiveDate| (d.year() as u32, d.month(), d.day());
        if !rt || enc.len() != len || da_len(v) != len || v.earliest().ok().map(f) != want_lo || v.latest().ok().map(f) != want_hi {
            bad = Some(format!("{:?} enc={} lo={:?} hi={:?}", v, enc, v.earliest().ok(), v.latest().ok()));
        }
    };
    for y in 0..=9999u16 {
        let yy = y as u32;
        check(DicomDate::from_y(y), Some((yy, 1, 1)), Some((yy, 12, 31)), 4);
        for m in 1..=12u8 {
            let mm = m as u32;
            check(DicomDate::from_ym(y, m), Some((yy, mm, 1)), Some((yy, mm, dim(yy, mm))), 6);
            for d in 1..=31u8 {
                let dd = d as u32;
                let w = if dd <= dim(yy, mm) { Some((yy, mm, dd)) } else { None };
                check(DicomDate::from_ymd(y, m, d), w, w, 8);
            }
        }
    }
    let oracle = match bad { None => Oracle::Holds, Some(d) => fails("date-sweep", d) };
    Case { coq: String::new(), desc: json!({"bucket": "sweep/dates", "values": n}), key: format!("sweep-dates-{}", n), oracle }
}
fn sweep_times() -> Case {
    let mut n = 0u64;
    let mut bad: Option<String> = None;
    let mut check = |v: Result<DicomTime, PErr>, want: Option<((u32, u32, u32, u32), (u32, u32, u32, u32))>, len: usize| {
        n += 1;
        if bad.is_some() { return; }
        let v = match v { Ok(v) => v, Err(e) => { bad = Some(format!("valid time refused: {}", e)); return; } };
        let enc = v.to_encoded();
        let rt = matches!(parse_time_partial(enc.as_bytes()), Ok((b, rest)) if b == v && rest.is_empty());
        let f = |t: NaiveTime| (t.hour(), t.minute(), t.second(), t.nanosecond() / 1000);
        let got = match (v.earliest(), v.latest()) { (Ok(a), Ok(b)) => Some((f(a), f(b))), (Err(_), Err(_)) => None, _ => Some(((99, 0, 0, 0), (99, 0, 0, 0))) };
        if !rt || enc.len() != len || tm_len(v) != len || got != want {
            bad = Some(format!("{:?} enc={} bounds={:?}", v, enc, got));
        }
    };
    for h in 0..24u8 {
        let hh = h as u32;
        check(DicomTime::from_h(h), Some(((hh, 0, 0, 0), (hh, 59, 59, 999_999))), 2);
        for m in 0..60u8 {
            let mm = m as u32;
            check(DicomTime::from_hm(h, m), Some(((hh, mm, 0, 0), (hh, mm, 59, 999_999))), 4);
            for s in 0..=60u8 {
                let ss = s as u32;
                let w = |lo: u32, hi: u32| if s < 60 { Some(((hh, mm, ss, lo), (hh, mm, ss, hi))) } else { None };
                check(DicomTime::from_hms(h, m, s), w(0, 999_999), 6);
                check(DicomTime::from_hms_milli(h, m, s, 7), w(7_000, 7_999), 10);
                check(DicomTime::from_hms_micro(h, m, s, 999_999), w(999_999, 999_999), 13);
            }
        }
    }
    let oracle = match bad { None => Oracle::Holds, Some(d) => fails("time-sweep", d) };
    Case { coq: String::new(), desc: json!({"bucket": "sweep/times", "values": n}), key: format!("sweep-times-{}", n), oracle }
}

fn range_text(a: &str, b: &str) -> Vec<u8> { format!("{}-{}", a, b).into_bytes() }

pub fn cases(ctx: &Ctx) -> Vec<Case> {
    let mut r = Rng::new(ctx.seed);
    let mut out = vec![];
    // ---- fixed corpus: boundary values and witnesses of the defects found
    out.push(case_mk_time(4, 24, 61, 99, 5)); // fixed a5809c2: was accepted
    out.push(case_mk_time(3, 24, 0, 0, 0));
    out.push(case_mk_time(3, 23, 59, 60, 999));
    out.push(case_mk_time(4, 23, 59, 60, 1_000_000));
    out.push(case_mk_time(3, 0, 0, 0, 1000));
    for (y, m, d) in [(1900u16, 2u8, 29u8), (2000, 2, 29), (2023, 2, 29), (2024, 2, 29), (0, 2, 29), (9999, 12, 31), (2001, 4, 31), (100, 2, 29), (400, 2, 29)] {
        out.push(match DicomDate::from_ymd(y, m, d) { Ok(v) => case_date(v, &mut r), Err(e) => refused(format!("date {}-{}-{}: {}", y, m, d, e)) });
    }
    for y in [0u16, 9999] { out.push(match DicomDate::from_y(y) { Ok(v) => case_date(v, &mut r), Err(e) => refused(format!("year {}: {}", y, e)) }); }
    for (y, m) in [(1900u16, 2u8), (2000, 2), (9999, 12), (0, 1)] { out.push(match DicomDate::from_ym(y, m) { Ok(v) => case_date(v, &mut r), Err(e) => refused(format!("month {}-{}: {}", y, m, e)) }); }
    for t in ["00", "23", "2359", "235960", "235959.9", "000000.000000", "235960.999999", "120000.01", "120000.00123"] {
        out.push(match t.parse::<DicomTime>() { Ok(v) => case_time(v, &mut r), Err(e) => refused(format!("valid TM text {}: {}", t, e)) });
    }
    for t in ["0000", "0000+1400", "0000-1200", "9999-1200", "99991231235959.999999+1400", "00000101000000.000000-1200",
              "20240229", "2024022923", "20240229235960.5-0001", "20230229+0100", "202302", "20240229235959.123456+0000"] {
        out.push(match t.parse::<DicomDateTime>() { Ok(v) => case_dt(v, &mut r), Err(e) => refused(format!("valid DT text {}: {}", t, e)) });
    }
    // zones that are not DICOM offsets (seconds, out of range): outside the property, model still agrees
    for s in [3661, -3661, 50401, -43201, 86399, -86399, 59] {
        if let Ok(d) = DicomDate::from_y(2000) { out.push(case_dt(DicomDateTime::from_date_with_time_zone(d, FixedOffset::east_opt(s).unwrap()), &mut r)); }
    }
    for t in ["", "1", "200", "2000", "20001", "200013", "20000100", "20000132", "2000-1", "2000 01", "99999999", "1999123", "19991231x", "+2000", "２０００"] {
        out.push(case_parse_date(t.as_bytes()));
    }
    for t in ["", "1", "24", "23", "2360", "235961", "235960", "2359.5", "235959.", "235959.x", "235959.1234567", "235959.123456789012", "235959.12x", "23:59", "2 ", "235959-", "235959.-1", "1234567"] {
        out.push(case_parse_time(t.as_bytes()));
    }
    for t in ["2000+1400", "2000+1401", "2000-1200", "2000-1201", "2000+9999", "2000*0100", "2000+010", "2000+01000", "2000+0a00", "2000010112.5", "20000101-0100xyz",
              "200001+0100", "2000013", "200001011+0100", "20000101120000.5+0100", "2000010124", "20000101236000", "2000+0060", "2000-0000", "20000101+", "2000.5", "2000++0100"] {
        out.push(case_parse_dt(t.as_bytes()));
    }
    for t in ["2000-2001", "2001-2000", "-2000", "2000-", "2000", "20000101-20000101", "20000230-2001", "2000xx-2001", "200-2001", "----", "-----", "2000--2001", "19000229-", "-19000229", "20000101-19991231"] {
        out.push(case_date_range(t.as_bytes(), None));
    }
    for t in ["10-12", "12-10", "-10", "10-", "10", "1-2", "235960-", "-235960", "1030-1030", "1030-1029", "120000.5-120000.49", "120000.5-120000.5", "2360-", "10--12", "---"] {
        out.push(case_time_range(t.as_bytes(), None));
    }
    for mode in 0..4 {
        for t in ["2000-2001", "2001-2000", "-2000", "2000-", "-2000-0100", "2000-0100-", "1000-1100-0100", "1000-1100-0100-0200", "2000-0100-2001", "2000-2001-0100",
                  "2000+0100-2001", "2000-2001+0100", "2000+0100-2001-0100", "2000-0100-2001-0100", "2000-0100-1999-0200", "2000-0100-2001-0100-", "2000-01-01-02-03", "0100+0000-0050-1000",
                  "20000101-0100-10000101", "20000230-2001", "2000-20010230", "20000101120000-20000101115959", "20000101235960-2001", "2000", "20000", "2000+0100-2000+0200", "2000+0200-2000+0100",
                  "20240101000000+0100-20231231230000+0000", "20240101000000.000000+0100-20231231225959.999999+0000"] {
            out.push(case_dt_range(mode, t.as_bytes(), None));
        }
    }
    // arbitrary bytes at every offset of a valid text: multi-byte UTF-8, invalid UTF-8, sign, overlong digits
    let ins: &[&[u8]] = &[b"\xc3\xa9", b"\xff", b"-", b"9999999999"];
    for t in every_offset(b"20240229", ins) { out.push(case_parse_date(&t)); out.push(case_parse_date_full(&t)); }
    for t in every_offset(b"235959.123456", ins) { out.push(case_parse_time(&t)); out.push(case_parse_time_full(&t)); }
    for t in every_offset(b"20240229235959.123456-0100", ins) { out.push(case_parse_dt(&t)); }
    for t in every_offset(b"20240229-20240301", &ins[..3]) { out.push(case_date_range(&t, None)); }
    for t in every_offset(b"2359-235959.5", &ins[..3]) { out.push(case_time_range(&t, None)); }
    for (k, t) in every_offset(b"20240229-0100-20240301+0100", &ins[..3]).into_iter().enumerate() { out.push(case_dt_range((k % 4) as u32, &t, None)); }
    for t in ["", "2024", "202402", "2024022", "20240229", "202402291", "20240230", "20241301", "2024\u{e9}0229", "99999999"] { out.push(case_parse_date_full(t.as_bytes())); }
    for t in ["", "23", "2359", "23595", "235959", "2359599", "235959.1", "235959.123456789", "235960.5", "235959x5", "235959..", "246060.0", "235959.\u{e9}", "235959.1234567890123"] { out.push(case_parse_time_full(t.as_bytes())); }
    // witness of the known finding AmbiguousWestOffsetRange (Properties/C12.v C12_datetime_range_refuted)
    out.push(match ("1000-1100".parse::<DicomDateTime>(), "1150".parse::<DicomDateTime>()) {
        (Ok(a), Ok(b)) => case_dt_range(1, b"1000-1100-1150", Some((a, b))),
        _ => refused("valid DT texts 1000-1100 / 1150".into()),
    });
    // one bound with an offset, the other without, under every strategy (the other bound is LOCAL time in the named zone)
    for (ta, tb) in [("19900101", "19950101+0200"), ("199203-0500", "1993"), ("20240101000000", "20240101010000+0200"), ("20240101000000+0200", "20240101010000"),
                     ("2024010100-1000", "2023123120"), ("20231231", "20240101-1200"), ("20240101+1400", "20231231")] {
        for mode in 0..4 {
            out.push(match (ta.parse::<DicomDateTime>(), tb.parse::<DicomDateTime>()) {
                (Ok(a), Ok(b)) => case_dt_range(mode, format!("{}-{}", ta, tb).as_bytes(), Some((a, b))),
                _ => refused(format!("valid DT texts {} / {}", ta, tb)),
            });
        }
    }
    // ---- complete sweeps over the finite domains named by the property (implementation only)
    out.push(sweep_times());
    out.push(sweep_dates());

    // ---- generated cases
    let n_fixed = out.len();
    for i in 0..ctx.n.saturating_sub(n_fixed) {
        let c: Gen<Case> = (|| Ok(match i % 22 {
            0..=2 => case_date(gen_date(&mut r)?, &mut r),
            3..=5 => case_time(gen_time(&mut r)?, &mut r),
            6..=9 => case_dt(gen_dt(&mut r)?, &mut r),
            10 => if r.coin() {
                let y = if r.chance(1, 3) { *r.pick(&[9999u16, 10000, 65535, 0]) } else { gen_year(&mut r) };
                let m = if r.chance(1, 2) { *r.pick(&[0u8, 1, 12, 13, 255]) } else { r.below(14) as u8 };
                let d = if r.chance(1, 2) { *r.pick(&[0u8, 1, 31, 32, 255]) } else { r.below(33) as u8 };
                case_mk_date(r.below(3) as u32, y, m, d)
            } else {
                let h = if r.chance(1, 2) { *r.pick(&[0u8, 23, 24, 255]) } else { r.below(25) as u8 };
                let m = if r.chance(1, 2) { *r.pick(&[0u8, 59, 60, 255]) } else { r.below(61) as u8 };
                let s = if r.chance(1, 2) { *r.pick(&[0u8, 59, 60, 61, 255]) } else { r.below(62) as u8 };
                let f = *r.pick(&[0u32, 1, 999, 1000, 999_999, 1_000_000, 123_456, u32::MAX]);
                case_mk_time(r.below(5) as u32, h, m, s, f)
            },
            11 => { let t = if r.chance(1, 6) { rand_text(&mut r, 10) } else if r.chance(1, 6) { wild_text(&mut r, 12) } else { let e = gen_date(&mut r)?.to_encoded(); if r.chance(1, 3) { inject(&mut r, e.as_bytes()) } else { mutate(&mut r, &e) } }; case_parse_date(&t) }
            12 => { let t = if r.chance(1, 6) { rand_text(&mut r, 16) } else if r.chance(1, 6) { wild_text(&mut r, 18) } else { let e = gen_time(&mut r)?.to_encoded(); if r.chance(1, 3) { inject(&mut r, e.as_bytes()) } else { mutate(&mut r, &e) } }; case_parse_time(&t) }
            13 => {
                let t = if r.chance(1, 6) { rand_text(&mut r, 28) }
                else if r.chance(1, 6) { wild_text(&mut r, 30) }
                else if r.chance(1, 5) { let e = gen_dt(&mut r)?.to_encoded(); inject(&mut r, e.as_bytes()) }
                else if r.chance(1, 4) {
                    // zone suffixes around the accepted limits (+14:00 / -12:00, minutes 59/60)
                    let d = gen_date(&mut r)?.to_encoded();
                    let hh = *r.pick(&[0u32, 11, 12, 13, 14, 15, 23, 24, 99]);
                    let mm = *r.pick(&[0u32, 1, 30, 59, 60, 99]);
                    format!("{}{}{:02}{:02}", d, if r.coin() { '+' } else { '-' }, hh, mm).into_bytes()
                } else { let e = gen_dt(&mut r)?.to_encoded(); mutate(&mut r, &e) };
                case_parse_dt(&t)
            }
            14 | 15 => {
                let (a, b) = (gen_date(&mut r)?, if r.chance(1, 4) { gen_date(&mut r)? } else { gen_date_p(&mut r, 0)? });
                let (a, b) = if r.chance(3, 4) && a.year() > b.year() { (b, a) } else { (a, b) };
                match r.below(6) {
                    0 => case_date_range(format!("-{}", b.to_encoded()).as_bytes(), None),
                    1 => case_date_range(format!("{}-", a.to_encoded()).as_bytes(), None),
                    2 => { let e = format!("{}-{}", a.to_encoded(), b.to_encoded()); let t = if r.coin() { inject(&mut r, e.as_bytes()) } else { mutate(&mut r, &e) }; case_date_range(&t, None) }
                    _ => case_date_range(&range_text(&a.to_encoded(), &b.to_encoded()), Some((a, b))),
                }
            }
            16 => {
                let (a, b) = (gen_time(&mut r)?, gen_time(&mut r)?);
                let (a, b) = if r.chance(3, 4) && a.hour() > b.hour() { (b, a) } else { (a, b) };
                match r.below(6) {
                    0 => case_time_range(format!("-{}", b.to_encoded()).as_bytes(), None),
                    1 => case_time_range(format!("{}-", a.to_encoded()).as_bytes(), None),
                    2 => { let e = format!("{}-{}", a.to_encoded(), b.to_encoded()); let t = if r.coin() { inject(&mut r, e.as_bytes()) } else { mutate(&mut r, &e) }; case_time_range(&t, None) }
                    _ => case_time_range(&range_text(&a.to_encoded(), &b.to_encoded()), Some((a, b))),
                }
            }
            20 => {
                let t = match r.below(4) { 0 => wild_text(&mut r, 12), 1 => { let e = gen_date(&mut r)?.to_encoded(); inject(&mut r, e.as_bytes()) }
                    2 => { let e = gen_date_p(&mut r, 2)?.to_encoded(); mutate(&mut r, &e) } _ => gen_date(&mut r)?.to_encoded().into_bytes() };
                case_parse_date_full(&t)
            }
            21 => {
                let t = match r.below(4) { 0 => wild_text(&mut r, 16), 1 => { let e = gen_time(&mut r)?.to_encoded(); inject(&mut r, e.as_bytes()) }
                    2 => { let e = gen_time(&mut r)?.to_encoded(); mutate(&mut r, &e) } _ => gen_time(&mut r)?.to_encoded().into_bytes() };
                case_parse_time_full(&t)
            }
            _ => {
                let (a, b) = (gen_dt(&mut r)?, gen_dt(&mut r)?);
                let (a, b) = if r.chance(3, 4) && a.date().year() > b.date().year() { (b, a) } else { (a, b) };
                let mode = r.below(4) as u32;
                match r.below(8) {
                    0 => case_dt_range(mode, format!("-{}", b.to_encoded()).as_bytes(), None),
                    1 => case_dt_range(mode, format!("{}-", a.to_encoded()).as_bytes(), None),
                    2 => { let e = format!("{}-{}", a.to_encoded(), b.to_encoded()); let t = if r.coin() { inject(&mut r, e.as_bytes()) } else { mutate(&mut r, &e) }; case_dt_range(mode, &t, None) }
                    _ => case_dt_range(mode, &range_text(&a.to_encoded(), &b.to_encoded()), Some((a, b))),
                }
            }
        }))();
        let c = c.unwrap_or_else(refused);
        out.push(c);
    }
    out
}
