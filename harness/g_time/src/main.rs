//! vh_time — C12: partial dates, times and date-times of dicom-core.
mod c12;
use vhc::*;

fn main() {
    run_main(
        |prop, ctx| match prop {
            "C12" => Some(c12::cases(ctx)),
            _ => None,
        },
        |_prop, _out| false,
    );
}
