//! vh_text — properties about text encoding/decoding and character sets (C10).
mod c10;
use vhc::*;

fn main() {
    run_main(
        |prop, ctx| match prop {
            "C10" => Some(c10::cases(ctx)),
            _ => None,
        },
        |prop, out| match prop {
            "C10" => c10::tables(out),
            _ => false,
        },
    );
}
