//! C10 — text in every supported character set (encoding/src/text.rs, parser/src/stateful/{encode,decode}.rs, object/src/mem.rs)
use dicom_core::value::{DicomValueType, PrimitiveValue, Value};
use dicom_core::{DataElement, Tag, VR};
use dicom_encoding::text::{SpecificCharacterSet, TextCodec};
use dicom_object::InMemDicomObject;
use dicom_transfer_syntax_registry::entries::EXPLICIT_VR_LITTLE_ENDIAN;
use serde_json::json;
use std::collections::{BTreeSet, HashSet};
use std::io::Write;
use vhc::*;

/// Candidate defined terms, in an order that makes the discovered sets come out in the order of
/// `Model/Text.v` `all_charsets`. Everything after the first 16 is an alias, a term of the standard that
/// dicom-rs does not support, or a near miss.
pub const CANDIDATES: &[&str] = &[
    "ISO_IR 6", "ISO_IR 13", "ISO_IR 87", "ISO_IR 100", "ISO_IR 101", "ISO_IR 109", "ISO_IR 110", "ISO_IR 126",
    "ISO_IR 127", "ISO_IR 138", "ISO_IR 144", "ISO_IR 149", "ISO_IR 166", "ISO_IR 192", "GB18030", "GBK",
    // aliases accepted by from_code
    "Default", "ISO_IR_6", "ISO 2022 IR 6", "ISO_IR_13", "ISO 2022 IR 13", "ISO_IR_87", "ISO 2022 IR 87",
    "ISO_IR_100", "ISO 2022 IR 100", "ISO_IR_101", "ISO 2022 IR 101", "ISO_IR_109", "ISO 2022 IR 109",
    "ISO_IR_110", "ISO 2022 IR 110", "ISO_IR_126", "ISO 2022 IR 126", "ISO_IR_127", "ISO 2022 IR 127",
    "ISO_IR_138", "ISO 2022 IR 138", "ISO_IR_144", "ISO 2022 IR 144", "ISO_IR_149", "ISO 2022 IR 149",
    "ISO_IR_166", "ISO 2022 IR 166", "ISO_IR_192", "GB2312", "ISO 2022 IR 58",
    // terms of PS3.3 C.12.1.1.2 that are not supported, and near misses
    "ISO_IR 148", "ISO 2022 IR 148", "ISO_IR 203", "ISO 2022 IR 203", "ISO 2022 IR 159", "ISO_IR 159", "ISO_IR 58",
    "ISO 2022 IR 192", "ISO 2022 GBK", "ISO 2022 B18030", "ISO_IR_58", "GB_18030", "gbk", "iso_ir 100", "ISO_IR100",
    "ISO IR 100", "ISO_IR  100", "", " ", "ISO_IR 1", "ISO_IR 19", "ISO_IR 1000", "UTF-8", "default", "ISO_IR 6 ",
    " ISO_IR 6", "ISO_IR 100\u{0}", "ISO_IR 100\t", "ISO_IR 100\u{a0}", "ISO_IR 100\u{3000} ", "ISO_IR 100\\ISO_IR 101",
];

pub const MULTI: &[&str] = &["ISO_IR 13", "ISO_IR 87", "ISO_IR 149", "GB18030", "GBK"];

/// distinct sets reachable through the candidate terms, in order of first appearance
pub fn discover() -> Vec<SpecificCharacterSet> {
    let mut out: Vec<SpecificCharacterSet> = vec![];
    for t in CANDIDATES {
        if let Some(cs) = SpecificCharacterSet::from_code(t) {
            if !out.iter().any(|o| *o == cs) { out.push(cs); }
        }
    }
    out
}

fn index_of(sets: &[SpecificCharacterSet], cs: &SpecificCharacterSet) -> usize { sets.iter().position(|o| o == cs).unwrap() }

fn chars_of(s: &str) -> Vec<u32> { s.chars().map(|c| c as u32).collect() }
fn c_u32s(v: &[u32]) -> String { c_list(v.iter().map(|x| x.to_string())) }

// ------------------------------------------------------------------ tables
/// every scalar value the set encodes, with the bytes (complete sweep of 0..0x110000)
fn sweep_encode(cs: &SpecificCharacterSet) -> Vec<(u32, Vec<u8>)> {
    let mut v = vec![];
    let mut buf = [0u8; 4];
    for u in 0..0x11_0000u32 {
        if let Some(c) = char::from_u32(u) {
            if let Ok(b) = cs.encode(c.encode_utf8(&mut buf)) { v.push((u, b)); }
        }
    }
    v
}

fn fnv(bytes: &[u8]) -> u64 { let mut h: u64 = 0xcbf29ce484222325; for b in bytes { h ^= *b as u64; h = h.wrapping_mul(0x100000001b3); } h }

/// What the complete sweep of a set found: how many scalar values encode accepts, whether every one of them
/// encodes to one byte, and (then) the scalar -> byte pairs.
#[derive(Clone)]
struct Sweep { count: usize, single: bool, enc: Vec<(u32, u8)> }

fn sweep_set(cs: &SpecificCharacterSet) -> Sweep {
    let sw = sweep_encode(cs);
    let single = sw.iter().all(|(_, b)| b.len() == 1);
    Sweep { count: sw.len(), single, enc: if single { sw.iter().map(|(u, b)| (*u, b[0])).collect() } else { vec![] } }
}

/// Complete sweeps of all scalar values, one thread per set. Every refused character costs a captured
/// backtrace inside dicom-rs (about 2 us, serialised by a lock), i.e. ~25 s for the single-byte sets, so in the
/// quick tier the result is cached under .cache/gen-cache keyed by the content of THIS executable (which links
/// /repo's working tree and the `encoding` crate): a changed implementation is a changed key. The thorough tier
/// (VERIF_TIER=thorough) or VH_NO_GEN_CACHE=1 always sweeps again.
fn sweeps_cached(sets: &[SpecificCharacterSet], out: &str) -> Vec<Sweep> {
    let use_cache = std::env::var("VERIF_TIER").map(|t| t != "thorough").unwrap_or(true) && std::env::var("VH_NO_GEN_CACHE").is_err();
    let key = std::env::current_exe().ok().and_then(|p| std::fs::read(p).ok()).map(|b| fnv(&b));
    let dir = std::path::Path::new(out).parent().and_then(|p| p.parent()).map(|p| p.join("gen-cache")).unwrap_or_else(std::env::temp_dir);
    let file = key.map(|k| dir.join(format!("C10-sweep-{:016x}.txt", k)));
    if let (true, Some(f)) = (use_cache, &file) {
        if let Ok(txt) = std::fs::read_to_string(f) {
            let mut v: Vec<Sweep> = vec![Sweep { count: 0, single: false, enc: vec![] }; sets.len()];
            let mut ok = true; let mut ended = false;
            for l in txt.lines() {
                let p: Vec<&str> = l.split(' ').collect();
                match p.as_slice() {
                    ["set", i, count, single] => match (i.parse::<usize>(), count.parse::<usize>()) {
                        (Ok(i), Ok(c)) if i < sets.len() => { v[i].count = c; v[i].single = *single == "1"; }
                        _ => ok = false,
                    },
                    ["e", i, u, b] => match (i.parse::<usize>(), u.parse::<u32>(), b.parse::<u8>()) {
                        (Ok(i), Ok(u), Ok(b)) if i < sets.len() => v[i].enc.push((u, b)),
                        _ => ok = false,
                    },
                    ["end", n] => { ended = n.parse::<usize>().ok() == Some(sets.len()); }
                    _ => ok = false,
                }
            }
            if ok && ended && v.iter().all(|s| !s.single || s.enc.len() == s.count) { return v; }
        }
    }
    let sweeps: Vec<Sweep> = std::thread::scope(|s| {
        let hs: Vec<_> = sets.iter().map(|cs| s.spawn(move || sweep_set(cs))).collect();
        hs.into_iter().map(|h| h.join().unwrap()).collect()
    });
    if let Some(f) = &file {
        let mut txt = String::new();
        for (i, sw) in sweeps.iter().enumerate() {
            txt.push_str(&format!("set {} {} {}\n", i, sw.count, if sw.single { 1 } else { 0 }));
            for (u, b) in &sw.enc { txt.push_str(&format!("e {} {} {}\n", i, u, b)); }
        }
        txt.push_str(&format!("end {}\n", sets.len()));
        let _ = std::fs::create_dir_all(&dir);
        // drop older entries, keep the directory small
        if let Ok(rd) = std::fs::read_dir(&dir) { for e in rd.flatten() { if e.file_name().to_string_lossy().starts_with("C10-sweep-") { let _ = std::fs::remove_file(e.path()); } } }
        let tmp = dir.join(format!(".C10-sweep-{}.tmp", std::process::id()));
        if std::fs::write(&tmp, txt).is_ok() { let _ = std::fs::rename(&tmp, f); }
    }
    sweeps
}

pub fn tables(out: &str) -> bool {
    let sets = discover();
    let names: Vec<String> = sets.iter().map(|c| c.name().to_string()).collect();
    let sweeps = sweeps_cached(&sets, out);
    let mut f = String::new();
    f.push_str("(* GENERATED by `vh_text C10 tables` from the behaviour of dicom-encoding's SpecificCharacterSet; do not edit. *)\n");
    f.push_str("From DicomV Require Import Base.Prelude.\nOpen Scope N_scope.\n\n");
    f.push_str("(* name() of every distinct set reachable through from_code on the candidate terms, in order of discovery *)\n");
    f.push_str(&format!("Definition gen_names : list (list N) := {}.\n\n", c_list(names.iter().map(|n| c_str(n)))));
    f.push_str("(* from_code on every candidate term: index into gen_names, or None *)\n");
    let rows: Vec<String> = CANDIDATES.iter().map(|t| {
        let r = SpecificCharacterSet::from_code(t).map(|cs| index_of(&sets, &cs).to_string());
        format!("({}, {})", c_str(t), c_opt(r))
    }).collect();
    f.push_str(&format!("Definition gen_terms : list (list N * option N) := [\n  {}\n].\n\n", rows.join(";\n  ")));
    // single-byte sets: every encodable scalar encodes to exactly one byte
    let mut sb = vec![];
    let mut summary = vec![];
    for (i, cs) in sets.iter().enumerate() {
        let sw = &sweeps[i];
        summary.push(format!("({}, {}, {})", i, sw.count, c_bool(sw.single)));
        if !sw.single { continue; }
        let dec: Vec<String> = (0..=255u8).map(|b| match catch(|| cs.decode(&[b])) {
            Some(Ok(s)) => c_u32s(&chars_of(&s)),
            _ => "[1114112]".to_string(), // impossible scalar: decoding one byte failed or panicked
        }).collect();
        f.push_str(&format!("(* {}: decode of each of the 256 single bytes *)\nDefinition gen_dec_{} : list (list N) := [\n  {}\n].\n",
            names[i], i, dec.chunks(16).map(|c| c.join(";")).collect::<Vec<_>>().join(";\n  ")));
        // a single-byte set accepts at most 256 scalars; if the sweep found more (e.g. a replacing encoder), the table is
        // cut at 512 rows and the count in gen_summary makes the Coq completeness lemma fail
        let enc: Vec<String> = sw.enc.iter().take(512).map(|(u, b)| format!("({},{})", u, b)).collect();
        f.push_str(&format!("(* {}: every scalar value in 0..0x10FFFF that encode accepts, with its byte *)\nDefinition gen_enc_{} : list (N * N) := [\n  {}\n].\n\n",
            names[i], i, enc.chunks(12).map(|c| c.join(";")).collect::<Vec<_>>().join(";\n  ")));
        sb.push(format!("({}, (gen_dec_{}, gen_enc_{}))", i, i, i));
    }
    f.push_str(&format!("Definition gen_sb : list (N * (list (list N) * list (N * N))) := [\n  {}\n].\n\n", sb.join(";\n  ")));
    f.push_str("(* per set: index, number of scalar values encode accepts (complete sweep), all of them single-byte *)\n");
    f.push_str(&format!("Definition gen_summary : list (N * N * bool) := [{}].\n", summary.join("; ")));
    // digest = simple FNV over the content
    let h = fnv(f.as_bytes());
    f.push_str(&format!("Definition gen_digest : N := {}.\n", h));
    std::fs::create_dir_all(out).unwrap();
    let mut w = std::fs::File::create(format!("{out}/GenCharsets.v")).unwrap();
    w.write_all(f.as_bytes()).unwrap();
    true
}


// ------------------------------------------------------------------ set information for the generators and oracles
pub struct SetInfo {
    pub idx: usize,
    pub name: String,
    pub cs: SpecificCharacterSet,
    pub multi: bool,
    /// every scalar value is representable (UTF-8, GB18030 apart from its quirk)
    pub any_scalar: bool,
    /// non-ASCII part of the repertoire, derived from the DECODER (bytes -> char) and kept when the char
    /// encodes and decodes back to itself
    pub rep: Vec<char>,
    pub repset: HashSet<char>,
}

fn one_char(s: &str) -> Option<char> { let mut it = s.chars(); let c = it.next()?; if it.next().is_none() { Some(c) } else { None } }

fn rt_char(cs: &SpecificCharacterSet, c: char) -> bool {
    let s = c.to_string();
    match cs.encode(&s) { Ok(b) => matches!(catch(|| cs.decode(&b)), Some(Ok(d)) if d == s), Err(_) => false }
}

pub fn set_infos() -> Vec<SetInfo> {
    discover().into_iter().enumerate().map(|(idx, cs)| {
        let name = cs.name().to_string();
        let multi = MULTI.contains(&name.as_str());
        let any_scalar = name == "ISO_IR 192" || name == "GB18030";
        let mut cand: Vec<Vec<u8>> = (0u8..=255).map(|b| vec![b]).collect();
        match name.as_str() {
            "ISO_IR 13" => for l in (0x81u8..=0x9f).chain(0xe0..=0xfc) { for t in 0x40u8..=0xfc { cand.push(vec![l, t]); } },
            "ISO_IR 149" | "GBK" => for l in 0x81u8..=0xfe { for t in 0x40u8..=0xfe { cand.push(vec![l, t]); } },
            "ISO_IR 87" => {
                for a in 0x21u8..=0x7e { for b in 0x21u8..=0x7e { cand.push(vec![0x1b, b'$', b'B', a, b]); } }
                for a in 0x21u8..=0x5f { cand.push(vec![0x1b, b'(', b'I', a]); }
            }
            _ => {}
        }
        let mut repset = HashSet::new();
        if !any_scalar {
            for b in cand {
                if let Some(Ok(s)) = catch(|| cs.decode(&b)) {
                    if let Some(c) = one_char(&s) { if !repset.contains(&c) && rt_char(&cs, c) { repset.insert(c); } }
                }
            }
        }
        let mut rep: Vec<char> = repset.iter().cloned().filter(|c| (*c as u32) >= 0x80).collect();
        rep.sort();
        SetInfo { idx, name, cs, multi, any_scalar, rep, repset }
    }).collect()
}

impl SetInfo {
    pub fn in_rep(&self, c: char) -> bool {
        if self.any_scalar { !(self.name == "GB18030" && c == '\u{e5e5}') } else { self.repset.contains(&c) }
    }
    /// a character of the repertoire
    fn rep_char(&self, r: &mut Rng) -> char {
        loop {
            let c = if self.any_scalar {
                if r.chance(1, 4) { char::from_u32(*r.pick(UTF8_BOUNDS)).unwrap() } else { rand_unicode_char(r) }
            } else if self.rep.is_empty() || r.chance(2, 5) { r.range(0x20, 0x7e) as u8 as char }
            else { *r.pick(&self.rep) };
            if c != '\\' && self.in_rep(c) { return c; }
        }
    }
    /// a character outside the repertoire (None when there is none)
    fn outside_char(&self, r: &mut Rng) -> Option<char> {
        if self.any_scalar { return if self.name == "GB18030" { Some('\u{e5e5}') } else { None }; }
        for _ in 0..100 {
            let c = match r.below(6) {
                0 => *r.pick(&['\u{a5}', '\u{203e}', '\u{20ac}', '\u{100}', '\u{ff}', '\u{80}', '\u{a0}', '\u{3042}', '\u{ac00}', '\u{4e00}', '\u{ff71}', '\u{1f600}', '\u{e5e5}', '\u{fffd}', '\u{ffff}', '\u{10000}', '\u{2212}', '\u{ff0d}', '\u{e9}', '\u{416}', '\u{3a9}', '\u{5d0}', '\u{627}', '\u{e01}']),
                1 => char::from_u32(r.range(0x80, 0xff) as u32).unwrap(),
                _ => rand_unicode_char(r),
            };
            if !self.in_rep(c) { return Some(c); }
        }
        None
    }
    fn rep_text(&self, r: &mut Rng, max: u64) -> String { let n = r.below(max + 1); (0..n).map(|_| self.rep_char(r)).collect() }
}

const UTF8_BOUNDS: &[u32] = &[0, 0x7f, 0x80, 0x7ff, 0x800, 0xfff, 0x1000, 0xcfff, 0xd000, 0xd7ff, 0xe000, 0xfffd, 0xffff, 0x10000, 0x3ffff, 0x40000, 0xfffff, 0x100000, 0x10ffff];
const UTF8_BYTES: &[u8] = &[0x00, 0x20, 0x41, 0x5c, 0x7f, 0x80, 0x8f, 0x90, 0x9f, 0xa0, 0xbf, 0xc0, 0xc1, 0xc2, 0xdf, 0xe0, 0xe1, 0xec, 0xed, 0xee, 0xef, 0xf0, 0xf1, 0xf3, 0xf4, 0xf5, 0xff];

fn codec_class(si: &SetInfo, s: &str) -> &'static str {
    let jis = si.name == "ISO_IR 13" || si.name == "ISO_IR 87";
    if jis && s.chars().any(|c| c == '\u{a5}' || c == '\u{203e}') { "JisYenOverline" }
    else if si.name == "ISO_IR 87" && s.chars().any(|c| c == '\u{1b}' || c == '\u{e}' || c == '\u{f}') { "Iso2022JpControl" }
    else if si.name == "GB18030" && s.contains('\u{e5e5}') { "Gb18030E5E5" }
    else { "CodecRoundTrip" }
}

/// The property evaluated directly on the codec: encode either fails (and then some character is outside the
/// repertoire) or the bytes decode back to exactly the input.
fn codec_oracle(si: &SetInfo, s: &str) -> (Option<Result<Vec<u8>, ()>>, Oracle) {
    let enc = catch(|| si.cs.encode(s).map_err(|_| ()));
    let o = match &enc {
        None => Oracle::Fails { class: "EncodePanic".into(), detail: format!("{} {:?}", si.name, s) },
        Some(Ok(b)) => match catch(|| si.cs.decode(b)) {
            Some(Ok(d)) if d == s => Oracle::Holds,
            Some(Ok(d)) => Oracle::Fails { class: codec_class(si, s).into(), detail: format!("{}: {:?} -> {} -> {:?}", si.name, s, hex(b), d) },
            Some(Err(_)) => Oracle::Fails { class: codec_class(si, s).into(), detail: format!("{}: {:?} -> {} -> decode error", si.name, s, hex(b)) },
            None => Oracle::Fails { class: "DecodePanic".into(), detail: format!("{}: {:?} -> {}", si.name, s, hex(b)) },
        },
        Some(Err(())) => if s.chars().all(|c| si.in_rep(c)) {
            Oracle::Fails { class: "RepresentableRefused".into(), detail: format!("{}: {:?}", si.name, s) }
        } else { Oracle::Holds },
    };
    (enc, o)
}

fn c_out_bytes(r: &Option<Result<Vec<u8>, ()>>) -> String {
    match r { None => c_panic(), Some(Ok(b)) => c_ok(&c_bytes(b)), Some(Err(())) => c_err(1) }
}

fn enc_case(si: &SetInfo, s: &str, bucket: &str) -> Case {
    let (enc, oracle) = codec_oracle(si, s);
    let coq = if si.multi { String::new() } else { format!("(CEnc {} {} {})", si.idx, c_str(s), c_out_bytes(&enc)) };
    Case { coq, desc: json!({"bucket": bucket, "set": si.name, "text": s, "encoded": match &enc { None => "PANIC".to_string(), Some(Ok(b)) => hex(b), Some(Err(())) => "Err".to_string() }}),
           key: if s.is_empty() { String::new() } else { format!("E{}|{}", si.idx, s) }, oracle }
}

fn dec_case(si: &SetInfo, b: &[u8], bucket: &str) -> Case {
    let dec = catch(|| si.cs.decode(b).map_err(|_| ()));
    let coq = if si.multi { String::new() } else {
        format!("(CDec {} {} {})", si.idx, c_bytes(b), match &dec { None => c_panic(), Some(Ok(s)) => c_ok(&c_str(s)), Some(Err(())) => c_err(2) })
    };
    // decoding arbitrary bytes is outside the property; a panic is still reported
    let oracle = if dec.is_none() { Oracle::Fails { class: "DecodePanic".into(), detail: format!("{} {}", si.name, hex(b)) } } else { Oracle::NotApplicable };
    Case { coq, desc: json!({"bucket": bucket, "set": si.name, "bytes": hex(b), "decoded": match &dec { None => "PANIC".to_string(), Some(Ok(s)) => s.clone(), Some(Err(())) => "Err".to_string() }}),
           key: if b.is_empty() { String::new() } else { format!("D{}|{}", si.idx, hex(b)) }, oracle }
}

fn term_case(sets: &[SetInfo], t: &str, bucket: &str) -> Case {
    let r = SpecificCharacterSet::from_code(t);
    let idx = r.as_ref().map(|cs| sets.iter().position(|s| s.cs == *cs).unwrap());
    // the property half "the defined term maps back": name() of the result must itself map to the same set
    let oracle = match &r {
        Some(cs) => if SpecificCharacterSet::from_code(&cs.name()).as_ref() == Some(cs) { Oracle::Holds }
                    else { Oracle::Fails { class: "TermNotMappedBack".into(), detail: format!("{:?} -> {}", t, cs.name()) } },
        None => Oracle::NotApplicable,
    };
    Case { coq: format!("(CCode {} {})", c_str(t), c_opt(idx.map(|i| i.to_string()))),
           desc: json!({"bucket": bucket, "term": t, "set": r.map(|c| c.name().to_string())}), key: format!("T|{}", t), oracle }
}

fn random_bytes(r: &mut Rng, si: &SetInfo) -> Vec<u8> {
    let n = r.below(10);
    if si.name == "ISO_IR 192" {
        // structured: valid sequences, truncated/overlong/surrogate forms and boundary bytes
        let mut v = vec![];
        for _ in 0..n {
            match r.below(5) {
                0 => { let c = char::from_u32(*r.pick(UTF8_BOUNDS)).unwrap(); let mut b = [0u8; 4]; v.extend_from_slice(c.encode_utf8(&mut b).as_bytes()); }
                1 => { let c = rand_unicode_char(r); let mut b = [0u8; 4]; let e = c.encode_utf8(&mut b).as_bytes().to_vec(); let k = r.range(1, e.len() as u64) as usize; v.extend_from_slice(&e[..k]); }
                2 => v.push(*r.pick(UTF8_BYTES)),
                3 => { v.push(*r.pick(&[0xe0u8, 0xed, 0xf0, 0xf4, 0xc2, 0xe1, 0xf1])); v.push(*r.pick(&[0x7fu8, 0x80, 0x8f, 0x90, 0x9f, 0xa0, 0xbf, 0xc0])); if r.coin() { v.push(*r.pick(&[0x80u8, 0xbf, 0x41, 0xc2])); } }
                _ => v.push(r.below(256) as u8),
            }
        }
        v
    } else {
        (0..n).map(|_| if r.chance(1, 3) { r.range(0x80, 0xff) as u8 } else if r.chance(1, 8) { *r.pick(&[0u8, 0x1b, 0x5c, 0x7f, 0x0e, 0x0f]) } else { r.below(256) as u8 }).collect()
    }
}

// ------------------------------------------------------------------ data-set level
const TEXT_VRS: [VR; 17] = [VR::AE, VR::AS, VR::CS, VR::DA, VR::DS, VR::DT, VR::IS, VR::LO, VR::LT, VR::PN, VR::SH, VR::ST, VR::TM, VR::UC, VR::UI, VR::UR, VR::UT];
fn vr_idx(vr: VR) -> Option<usize> { TEXT_VRS.iter().position(|v| *v == vr) }
fn enc_default_vr(vr: VR) -> bool { matches!(vr, VR::AE | VR::AS | VR::CS | VR::DA | VR::DS | VR::DT | VR::IS | VR::TM | VR::UI) }
fn single_vr(vr: VR) -> bool { matches!(vr, VR::UT | VR::ST | VR::UR | VR::LT) }
const SCS: Tag = Tag(0x0008, 0x0005);

#[derive(Clone, Debug, PartialEq)]
pub enum Val { Empty, Str(String), Strs(Vec<String>) }
impl Val {
    fn texts(&self) -> Vec<&str> { match self { Val::Empty => vec![], Val::Str(s) => vec![s.as_str()], Val::Strs(v) => v.iter().map(|s| s.as_str()).collect() } }
    fn flat(&self) -> String { match self { Val::Empty => String::new(), Val::Str(s) => s.clone(), Val::Strs(v) => v.join("\\") } }
    fn coq(&self) -> String { match self { Val::Empty => "VEmpty".into(), Val::Str(s) => format!("(VStr {})", c_str(s)), Val::Strs(v) => format!("(VStrs {})", c_list(v.iter().map(|s| c_str(s)))) } }
    fn json(&self) -> serde_json::Value { match self { Val::Empty => json!(null), Val::Str(s) => json!({"str": s}), Val::Strs(v) => json!({"strs": v}) } }
    fn prim(&self) -> PrimitiveValue { match self { Val::Empty => PrimitiveValue::Empty, Val::Str(s) => PrimitiveValue::Str(s.clone()), Val::Strs(v) => PrimitiveValue::Strs(v.iter().cloned().collect()) } }
}

#[derive(Clone, Debug)]
pub enum Node { Text { tag: Tag, vr: VR, val: Val }, Seq { tag: Tag, items: Vec<Vec<Node>> } }

fn node_tag(n: &Node) -> Tag { match n { Node::Text { tag, .. } | Node::Seq { tag, .. } => *tag } }
/// stream order: elements of a data set are written in tag order
fn flatten(nodes: &[Node], out: &mut Vec<(Tag, VR, Val)>) {
    let mut sorted: Vec<&Node> = nodes.iter().collect();
    sorted.sort_by_key(|n| node_tag(n));
    for n in sorted { match n {
        Node::Text { tag, vr, val } => out.push((*tag, *vr, val.clone())),
        Node::Seq { items, .. } => for it in items { flatten(it, out) },
    } }
}

fn build(nodes: &[Node]) -> InMemDicomObject {
    let mut o = InMemDicomObject::new_empty();
    for n in nodes { match n {
        Node::Text { tag, vr, val } => { o.put(DataElement::new(*tag, *vr, val.prim())); }
        Node::Seq { tag, items } => { let its: Vec<InMemDicomObject> = items.iter().map(|i| build(i)).collect();
            o.put(DataElement::new(*tag, VR::SQ, Value::from(dicom_core::value::DataSetSequence::from(its)))); }
    } }
    o
}

fn read_flat(o: &InMemDicomObject, out: &mut Vec<(Tag, VR, Val)>) {
    for e in o.iter() {
        match e.value() {
            Value::Primitive(p) => { let v = match p { PrimitiveValue::Empty => Val::Empty, PrimitiveValue::Str(s) => Val::Str(s.clone()),
                    PrimitiveValue::Strs(v) => Val::Strs(v.iter().cloned().collect()), other => Val::Str(format!("<{:?}>", other.value_type())) };
                out.push((e.header().tag, e.header().vr, v)); }
            Value::Sequence(s) => for it in s.items() { read_flat(it, out) },
            Value::PixelSequence(_) => {}
        }
    }
}

/// walk an Explicit VR Little Endian stream, descending into sequences and items: (tag, vr, value bytes) of every primitive element
fn walk_ele(b: &[u8]) -> Option<Vec<(Tag, [u8; 2], Vec<u8>)>> {
    let mut out = vec![]; let mut i = 0usize;
    while i < b.len() {
        if i + 8 > b.len() { return None; }
        let g = u16::from_le_bytes([b[i], b[i + 1]]); let e = u16::from_le_bytes([b[i + 2], b[i + 3]]);
        if g == 0xfffe { i += 8; continue; }
        let vr = [b[i + 4], b[i + 5]];
        if &vr == b"SQ" { i += 12; continue; }
        let long = matches!(&vr, b"OB" | b"OD" | b"OF" | b"OL" | b"OV" | b"OW" | b"UC" | b"UR" | b"UT" | b"UN" | b"SV" | b"UV");
        let (len, hdr) = if long { if i + 12 > b.len() { return None; } (u32::from_le_bytes([b[i + 8], b[i + 9], b[i + 10], b[i + 11]]) as usize, 12) }
                         else { (u16::from_le_bytes([b[i + 6], b[i + 7]]) as usize, 8) };
        if i + hdr + len > b.len() { return None; }
        out.push((Tag(g, e), vr, b[i + hdr..i + hdr + len].to_vec()));
        i += hdr + len;
    }
    Some(out)
}

fn ele_element(tag: Tag, vr: VR, val: &[u8], out: &mut Vec<u8>) {
    out.extend_from_slice(&tag.0.to_le_bytes()); out.extend_from_slice(&tag.1.to_le_bytes());
    out.extend_from_slice(vr.to_string().as_bytes());
    if matches!(vr, VR::UC | VR::UR | VR::UT) { out.extend_from_slice(&[0, 0]); out.extend_from_slice(&(val.len() as u32).to_le_bytes()); }
    else { out.extend_from_slice(&(val.len() as u16).to_le_bytes()); }
    out.extend_from_slice(val);
}

const TAG_POOL: &[Tag] = &[Tag(0x0008, 0x0001), Tag(0x0008, 0x0003), SCS, Tag(0x0008, 0x0006), Tag(0x0008, 0x0070), Tag(0x0008, 0x1030),
    Tag(0x0009, 0x0010), Tag(0x0010, 0x0010), Tag(0x0010, 0x0020), Tag(0x0010, 0x4000), Tag(0x0020, 0x000d), Tag(0x0032, 0x1060), Tag(0x4008, 0x010b)];
const SEQ_TAGS: &[Tag] = &[Tag(0x0008, 0x1115), Tag(0x0040, 0x0275)];

struct Gen<'a> { sets: &'a [SetInfo], r: Rng, cur: usize, applicable: bool, valid: bool }

impl<'a> Gen<'a> {
    fn text(&mut self, vr: VR) -> String {
        let r = &mut self.r;
        let dflt = enc_default_vr(vr);
        let si = if dflt { &self.sets[0] } else { &self.sets[self.cur] };
        let n = r.below(7);
        let mut s = String::new();
        let mode = r.below(20);
        for _ in 0..n {
            let c = if matches!(vr, VR::DA | VR::DS | VR::DT | VR::IS | VR::TM | VR::UI) {
                if mode < 5 { si.rep_char(r) } else { *r.pick(&['0', '1', '2', '9', '.', '-', '+', ' ', 'A', 'z', '_']) }
            } else if dflt {
                if mode < 14 { r.range(0x20, 0x7e) as u8 as char } else { si.rep_char(r) }
            } else { si.rep_char(r) };
            s.push(if c == '\\' { '/' } else { c });
        }
        if mode == 1 && !s.is_empty() {
            // a character the set in force cannot represent: the write must fail
            if let Some(c) = si.outside_char(r) { let k = r.below(s.chars().count() as u64 + 1) as usize; let mut v: Vec<char> = s.chars().collect(); v.insert(k, c); s = v.into_iter().collect(); self.valid = false; }
        }
        if mode == 2 && !single_vr(vr) { s.push('\\'); s.push('x'); self.applicable = false; } // embedded delimiter inside one value
        s
    }
    fn value(&mut self, vr: VR) -> Val {
        match self.r.below(20) {
            0 => Val::Empty,
            1..=8 => Val::Str(self.text(vr)),
            _ => { if single_vr(vr) { Val::Str(self.text(vr)) } else { let k = *self.r.pick(&[0u64, 1, 1, 1, 2, 2, 3]); Val::Strs((0..k).map(|_| self.text(vr)).collect()) } }
        }
    }
    fn scs(&mut self) -> (VR, Val) {
        let r = &mut self.r;
        let vr = if r.chance(1, 12) { self.applicable = false; *r.pick(&[VR::LO, VR::SH, VR::UT, VR::UI]) } else { VR::CS };
        let term = |r: &mut Rng| -> String { if r.chance(6, 7) { CANDIDATES[r.below(46) as usize].to_string() } else { r.pick(CANDIDATES).to_string() } };
        let mut t = term(r);
        if r.chance(1, 6) { t.push(' '); }
        let val = match r.below(10) {
            0 => Val::Strs(vec![t.clone(), term(r)]),
            1 => { let t2 = term(r); Val::Str(format!("{}\\{}", t, t2)) }
            2 => Val::Strs(vec![String::new(), t.clone()]),
            3 => Val::Empty,
            4 | 5 => Val::Str(t.clone()),
            _ => Val::Strs(vec![t.clone()]),
        };
        // a backslash inside ONE value of a multi-valued element is outside the property's hypotheses (it is a delimiter on the wire)
        if let Val::Strs(v) = &val { if v.iter().any(|t| t.contains('\\')) { self.applicable = false; } }
        // the value itself is text of a default-repertoire VR: a candidate term with a character outside it must be refused
        if !val.texts().iter().all(|t| t.chars().all(|c| self.sets[0].in_rep(c))) { self.valid = false; }
        // the set in force afterwards, by the property's reading: the first value of the element names it
        let first: Option<String> = match &val { Val::Empty => None, Val::Str(s) => s.split('\\').next().map(|x| x.to_string()), Val::Strs(v) => v.first().cloned() };
        if let Some(cs) = first.and_then(|f| SpecificCharacterSet::from_code(&f)) { self.cur = self.sets.iter().position(|s| s.cs == cs).unwrap(); }
        (vr, val)
    }
    fn dataset(&mut self, depth: u32) -> Vec<Node> {
        let mut tags: BTreeSet<Tag> = BTreeSet::new();
        let n = self.r.range(1, 5);
        for _ in 0..n { tags.insert(*self.r.pick(TAG_POOL)); }
        if self.r.chance(2, 3) { tags.insert(SCS); }
        if depth < 2 && self.r.chance(1, 4) { tags.insert(*self.r.pick(SEQ_TAGS)); }
        let mut out = vec![];
        for tag in tags {
            if SEQ_TAGS.contains(&tag) {
                let k = self.r.range(0, 2);
                let items = (0..k).map(|_| self.dataset(depth + 1)).collect();
                out.push(Node::Seq { tag, items });
            } else if tag == SCS { let (vr, val) = self.scs(); out.push(Node::Text { tag, vr, val }); }
            else { let vr = *self.r.pick(&TEXT_VRS); let val = self.value(vr); out.push(Node::Text { tag, vr, val }); }
        }
        out
    }
}

fn split5c(b: &[u8]) -> Vec<Vec<u8>> { b.split(|x| *x == 0x5c).map(|s| s.to_vec()).collect() }

/// sets that can come into force in this stream: the initial one and whatever any value of a (0008,0005) element names
fn sets_in_play(sets: &[SetInfo], cs0: usize, texts: &[String]) -> Vec<usize> {
    let mut v = vec![cs0];
    for t in texts { for p in std::iter::once(t.as_str()).chain(t.split('\\')) {
        if let Some(cs) = SpecificCharacterSet::from_code(p) { let i = sets.iter().position(|s| s.cs == cs).unwrap(); if !v.contains(&i) { v.push(i); } } } }
    v
}

fn mb_enc_table(sets: &[SetInfo], play: &[usize], texts: &BTreeSet<String>) -> String {
    let mut rows = vec![];
    for &i in play { if sets[i].multi { for t in texts {
        let r = catch(|| sets[i].cs.encode(t).map_err(|_| ()));
        rows.push(format!("({}, {}, {})", i, c_str(t), c_out_bytes(&r)));
    } } }
    c_list(rows)
}
fn mb_dec_table(sets: &[SetInfo], play: &[usize], chunks: &BTreeSet<Vec<u8>>) -> String {
    let mut rows = vec![];
    for &i in play { if sets[i].multi { for b in chunks {
        let r = catch(|| sets[i].cs.decode(b).map_err(|_| ()));
        rows.push(format!("({}, {}, {})", i, c_bytes(b), match &r { None => c_panic(), Some(Ok(s)) => c_ok(&c_str(s)), Some(Err(())) => c_err(2) }));
    } } }
    c_list(rows)
}

fn pad_ok(vr: VR, orig: &str, back: &str) -> bool {
    if back == orig { return true; }
    let pad = if vr == VR::UI { '\0' } else { ' ' };
    back.len() == orig.len() + 1 && back.starts_with(orig) && back.ends_with(pad)
}

/// classify a data-set level failure by the input (known-finding classes first)
fn ds_class(sets: &[SetInfo], flat: &[(Tag, VR, Val)], cs0: usize) -> &'static str {
    let mut cur = cs0;
    let mut class = "DatasetRoundTrip";
    for (tag, vr, val) in flat {
        let si = &sets[if enc_default_vr(*vr) { 0 } else { cur }];
        for t in val.texts() {
            if si.multi {
                let c = codec_class(si, t);
                if c != "CodecRoundTrip" { return c; }
                if let Ok(b) = si.cs.encode(t) {
                    let text_bs = t.chars().filter(|c| *c == '\\').count();
                    let byte_bs = b.iter().filter(|x| **x == 0x5c).count();
                    if !single_vr(*vr) && byte_bs != text_bs { return "MultiByteBackslashByte"; }
                    if si.name == "ISO_IR 87" && b.len() % 2 == 1 { class = "Iso2022JpPadInKanjiState"; }
                }
            }
        }
        if si.name == "ISO_IR 87" {
            // the value as it goes on the wire: each text encoded on its own, joined by 0x5C; odd length and the last text left in a two-byte state
            let encs: Vec<Vec<u8>> = val.texts().iter().filter_map(|t| si.cs.encode(t).ok()).collect();
            let total: usize = encs.iter().map(|b| b.len()).sum::<usize>() + encs.len().saturating_sub(1);
            let two_byte_at_end = encs.last().map_or(false, |b| { let p2 = b.windows(2).rposition(|w| w == [0x1b, b'$']); let p1 = b.windows(2).rposition(|w| w == [0x1b, b'(']); p2.is_some() && p2 > p1 });
            if total % 2 == 1 && two_byte_at_end && class == "DatasetRoundTrip" { class = "Iso2022JpPadInKanjiState"; }
        }
        if *tag == SCS {
            let first = match val { Val::Empty => None, Val::Str(s) => s.split('\\').next().map(|x| x.to_string()), Val::Strs(v) => v.first().cloned() };
            if let Some(cs) = first.and_then(|f| SpecificCharacterSet::from_code(&f)) { cur = sets.iter().position(|s| s.cs == cs).unwrap(); }
        }
    }
    class
}

fn ds_write_case(sets: &[SetInfo], cs0: usize, nodes: &[Node], applicable: bool, valid: bool, bucket: &str) -> Case {
    let ts = EXPLICIT_VR_LITTLE_ENDIAN.erased();
    let mut flat = vec![]; flatten(nodes, &mut flat);
    let obj = build(nodes);
    let mut wire = vec![];
    let w = catch(|| obj.write_dataset_with_ts_cs(&mut wire, &ts, sets[cs0].cs.clone()).map_err(|e| format!("{:?}", e)));
    let (w_coq, elems): (String, Option<Vec<(Tag, [u8; 2], Vec<u8>)>>) = match &w {
        None => (c_panic(), None),
        Some(Err(e)) => (c_err(if e.contains("EncodeText") { 1 } else { 9 }), None),
        Some(Ok(())) => match walk_ele(&wire) {
            Some(el) if el.len() == flat.len() && el.iter().zip(&flat).all(|(a, b)| a.0 == b.0 && a.1 == *b.1.to_string().as_bytes()) =>
                (c_ok(&c_list(el.iter().map(|e| c_bytes(&e.2)))), Some(el)),
            _ => (c_err(8), None),
        },
    };
    // read back
    let rd = if elems.is_some() {
        Some(catch(|| InMemDicomObject::read_dataset_with_dict_ts_cs(&wire[..], dicom_dictionary_std::StandardDataDictionary, &ts, sets[cs0].cs.clone()).map_err(|e| format!("{:?}", e))))
    } else { None };
    let mut back = vec![];
    let r_coq = match &rd {
        None => "(Err 0)".to_string(),
        Some(None) => c_panic(),
        Some(Some(Err(e))) => c_err(if e.contains("DecodeText") { 2 } else { 9 }),
        Some(Some(Ok(o))) => { read_flat(o, &mut back); c_ok(&c_list(back.iter().map(|b| b.2.coq()))) }
    };
    // lookups for the multi-byte sets (abstract in the model)
    let scs_texts: Vec<String> = flat.iter().filter(|e| e.0 == SCS).flat_map(|e| e.2.texts().into_iter().map(|s| s.to_string()).collect::<Vec<_>>()).collect();
    let play = sets_in_play(sets, cs0, &scs_texts);
    let texts: BTreeSet<String> = flat.iter().flat_map(|e| e.2.texts().into_iter().map(|s| s.to_string()).collect::<Vec<_>>()).collect();
    let mut chunks: BTreeSet<Vec<u8>> = BTreeSet::new();
    if let Some(el) = &elems { for e in el { chunks.insert(e.2.clone()); for p in split5c(&e.2) { chunks.insert(p); } } }
    let coq = format!("(CDsW {} {} {} {} {} {})", cs0,
        c_list(flat.iter().map(|(t, vr, v)| format!("({}, {}, {})", (t.0 as u32) << 16 | t.1 as u32, vr_idx(*vr).unwrap(), v.coq()))),
        mb_enc_table(sets, &play, &texts), mb_dec_table(sets, &play, &chunks), w_coq, r_coq);
    // the property, directly
    let detail = || format!("cs0={} elems={:?} wire={} back={:?}", sets[cs0].name, flat, hex(&wire), back);
    let oracle = if !applicable { if w.is_none() || matches!(rd, Some(None)) { Oracle::Fails { class: "Panic".into(), detail: detail() } } else { Oracle::NotApplicable } }
    else { match (&w, &rd) {
        (None, _) | (_, Some(None)) => Oracle::Fails { class: "Panic".into(), detail: detail() },
        (Some(Err(e)), _) => if !valid && e.contains("EncodeText") { Oracle::Holds } else { Oracle::Fails { class: if valid { ds_class(sets, &flat, cs0).to_string() + "/WriteRefused" } else { "WriteError".into() }, detail: format!("{} {}", e, detail()) } },
        (Some(Ok(())), None) => Oracle::Fails { class: "StreamShape".into(), detail: detail() },
        (Some(Ok(())), Some(Some(Err(e)))) => Oracle::Fails { class: ds_class(sets, &flat, cs0).into(), detail: format!("{} {}", e, detail()) },
        (Some(Ok(())), Some(Some(Ok(_)))) => {
            // every element reads back as the text written, plus at most one padding character
            let same = back.len() == flat.len() && flat.iter().zip(&back).all(|(a, b)| a.0 == b.0 && a.1 == b.1 && pad_ok(a.1, &a.2.flat(), &b.2.flat())
                && match (&a.2, &b.2) { (_, Val::Empty) => a.2.flat().is_empty(), (_, Val::Str(_)) => single_vr(a.1), (_, Val::Strs(v)) => !single_vr(a.1) && v.len() == a.2.flat().split('\\').count() });
            if same { Oracle::Holds } else { Oracle::Fails { class: ds_class(sets, &flat, cs0).into(), detail: detail() } }
        }
    } };
    let nontrivial = flat.iter().any(|e| e.2.flat().chars().any(|c| c as u32 >= 0x80));
    Case { coq, desc: json!({"bucket": bucket, "cs0": sets[cs0].name, "elements": flat.iter().map(|(t, vr, v)| json!({"tag": format!("{}", t), "vr": vr.to_string(), "value": v.json()})).collect::<Vec<_>>(),
                             "wire": hex(&wire), "applicable": applicable, "valid": valid}),
           key: if nontrivial { format!("W{}|{:?}", cs0, flat) } else { String::new() }, oracle }
}

fn ds_read_case(sets: &[SetInfo], cs0: usize, anyvr: bool, elems: &[(Tag, VR, Vec<u8>)], bucket: &str) -> Case {
    use dicom_parser::dataset::read::{DataSetReader, DataSetReaderOptions};
    use dicom_parser::dataset::DataToken;
    use dicom_parser::stateful::decode::CharacterSetOverride;
    let ts = EXPLICIT_VR_LITTLE_ENDIAN.erased();
    let mut wire = vec![];
    for (t, vr, b) in elems { ele_element(*t, *vr, b, &mut wire); }
    let mut opts = DataSetReaderOptions::default();
    if anyvr { opts.charset_override = CharacterSetOverride::AnyVr; }
    let res = catch(|| -> Result<Vec<Val>, String> {
        let rd = DataSetReader::new_with_ts_cs_options(&wire[..], &ts, sets[cs0].cs.clone(), opts).map_err(|e| format!("{:?}", e))?;
        let mut out = vec![];
        for tok in rd { match tok.map_err(|e| format!("{:?}", e))? {
            DataToken::PrimitiveValue(p) => out.push(match p { PrimitiveValue::Empty => Val::Empty, PrimitiveValue::Str(s) => Val::Str(s), PrimitiveValue::Strs(v) => Val::Strs(v.into_iter().collect()), o => Val::Str(format!("<{:?}>", o.value_type())) }),
            _ => {}
        } }
        Ok(out)
    });
    let r_coq = match &res { None => c_panic(), Some(Err(e)) => c_err(if e.contains("DecodeText") { 2 } else { 9 }), Some(Ok(v)) => c_ok(&c_list(v.iter().map(|x| x.coq()))) };
    let scs_texts: Vec<String> = elems.iter().filter(|e| e.0 == SCS).flat_map(|e| { let d = sets[0].cs.decode(&e.2).unwrap_or_default(); d.split('\\').map(|s| s.to_string()).collect::<Vec<_>>() }).collect();
    let play = sets_in_play(sets, cs0, &scs_texts);
    let mut chunks: BTreeSet<Vec<u8>> = BTreeSet::new();
    for e in elems { chunks.insert(e.2.clone()); for p in split5c(&e.2) { chunks.insert(p); } }
    let coq = format!("(CDsR {} {} {} {} {})", cs0, c_bool(anyvr),
        c_list(elems.iter().map(|(t, vr, b)| format!("({}, {}, {})", (t.0 as u32) << 16 | t.1 as u32, vr_idx(*vr).unwrap(), c_bytes(b)))),
        mb_dec_table(sets, &play, &chunks), r_coq);
    let oracle = if res.is_none() { Oracle::Fails { class: "Panic".into(), detail: format!("cs0={} wire={}", sets[cs0].name, hex(&wire)) } } else { Oracle::NotApplicable };
    Case { coq, desc: json!({"bucket": bucket, "cs0": sets[cs0].name, "anyvr": anyvr, "wire": hex(&wire),
                             "read": match &res { None => json!("PANIC"), Some(Err(e)) => json!({"err": e}), Some(Ok(v)) => json!(v.iter().map(|x| x.json()).collect::<Vec<_>>()) }}),
           key: format!("R{}|{}|{}", cs0, anyvr, hex(&wire)), oracle }
}

fn text_node(tag: Tag, vr: VR, val: Val) -> Node { Node::Text { tag, vr, val } }
fn scs_node(term: &str) -> Node { text_node(SCS, VR::CS, Val::Strs(vec![term.to_string()])) }

pub fn cases(ctx: &Ctx) -> Vec<Case> {
    let sets = set_infos();
    let by = |n: &str| sets.iter().position(|s| s.name == n).unwrap();
    let mut r = Rng::new(ctx.seed);
    let mut out = vec![];
    // ---- fixed corpus: witnesses of the findings and boundary cases
    for (n, s) in [("ISO_IR 13", "\u{a5}"), ("ISO_IR 87", "\u{203e}"), ("ISO_IR 87", "a\u{1b}b"), ("GB18030", "\u{e5e5}"),
                   ("ISO_IR 6", "\u{e9}"), ("ISO_IR 6", "\u{100}"), ("ISO_IR 100", "Sim\u{f5}es^Jo\u{e3}o"), ("ISO_IR 100", "\u{20ac}"), ("ISO_IR 144", "\u{418}\u{432}\u{430}\u{43d}"),
                   ("ISO_IR 126", "\u{394}\u{3b9}\u{3bf}"), ("ISO_IR 127", "\u{642}\u{628}"), ("ISO_IR 138", "\u{5e9}\u{5e8}"), ("ISO_IR 166", "\u{e1b}\u{e23}"),
                   ("ISO_IR 109", "\u{126}"), ("ISO_IR 110", "\u{104}"), ("ISO_IR 101", "\u{141}"), ("ISO_IR 192", "\u{7ff}\u{800}\u{ffff}\u{10000}\u{10ffff}"),
                   ("ISO_IR 192", "\u{d7ff}\u{e000}"), ("ISO_IR 13", "\u{ff94}\u{ff8f}\u{ff80}\u{ff9e}"), ("ISO_IR 87", "\u{5c71}\u{7530}^\u{592a}\u{90ce}"),
                   ("ISO_IR 149", "\u{ae40}\u{d76c}\u{c911}"), ("GBK", "\u{738b}^\u{5c0f}\u{4e1c}"), ("GB18030", "\u{738b}\u{1f600}"), ("ISO_IR 127", "\u{a1}"), ("ISO_IR 166", "\u{a0}")] {
        out.push(enc_case(&sets[by(n)], s, "corpus-encode"));
    }
    for (n, b) in [("ISO_IR 192", &[0xc3u8, 0xa9][..]), ("ISO_IR 192", &[0xc3]), ("ISO_IR 192", &[0xe2, 0x82]), ("ISO_IR 192", &[0xe2, 0x82, 0x41]), ("ISO_IR 192", &[0xc0, 0x80]),
                   ("ISO_IR 192", &[0xed, 0xa0, 0x80]), ("ISO_IR 192", &[0xf4, 0x90, 0x80, 0x80]), ("ISO_IR 192", &[0xf0, 0x9f, 0x98]), ("ISO_IR 192", &[0x80]), ("ISO_IR 192", &[0xe0, 0x9f, 0x80]),
                   ("ISO_IR 192", &[0xf0, 0x90, 0xc2, 0xa9]), ("ISO_IR 127", &[0xa1, 0xc7]), ("ISO_IR 138", &[0xbf, 0xe0]), ("ISO_IR 166", &[0xdb, 0xa1]), ("ISO_IR 6", &[0x80, 0xff]), ("ISO_IR 109", &[0xa5])] {
        out.push(dec_case(&sets[by(n)], b, "corpus-decode"));
    }
    for t in CANDIDATES { out.push(term_case(&sets, t, "corpus-term")); }
    // the codec facts the refutation theorems take as premises (Model/Text.v mb_enc_facts / mb_dec_facts)
    for (n, s) in [("ISO_IR 13", "\u{30bd}"), ("ISO_IR 87", "\u{5c71}")] {
        let si = &sets[by(n)];
        let (enc, oracle) = codec_oracle(si, s);
        out.push(Case { coq: format!("(CMbEnc {} {} {})", si.idx, c_str(s), c_out_bytes(&enc)), desc: json!({"bucket": "corpus-fact", "set": n, "text": s}), key: format!("F{}|{}", si.idx, s), oracle });
    }
    {
        let si = &sets[by("ISO_IR 87")];
        let b = [27u8, 36, 66, 59, 51, 32];
        let dec = catch(|| si.cs.decode(&b).map_err(|_| ()));
        out.push(Case { coq: format!("(CMbDec {} {} {})", si.idx, c_bytes(&b), match &dec { None => c_panic(), Some(Ok(s)) => c_ok(&c_str(s)), Some(Err(())) => c_err(2) }),
            desc: json!({"bucket": "corpus-fact", "set": "ISO_IR 87", "bytes": hex(&b)}), key: "F2|dec".into(), oracle: Oracle::NotApplicable });
    }
    // data sets: the worked examples of the property and the witnesses of the known findings
    let pn = Tag(0x0010, 0x0010); let lo = Tag(0x0010, 0x0020);
    for (cs, txt) in [("ISO_IR 100", "J\u{e9}r\u{f4}me"), ("ISO_IR 144", "\u{418}\u{432}\u{430}\u{43d}"), ("ISO_IR 192", "\u{738b}^\u{5c0f}\u{1f600}"), ("ISO_IR 126", "\u{394}\u{3b9}"),
                      ("ISO_IR 149", "\u{ae40}"), ("GBK", "\u{738b}"), ("ISO_IR 13", "\u{ff94}\u{ff8f}"), ("ISO_IR 87", "\u{5c71}\u{7530}"),
                      // known findings
                      ("ISO_IR 13", "\u{30bd}"), ("GBK", "\u{4e57}"), ("ISO_IR 87", "\u{5c71}"), ("ISO_IR 13", "\u{a5}")] {
        let nodes = vec![scs_node(cs), text_node(pn, VR::PN, Val::Strs(vec![txt.to_string()])), text_node(lo, VR::LO, Val::Strs(vec![txt.to_string(), "A".to_string()])),
                         text_node(Tag(0x0010, 0x4000), VR::LT, Val::Str(txt.to_string())), text_node(Tag(0x0020, 0x000d), VR::UI, Val::Str("1.2.3".to_string())), text_node(Tag(0x0008, 0x0070), VR::CS, Val::Strs(vec!["AB".into(), "C".into()]))];
        out.push(ds_write_case(&sets, 0, &nodes, true, true, "corpus-dataset"));
    }
    // a multi-valued Specific Character Set given as ONE string (fixed defect: the writer ignored it)
    out.push(ds_write_case(&sets, 0, &[text_node(SCS, VR::CS, Val::Str("ISO 2022 IR 144\\ISO 2022 IR 100".into())), text_node(lo, VR::LO, Val::Str("\u{416}".into()))], true, true, "corpus-dataset"));
    out.push(ds_write_case(&sets, 0, &[text_node(SCS, VR::CS, Val::Str("ISO 2022 IR 144\\ISO 2022 IR 100".into())), text_node(lo, VR::LO, Val::Str("\u{e9}".into()))], true, false, "corpus-dataset"));
    // strictness: a Cyrillic name under Latin-1 must be refused
    out.push(ds_write_case(&sets, 0, &[scs_node("ISO_IR 100"), text_node(pn, VR::PN, Val::Str("\u{418}".into()))], true, false, "corpus-dataset"));
    // text before the element uses the initial set
    out.push(ds_write_case(&sets, by("ISO_IR 126"), &[text_node(Tag(0x0008, 0x0001), VR::LO, Val::Str("\u{394}".into())), scs_node("ISO_IR 144"), text_node(pn, VR::PN, Val::Str("\u{418}".into()))], true, true, "corpus-dataset"));

    // ---- complete single-character sweeps of the multi-byte sets (no model side): every scalar value of the
    // BMP (quick) or of all planes (thorough) either is refused or decodes back to itself
    {
        let hi: u32 = if ctx.tier == Tier::Thorough { 0x11_0000 } else { 0x1_0000 };
        let step: u32 = 0x4000;
        for si in sets.iter().filter(|s| s.multi) {
            let mut lo = 0u32;
            while lo < hi {
                let mut bad: Vec<(u32, String)> = vec![]; let mut accepted = 0u32;
                let mut buf = [0u8; 4];
                for u in lo..lo + step {
                    let Some(c) = char::from_u32(u) else { continue };
                    let s: &str = c.encode_utf8(&mut buf);
                    if codec_class(si, s) != "CodecRoundTrip" { continue; } // known-finding characters are witnessed by the corpus
                    if let Ok(b) = si.cs.encode(s) {
                        accepted += 1;
                        match catch(|| si.cs.decode(&b)) { Some(Ok(d)) if d == s => {}, other => bad.push((u, format!("{} -> {:?}", hex(&b), other.map(|r| r.ok())))) }
                    }
                }
                let oracle = if bad.is_empty() { Oracle::Holds } else { Oracle::Fails { class: "CodecRoundTrip".into(), detail: format!("{}: U+{:04X} -> {} ({} characters in this block)", si.name, bad[0].0, bad[0].1, bad.len()) } };
                out.push(Case { coq: String::new(), desc: json!({"bucket": "sweep-multibyte", "set": si.name, "from": lo, "to": lo + step, "accepted": accepted}),
                                key: if accepted > 0 { format!("S{}|{}", si.idx, lo) } else { String::new() }, oracle });
                lo += step;
            }
        }
    }

    // ---- generated
    while out.len() < ctx.n {
        let i = out.len();
        match i % 10 {
            0 | 1 | 2 => { // repertoire strings, every set in turn
                let si = &sets[r.below(sets.len() as u64) as usize];
                let mut s = si.rep_text(&mut r, 12);
                if r.chance(1, 5) { s.push('\\'); s.push_str(&si.rep_text(&mut r, 3)); }
                out.push(enc_case(si, &s, if si.multi { "encode-repertoire-multibyte" } else { "encode-repertoire" }));
            }
            3 => { // one character outside the repertoire
                let si = &sets[r.below(sets.len() as u64) as usize];
                let s = si.rep_text(&mut r, 6);
                let mut v: Vec<char> = s.chars().collect();
                if let Some(c) = si.outside_char(&mut r) { let k = r.below(v.len() as u64 + 1) as usize; v.insert(k, c); }
                out.push(enc_case(si, &v.into_iter().collect::<String>(), if si.multi { "encode-outside-multibyte" } else { "encode-outside" }));
            }
            4 => { // arbitrary bytes through the decoder (model comparison only)
                let si = loop { let s = &sets[r.below(sets.len() as u64) as usize]; if !s.multi || r.chance(1, 4) { break s; } };
                let b = random_bytes(&mut r, si);
                out.push(dec_case(si, &b, if si.multi { "decode-bytes-multibyte" } else { "decode-bytes" }));
            }
            5 => { // defined terms with mutations
                let mut t = r.pick(CANDIDATES).to_string();
                match r.below(8) { 0 => t.push(' '), 1 => t.push_str("  "), 2 => t.push('\t'), 3 => t.insert(0, ' '), 4 => { t.pop(); } 5 => t.push('\u{2003}'), 6 => t = t.to_lowercase(), _ => {} }
                out.push(term_case(&sets, &t, "term"));
            }
            6 => { // synthetic stream through the reader
                let cs0 = if r.chance(2, 3) { 0 } else { r.below(sets.len() as u64) as usize };
                let anyvr = r.chance(1, 4);
                let mut tags: BTreeSet<Tag> = BTreeSet::new();
                for _ in 0..r.range(1, 4) { tags.insert(*r.pick(TAG_POOL)); }
                if r.chance(2, 3) { tags.insert(SCS); }
                let mut cur = cs0;
                let mut elems = vec![];
                for tag in tags {
                    let (vr, mut b) = if tag == SCS {
                        let mut t = CANDIDATES[r.below(46) as usize].to_string();
                        if let Some(cs) = SpecificCharacterSet::from_code(&t) { cur = sets.iter().position(|s| s.cs == cs).unwrap(); }
                        if r.chance(1, 5) { t.push_str("\\ISO 2022 IR 87"); }
                        if r.chance(1, 8) { t.insert(0, '\\'); }
                        (if r.chance(1, 10) { VR::LO } else { VR::CS }, t.into_bytes())
                    } else {
                        let vr = *r.pick(&TEXT_VRS);
                        let si = &sets[cur];
                        let b = if r.coin() { random_bytes(&mut r, si) } else { let t = si.rep_text(&mut r, 5); let mut b = si.cs.encode(&t).unwrap_or_default(); if r.chance(1, 3) { b.push(0x5c); b.extend(si.cs.encode(&si.rep_text(&mut r, 3)).unwrap_or_default()); } b };
                        (vr, b)
                    };
                    if b.len() % 2 == 1 { b.push(if r.chance(1, 6) { 0 } else { b' ' }); }
                    elems.push((tag, vr, b));
                }
                out.push(ds_read_case(&sets, cs0, anyvr, &elems, "dataset-read-synthetic"));
            }
            _ => { // data sets written and read back
                let cs0 = if r.chance(3, 4) { 0 } else { r.below(sets.len() as u64) as usize };
                let mut g = Gen { sets: &sets, r: r.fork(), cur: cs0, applicable: true, valid: true };
                let nodes = g.dataset(0);
                let multi_in_force = { let mut f = vec![]; flatten(&nodes, &mut f); let scs: Vec<String> = f.iter().filter(|e| e.0 == SCS).flat_map(|e| e.2.texts().into_iter().map(|s| s.to_string()).collect::<Vec<_>>()).collect();
                    sets_in_play(&sets, cs0, &scs).iter().any(|i| sets[*i].multi) };
                let bucket = match (g.applicable, g.valid, multi_in_force) { (false, _, _) => "dataset-outside-hypotheses", (_, false, _) => "dataset-unrepresentable", (_, _, true) => "dataset-multibyte", _ => "dataset" };
                out.push(ds_write_case(&sets, cs0, &nodes, g.applicable, g.valid, bucket));
            }
        }
    }
    out
}
