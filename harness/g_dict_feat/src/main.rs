//! vh_dict_feat — the C16 registry dump under the feature set the tools use
//! (rle + jpeg + deflate + inventory-registry). Driven by vh_dict (sibling binary):
//!   vh_dict_feat rows      registry rows, one per line (tsdump line format)
//!   vh_dict_feat declared  descriptors in registration order: built-ins, then the descriptors below
//!   vh_dict_feat lookup    stdin: hex(utf-8 query) per line -> row line or "-"
//!
//! `TransferSyntaxRegistryImpl::register` is private and the built-in UIDs are unique, so its
//! replacement rules are only reachable through `inventory`. The descriptors submitted below
//! exercise them. Each UID's outcome does not depend on the (unspecified) order in which
//! `inventory` yields the submissions: only "upgrades" and refused downgrades are used.
use dicom_core::ops::AttributeOp;
use dicom_encoding::adapters::{DecodeResult, EncodeOptions, EncodeResult, PixelDataObject, PixelDataReader, PixelDataWriter};
use dicom_encoding::transfer_syntax::{DataRWAdapter, NeverAdapter};
use dicom_encoding::{submit_transfer_syntax, Codec, NeverPixelAdapter, TransferSyntax};
use std::io::{BufRead, Read, Write};

#[derive(Debug, Clone, Copy)]
pub struct DummyPixel;
impl PixelDataReader for DummyPixel {
    fn decode_frame(&self, _src: &dyn PixelDataObject, _frame: u32, _dst: &mut Vec<u8>) -> DecodeResult<()> { Ok(()) }
}
impl PixelDataWriter for DummyPixel {
    fn encode_frame(&self, _src: &dyn PixelDataObject, _frame: u32, _options: EncodeOptions, _dst: &mut Vec<u8>) -> EncodeResult<Vec<AttributeOp>> { Ok(vec![]) }
}
#[derive(Debug, Clone, Copy)]
pub struct DummyData;
impl DataRWAdapter for DummyData {
    fn adapt_reader<'r>(&self, reader: Box<dyn Read + 'r>) -> Box<dyn Read + 'r> { reader }
    fn adapt_writer<'w>(&self, writer: Box<dyn Write + 'w>) -> Box<dyn Write + 'w> { writer }
}

type TsP<R, W> = TransferSyntax<NeverAdapter, R, W>;
type TsD = TransferSyntax<DummyData, NeverPixelAdapter, NeverPixelAdapter>;

const A: &str = "1.3.6.1.4.1.99999.16.1";
const B: &str = "1.3.6.1.4.1.99999.16.2";
const C: &str = "1.3.6.1.4.1.99999.16.3";
const D: &str = "1.3.6.1.4.1.99999.16.4";
const MPEG2: &str = "1.2.840.10008.1.2.4.100"; // built-in stub
const ELE: &str = "1.2.840.10008.1.2.1"; // built-in, codec free

fn a_stub() -> TsP<NeverPixelAdapter, NeverPixelAdapter> { TransferSyntax::new_ele(A, "verif A stub", Codec::EncapsulatedPixelData(None, None)) }
fn a_reader() -> TsP<DummyPixel, NeverPixelAdapter> { TransferSyntax::new_ele(A, "verif A reader", Codec::EncapsulatedPixelData(Some(DummyPixel), None)) }
fn b_stub() -> TsD { TransferSyntax::new_ele(B, "verif B stub", Codec::Dataset(None)) }
fn b_full() -> TsD { TransferSyntax::new_ele(B, "verif B adapter", Codec::Dataset(Some(DummyData))) }
fn c_reader() -> TsP<DummyPixel, DummyPixel> { TransferSyntax::new_ele(C, "verif C reader", Codec::EncapsulatedPixelData(Some(DummyPixel), None)) }
fn c_full() -> TsP<DummyPixel, DummyPixel> { TransferSyntax::new_ele(C, "verif C reader+writer", Codec::EncapsulatedPixelData(Some(DummyPixel), Some(DummyPixel))) }
fn d_writer() -> TsP<NeverPixelAdapter, DummyPixel> { TransferSyntax::new_ele(D, "verif D writer", Codec::EncapsulatedPixelData(None, Some(DummyPixel))) }
fn d_full() -> TsP<DummyPixel, DummyPixel> { TransferSyntax::new_ele(D, "verif D reader+writer", Codec::EncapsulatedPixelData(Some(DummyPixel), Some(DummyPixel))) }
fn mpeg2_reader() -> TsP<DummyPixel, NeverPixelAdapter> { TransferSyntax::new_ele(MPEG2, "verif MPEG2 reader", Codec::EncapsulatedPixelData(Some(DummyPixel), None)) }
fn ele_downgrade() -> TsD { TransferSyntax::new_ele(ELE, "verif ELE downgrade", Codec::Dataset(None)) }

submit_transfer_syntax!(a_stub());
submit_transfer_syntax!(a_reader());
submit_transfer_syntax!(b_full());
submit_transfer_syntax!(b_stub());
submit_transfer_syntax!(c_reader());
submit_transfer_syntax!(c_full());
submit_transfer_syntax!(d_full());
submit_transfer_syntax!(d_writer());
submit_transfer_syntax!(mpeg2_reader());
submit_transfer_syntax!(ele_downgrade());

fn submitted() -> Vec<(String, tsdump::Row)> {
    vec![
        ("harness: a_stub".to_string(), tsdump::row_of(&a_stub().erased())),
        ("harness: a_reader".to_string(), tsdump::row_of(&a_reader().erased())),
        ("harness: b_full".to_string(), tsdump::row_of(&b_full().erased())),
        ("harness: b_stub".to_string(), tsdump::row_of(&b_stub().erased())),
        ("harness: c_reader".to_string(), tsdump::row_of(&c_reader().erased())),
        ("harness: c_full".to_string(), tsdump::row_of(&c_full().erased())),
        ("harness: d_full".to_string(), tsdump::row_of(&d_full().erased())),
        ("harness: d_writer".to_string(), tsdump::row_of(&d_writer().erased())),
        ("harness: mpeg2_reader".to_string(), tsdump::row_of(&mpeg2_reader().erased())),
        ("harness: ele_downgrade".to_string(), tsdump::row_of(&ele_downgrade().erased())),
    ]
}

fn main() {
    let cmd = std::env::args().nth(1).unwrap_or_default();
    let out = std::io::stdout();
    let mut out = out.lock();
    match cmd.as_str() {
        "rows" => for r in tsdump::dump_registry() { writeln!(out, "{}", tsdump::to_line(&r)).unwrap(); },
        "declared" => {
            for (n, r) in tsdump::declared_rows().into_iter().chain(submitted()) { writeln!(out, "{}\t{}", n, tsdump::to_line(&r)).unwrap(); }
        }
        "lookup" => {
            for l in std::io::stdin().lock().lines() {
                let l = l.unwrap();
                match tsdump::hex_decode(l.trim()).and_then(|q| tsdump::lookup(&q)) {
                    Some(r) => writeln!(out, "{}", tsdump::to_line(&r)).unwrap(),
                    None => writeln!(out, "-").unwrap(),
                }
            }
        }
        _ => { eprintln!("usage: vh_dict_feat rows|declared|lookup"); std::process::exit(2) }
    }
}
