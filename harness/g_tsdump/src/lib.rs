//! tsdump — observe every registered transfer syntax through the public API only.
//!
//! `explicit_vr` is a private field without accessor: the data set decoder and
//! encoder a transfer syntax hands out are therefore PROBED (one element header
//! is decoded / encoded and the wire layout classified).
use dicom_core::header::{DataElementHeader, HasLength, Header, Length};
use dicom_core::{Tag, VR};
use dicom_encoding::transfer_syntax::{Codec, TransferSyntax, TransferSyntaxIndex};
use dicom_encoding::Endianness;
use dicom_transfer_syntax_registry::TransferSyntaxRegistry;

/// wire layout classes of a data set codec: 0 = none offered, 1 = implicit VR little endian,
/// 2 = explicit VR little endian, 3 = explicit VR big endian, 9 = something else
pub const L_NONE: u8 = 0;
pub const L_ILE: u8 = 1;
pub const L_ELE: u8 = 2;
pub const L_EBE: u8 = 3;
pub const L_OTHER: u8 = 9;

#[derive(Clone, Debug, PartialEq, Eq)]
pub struct Row {
    pub uid: String,
    pub name: String,
    /// `endianness() == Big`
    pub big: bool,
    /// layout class of `decoder_for()` / `encoder_for()`
    pub dec: u8,
    pub enc: u8,
    /// codec kind: 0 None; 1 Dataset(None); 2 Dataset(Some); 3+2r+w EncapsulatedPixelData(r,w)
    pub codec: u8,
    /// is_fully_supported, is_codec_free, is_unsupported, is_encapsulated_pixel_data,
    /// is_unsupported_pixel_encapsulation, can_decode_all, can_decode_dataset
    pub q: [bool; 7],
    /// pixel_data_reader().is_some(), pixel_data_writer().is_some()
    pub pdr: bool,
    pub pdw: bool,
}

fn probe_decoder(ts: &TransferSyntax) -> u8 {
    // (0008,0060) CS length 2 in explicit VR little endian
    let bytes: [u8; 10] = [0x08, 0x00, 0x60, 0x00, b'C', b'S', 0x02, 0x00, b'M', b'R'];
    let dec = match ts.decoder_for::<dyn std::io::Read>() { Some(d) => d, None => return L_NONE };
    let mut src: &[u8] = &bytes;
    let src: &mut dyn std::io::Read = &mut src;
    match dec.decode_header(src) {
        Ok((h, n)) => {
            let (t, vr, len) = (h.tag(), h.vr(), h.length());
            if t == Tag(0x0008, 0x0060) && vr == VR::CS && len == Length(2) && n == 8 { L_ELE }
            else if t == Tag(0x0008, 0x0060) && len == Length(0x0002_5343) && n == 8 { L_ILE }
            else if t == Tag(0x0800, 0x6000) && vr == VR::CS && len == Length(0x0200) && n == 8 { L_EBE }
            else { L_OTHER }
        }
        Err(_) => L_OTHER,
    }
}

fn probe_encoder(ts: &TransferSyntax) -> u8 {
    let enc = match ts.encoder_for::<Vec<u8>>() { Some(e) => e, None => return L_NONE };
    let mut out: Vec<u8> = vec![];
    let h = DataElementHeader::new(Tag(0x0008, 0x0060), VR::CS, Length(2));
    match enc.encode_element_header(&mut out, h) {
        Ok(_) => match out.as_slice() {
            [0x08, 0x00, 0x60, 0x00, b'C', b'S', 0x02, 0x00] => L_ELE,
            [0x08, 0x00, 0x60, 0x00, 0x02, 0x00, 0x00, 0x00] => L_ILE,
            [0x00, 0x08, 0x00, 0x60, b'C', b'S', 0x00, 0x02] => L_EBE,
            _ => L_OTHER,
        },
        Err(_) => L_OTHER,
    }
}

pub fn row_of(ts: &TransferSyntax) -> Row {
    let codec = match ts.codec() {
        Codec::None => 0,
        Codec::Dataset(None) => 1,
        Codec::Dataset(Some(_)) => 2,
        Codec::EncapsulatedPixelData(r, w) => 3 + 2 * (r.is_some() as u8) + (w.is_some() as u8),
    };
    Row {
        uid: ts.uid().to_string(),
        name: ts.name().to_string(),
        big: ts.endianness() == Endianness::Big,
        dec: probe_decoder(ts),
        enc: probe_encoder(ts),
        codec,
        q: [ts.is_fully_supported(), ts.is_codec_free(), ts.is_unsupported(), ts.is_encapsulated_pixel_data(),
            ts.is_unsupported_pixel_encapsulation(), ts.can_decode_all(), ts.can_decode_dataset()],
        pdr: ts.pixel_data_reader().is_some(),
        pdw: ts.pixel_data_writer().is_some(),
    }
}

/// every registered transfer syntax (registry iteration), sorted by UID
pub fn dump_registry() -> Vec<Row> {
    let mut v: Vec<Row> = TransferSyntaxRegistry.iter().map(row_of).collect();
    v.sort_by(|a, b| a.uid.cmp(&b.uid));
    v
}

/// `TransferSyntaxRegistry.get(query)` as a row
pub fn lookup(query: &str) -> Option<Row> { TransferSyntaxRegistry.get(query).map(row_of) }

fn b(x: bool) -> &'static str { if x { "true" } else { "false" } }
pub fn coq_chars(s: &str) -> String {
    let v: Vec<String> = s.chars().map(|c| (c as u32).to_string()).collect();
    format!("[{}]", v.join(";"))
}
/// Coq term of type `TsRegistryBase.ts_row`
pub fn coq_row(r: &Row) -> String {
    let q: Vec<&str> = r.q.iter().map(|x| b(*x)).collect();
    format!("(TsRow {} {} {} {} {} [{}] {} {})", coq_chars(&r.uid), b(r.big), r.dec, r.enc, r.codec, q.join(";"), b(r.pdr), b(r.pdw))
}
pub fn coq_opt_row(r: &Option<Row>) -> String {
    match r { Some(r) => format!("(Some {})", coq_row(r)), None => "None".to_string() }
}

include!(concat!(env!("OUT_DIR"), "/declared.rs"));

/// rows of the descriptors `lib.rs` registers, in registration order, with the constant's name
pub fn declared_rows() -> Vec<(String, Row)> {
    declared().iter().filter(|d| d.1).map(|d| (d.0.to_string(), row_of(&d.2))).collect()
}
/// constants of `entries` that `lib.rs` does not register
pub fn unregistered_constants() -> Vec<String> { declared().iter().filter(|d| !d.1).map(|d| d.0.to_string()).collect() }

// ---- line format used between vh_dict and its sibling vh_dict_feat (tab separated) ----
pub fn to_line(r: &Row) -> String {
    let q: String = r.q.iter().map(|x| if *x { '1' } else { '0' }).collect();
    format!("{}\t{}\t{}\t{}\t{}\t{}\t{}\t{}\t{}", r.uid, r.name, r.big as u8, r.dec, r.enc, r.codec, q, r.pdr as u8, r.pdw as u8)
}
pub fn from_line(l: &str) -> Option<Row> {
    let f: Vec<&str> = l.split('\t').collect();
    if f.len() != 9 { return None; }
    let mut q = [false; 7];
    for (i, c) in f[6].chars().enumerate().take(7) { q[i] = c == '1'; }
    Some(Row { uid: f[0].into(), name: f[1].into(), big: f[2] == "1", dec: f[3].parse().ok()?, enc: f[4].parse().ok()?, codec: f[5].parse().ok()?, q, pdr: f[7] == "1", pdw: f[8] == "1" })
}
pub fn hex_encode(s: &str) -> String { s.bytes().map(|b| format!("{:02x}", b)).collect() }
pub fn hex_decode(h: &str) -> Option<String> {
    let b: Option<Vec<u8>> = (0..h.len() / 2).map(|i| u8::from_str_radix(&h[2 * i..2 * i + 2], 16).ok()).collect();
    String::from_utf8(b?).ok()
}

/// Coq text of one feature set: the registry contents (sorted by UID), the descriptors in
/// registration order, and the names.
pub fn coq_feature_set(name: &str, reg: &[Row], decl: &[(String, Row)]) -> String {
    let mut s = String::new();
    s.push_str(&format!("(* feature set `{}`: {} registered transfer syntaxes *)\n", name, reg.len()));
    s.push_str(&format!("Definition registry_{} : list ts_row := [\n{}\n].\n", name,
        reg.iter().map(|r| format!("{} (* {} {} *)", coq_row(r), r.uid, r.name.replace("*)", "* )").replace("(*", "( *").replace('"', "'"))).collect::<Vec<_>>().join(";\n")));
    s.push_str("(* descriptors in registration order: the `entries::*` constants as lib.rs lists them, then what the harness binary submits through `inventory` *)\n");
    s.push_str(&format!("Definition declared_{} : list ts_row := [\n{}\n].\n", name,
        decl.iter().map(|(n, r)| format!("{} (* {} *)", coq_row(r), n)).collect::<Vec<_>>().join(";\n")));
    s
}
