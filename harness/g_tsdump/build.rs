//! The transfer syntax descriptors of `dicom_transfer_syntax_registry::entries` are constants of
//! many different types; their NAMES are read from the source text here and turned into a list
//! of the real constants (`entries::NAME.erased()`), in the order `lib.rs` registers them when
//! that order can be read off (`NAME.erased(),` lines), else in declaration order.
use std::fmt::Write as _;
use std::{env, fs, path::Path};

/// the dicom-rs tree under verification: /repo, or $VERIF_REPO (scratch worktrees)
fn repo() -> String { env::var("VERIF_REPO").unwrap_or_else(|_| "/repo".to_string()) }

#[allow(non_snake_case)]
fn main() {
    let (ENTRIES, LIB) = (format!("{}/transfer-syntax-registry/src/entries.rs", repo()), format!("{}/transfer-syntax-registry/src/lib.rs", repo()));
    println!("cargo:rerun-if-env-changed=VERIF_REPO");
    println!("cargo:rerun-if-changed={ENTRIES}");
    println!("cargo:rerun-if-changed={LIB}");
    println!("cargo:rerun-if-changed=build.rs");
    let src = fs::read_to_string(&ENTRIES).expect("read entries.rs");
    let mut declared: Vec<String> = vec![];
    for line in src.lines() {
        if let Some(rest) = line.strip_prefix("pub const ") {
            if let Some((name, _)) = rest.split_once(':') {
                let name = name.trim().to_string();
                if !declared.contains(&name) { declared.push(name); }
            }
        }
    }
    let lib = fs::read_to_string(&LIB).expect("read lib.rs");
    let mut registered: Vec<String> = vec![];
    for line in lib.lines() {
        let l = line.trim();
        if let Some(name) = l.strip_suffix(".erased(),") {
            if name.chars().all(|c| c.is_ascii_uppercase() || c.is_ascii_digit() || c == '_') && declared.contains(&name.to_string()) {
                registered.push(name.to_string());
            }
        }
    }
    // registration order first, then constants that lib.rs does not mention (they are declared but not registered)
    let mut out = String::new();
    out.push_str("/// (constant name, registered by lib.rs, descriptor)\npub fn declared() -> Vec<(&'static str, bool, dicom_encoding::TransferSyntax)> {\n    use dicom_transfer_syntax_registry::entries::*;\n    vec![\n");
    for n in &registered { writeln!(out, "        ({n:?}, true, {n}.erased()),").unwrap(); }
    for n in &declared { if !registered.contains(n) { writeln!(out, "        ({n:?}, false, {n}.erased()),").unwrap(); } }
    out.push_str("    ]\n}\n");
    fs::write(Path::new(&env::var("OUT_DIR").unwrap()).join("declared.rs"), out).unwrap();
}
