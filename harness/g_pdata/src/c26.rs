//! C26 — P-DATA fragmentation and reassembly (ul/src/association/pdata.rs)
//! PDataWriter / AsyncPDataWriter over scripted transports (hook `verif_new`),
//! PDataReader (sync `read`, async `poll_read`) over scripted sources.
use crate::transport::*;
use bytes::BytesMut;
use dicom_ul::association::AsyncPDataWriter;
use dicom_ul::association::{PDataReader, PDataWriter};
use serde_json::json;
use std::io::{Read, Write};
use std::task::Poll;
use tokio::io::{AsyncReadExt, AsyncWriteExt};
use vhc::*;

pub const E_CANCELLED: u32 = 100;

#[derive(Clone, Debug)]
pub enum Op { Write(Vec<u8>), Cancel(Vec<u8>, usize) }

#[derive(Clone, Debug)]
pub struct WCase { pub asyn: bool, pub ctx: u8, pub max: u32, pub ops: Vec<Op>, pub sched: Vec<Ev>, pub finish: bool }

#[derive(Clone, Debug, PartialEq, Eq)]
pub enum Res { Ok, Err(u32), Panic }

#[derive(Clone, Debug)]
pub struct WObs { pub results: Vec<Res>, pub wire: Vec<u8>, pub used: usize }

fn res_of(r: std::io::Result<()>) -> Res { match r { Ok(()) => Res::Ok, Err(e) => Res::Err(io_class(&e)) } }

pub fn run_writer(c: &WCase) -> WObs {
    let mut t = ScriptW::new(&c.sched);
    let mut results: Vec<Res> = vec![];
    let ok = if c.asyn {
        catch(|| {
            runtime().block_on(async {
                let mut w = AsyncPDataWriter::verif_new(&mut t, c.ctx, c.max);
                let mut failed = false;
                for op in &c.ops {
                    match op {
                        Op::Write(chunk) => {
                            let r = res_of(w.write_all(chunk).await);
                            let bad = r != Res::Ok;
                            results.push(r);
                            if bad { failed = true; break; }
                        }
                        Op::Cancel(chunk, k) => {
                            // poll the write_all future at most k times, then drop it (cancellation)
                            let mut fut = Box::pin(w.write_all(chunk));
                            let mut done = None;
                            for _ in 0..*k {
                                if let Poll::Ready(r) = poll_once(&mut fut).await { done = Some(res_of(r)); break; }
                            }
                            drop(fut);
                            match done {
                                Some(r) => { let bad = r != Res::Ok; results.push(r); if bad { failed = true; break; } }
                                None => results.push(Res::Err(E_CANCELLED)),
                            }
                        }
                    }
                }
                if !failed && c.finish { results.push(res_of(w.finish().await)); } else { drop(w); }
            })
        })
    } else {
        catch(|| {
            let mut w = PDataWriter::verif_new(&mut t, c.ctx, c.max);
            let mut failed = false;
            for op in &c.ops {
                let chunk = match op { Op::Write(ch) => ch, Op::Cancel(ch, _) => ch };
                let r = res_of(w.write_all(chunk));
                let bad = r != Res::Ok;
                results.push(r);
                if bad { failed = true; break; }
            }
            if !failed && c.finish { results.push(res_of(w.finish())); } else { drop(w); }
        })
    };
    if ok.is_none() { results.push(Res::Panic); }
    WObs { results, wire: t.wire, used: t.used }
}

// ------------------------------------------------------------------ reader
#[derive(Clone, Debug)]
pub struct RCase { pub asyn: bool, pub max: u32, pub stream: Vec<u8>, pub pre: Vec<u8>, pub sched: Vec<Ev>, pub dflt: usize, pub sizes: Vec<usize> }

#[derive(Clone, Debug)]
pub struct RObs { pub reads: Vec<Result<Vec<u8>, u32>>, pub panicked: bool, pub left: Vec<u8>, pub pos: usize, pub used: usize }

const MAX_READS: usize = 4000;

pub fn run_reader(c: &RCase) -> RObs {
    let mut t = ScriptR::new(&c.sched, &c.stream, c.dflt);
    let mut rb = BytesMut::from(&c.pre[..]);
    let mut reads: Vec<Result<Vec<u8>, u32>> = vec![];
    let ok = if c.asyn {
        catch(|| {
            runtime().block_on(async {
                let mut r = PDataReader::new(&mut t, c.max, &mut rb);
                for i in 0..MAX_READS {
                    let sz = c.sizes[i % c.sizes.len()];
                    let mut buf = vec![0u8; sz];
                    match AsyncReadExt::read(&mut r, &mut buf).await {
                        Ok(n) => { reads.push(Ok(buf[..n].to_vec())); if n == 0 { break; } }
                        Err(e) => { reads.push(Err(io_class(&e))); break; }
                    }
                }
            })
        })
    } else {
        catch(|| {
            let mut r = PDataReader::new(&mut t, c.max, &mut rb);
            let mut i = 0;
            while i < MAX_READS {
                let sz = c.sizes[i % c.sizes.len()];
                let mut buf = vec![0u8; sz];
                match Read::read(&mut r, &mut buf) {
                    Ok(n) => { reads.push(Ok(buf[..n].to_vec())); if n == 0 { break; } }
                    // the blocking counterpart of "not ready": callers (read_to_end, read_exact) retry
                    Err(e) if e.kind() == std::io::ErrorKind::Interrupted => { continue; }
                    Err(e) => { reads.push(Err(io_class(&e))); break; }
                }
                i += 1;
            }
        })
    };
    RObs { reads, panicked: ok.is_none(), left: rb.to_vec(), pos: t.pos, used: t.used }
}

// ------------------------------------------------------------------ independent parser + oracle
/// Parse a byte stream into P-DATA PDUs: (pdu_length, Vec<(ctx, control, data)>). None when malformed/other.
pub fn parse_pdus(mut b: &[u8]) -> Option<Vec<(u32, Vec<(u8, u8, Vec<u8>)>)>> {
    let mut out = vec![];
    while !b.is_empty() {
        if b.len() < 6 || b[0] != 4 || b[1] != 0 { return None; }
        let len = u32::from_be_bytes([b[2], b[3], b[4], b[5]]) as usize;
        if b.len() < 6 + len { return None; }
        let mut body = &b[6..6 + len];
        let mut pdvs = vec![];
        while !body.is_empty() {
            if body.len() < 6 { return None; }
            let il = u32::from_be_bytes([body[0], body[1], body[2], body[3]]) as usize;
            if il < 2 || body.len() < 4 + il { return None; }
            pdvs.push((body[4], body[5], body[6..4 + il].to_vec()));
            body = &body[4 + il..];
        }
        out.push((len as u32, pdvs));
        b = &b[6 + len..];
    }
    Some(out)
}

/// The writer half of the property, evaluated on what the implementation put on the wire.
fn writer_oracle(c: &WCase, o: &WObs) -> Oracle {
    let faulty = c.sched.iter().any(|e| matches!(e, Ev::Fail | Ev::Rdy(0)));
    let cancels = c.ops.iter().any(|op| matches!(op, Op::Cancel(..)));
    if faulty || cancels || c.max <= 6 || !c.finish { return Oracle::NotApplicable; }
    let payload: Vec<u8> = c.ops.iter().flat_map(|op| match op { Op::Write(ch) | Op::Cancel(ch, _) => ch.clone() }).collect();
    let which = if c.asyn { "async" } else { "sync" };
    if let Some(i) = o.results.iter().position(|r| *r != Res::Ok) {
        let class = match o.results[i] { Res::Err(E_WRITE_ZERO) => "ExactFillWriteZero".to_string(), Res::Panic => "WriterPanic".into(), _ => "WriterError".into() };
        return Oracle::Fails { class, detail: format!("{} writer: op {} returned {:?} on a fault-free transport (max={}, chunk sizes {:?})", which, i, o.results[i], c.max, c.ops.iter().map(|op| match op { Op::Write(ch) | Op::Cancel(ch, _) => ch.len() }).collect::<Vec<_>>()) };
    }
    let fails = |d: String| Oracle::Fails { class: "WriterFraming".into(), detail: format!("{} writer: {}", which, d) };
    let pdus = match parse_pdus(&o.wire) { Some(p) => p, None => return fails("wire is not a sequence of P-DATA PDUs".into()) };
    if pdus.is_empty() { return fails("no PDU emitted".into()); }
    let mut got = vec![];
    for (i, (len, pdvs)) in pdus.iter().enumerate() {
        if *len > c.max { return fails(format!("PDU {} has length {} > max {}", i, len, c.max)); }
        if pdvs.len() != 1 { return fails(format!("PDU {} carries {} values", i, pdvs.len())); }
        let (ctx, ctl, data) = &pdvs[0];
        if *ctx != c.ctx { return fails(format!("PDU {} has context id {}", i, ctx)); }
        let want = if i + 1 == pdus.len() { 2 } else { 0 };
        if *ctl != want { return fails(format!("PDU {} of {} has control byte {}", i, pdus.len(), ctl)); }
        got.extend_from_slice(data);
    }
    if got != payload { return fails(format!("payloads concatenate to {} bytes, input had {}", got.len(), payload.len())); }
    Oracle::Holds
}

/// "the asynchronous writer produces the same bytes": compared with the sync writer on an always-accepting sink.
fn async_same_as_sync(c: &WCase, o: &WObs) -> Option<Oracle> {
    let faulty = c.sched.iter().any(|e| matches!(e, Ev::Fail | Ev::Rdy(0)));
    let cancels = c.ops.iter().any(|op| matches!(op, Op::Cancel(..)));
    if !c.asyn || faulty || cancels || c.max <= 6 { return None; }
    let s = run_writer(&WCase { asyn: false, sched: vec![], ..c.clone() });
    if s.results.iter().all(|r| *r == Res::Ok) && (s.wire != o.wire || s.results != o.results) {
        return Some(Oracle::Fails { class: "AsyncDiffersFromSync".into(), detail: format!("async wire {} bytes / results {:?}, sync wire {} bytes / results {:?}", o.wire.len(), o.results, s.wire.len(), s.results) });
    }
    None
}

fn c_res(r: &Res) -> String { match r { Res::Ok => c_ok("tt"), Res::Err(k) => c_err(*k), Res::Panic => c_panic() } }
fn c_op(op: &Op) -> String { match op { Op::Write(ch) => format!("OpWrite {}", c_bytes(ch)), Op::Cancel(ch, k) => format!("OpCancel {} {}", c_bytes(ch), k) } }

fn writer_case(c: &WCase, bucket: &str) -> Case {
    let o = run_writer(c);
    let mut oracle = writer_oracle(c, &o);
    if matches!(oracle, Oracle::Holds | Oracle::NotApplicable) { if let Some(f) = async_same_as_sync(c, &o) { oracle = f; } }
    let coq = format!("CW ({}, {}, {}, {}, {}, {}) ({}, {}, {})",
        c_bool(c.asyn), c.ctx, c.max, c_list(c.ops.iter().map(c_op)), c_sched(&c.sched), c_bool(c.finish),
        c_list(o.results.iter().map(c_res)), c_bytes(&o.wire), o.used);
    let sizes: Vec<usize> = c.ops.iter().map(|op| match op { Op::Write(ch) | Op::Cancel(ch, _) => ch.len() }).collect();
    let total: usize = sizes.iter().sum();
    let first = c.ops.iter().find_map(|op| match op { Op::Write(ch) | Op::Cancel(ch, _) => ch.first().copied() }).unwrap_or(0);
    Case {
        coq,
        desc: json!({"bucket": bucket, "kind": if c.asyn { "async-writer" } else { "sync-writer" }, "ctx": c.ctx, "max": c.max,
                     "chunk_sizes": sizes, "cancel": c.ops.iter().map(|op| match op { Op::Cancel(_, k) => *k as i64, _ => -1 }).collect::<Vec<_>>(),
                     "first_byte": first, "schedule": j_sched(&c.sched), "finish": c.finish,
                     "results": o.results.iter().map(|r| format!("{:?}", r)).collect::<Vec<_>>(), "wire_len": o.wire.len(), "events_used": o.used}),
        key: if total > 0 { format!("W{}|{}|{}|{:?}|{:?}|{}|{}", c.asyn, c.ctx, c.max, sizes, j_sched(&c.sched), c.finish, first) } else { String::new() },
        oracle,
    }
}

fn reader_case(c: &RCase, expect: Option<(&[u8], &[u8])>, bucket: &str) -> Case {
    let o = run_reader(c);
    let oracle = match expect {
        None => Oracle::NotApplicable,
        Some((payload, following)) => {
            let which = if c.asyn { "async" } else { "sync" };
            let mut got = vec![];
            let mut err = None;
            for r in &o.reads { match r { Ok(b) => got.extend_from_slice(b), Err(k) => err = Some(*k) } }
            let mut rest = o.left.clone();
            rest.extend_from_slice(&c.stream[o.pos..]);
            if o.panicked { Oracle::Fails { class: "ReaderPanic".into(), detail: format!("{} reader panicked", which) } }
            else if let Some(k) = err { Oracle::Fails { class: "ReaderError".into(), detail: format!("{} reader returned error class {} on a well-formed stream", which, k) } }
            else if got != payload { Oracle::Fails { class: "ReaderPayload".into(), detail: format!("{} reader returned {} bytes, payload has {}", which, got.len(), payload.len()) } }
            else if rest != following { Oracle::Fails { class: "ReaderLeftover".into(), detail: format!("{} reader left {} bytes, {} bytes follow the message", which, rest.len(), following.len()) } }
            else { Oracle::Holds }
        }
    };
    let c_read = |r: &Result<Vec<u8>, u32>| match r { Ok(b) => c_ok(&c_bytes(b)), Err(k) => c_err(*k) };
    let mut rs: Vec<String> = o.reads.iter().map(c_read).collect();
    if o.panicked { rs.push(c_panic()); }
    let coq = format!("CR ({}, {}, {}, {}, {}, {}, {}) ({}, {}, {}, {})",
        c_bool(c.asyn), c.max, c_bytes(&c.stream), c_bytes(&c.pre), c_sched(&c.sched), c.dflt, c_list(c.sizes.iter().map(|s| s.to_string())),
        c_list(rs), c_bytes(&o.left), o.pos, o.used);
    let nbytes: usize = o.reads.iter().map(|r| r.as_ref().map_or(0, |b| b.len())).sum();
    Case {
        coq,
        desc: json!({"bucket": bucket, "kind": if c.asyn { "async-reader" } else { "sync-reader" }, "max": c.max, "stream_len": c.stream.len(),
                     "stream_head": hex(&c.stream[..c.stream.len().min(24)]), "prebuffered": c.pre.len(), "schedule": j_sched(&c.sched), "default_chunk": c.dflt,
                     "read_sizes": c.sizes, "reads": o.reads.len(), "bytes_read": nbytes,
                     "last": o.reads.last().map(|r| match r { Ok(b) => format!("Ok({})", b.len()), Err(k) => format!("Err({})", k) }), "panicked": o.panicked,
                     "left_in_buffer": o.left.len(), "stream_consumed": o.pos}),
        key: if !c.stream.is_empty() { format!("R{}|{}|{}|{}|{:?}|{}|{:?}", c.asyn, c.max, hex(&c.stream[..c.stream.len().min(40)]), c.stream.len(), j_sched(&c.sched), c.dflt, c.sizes) } else { String::new() },
        oracle,
    }
}

// ------------------------------------------------------------------ generators
fn rand_bytes(r: &mut Rng, n: usize) -> Vec<u8> { (0..n).map(|_| r.below(256) as u8).collect() }

/// split `payload` at the given sorted cut points
fn split_at_cuts(payload: &[u8], cuts: &[usize]) -> Vec<Vec<u8>> {
    let mut out = vec![];
    let mut prev = 0;
    for &c in cuts { out.push(payload[prev..c].to_vec()); prev = c; }
    out.push(payload[prev..].to_vec());
    out
}

/// all ways to cut a payload of length `len` into at most `k` chunks (empty chunks allowed only via `with_empty`)
fn all_chunkings(len: usize, k: usize) -> Vec<Vec<usize>> {
    // cut points strictly increasing in 1..len
    let mut out = vec![vec![]];
    fn rec(start: usize, len: usize, left: usize, cur: &mut Vec<usize>, out: &mut Vec<Vec<usize>>) {
        if left == 0 { return; }
        for c in start..len { cur.push(c); out.push(cur.clone()); rec(c + 1, len, left - 1, cur, out); cur.pop(); }
    }
    if len > 0 { rec(1, len, k - 1, &mut vec![], &mut out); }
    out
}

fn rand_sched(r: &mut Rng, max_events: u64, cap: usize, faults: bool) -> Vec<Ev> {
    let n = r.below(max_events + 1);
    (0..n).map(|_| match r.below(if faults { 12 } else { 10 }) {
        0..=2 => Ev::Pend,
        3..=4 => Ev::Rdy(1),
        5 => Ev::Rdy(2),
        6 => Ev::Rdy(r.range(1, 13) as usize),
        7 => Ev::Rdy(cap + 12),
        8 => Ev::Rdy(r.range(1, (cap + 13) as u64) as usize),
        9 => Ev::Rdy(1 << 20),
        10 => Ev::Fail,
        _ => Ev::Rdy(0),
    }).collect()
}

/// payload lengths around the multiples of the per-PDU capacity
fn boundary_len(r: &mut Rng, cap: usize, max_mult: u64) -> usize {
    let m = r.below(max_mult + 1) as usize;
    let d = *r.pick(&[-2i64, -1, 0, 0, 0, 1, 2, 3]);
    ((m * cap) as i64 + d).max(0) as usize
}

fn boundary_cuts(r: &mut Rng, len: usize, cap: usize, k: usize) -> Vec<usize> {
    let mut cuts = vec![];
    for _ in 0..k {
        if len < 2 { break; }
        let c = if r.chance(2, 3) {
            let m = r.range(1, (len / cap).max(1) as u64) as usize;
            ((m * cap) as i64 + *r.pick(&[-1i64, 0, 0, 0, 1])).clamp(1, len as i64 - 1) as usize
        } else { r.range(1, len as u64 - 1) as usize };
        cuts.push(c);
    }
    cuts.sort(); cuts.dedup();
    cuts
}

fn gen_writer(r: &mut Rng, size: u8) -> (WCase, &'static str) {
    let asyn = r.coin();
    let ctx = *r.pick(&[1u8, 3, 5, 127, 255, 0, 2]);
    let big = size > 0;
    let (max, bucket): (u32, &'static str) = match size {
        2 => (*r.pick(&[1018u32, 1018, 1019, 1020]), "writer-min-pdu"),
        // capacity 255..257: the PDU and PDV length fields cross a byte boundary
        1 => (*r.pick(&[261u32, 262, 263]), "writer-mid-max"),
        _ => (*r.pick(&[7u32, 7, 8, 8, 9, 10, 13]), "writer-tiny-max"),
    };
    let cap = (max - 6) as usize;
    let len = if r.chance(1, 6) { r.below((3 * cap + 3) as u64) as usize } else { boundary_len(r, cap, 3) };
    let payload = rand_bytes(r, len);
    let ncuts = r.range(1, 3) as usize;
    let cuts = if r.chance(1, 4) { vec![] } else { boundary_cuts(r, len, cap, ncuts) };
    let mut chunks = split_at_cuts(&payload, &cuts);
    if r.chance(1, 10) { let i = r.below(chunks.len() as u64 + 1) as usize; chunks.insert(i, vec![]); }
    let faults = r.chance(1, 6);
    let sched = if !asyn && r.chance(1, 3) { vec![] } else { rand_sched(r, 8, cap, faults) };
    let mut ops: Vec<Op> = chunks.into_iter().map(Op::Write).collect();
    let mut bucket = bucket;
    if asyn && r.chance(1, 12) && !ops.is_empty() {
        let i = r.below(ops.len() as u64) as usize;
        if let Op::Write(ch) = ops[i].clone() { ops[i] = Op::Cancel(ch, r.range(1, 2) as usize); bucket = "writer-cancel"; }
    } else if faults { bucket = if big { "writer-big-faults" } else { "writer-tiny-max-faults" }; }
    (WCase { asyn, ctx, max, ops, sched, finish: !r.chance(1, 8) }, bucket)
}

/// A well-formed message as the real sync writer emits it, for the reader cases.
fn writer_stream(ctx: u8, max: u32, payload: &[u8]) -> Vec<u8> {
    let mut out = vec![];
    { let mut w = PDataWriter::verif_new(&mut out, ctx, max); let _ = w.write_all(payload); let _ = w.finish(); }
    out
}

fn pdu_bytes(pdvs: &[(u8, u8, Vec<u8>)]) -> Vec<u8> {
    let mut body = vec![];
    for (ctx, ctl, data) in pdvs { body.extend_from_slice(&((data.len() + 2) as u32).to_be_bytes()); body.push(*ctx); body.push(*ctl); body.extend_from_slice(data); }
    let mut out = vec![4u8, 0];
    out.extend_from_slice(&(body.len() as u32).to_be_bytes());
    out.extend(body);
    out
}

fn gen_reader(r: &mut Rng) -> Case {
    let asyn = r.coin();
    let sizes: Vec<usize> = (0..r.range(1, 3)).map(|_| *r.pick(&[1usize, 1, 2, 3, 5, 7, 64, 1012, 4096])).collect();
    let dflt = *r.pick(&[1usize, 2, 3, 7, 64, 1024, 8192]);
    let kind = r.below(10);
    if kind < 6 {
        // well-formed message from the real writer + following bytes
        let (wmax, rmax) = if r.chance(19, 20) { (*r.pick(&[7u32, 8, 9, 13, 30]), *r.pick(&[1018u32, 1018, 16378, 4294967288])) } else { (*r.pick(&[262u32, 1018, 1019, 1020]), *r.pick(&[1018u32, 1020, 16378])) };
        let cap = (wmax - 6) as usize;
        let len = if wmax > 100 { boundary_len(r, cap, 2) } else { boundary_len(r, cap, 6).min(40) };
        let payload = rand_bytes(r, len);
        let msg = writer_stream(*r.pick(&[1u8, 3, 255]), wmax, &payload);
        if r.chance(1, 6) && !msg.is_empty() {
            // the connection ends before the message is complete: the reader must report an error, never end-of-data
            let k = if r.chance(1, 3) { *r.pick(&[0usize, 1, 5, 6, 11, 12]) % msg.len() } else { r.below(msg.len() as u64) as usize };
            let pre_n = if r.chance(1, 3) { r.below(k as u64 + 1) as usize } else { 0 };
            let sched = rand_sched(r, 6, 12, false);
            let c = RCase { asyn, max: rmax, stream: msg[pre_n..k].to_vec(), pre: msg[..pre_n].to_vec(), sched, dflt, sizes };
            return truncated_reader_case(&c, &payload);
        }
        let following = match r.below(4) {
            0 => vec![],
            1 => writer_stream(5, wmax.min(30), &rand_bytes(r, 5)),
            2 => pdu_bytes(&[(1, 3, rand_bytes(r, 4))])[..r.range(1, 15) as usize].to_vec(),
            _ => vec![5, 0, 0, 0, 0, 4, 0, 0, 0, 0],
        };
        let mut stream = msg.clone();
        stream.extend_from_slice(&following);
        // part of the stream may already sit in the association's read buffer
        let pre_n = if r.chance(1, 3) { r.below(stream.len() as u64 + 1) as usize } else { 0 };
        let pre = stream[..pre_n].to_vec();
        let rest = stream[pre_n..].to_vec();
        let mut sched = rand_sched(r, 8, 12, false);
        if r.chance(1, 4) { sched = (0..r.range(1, 30)).map(|_| if r.chance(1, 5) { Ev::Pend } else { Ev::Rdy(1) }).collect(); }
        let c = RCase { asyn, max: rmax, stream: rest, pre, sched, dflt, sizes };
        // oracle compares against the whole (pre ++ stream) leftover: fold `pre` in
        let o_case = reader_case_with_pre(&c, &payload, &following);
        return o_case;
    }
    // hand-built and malformed streams: only the model/implementation comparison
    let max = *r.pick(&[1018u32, 1018, 1017, 16378]);
    let mut stream = vec![];
    let n = r.range(1, 3);
    for i in 0..n {
        let pdvs: Vec<(u8, u8, Vec<u8>)> = (0..r.below(4)).map(|_| { let n = r.below(5) as usize; (*r.pick(&[1u8, 3]), r.below(4) as u8, rand_bytes(r, n)) }).collect();
        let mut p = pdu_bytes(&pdvs);
        match r.below(12) {
            0 => { p[0] = *r.pick(&[5u8, 6, 0, 8, 0x44, 255]); }
            1 => { if p.len() > 6 { let k = r.range(6, p.len() as u64 - 1) as usize; p[k] = p[k].wrapping_add(r.range(1, 255) as u8); } }
            2 => { let k = r.range(2, 5) as usize; p[k] ^= 1 << r.below(3); }
            3 => { if p.len() > 9 { p[9] = r.below(3) as u8; p[6] = 0; p[7] = 0; p[8] = 0; } }
            4 => { p = vec![*r.pick(&[5u8, 6]), 0, 0, 0, 0, r.below(6) as u8]; let k = p[5] as usize; p.extend(rand_bytes(r, k)); }
            _ => {}
        }
        if i + 1 == n && r.chance(1, 4) { let k = r.below(p.len() as u64) as usize; p.truncate(k); }
        stream.extend(p);
    }
    let faults = r.chance(1, 3);
    let sched = rand_sched(r, 6, 12, faults);
    let c = RCase { asyn, max, stream, pre: vec![], sched, dflt, sizes };
    reader_case(&c, None, if faults { "reader-malformed-faults" } else { "reader-malformed" })
}

fn truncated_reader_case(c: &RCase, payload: &[u8]) -> Case {
    let mut case = reader_case(c, None, "reader-truncated");
    let o = run_reader(c);
    let which = if c.asyn { "async" } else { "sync" };
    let mut got = vec![];
    for r in &o.reads { if let Ok(b) = r { got.extend_from_slice(b); } }
    case.oracle = if o.panicked { Oracle::Fails { class: "ReaderPanic".into(), detail: format!("{} reader panicked on a truncated stream", which) } }
        else if !matches!(o.reads.last(), Some(Err(_))) { Oracle::Fails { class: "ReaderEarlyEndUnreported".into(), detail: format!("{} reader: the stream ended after {} bytes, before the last-fragment PDU was complete, and the reader reported end-of-data after {} of {} payload bytes", which, c.pre.len() + c.stream.len(), got.len(), payload.len()) } }
        else if !payload.starts_with(&got) { Oracle::Fails { class: "ReaderPayload".into(), detail: format!("{} reader returned bytes that are not a prefix of the payload", which) } }
        else { Oracle::Holds };
    case
}

fn reader_case_with_pre(c: &RCase, payload: &[u8], following: &[u8]) -> Case {
    // the leftover the oracle expects is relative to c.stream (bytes not yet received) plus the read buffer
    // reader_case computes rest = left ++ stream[pos..], which is exactly "what follows the message"
    reader_case(c, Some((payload, following)), if c.stream.len() + c.pre.len() > 200 { "reader-wellformed-big" } else { "reader-wellformed" })
}

/// Exhaustive sweep evaluated on the implementation only (oracle), aggregated into one case per (max, asyn).
fn sweep(asyn: bool, max: u32, max_len: usize, sched_len: usize) -> Case {
    let cap = (max - 6) as usize;
    let alphabet = [Ev::Pend, Ev::Rdy(1), Ev::Rdy(2), Ev::Rdy(cap + 12)];
    let mut scheds: Vec<Vec<Ev>> = vec![vec![]];
    if asyn {
        let mut layer: Vec<Vec<Ev>> = vec![vec![]];
        for _ in 0..sched_len {
            let mut next = vec![];
            for s in &layer { for e in &alphabet { let mut t = s.clone(); t.push(*e); next.push(t); } }
            scheds.extend(next.iter().cloned());
            layer = next;
        }
    }
    let mut count = 0u64;
    let mut first_fail: Option<(String, String)> = None;
    for len in 0..=max_len {
        let payload: Vec<u8> = (0..len).map(|i| (i * 37 + 11) as u8).collect();
        for cuts in all_chunkings(len, 4) {
            let ops: Vec<Op> = split_at_cuts(&payload, &cuts).into_iter().map(Op::Write).collect();
            for s in &scheds {
                let c = WCase { asyn, ctx: 3, max, ops: ops.clone(), sched: s.clone(), finish: true };
                let o = run_writer(&c);
                count += 1;
                let mut v = writer_oracle(&c, &o);
                if let Oracle::Holds = v { if let Some(f) = async_same_as_sync(&c, &o) { v = f; } }
                if let Oracle::Fails { class, detail } = v { if first_fail.is_none() { first_fail = Some((class, format!("{} [schedule {:?}]", detail, j_sched(s)))); } }
            }
        }
    }
    Case {
        coq: String::new(),
        desc: json!({"bucket": "writer-exhaustive-sweep(oracle only)", "kind": if asyn { "async-writer" } else { "sync-writer" }, "max": max,
                     "payload_lengths": format!("0..={}", max_len), "chunkings": "all with <= 4 chunks", "schedules": if asyn { format!("all of <= {} events over {{Pend,Rdy 1,Rdy 2,Rdy all}}", sched_len) } else { "always accepting".into() }, "runs": count}),
        key: format!("sweep|{}|{}", asyn, max),
        oracle: match first_fail { None => Oracle::Holds, Some((class, detail)) => Oracle::Fails { class, detail } },
    }
}

fn corpus() -> Vec<Case> {
    let mut out = vec![];
    let w = |asyn: bool, max: u32, sizes: &[usize], sched: Vec<Ev>, finish: bool| {
        let mut k = 0u8;
        let ops = sizes.iter().map(|&n| Op::Write((0..n).map(|_| { k = k.wrapping_add(7); k }).collect())).collect();
        WCase { asyn, ctx: 1, max, ops, sched, finish }
    };
    // DESIGN section 9 witness: the buffer becomes exactly full, then one more byte
    out.push(writer_case(&w(false, 1018, &[1012, 1], vec![], true), "corpus-exact-fill"));
    out.push(writer_case(&w(true, 1018, &[1012, 1], vec![], true), "corpus-exact-fill"));
    out.push(writer_case(&w(true, 1018, &[1012, 1], vec![Ev::Pend, Ev::Rdy(5), Ev::Pend, Ev::Pend, Ev::Rdy(1)], true), "corpus-exact-fill"));
    out.push(writer_case(&w(false, 7, &[1, 1, 1], vec![], true), "corpus-exact-fill"));
    out.push(writer_case(&w(true, 7, &[1, 1, 1], vec![Ev::Pend], true), "corpus-exact-fill"));
    out.push(writer_case(&w(false, 8, &[2, 2], vec![], true), "corpus-exact-fill"));
    out.push(writer_case(&w(false, 8, &[2], vec![], true), "corpus-exact-fill"));
    out.push(writer_case(&w(false, 8, &[], vec![], true), "corpus-empty"));
    out.push(writer_case(&w(true, 8, &[], vec![Ev::Pend], true), "corpus-empty"));
    out.push(writer_case(&w(false, 8, &[5], vec![], false), "corpus-drop"));
    out.push(writer_case(&w(true, 8, &[5], vec![Ev::Pend, Ev::Rdy(3)], false), "corpus-drop"));
    out.push(writer_case(&w(false, 6, &[1], vec![], true), "corpus-degenerate-max"));
    out.push(writer_case(&w(false, 5, &[1], vec![], true), "corpus-degenerate-max"));
    out.push(writer_case(&w(false, 5, &[], vec![], true), "corpus-degenerate-max"));
    out.push(writer_case(&w(false, 8, &[3, 3], vec![Ev::Rdy(4), Ev::Fail], true), "corpus-fault"));
    out.push(writer_case(&w(true, 8, &[3, 3], vec![Ev::Rdy(4), Ev::Rdy(0)], true), "corpus-fault"));
    out.push(writer_case(&w(false, 8, &[1], vec![Ev::Fail], true), "corpus-fault-in-finish"));
    let mut c = w(true, 8, &[3, 2], vec![Ev::Rdy(3), Ev::Pend, Ev::Pend, Ev::Pend], true);
    if let Op::Write(ch) = c.ops[0].clone() { c.ops[0] = Op::Cancel(ch, 2); }
    out.push(writer_case(&c, "corpus-cancel"));
    let mut c = w(true, 8, &[3], vec![Ev::Rdy(3), Ev::Pend, Ev::Pend, Ev::Pend], true);
    if let Op::Write(ch) = c.ops[0].clone() { c.ops[0] = Op::Cancel(ch, 2); }
    out.push(writer_case(&c, "corpus-cancel"));
    // reader: message, then a release request that must stay in the read buffer
    let payload: Vec<u8> = (0..30u8).collect();
    let msg = writer_stream(3, 16, &payload);
    let following = vec![5u8, 0, 0, 0, 0, 4, 0, 0, 0, 0];
    let mut stream = msg.clone(); stream.extend_from_slice(&following);
    for asyn in [false, true] {
        out.push(reader_case(&RCase { asyn, max: 1018, stream: stream.clone(), pre: vec![], sched: vec![], dflt: 8192, sizes: vec![7] }, Some((&payload, &following)), "corpus-reader"));
        out.push(reader_case(&RCase { asyn, max: 1018, stream: stream.clone(), pre: vec![], sched: vec![Ev::Pend, Ev::Rdy(1), Ev::Pend], dflt: 1, sizes: vec![64] }, Some((&payload, &following)), "corpus-reader"));
        // empty non-last value: read returns Ok(0) before the end of the message (model/impl comparison only)
        let mut s2 = pdu_bytes(&[(1, 0, vec![])]); s2.extend(pdu_bytes(&[(1, 2, vec![9, 9])]));
        out.push(reader_case(&RCase { asyn, max: 1018, stream: s2, pre: vec![], sched: vec![], dflt: 8192, sizes: vec![4] }, None, "corpus-reader-empty-value"));
        out.push(reader_case(&RCase { asyn, max: 1017, stream: stream.clone(), pre: vec![], sched: vec![], dflt: 8192, sizes: vec![4] }, None, "corpus-reader-bad-max"));
    }
    out
}

pub fn cases(ctx: &Ctx) -> Vec<Case> {
    let mut r = Rng::new(ctx.seed);
    let mut out = corpus();
    // exhaustive on the implementation (oracle only)
    let thorough = ctx.tier == Tier::Thorough;
    for &max in &[7u32, 8, 9] {
        out.push(sweep(false, max, if thorough { 9 } else { 7 }, 0));
        out.push(sweep(true, max, if thorough { 6 } else { 4 }, if thorough { 6 } else { 4 }));
    }
    while out.len() < ctx.n {
        let k = r.below(200);
        if k < 116 { let (c, b) = gen_writer(&mut r, 0); out.push(writer_case(&c, b)); }
        else if k < 122 { let (c, b) = gen_writer(&mut r, 1); out.push(writer_case(&c, b)); }
        else if k < 125 { let (c, b) = gen_writer(&mut r, 2); out.push(writer_case(&c, b)); }
        else { out.push(gen_reader(&mut r)); }
    }
    out
}
