//! Scripted transports: every call to the transport pops one event of the
//! script; when the script is exhausted the transport accepts/supplies
//! everything (writers) or `dflt` bytes per call (readers).
#![allow(dead_code)]
use std::collections::VecDeque;
use std::io::{self, Read, Write};
use std::pin::Pin;
use std::task::{Context, Poll};
use tokio::io::{AsyncRead, AsyncWrite, ReadBuf};
use vhc::*;

/// One transport event. For writers `Rdy(n)` accepts at most `n` bytes
/// (`Rdy(0)` is a zero-length write), for readers it supplies at most `n`.
#[derive(Clone, Copy, Debug, PartialEq, Eq)]
pub enum Ev { Rdy(usize), Pend, Fail }

pub fn c_ev(e: &Ev) -> String {
    match e { Ev::Rdy(n) => format!("Rdy {}", n), Ev::Pend => "Pend".into(), Ev::Fail => "Fail".into() }
}
pub fn c_sched(s: &[Ev]) -> String { c_list(s.iter().map(c_ev)) }
pub fn j_sched(s: &[Ev]) -> Vec<String> { s.iter().map(|e| match e { Ev::Rdy(n) => format!("R{}", n), Ev::Pend => "P".into(), Ev::Fail => "F".into() }).collect() }

/// error classes shared with the Coq models (Model/PData.v, Model/FailIo.v)
pub const E_WRITE_ZERO: u32 = 1;
pub const E_OTHER: u32 = 2;
pub const E_BROKEN_PIPE: u32 = 3;
pub const E_UNEXPECTED_EOF: u32 = 4;
pub const E_INJECTED: u32 = 5;
pub const E_UNKNOWN: u32 = 9;

pub fn io_class(e: &io::Error) -> u32 {
    match e.kind() {
        io::ErrorKind::WriteZero => E_WRITE_ZERO,
        io::ErrorKind::Other => E_OTHER,
        io::ErrorKind::BrokenPipe => E_BROKEN_PIPE,
        io::ErrorKind::UnexpectedEof => E_UNEXPECTED_EOF,
        io::ErrorKind::ConnectionReset => E_INJECTED,
        _ => E_UNKNOWN,
    }
}
pub fn injected() -> io::Error { io::Error::new(io::ErrorKind::ConnectionReset, "injected failure") }

// ------------------------------------------------------------------ writers
pub struct ScriptW { pub script: VecDeque<Ev>, pub wire: Vec<u8>, pub used: usize }
impl ScriptW {
    pub fn new(s: &[Ev]) -> Self { ScriptW { script: s.iter().copied().collect(), wire: vec![], used: 0 } }
}
impl Write for ScriptW {
    fn write(&mut self, buf: &[u8]) -> io::Result<usize> {
        match self.script.pop_front() {
            None => { self.wire.extend_from_slice(buf); Ok(buf.len()) }
            Some(ev) => {
                self.used += 1;
                match ev {
                    Ev::Rdy(n) => { let k = n.min(buf.len()); self.wire.extend_from_slice(&buf[..k]); Ok(k) }
                    // the blocking counterpart of "not ready": std's write_all retries
                    Ev::Pend => Err(io::Error::new(io::ErrorKind::Interrupted, "interrupted")),
                    Ev::Fail => Err(injected()),
                }
            }
        }
    }
    fn flush(&mut self) -> io::Result<()> { Ok(()) }
}
impl AsyncWrite for ScriptW {
    fn poll_write(mut self: Pin<&mut Self>, cx: &mut Context<'_>, buf: &[u8]) -> Poll<io::Result<usize>> {
        match self.script.pop_front() {
            None => { self.wire.extend_from_slice(buf); Poll::Ready(Ok(buf.len())) }
            Some(ev) => {
                self.used += 1;
                match ev {
                    Ev::Rdy(n) => { let k = n.min(buf.len()); self.wire.extend_from_slice(&buf[..k]); Poll::Ready(Ok(k)) }
                    Ev::Pend => { cx.waker().wake_by_ref(); Poll::Pending }
                    Ev::Fail => Poll::Ready(Err(injected())),
                }
            }
        }
    }
    fn poll_flush(self: Pin<&mut Self>, _cx: &mut Context<'_>) -> Poll<io::Result<()>> { Poll::Ready(Ok(())) }
    fn poll_shutdown(self: Pin<&mut Self>, _cx: &mut Context<'_>) -> Poll<io::Result<()>> { Poll::Ready(Ok(())) }
}

// ------------------------------------------------------------------ readers
pub struct ScriptR { pub script: VecDeque<Ev>, pub data: Vec<u8>, pub pos: usize, pub dflt: usize, pub used: usize }
impl ScriptR {
    pub fn new(s: &[Ev], data: &[u8], dflt: usize) -> Self {
        ScriptR { script: s.iter().copied().collect(), data: data.to_vec(), pos: 0, dflt, used: 0 }
    }
    fn supply(&mut self, n: usize, cap: usize) -> &[u8] {
        let k = n.min(cap).min(self.data.len() - self.pos);
        let s = &self.data[self.pos..self.pos + k];
        self.pos += k;
        s
    }
}
impl Read for ScriptR {
    fn read(&mut self, buf: &mut [u8]) -> io::Result<usize> {
        let ev = match self.script.pop_front() { None => Ev::Rdy(self.dflt), Some(e) => { self.used += 1; e } };
        match ev {
            Ev::Rdy(n) => { let cap = buf.len(); let s = self.supply(n, cap).to_vec(); buf[..s.len()].copy_from_slice(&s); Ok(s.len()) }
            Ev::Pend => Err(io::Error::new(io::ErrorKind::Interrupted, "interrupted")),
            Ev::Fail => Err(injected()),
        }
    }
}
impl AsyncRead for ScriptR {
    fn poll_read(mut self: Pin<&mut Self>, cx: &mut Context<'_>, buf: &mut ReadBuf<'_>) -> Poll<io::Result<()>> {
        let ev = match self.script.pop_front() { None => Ev::Rdy(self.dflt), Some(e) => { self.used += 1; e } };
        match ev {
            Ev::Rdy(n) => { let cap = buf.remaining(); let s = self.supply(n, cap).to_vec(); buf.put_slice(&s); Poll::Ready(Ok(())) }
            Ev::Pend => { cx.waker().wake_by_ref(); Poll::Pending }
            Ev::Fail => Poll::Ready(Err(injected())),
        }
    }
}

pub fn runtime() -> &'static tokio::runtime::Runtime {
    use std::sync::OnceLock;
    static RT: OnceLock<tokio::runtime::Runtime> = OnceLock::new();
    // AsyncPDataWriter's Drop uses block_in_place: a multi-thread runtime is required
    RT.get_or_init(|| tokio::runtime::Builder::new_multi_thread().worker_threads(1).build().unwrap())
}

/// Poll a future once with the task's real waker.
pub async fn poll_once<F: std::future::Future + Unpin>(f: &mut F) -> Poll<F::Output> {
    std::future::poll_fn(|cx| Poll::Ready(Pin::new(&mut *f).poll(cx))).await
}
