//! vh_pdata — P-DATA writers/reader over scripted transports (C26) and
//! fault-injecting sinks/sources for every public writer/reader (C34).
mod transport;
mod c26;
mod c34;
use vhc::*;

fn main() {
    run_main(
        |prop, ctx| match prop {
            "C26" => Some(c26::cases(ctx)),
            "C34" => Some(c34::cases(ctx)),
            _ => None,
        },
        |_prop, _out| false,
    );
}
