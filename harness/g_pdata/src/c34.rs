//! C34 — I/O failures are always reported.
//! Every public writer is run over a sink that accepts bytes (in chunks of a
//! given size) until a FAIL OFFSET is reached and from then on answers every
//! call with an error or a zero-length write; every reader over a source that
//! fails at an offset. The sweep over the offset is exhaustive for small
//! outputs. P-DATA writers are additionally driven over per-call fault
//! schedules (the C26 machinery).
use crate::c26::{self, Op, Res, WCase};
use crate::transport::*;
use bytes::BytesMut;
use dicom_core::value::{DataSetSequence, PixelFragmentSequence, Value};
use dicom_core::{DataElement, PrimitiveValue, Tag, VR};
use dicom_encoding::transfer_syntax::TransferSyntaxIndex;
use dicom_object::meta::FileMetaTableBuilder;
use dicom_object::{FileDicomObject, InMemDicomObject};
use dicom_transfer_syntax_registry::TransferSyntaxRegistry;
use dicom_ul::pdu::{AbortRQSource, AssociationRQ, PDataValue, PDataValueType, Pdu, PresentationContextProposed, UserVariableItem};
use serde_json::json;
use std::io::{self, Read, Write};
use vhc::*;

// ------------------------------------------------------------------ fault-injecting sink / source
#[derive(Clone, Copy, PartialEq, Eq, Debug)]
pub enum FKind { Error, Zero }

pub struct OffSink { pub chunk: usize, pub fail_at: Option<usize>, pub kind: FKind, pub recv: Vec<u8>, pub hits: usize, pub calls: Vec<usize> }
impl OffSink {
    pub fn new(chunk: usize, fail_at: Option<usize>, kind: FKind) -> Self { OffSink { chunk, fail_at, kind, recv: vec![], hits: 0, calls: vec![] } }
}
impl Write for OffSink {
    fn write(&mut self, buf: &[u8]) -> io::Result<usize> {
        if buf.is_empty() { return Ok(0); }
        self.calls.push(buf.len());
        let mut k = buf.len();
        if self.chunk > 0 { k = k.min(self.chunk); }
        if let Some(f) = self.fail_at {
            if self.recv.len() >= f {
                self.hits += 1;
                return match self.kind { FKind::Error => Err(injected()), FKind::Zero => Ok(0) };
            }
            k = k.min(f - self.recv.len());
        }
        self.recv.extend_from_slice(&buf[..k]);
        Ok(k)
    }
    fn flush(&mut self) -> io::Result<()> { Ok(()) }
}

/// `early_end`: from the fail offset on the source answers every call with a zero-length read
/// (the connection / file ends early) instead of an error.
pub struct OffSrc { pub data: Vec<u8>, pub pos: usize, pub chunk: usize, pub fail_at: Option<usize>, pub early_end: bool, pub hits: usize, pub eof_probes: usize }
impl OffSrc {
    pub fn new(data: &[u8], chunk: usize, fail_at: Option<usize>) -> Self { OffSrc { data: data.to_vec(), pos: 0, chunk, fail_at, early_end: false, hits: 0, eof_probes: 0 } }
}
impl tokio::io::AsyncRead for OffSrc {
    fn poll_read(mut self: std::pin::Pin<&mut Self>, _cx: &mut std::task::Context<'_>, buf: &mut tokio::io::ReadBuf<'_>) -> std::task::Poll<io::Result<()>> {
        let mut tmp = vec![0u8; buf.remaining()];
        std::task::Poll::Ready(Read::read(&mut *self, &mut tmp).map(|k| buf.put_slice(&tmp[..k])))
    }
}
impl Read for OffSrc {
    fn read(&mut self, buf: &mut [u8]) -> io::Result<usize> {
        if buf.is_empty() { return Ok(0); }
        if let Some(f) = self.fail_at { if self.pos >= f { self.hits += 1; return if self.early_end { Ok(0) } else { Err(injected()) }; } }
        let mut k = buf.len().min(self.data.len() - self.pos);
        if self.chunk > 0 { k = k.min(self.chunk); }
        if let Some(f) = self.fail_at { k = k.min(f - self.pos); }
        if k == 0 { self.eof_probes += 1; }
        buf[..k].copy_from_slice(&self.data[self.pos..self.pos + k]);
        self.pos += k;
        Ok(k)
    }
}

// ------------------------------------------------------------------ objects and operations
fn small_object(variant: u8) -> InMemDicomObject {
    let mut o = InMemDicomObject::new_empty();
    o.put(DataElement::new(Tag(0x0008, 0x0005), VR::CS, "ISO_IR 100"));
    o.put(DataElement::new(Tag(0x0008, 0x0060), VR::CS, "OT"));
    o.put(DataElement::new(Tag(0x0010, 0x0010), VR::PN, "Doe^John"));
    o.put(DataElement::new(Tag(0x0010, 0x0020), VR::LO, "ID1"));
    o.put(DataElement::new(Tag(0x0028, 0x0010), VR::US, PrimitiveValue::from(3u16)));
    if variant >= 1 {
        let mut item = InMemDicomObject::new_empty();
        item.put(DataElement::new(Tag(0x0008, 0x1150), VR::UI, "1.2.840.10008.5.1.4.1.1.7"));
        item.put(DataElement::new(Tag(0x0008, 0x1155), VR::UI, "1.2.3"));
        o.put(DataElement::new(Tag(0x0008, 0x1140), VR::SQ, Value::Sequence(DataSetSequence::from(vec![item]))));
    }
    match variant {
        2 => { o.put(DataElement::new(Tag(0x7FE0, 0x0010), VR::OB, Value::PixelSequence(PixelFragmentSequence::new(vec![0u32], vec![vec![1u8, 2, 3, 4], vec![5u8, 6]])))); }
        3 => { o.put(DataElement::new(Tag(0x7FE0, 0x0010), VR::OW, PrimitiveValue::U16((0..12000u16).collect()))); }
        _ => { o.put(DataElement::new(Tag(0x7FE0, 0x0010), VR::OB, PrimitiveValue::from(vec![9u8, 8, 7, 6, 5, 4, 3, 2, 1]))); }
    }
    o
}

fn file_object(variant: u8, ts_uid: &str) -> Option<FileDicomObject<InMemDicomObject>> {
    let meta = FileMetaTableBuilder::new().transfer_syntax(ts_uid)
        .media_storage_sop_class_uid("1.2.840.10008.5.1.4.1.1.7").media_storage_sop_instance_uid("1.2.3.4.5").build().ok()?;
    Some(small_object(variant).with_exact_meta(meta))
}

fn sample_pdus() -> Vec<(&'static str, Pdu)> {
    vec![
        ("A-ASSOCIATE-RQ", Pdu::AssociationRQ(AssociationRQ {
            protocol_version: 1, calling_ae_title: "SCU".into(), called_ae_title: "SCP".into(),
            application_context_name: "1.2.840.10008.3.1.1.1".into(),
            presentation_contexts: vec![PresentationContextProposed { id: 1, abstract_syntax: "1.2.840.10008.1.1".into(), transfer_syntaxes: vec!["1.2.840.10008.1.2".into(), "1.2.840.10008.1.2.1".into()] }],
            user_variables: vec![UserVariableItem::MaxLength(16378), UserVariableItem::ImplementationClassUID("1.2.3".into()), UserVariableItem::ImplementationVersionName("V".into())],
        })),
        ("P-DATA-TF", Pdu::PData { data: vec![
            PDataValue { presentation_context_id: 1, value_type: PDataValueType::Command, is_last: true, data: vec![1, 2, 3, 4, 5] },
            PDataValue { presentation_context_id: 1, value_type: PDataValueType::Data, is_last: false, data: (0..40u8).collect() }] }),
        ("A-RELEASE-RQ", Pdu::ReleaseRQ),
        ("A-RELEASE-RP", Pdu::ReleaseRP),
        ("A-ABORT", Pdu::AbortRQ { source: AbortRQSource::ServiceUser }),
    ]
}

/// a public write operation over the sink; returns Ok(()) / Err(()) as the operation reported
type WOp = Box<dyn Fn(&mut OffSink) -> Result<(), ()>>;

struct WEntry { name: String, bucket: &'static str, deflate: bool, op: WOp }

fn is_deflated(uid: &str) -> bool {
    matches!(uid.trim_end_matches('\0'), "1.2.840.10008.1.2.1.99" | "1.2.840.10008.1.2.4.95" | "1.2.840.10008.1.2.4.205")
}

fn write_ops(tier: Tier) -> Vec<WEntry> {
    let mut out: Vec<WEntry> = vec![];
    let base = ["1.2.840.10008.1.2", "1.2.840.10008.1.2.1", "1.2.840.10008.1.2.2", "1.2.840.10008.1.2.1.99"];
    let mut uids: Vec<String> = TransferSyntaxRegistry.iter().map(|t| t.uid().to_string()).collect();
    uids.sort();
    for uid in &uids {
        let variants: Vec<u8> = if base.contains(&uid.as_str()) { if tier == Tier::Thorough { vec![0, 1, 2, 3] } else { vec![0, 1, 2, 3] } } else { vec![1] };
        for v in variants {
            let (u1, u2, u3) = (uid.clone(), uid.clone(), uid.clone());
            let d = is_deflated(uid);
            out.push(WEntry { name: format!("dataset:write_dataset_with_ts:{}:obj{}", uid, v), bucket: if d { "dataset-deflated" } else { "dataset" }, deflate: d,
                op: Box::new(move |s| { let ts = TransferSyntaxRegistry.get(&u1).ok_or(())?; small_object(v).write_dataset_with_ts(s, ts).map_err(|_| ()) }) });
            if v <= 1 || base.contains(&uid.as_str()) {
                out.push(WEntry { name: format!("file:write_all:{}:obj{}", uid, v), bucket: if d { "file-deflated" } else { "file" }, deflate: d,
                    op: Box::new(move |s| { file_object(v, &u2).ok_or(())?.write_all(s).map_err(|_| ()) }) });
            }
            if v == 1 {
                out.push(WEntry { name: format!("file:write_dataset:{}:obj{}", uid, v), bucket: if d { "file-dataset-deflated" } else { "file-dataset" }, deflate: d,
                    op: Box::new(move |s| { file_object(v, &u3).ok_or(())?.write_dataset(s).map_err(|_| ()) }) });
            }
        }
    }
    out.push(WEntry { name: "file:write_meta".into(), bucket: "file-meta", deflate: false,
        op: Box::new(|s| file_object(0, "1.2.840.10008.1.2.1").ok_or(())?.write_meta(s).map_err(|_| ())) });
    for (name, pdu) in sample_pdus() {
        out.push(WEntry { name: format!("pdu:write_pdu:{}", name), bucket: "pdu", deflate: false,
            op: Box::new(move |s| dicom_ul::pdu::write_pdu(s, &pdu).map_err(|_| ())) });
    }
    out
}

#[derive(Clone, Copy, PartialEq, Eq, Debug)]
enum R3 { Ok, Err, Panic }
fn c_r3(r: R3) -> String { match r { R3::Ok => c_ok("tt"), R3::Err => c_err(E_INJECTED), R3::Panic => c_panic() } }

fn run_w(e: &WEntry, chunk: usize, fail_at: Option<usize>, kind: FKind) -> (R3, OffSink) {
    let mut s = OffSink::new(chunk, fail_at, kind);
    let r = catch(|| (e.op)(&mut s));
    (match r { None => R3::Panic, Some(Ok(())) => R3::Ok, Some(Err(())) => R3::Err }, s)
}

fn offsets(n: usize, r: &mut Rng, exhaustive_up_to: usize) -> Vec<usize> {
    if n <= exhaustive_up_to { return (0..=n).collect(); }
    let mut v: Vec<usize> = vec![0, 1, 2, 127, 128, 131, 132, n / 2, n - 3, n - 2, n - 1, n];
    for m in [8191usize, 8192, 8193, 16384, 32768] { if m < n { v.push(m); } }
    for _ in 0..24 { v.push(r.below(n as u64) as usize); }
    v.retain(|&f| f <= n);
    v.sort(); v.dedup();
    v
}

/// run-length encode the sizes of the write calls of the clean run
fn rle(v: &[usize]) -> Vec<(usize, usize)> {
    let mut out: Vec<(usize, usize)> = vec![];
    for &x in v { match out.last_mut() { Some((y, c)) if *y == x => *c += 1, _ => out.push((x, 1)) } }
    out
}

fn write_cases(ctx: &Ctx, r: &mut Rng) -> Vec<Case> {
    let mut out = vec![];
    let exh = if ctx.tier == Tier::Thorough { 3000 } else { 700 };
    for e in write_ops(ctx.tier) {
        let (r0, clean) = run_w(&e, 0, None, FKind::Error);
        if r0 != R3::Ok {
            // not writable in this configuration (no codec): nothing to inject
            continue;
        }
        let n = clean.recv.len();
        let trailer = if e.deflate { 2usize.min(n) } else { 0 };
        // (f, kind, chunk) -> observed
        let mut worst: Option<(String, String)> = None;      // failures outside the known class
        let mut known: Option<String> = None;                // failures inside the final deflate block
        let mut runs = 0u64;
        let mut sample: Vec<(usize, FKind, usize, R3, usize)> = vec![];
        let offs = offsets(n, r, exh);
        for &f in &offs {
            for kind in [FKind::Error, FKind::Zero] {
                for chunk in [0usize, 1, 7] {
                    if chunk == 1 && n > 4000 && f % 5 != 0 && f + 3 < n { continue; }
                    let (res, s) = run_w(&e, chunk, Some(f), kind);
                    runs += 1;
                    let prefix_ok = s.recv.len() <= n && s.recv[..] == clean.recv[..s.recv.len()];
                    let fail = if res == R3::Panic { Some(("PanicOnFault", format!("panicked"))) }
                        else if !prefix_ok { Some(("SinkContentDiffers", format!("sink received bytes that are not a prefix of the fault-free output"))) }
                        else if res == R3::Ok && s.hits > 0 { Some(("FaultUnreported", format!("sink reported {} fault(s) but the operation returned Ok", s.hits))) }
                        else if res == R3::Ok && s.recv.len() < n { Some(("OkIncomplete", format!("returned Ok with {} of {} bytes", s.recv.len(), n))) }
                        else if res == R3::Err && s.hits == 0 { Some(("SpuriousError", format!("returned an error although the sink never failed"))) }
                        else { None };
                    if let Some((class, d)) = fail {
                        let detail = format!("{}: fail offset {} of {} bytes, kind {:?}, chunk {}: {}", e.name, f, n, kind, chunk, d);
                        if e.deflate && f + trailer >= n && f < n && (class == "FaultUnreported" || class == "OkIncomplete") {
                            if known.is_none() { known = Some(detail); }
                        } else if worst.is_none() { worst = Some((class.to_string(), detail)); }
                    }
                    if n <= 1500 && sample.len() < 30 && (f <= 1 || f + 3 >= n || r.chance(1, (offs.len() as u64 * 6 / 16).max(1))) {
                        sample.push((f, kind, chunk, res, s.recv.len()));
                    }
                }
            }
        }
        let units = rle(&clean.calls);
        // the model comparison is restricted to small outputs (the model is quadratic); the oracle covers all
        let coq = if sample.is_empty() { String::new() } else { format!("CF {} {} {}", c_bool(e.deflate),
            c_list(units.iter().map(|(sz, c)| format!("({}, {})", sz, c))),
            c_list(sample.iter().map(|(f, k, c, res, got)| format!("({}, {}, {}, {}, {})", f, c_bool(*k == FKind::Zero), c, c_r3(*res), got)))) };
        let desc = json!({"bucket": e.bucket, "op": e.name, "bytes": n, "write_calls_clean": clean.calls.len(), "fail_offsets": offs.len(), "runs": runs,
                          "kinds": ["error", "zero-length write"], "chunks": ["all", 1, 7], "exhaustive": n <= exh});
        out.push(Case { coq, desc: desc.clone(), key: e.name.clone(),
            oracle: match worst { None => Oracle::Holds, Some((class, detail)) => Oracle::Fails { class, detail } } });
        if e.deflate {
            let mut d2 = desc.clone();
            d2["bucket"] = json!(format!("{}-final-block", e.bucket));
            out.push(Case { coq: String::new(), desc: d2, key: format!("{}|final-block", e.name),
                oracle: match known { None => Oracle::Holds, Some(detail) => Oracle::Fails { class: "DeflateFinalBlockAtDrop".into(), detail } } });
        }
    }
    // real OS failure: every write to /dev/full fails with ENOSPC
    if std::path::Path::new("/dev/full").exists() {
        for uid in ["1.2.840.10008.1.2.1", "1.2.840.10008.1.2.1.99"] {
            let res = catch(|| file_object(1, uid).unwrap().write_to_file("/dev/full"));
            let oracle = match res { None => Oracle::Fails { class: "PanicOnFault".into(), detail: "write_to_file(/dev/full) panicked".into() },
                Some(Ok(())) => Oracle::Fails { class: if is_deflated(uid) { "DeflateDevFull".into() } else { "FaultUnreported".into() }, detail: format!("write_to_file(/dev/full) with {} returned Ok", uid) },
                Some(Err(_)) => Oracle::Holds };
            out.push(Case { coq: String::new(), desc: json!({"bucket": "file-dev-full", "op": format!("file:write_to_file:/dev/full:{}", uid)}), key: format!("devfull|{}", uid), oracle });
        }
    }
    out
}

// ------------------------------------------------------------------ readers
type ROp = Box<dyn Fn(&mut OffSrc) -> Result<(), ()>>;
/// `ends_ok`: offsets at which the input read so far is itself a complete input (a DICOM data set carries no
/// overall length: it may end after any top-level element), so an early end there cannot be detected; the data set
/// reader also accepts an end inside the 4-byte tag of the next top-level element (documented leniency of
/// parser/src/dataset/read.rs: UnexpectedEof while reading an element tag = graceful end), offsets b+1..b+3.
struct REntry { name: String, bucket: &'static str, data: Vec<u8>, ends_ok: Vec<usize>, lenient: bool, op: ROp }

/// byte offsets of the top-level element boundaries of the data set of `small_object(v)` in `uid`
fn element_boundaries(v: u8, uid: &str) -> Vec<usize> {
    let ts = TransferSyntaxRegistry.get(uid).unwrap();
    let elems: Vec<_> = small_object(v).into_iter().collect();
    (0..=elems.len()).filter_map(|j| {
        let o = InMemDicomObject::from_element_iter(elems[..j].iter().cloned());
        let mut b = vec![];
        o.write_dataset_with_ts(&mut b, ts).ok().map(|_| b.len())
    }).collect()
}

fn read_ops() -> Vec<REntry> {
    let mut out = vec![];
    for uid in ["1.2.840.10008.1.2", "1.2.840.10008.1.2.1", "1.2.840.10008.1.2.2", "1.2.840.10008.1.2.1.99"] {
        let deflated = is_deflated(uid);
        for v in [1u8, 2, 3] {
            if v == 3 && uid != "1.2.840.10008.1.2.1" && uid != "1.2.840.10008.1.2.1.99" { continue; }
            let mut ds = vec![];
            let ts = TransferSyntaxRegistry.get(uid).unwrap();
            if small_object(v).write_dataset_with_ts(&mut ds, ts).is_err() { continue; }
            let mut bounds = if deflated { vec![] } else { element_boundaries(v, uid) };
            // inside an encapsulated pixel data sequence (the last element of variant 2) the data set reader accepts an
            // end at/inside any item header (documented leniency: "UnexpectedEof inside a PixelData Sequence = graceful end")
            if v == 2 && bounds.len() >= 2 { let start = bounds[bounds.len() - 2] + 8; let end = *bounds.last().unwrap(); bounds.extend(start..end); }
            let mut file = vec![];
            if file_object(v, uid).and_then(|f| f.write_all(&mut file).ok()).is_none() { continue; }
            let head = file.len().saturating_sub(ds.len());
            out.push(REntry { name: format!("file:from_reader:{}:obj{}", uid, v), bucket: "read-file", data: file,
                ends_ok: bounds.iter().map(|b| head + b).collect(), lenient: deflated,
                op: Box::new(|s| dicom_object::from_reader(s).map(|_| ()).map_err(|_| ())) });
            let u = uid.to_string();
            out.push(REntry { name: format!("dataset:read_dataset_with_ts:{}:obj{}", uid, v), bucket: "read-dataset", data: ds,
                ends_ok: bounds.clone(), lenient: deflated,
                op: Box::new(move |s| { let ts = TransferSyntaxRegistry.get(&u).unwrap(); InMemDicomObject::read_dataset_with_ts(s, ts).map(|_| ()).map_err(|_| ()) }) });
        }
    }
    for (name, pdu) in sample_pdus() {
        let mut b = vec![];
        dicom_ul::pdu::write_pdu(&mut b, &pdu).unwrap();
        out.push(REntry { name: format!("pdu:read_pdu_from_wire:{}", name), bucket: "read-pdu", data: b, ends_ok: vec![], lenient: false,
            op: Box::new(|s| { let mut rb = BytesMut::new(); dicom_ul::association::read_pdu_from_wire(s, &mut rb, 16378, true).map(|_| ()).map_err(|_| ()) }) });
    }
    for (wmax, len) in [(7u32, 5usize), (16, 37), (1018, 2100)] {
        let payload: Vec<u8> = (0..len).map(|i| (i * 7) as u8).collect();
        let mut b = vec![];
        { let mut w = dicom_ul::association::PDataWriter::verif_new(&mut b, 3, wmax); w.write_all(&payload).unwrap(); w.finish().unwrap(); }
        // the operation succeeds only if read_to_end succeeds: whether the data is complete is judged by the oracle
        out.push(REntry { name: format!("pdata:PDataReader::read_to_end:max{}:{}bytes", wmax, len), bucket: "read-pdata", data: b.clone(), ends_ok: vec![], lenient: false,
            op: Box::new(move |s| { let mut rb = BytesMut::new(); let mut r = dicom_ul::association::PDataReader::new(s, 16378, &mut rb); let mut v = vec![]; r.read_to_end(&mut v).map(|_| ()).map_err(|_| ()) }) });
        out.push(REntry { name: format!("pdata:PDataReader::read_to_end(async):max{}:{}bytes", wmax, len), bucket: "read-pdata-async", data: b, ends_ok: vec![], lenient: false,
            op: Box::new(move |s| { runtime().block_on(async { use tokio::io::AsyncReadExt; let mut rb = BytesMut::new(); let mut r = dicom_ul::association::PDataReader::new(s, 16378, &mut rb); let mut v = vec![]; AsyncReadExt::read_to_end(&mut r, &mut v).await.map(|_| ()).map_err(|_| ()) }) }) });
    }
    out
}

fn read_cases(ctx: &Ctx, r: &mut Rng) -> Vec<Case> {
    let mut out = vec![];
    let exh = if ctx.tier == Tier::Thorough { 3000 } else { 700 };
    for e in read_ops() {
        let run = |chunk: usize, fail_at: Option<usize>, early: bool| { let mut s = OffSrc::new(&e.data, chunk, fail_at); s.early_end = early; let r = catch(|| (e.op)(&mut s)); (match r { None => R3::Panic, Some(Ok(())) => R3::Ok, Some(Err(())) => R3::Err }, s) };
        let (r0, clean) = run(0, None, false);
        if r0 != R3::Ok { out.push(Case { coq: String::new(), desc: json!({"bucket": e.bucket, "op": e.name}), key: e.name.clone(), oracle: Oracle::Fails { class: "CleanReadFails".into(), detail: format!("{} fails on a fault-free source", e.name) } }); continue; }
        let n = e.data.len();
        let probes = clean.eof_probes > 0;
        let needed = clean.pos;
        let mut worst: Option<(String, String)> = None;
        let mut runs = 0u64;
        let mut sample: Vec<(usize, usize, bool, R3)> = vec![];
        let offs = offsets(n, r, exh);
        for &f in &offs {
            for early in [false, true] {
            for chunk in [0usize, 1, 7] {
                if chunk == 1 && n > 4000 && f % 5 != 0 && f + 3 < n { continue; }
                let (res, s) = run(chunk, Some(f), early);
                runs += 1;
                let fail = if res == R3::Panic { Some(("PanicOnFault", "panicked".to_string())) }
                    else if !early && res == R3::Ok && s.hits > 0 { Some(("FaultUnreported", format!("source reported {} fault(s) but the operation returned Ok", s.hits))) }
                    else if early && res == R3::Ok && f < needed && !e.lenient && !e.ends_ok.iter().any(|&b| b <= f && f < b + 4) { Some(("EarlyEndUnreported", format!("the source ended after {} of the {} bytes the operation needs, the operation returned Ok", f, needed))) }
                    else if res == R3::Err && s.hits == 0 { Some(("SpuriousError", "returned an error although the source never failed".to_string())) }
                    else { None };
                if let Some((class, d)) = fail { if worst.is_none() { worst = Some((class.to_string(), format!("{}: {} offset {} of {} bytes, chunk {}: {}", e.name, if early { "early end at" } else { "fail" }, f, n, chunk, d))); } }
                // at f = n the source fails only if the operation asks for more after the last byte: not part of the model;
                // early ends are compared with the model for the length-delimited inputs (PDUs, P-DATA streams)
                let modelled = !early || e.bucket == "read-pdu" || e.bucket == "read-pdata" || e.bucket == "read-pdata-async";
                if modelled && n <= 1500 && f < needed && sample.len() < 40 && (f <= 1 || f + 3 >= n || r.chance(1, (offs.len() as u64 * 6 / 20).max(1))) { sample.push((f, chunk, early, res)); }
            }
            }
        }
        let coq = if sample.is_empty() { String::new() } else { format!("CRd {} false {}", needed, c_list(sample.iter().map(|(f, c, early, res)| format!("({}, {}, {}, {})", f, c, c_bool(*early), c_r3(*res))))) };
        out.push(Case { coq, desc: json!({"bucket": e.bucket, "op": e.name, "bytes": n, "pulled_clean": needed, "probes_eof": probes, "fail_offsets": offs.len(), "runs": runs, "kinds": ["error", "early end (zero-length read)"], "chunks": ["all", 1, 7], "exhaustive": n <= exh}),
            key: e.name.clone(), oracle: match worst { None => Oracle::Holds, Some((class, detail)) => Oracle::Fails { class, detail } } });
    }
    out
}

// ------------------------------------------------------------------ P-DATA writers over per-call fault schedules
fn pdata_fault_case(c: &WCase, bucket: &str) -> Case {
    let o = c26::run_writer(c);
    // which fault events did the transport actually deliver?
    let faults_hit = c.sched.iter().take(o.used).filter(|e| matches!(e, Ev::Fail | Ev::Rdy(0))).count();
    let payload: Vec<u8> = c.ops.iter().flat_map(|op| match op { Op::Write(ch) | Op::Cancel(ch, _) => ch.clone() }).collect();
    let all_ok = o.results.iter().all(|r| *r == Res::Ok);
    let which = if c.asyn { "AsyncPDataWriter" } else { "PDataWriter" };
    let complete = || -> bool {
        match c26::parse_pdus(&o.wire) { Some(p) if !p.is_empty() => { let got: Vec<u8> = p.iter().flat_map(|(_, v)| v.iter().flat_map(|x| x.2.clone())).collect(); got == payload && p.last().map_or(false, |(_, v)| v.len() == 1 && v[0].1 == 2) } _ => false } };
    let oracle = if !c.finish || c.max <= 6 { Oracle::NotApplicable }
        else if o.results.contains(&Res::Panic) { Oracle::Fails { class: "PanicOnFault".into(), detail: format!("{} panicked (schedule {:?})", which, j_sched(&c.sched)) } }
        else if faults_hit > 0 && all_ok { Oracle::Fails { class: "FaultUnreported".into(), detail: format!("{}: transport reported {} fault(s), every write_all and finish returned Ok (schedule {:?})", which, faults_hit, j_sched(&c.sched)) } }
        else if all_ok && !complete() { Oracle::Fails { class: "OkIncomplete".into(), detail: format!("{}: every operation returned Ok but the wire does not hold the complete message", which) } }
        else if faults_hit == 0 && !all_ok { Oracle::Fails { class: "SpuriousError".into(), detail: format!("{}: an operation failed although the transport never did", which) } }
        else { Oracle::Holds };
    let c_res = |r: &Res| match r { Res::Ok => c_ok("tt"), Res::Err(k) => c_err(*k), Res::Panic => c_panic() };
    let c_op = |op: &Op| match op { Op::Write(ch) => format!("OpWrite {}", c_bytes(ch)), Op::Cancel(ch, k) => format!("OpCancel {} {}", c_bytes(ch), k) };
    let coq = format!("CP (CW ({}, {}, {}, {}, {}, {}) ({}, {}, {}))",
        c_bool(c.asyn), c.ctx, c.max, c_list(c.ops.iter().map(c_op)), c_sched(&c.sched), c_bool(c.finish),
        c_list(o.results.iter().map(c_res)), c_bytes(&o.wire), o.used);
    let sizes: Vec<usize> = c.ops.iter().map(|op| match op { Op::Write(ch) | Op::Cancel(ch, _) => ch.len() }).collect();
    Case { coq, desc: json!({"bucket": bucket, "op": which, "max": c.max, "chunk_sizes": sizes, "schedule": j_sched(&c.sched), "finish": c.finish,
                             "results": o.results.iter().map(|r| format!("{:?}", r)).collect::<Vec<_>>(), "faults_delivered": faults_hit, "wire_len": o.wire.len()}),
        key: format!("P{}|{}|{:?}|{:?}|{}", c.asyn, c.max, sizes, j_sched(&c.sched), c.finish), oracle }
}

fn pdata_cases(ctx: &Ctx, r: &mut Rng, budget: usize) -> Vec<Case> {
    let mut out = vec![];
    // exhaustive: max 8 (capacity 2), payload 0..5 in one or two chunks, one fault at every call index, both kinds, partial writes before it
    for asyn in [false, true] {
        let mut runs = 0u64;
        let mut worst: Option<(String, String)> = None;
        for len in 0..=5usize {
            for cut in 0..=len {
                let payload: Vec<u8> = (0..len).map(|i| 10 + i as u8).collect();
                let ops = vec![Op::Write(payload[..cut].to_vec()), Op::Write(payload[cut..].to_vec())];
                for pre in [Ev::Rdy(1 << 20), Ev::Rdy(1), Ev::Rdy(5), Ev::Pend] {
                    for at in 0..8usize {
                        for fault in [Ev::Fail, Ev::Rdy(0)] {
                            let mut sched = vec![pre; at];
                            sched.push(fault);
                            let c = WCase { asyn, ctx: 1, max: 8, ops: ops.clone(), sched, finish: true };
                            let k = pdata_fault_case(&c, "");
                            runs += 1;
                            if let Oracle::Fails { class, detail } = k.oracle { if worst.is_none() { worst = Some((class, detail)); } }
                        }
                    }
                }
            }
        }
        out.push(Case { coq: String::new(), desc: json!({"bucket": "pdata-exhaustive-sweep(oracle only)", "op": if asyn { "AsyncPDataWriter" } else { "PDataWriter" }, "runs": runs,
                        "rule": "max 8, payload 0..5 bytes in two chunks (every cut), one fault (error / zero-length) at every transport call index 0..7 after Rdy all / Rdy 1 / Rdy 5 / Pend events"}),
            key: format!("pdata-sweep|{}", asyn), oracle: match worst { None => Oracle::Holds, Some((class, detail)) => Oracle::Fails { class, detail } } });
    }
    let mut i = 0;
    while i < budget {
        let asyn = r.coin();
        let max = *r.pick(&[7u32, 8, 8, 9, 13, 13, 1018]);
        let cap = (max - 6) as usize;
        let len = if max > 100 { r.range(1000, 2100) as usize } else { r.below((4 * cap + 2) as u64) as usize };
        if max > 100 && !r.chance(1, 8) { continue; }
        let payload: Vec<u8> = (0..len).map(|_| r.below(256) as u8).collect();
        let ncuts = r.below(3) as usize;
        let mut cuts: Vec<usize> = (0..ncuts).map(|_| r.below(len as u64 + 1) as usize).collect();
        cuts.sort();
        let mut ops = vec![]; let mut prev = 0;
        for c in cuts { ops.push(Op::Write(payload[prev..c].to_vec())); prev = c; }
        ops.push(Op::Write(payload[prev..].to_vec()));
        // a schedule with exactly one fault somewhere
        let n_before = r.below(7) as usize;
        let mut sched: Vec<Ev> = (0..n_before).map(|_| match r.below(5) { 0 => Ev::Pend, 1 => Ev::Rdy(1), 2 => Ev::Rdy(r.range(1, 14) as usize), 3 => Ev::Rdy(cap + 12), _ => Ev::Rdy(1 << 20) }).collect();
        if !asyn { sched.retain(|e| !matches!(e, Ev::Pend) || r.coin()); }
        sched.push(if r.coin() { Ev::Fail } else { Ev::Rdy(0) });
        let c = WCase { asyn, ctx: *r.pick(&[1u8, 3, 255]), max, ops, sched, finish: true };
        out.push(pdata_fault_case(&c, if asyn { "pdata-async-fault" } else { "pdata-sync-fault" }));
        i += 1;
    }
    let _ = ctx;
    out
}

pub fn cases(ctx: &Ctx) -> Vec<Case> {
    let mut r = Rng::new(ctx.seed);
    let mut out = write_cases(ctx, &mut r);
    out.extend(read_cases(ctx, &mut r));
    let left = ctx.n.saturating_sub(out.len());
    out.extend(pdata_cases(ctx, &mut r, left));
    out
}
