//! C02 — reading a canonical stream (from the independent PS3.5 encoder) and writing it back
//! with recorded lengths kept reproduces it byte for byte; with all lengths undefined the
//! default writer does too.
use crate::ds::*;
use crate::gen::*;
use serde_json::json;
use std::collections::BTreeMap;
use vhc::*;

pub fn cases(ctx: &Ctx) -> Vec<Case> {
    let mut r = Rng::new(ctx.seed ^ 0xC02);
    let pools = build_pools();
    let mut out = vec![];
    // streams with explicit lengths are only required to be reproduced when lengths are kept (NoChange)
    let mut todo: Vec<Scenario> = corpus().into_iter().filter(|s| s.ts < 3).map(|mut s| { if has_explicit(&s.elems) { s.nochange = true; } s }).collect();
    let mut idx = 0usize;
    loop {
        for s in todo.drain(..) { if out.len() < ctx.n.max(40) { out.push(case_of(&s)); } }
        if out.len() >= ctx.n { break }
        let mut s = gen_scenario(&mut r, &pools, idx, true); idx += 1;
        s.ts = idx % 3;
        // regenerate for the right encoding (implicit needs dictionary-consistent tags)
        let o = GenOpts { implicit: s.ts == 0, allow_explicit_len: r.chance(3, 5), big_values: r.chance(1, 10), canonical_only: true };
        s.elems = gen_elems(&mut r, &pools, o, 0, true);
        s.nochange = !(idx % 4 == 0 && !has_explicit(&s.elems));   // all-undefined inputs also go through the default writer
        todo.push(s);
    }
    out
}

fn canonical(elems: &[GElem]) -> bool {
    // canonical streams: even fragments, no zero-length fragments lost, natural representations
    !fn_any(elems, &|e| matches!(&e.val, GVal::Pix { frags, .. } if frags.iter().any(|f| f.len() % 2 == 1)))
}

fn case_of(s: &Scenario) -> Case {
    let c = codec_of_ts(s.ts);
    let all_undef = !has_explicit(&s.elems);
    let b0 = ps35_encode_elems(c, &s.elems, LenMode::AsFlagged);
    let bucket = format!("{}-{}-{}-d{}", TS_NAMES[s.ts], if s.nochange { "nochange" } else { "default" }, if all_undef { "undef" } else { "explicit" }, max_depth(&s.elems));
    let desc = json!({"bucket": bucket, "ts": TS_NAMES[s.ts], "nochange": s.nochange, "stream": hex(&b0).chars().take(800).collect::<String>()});
    let key = if s.elems.is_empty() { String::new() } else { format!("{}-{}-{}", s.ts, s.nochange, hex(&b0)) };
    let rd = impl_read(&b0, s.ts);
    let mut tags = BTreeMap::new();
    let (coq_rd, oracle, coq2) = match &rd {
        None => (c_panic(), Oracle::Fails { class: "read-panic".into(), detail: "reader panicked on a canonical stream".into() }, String::new()),
        Some(Err(e)) => (c_err(*e), Oracle::Fails { class: "canonical-stream-unreadable".into(), detail: format!("class {e}: {}", hex(&b0).chars().take(400).collect::<String>()) }, String::new()),
        Some(Ok(o)) => {
            collect_tags(o, &mut tags);
            let run = run_ds(o, s.ts, s.nochange, true);
            let oracle = if !canonical(&s.elems) { Oracle::NotApplicable } else { match &run.raw {
                Some(Ok(b)) if *b == b0 => Oracle::Holds,
                Some(Ok(b)) => { let k = b.iter().zip(b0.iter()).position(|(x, y)| x != y).unwrap_or(b.len().min(b0.len()));
                    Oracle::Fails { class: classify(s), detail: format!("rewritten stream differs at offset {k} (lengths {} vs {}): got ..{} want ..{}", b.len(), b0.len(), hex(&b[k.saturating_sub(8)..(k + 8).min(b.len())]), hex(&b0[k.saturating_sub(8)..(k + 8).min(b0.len())])) } }
                other => Oracle::Fails { class: "rewrite-failed".into(), detail: format!("{:?}", other.as_ref().map(|r| r.as_ref().err())) },
            } };
            (c_ok(&c_obj(o)), oracle, coq_of_run(&run, s.ts, s.nochange, false))
        }
    };
    // two model comparisons in one case: reading the canonical stream, then the rewrite of what was read
    let rdcase = format!("(RdCase {} {} {} {})", c as u32, c_dict(&{ let mut t = tags.clone(); for e in &s.elems { t.insert((e.g, e.e), ()); } all_tags(&s.elems, &mut t); t }), cb(&b0), coq_rd);
    let coq = if coq2.is_empty() { format!("({}, None)", rdcase) } else { format!("({}, Some {})", rdcase, coq2) };
    Case { coq, desc, key, oracle }
}
fn all_tags(elems: &[GElem], t: &mut BTreeMap<(u16, u16), ()>) { for e in elems { t.insert((e.g, e.e), ()); if let GVal::Seq { items, .. } = &e.val { for i in items { all_tags(&i.elems, t) } } } }
fn classify(s: &Scenario) -> String {
    if fn_any(&s.elems, &|e| matches!(&e.val, GVal::Pix { frags, .. } if frags.iter().any(|f| f.is_empty()))) { "empty-pixel-fragment-dropped".into() } else { "rewrite-differs".into() }
}
