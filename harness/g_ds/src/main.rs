//! vh_ds — properties of the data-set layer (headers, value encoding, writer, reader).
mod vrs;
mod c03;
mod gen;
mod ds;
mod c01;
mod c02;
mod c04;
use vhc::*;

fn main() {
    run_main(
        |prop, ctx| match prop {
            "C03" => Some(c03::cases(ctx)),
            "C01" => Some(c01::cases(ctx)),
            "C02" => Some(c02::cases(ctx)),
            "C04" => Some(c04::cases(ctx)),
            _ => None,
        },
        |prop, out| match prop {
            "C03" => { c03::tables(out); true }
            _ => false,
        },
    );
}
