//! vh_ds — properties of the data-set layer (headers, value encoding, writer, reader).
mod vrs;
mod c03;
use vhc::*;

fn main() {
    run_main(
        |prop, ctx| match prop {
            "C03" => Some(c03::cases(ctx)),
            _ => None,
        },
        |prop, out| match prop {
            "C03" => { c03::tables(out); true }
            _ => false,
        },
    );
}
