//! vh_ds — properties of the data-set layer (headers, value encoding, writer, reader).
mod vrs;
mod c03;
mod gen;
mod ds;
mod c01;
mod c02;
mod c04;
mod file;
use vhc::*;

fn main() {
    if std::env::var("VH_DEBUG").is_ok() {
        // debugging aid: run a generator with the default panic hook (run_main silences it)
        let ctx = Ctx { seed: 1, n: 1200, tier: Tier::Quick };
        let n = match std::env::var("VH_DEBUG").unwrap().as_str() { "C02" => c02::cases(&ctx).len(), "C04" => c04::cases(&ctx).len(), _ => c01::cases(&ctx).len() };
        println!("ok {n}");
        return;
    }
    run_main(
        |prop, ctx| match prop {
            "C03" => Some(c03::cases(ctx)),
            "C01" => Some(c01::cases(ctx)),
            "C02" => Some(c02::cases(ctx)),
            "C04" => Some(c04::cases(ctx)),
            _ => None,
        },
        |prop, out| match prop {
            "C03" => { c03::tables(out); true }
            "C04" => { c04::tables(out); true }
            _ => false,
        },
    );
}
