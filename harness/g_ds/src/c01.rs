//! C01 — data set write-then-read round trip (4 transfer syntaxes x 2 strategies).
use crate::ds::*;
use crate::gen::*;
use vhc::*;

pub fn cases(ctx: &Ctx) -> Vec<Case> {
    let mut r = Rng::new(ctx.seed);
    let pools = build_pools();
    let mut out = vec![];
    for s in corpus() { out.push(case_of(&s)); }
    let mut idx = 0usize;
    while out.len() < ctx.n { let s = gen_scenario(&mut r, &pools, idx, false); idx += 1; out.push(case_of(&s)); }
    out
}
fn case_of(s: &Scenario) -> Case {
    let v = evaluate(s);
    Case { coq: v.coq, desc: v.desc, key: if s.elems.is_empty() { String::new() } else { v.key }, oracle: v.c01 }
}
