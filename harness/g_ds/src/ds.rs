//! C01 / C02 / C04 at the data-set level: run the real token generator, writer and reader on
//! generated data sets, print the Coq cases, evaluate the oracles.
use crate::gen::*;
use crate::vrs::*;
use dicom_object::InMemDicomObject;
use dicom_parser::dataset::write::{DataSetWriterOptions, ExplicitLengthSqItemStrategy};
use dicom_parser::dataset::{DataToken, IntoTokens};
use dicom_transfer_syntax_registry::{TransferSyntaxIndex, TransferSyntaxRegistry};
use serde_json::json;
use std::collections::BTreeMap;
use std::io::Read;
use vhc::*;

pub const TS_UIDS: [&str; 4] = ["1.2.840.10008.1.2", "1.2.840.10008.1.2.1", "1.2.840.10008.1.2.2", "1.2.840.10008.1.2.1.99"];
pub const TS_NAMES: [&str; 4] = ["ILE", "ELE", "EBE", "DEFL"];
pub fn codec_of_ts(ts: usize) -> Codec { match ts { 0 => Codec::Ile, 2 => Codec::Ebe, _ => Codec::Ele } }

fn werr(e: &dyn std::fmt::Debug) -> u32 {
    let s = format!("{:?}", e);
    if s.contains("WriteHeaderTooLong") { 1 } else if s.contains("EncodeText") { 2 } else if s.contains("UnexpectedToken") { 3 } else { 9 }
}
fn rerr(e: &dicom_object::ReadError) -> u32 {
    let s = format!("{:?}", e);
    if s.starts_with("UnexpectedToken") { 41 } else if s.starts_with("MissingElementValue") { 42 } else if s.starts_with("PrematureEnd") { 43 } else { 40 }
}

pub fn impl_tokens(obj: &Obj) -> (Vec<DataToken>, bool) {
    let mut out = vec![];
    let mut it = obj.into_tokens();
    loop {
        match catch(|| it.next()) {
            None => return (out, true),
            Some(None) => return (out, false),
            Some(Some(t)) => out.push(t),
        }
        if out.len() > 100000 { return (out, false) }
    }
}

/// write through the public API; `api` selects the entry point for the default strategy
pub fn impl_write(obj: &Obj, ts: usize, nochange: bool, api_options: bool) -> Option<Result<Vec<u8>, u32>> {
    let tsx = TransferSyntaxRegistry.get(TS_UIDS[ts]).expect("transfer syntax registered");
    catch(|| {
        let mut out: Vec<u8> = vec![];
        let r = if nochange {
            obj.write_dataset_with_ts_options(&mut out, tsx, DataSetWriterOptions::default().explicit_length_sq_item_strategy(ExplicitLengthSqItemStrategy::NoChange)).map_err(|e| werr(&e))
        } else if api_options {
            obj.write_dataset_with_ts_options(&mut out, tsx, DataSetWriterOptions::default()).map_err(|e| werr(&e))
        } else {
            obj.write_dataset_with_ts(&mut out, tsx).map_err(|e| werr(&e))
        };
        r.map(|_| out)
    })
}
pub fn impl_read(bytes: &[u8], ts: usize) -> Option<Result<Obj, u32>> {
    let tsx = TransferSyntaxRegistry.get(TS_UIDS[ts]).expect("transfer syntax registered");
    catch(|| InMemDicomObject::read_dataset_with_ts(bytes, tsx).map_err(|e| rerr(&e)))
}
pub fn inflate(b: &[u8]) -> Option<Vec<u8>> {
    let mut out = vec![];
    flate2::read::DeflateDecoder::new(b).read_to_end(&mut out).ok().map(|_| out)
}

pub struct DsRun {
    pub obj_coq: String, pub dict_coq: String, pub tokens: Vec<DataToken>, pub tok_panic: bool,
    pub wire: Option<Result<Vec<u8>, u32>>,       // what was written, inflated when the TS is deflated
    pub raw: Option<Result<Vec<u8>, u32>>,        // what was written, as is
    pub back: Option<Option<Result<Obj, u32>>>,   // read-back of `raw` with the same TS
    pub inflate_failed: bool,
}

pub fn run_ds(obj: &Obj, ts: usize, nochange: bool, api_options: bool) -> DsRun {
    let (tokens, tok_panic) = impl_tokens(obj);
    let raw = impl_write(obj, ts, nochange, api_options);
    let mut inflate_failed = false;
    let wire = match &raw {
        Some(Ok(b)) if ts == 3 => match inflate(b) { Some(x) => Some(Ok(x)), None => { inflate_failed = true; Some(Ok(b.clone())) } },
        other => other.clone(),
    };
    let back = match &raw { Some(Ok(b)) => Some(impl_read(b, ts)), _ => None };
    let mut tags = BTreeMap::new();
    collect_tags(obj, &mut tags);
    if let Some(Some(Ok(o))) = &back { collect_tags(o, &mut tags); }
    DsRun { obj_coq: c_obj(obj), dict_coq: c_dict(&tags), tokens, tok_panic, wire, raw, back, inflate_failed }
}

pub fn coq_of_run(r: &DsRun, ts: usize, nochange: bool, inv: bool) -> String {
    let c = codec_of_ts(ts) as u32;
    let wr = match &r.wire { None => c_panic(), Some(Ok(b)) => c_ok(&cb(b)), Some(Err(e)) => c_err(*e) };
    let rd = match &r.back { None => "None".to_string(), Some(None) => format!("(Some {})", c_panic()), Some(Some(Ok(o))) => format!("(Some {})", c_ok(&c_obj(o))), Some(Some(Err(e))) => format!("(Some {})", c_err(*e)) };
    format!("(DsCase {} {} {} {} {} {} {} {} {})", c, c_bool(nochange), c_bool(inv), r.dict_coq, r.obj_coq,
        c_list(r.tokens.iter().map(c_token)), c_bool(r.tok_panic), wr, rd)
}

/// one generated scenario
pub struct Scenario { pub elems: Vec<GElem>, pub ts: usize, pub nochange: bool, pub api_options: bool, pub via_put: bool, pub bucket: String }

pub fn gen_scenario(r: &mut Rng, pools: &Pools, idx: usize, canonical_only: bool) -> Scenario {
    let ts = idx % 4;
    let nochange = (idx / 4) % 2 == 1;
    let o = GenOpts { implicit: ts == 0, allow_explicit_len: r.chance(2, 5), big_values: r.chance(1, 10), canonical_only };
    let elems = gen_elems(r, pools, o, 0, true);
    let via_put = !canonical_only && r.chance(1, 12);
    let bucket = format!("{}-{}-{}-d{}{}", TS_NAMES[ts], if nochange { "nochange" } else { "setundef" }, if has_explicit(&elems) { "explicit" } else { "undef" }, max_depth(&elems),
        if elems.iter().any(|e| matches!(e.val, GVal::Pix { .. })) { "-pix" } else { "" });
    Scenario { elems, ts, nochange, api_options: r.coin(), via_put, bucket }
}

/// the object under test: built directly, or (explicit lengths can only be recorded by reading) read
/// from the stream produced by the independent PS3.5 encoder in the target encoding
pub fn object_for(s: &Scenario) -> Result<Obj, String> {
    if has_explicit(&s.elems) {
        let c = codec_of_ts(s.ts);
        let b0 = ps35_encode_elems(c, &s.elems, LenMode::AsFlagged);
        let ts_read = if s.ts == 3 { 1 } else { s.ts };
        match impl_read(&b0, ts_read) { Some(Ok(o)) => Ok(o), other => Err(format!("reading the reference stream failed: {:?}", other.map(|r| r.err()))) }
    } else { Ok(build_obj(&s.elems, s.via_put)) }
}

pub struct Verdicts { pub c01: Oracle, pub c04: Oracle, pub coq: String, pub desc: serde_json::Value, pub key: String }

pub fn evaluate(s: &Scenario) -> Verdicts {
    let c = codec_of_ts(s.ts);
    let desc = json!({"bucket": s.bucket, "ts": TS_NAMES[s.ts], "nochange": s.nochange, "api_options": s.api_options, "via_put": s.via_put,
        "n_elems": count_elems(&s.elems), "reference_stream": hex(&ps35_encode_elems(c, &s.elems, LenMode::AsFlagged)).chars().take(600).collect::<String>()});
    let key = format!("{}-{}-{}", s.ts, s.nochange, hex(&ps35_encode_elems(c, &s.elems, LenMode::AsFlagged)));
    let obj = match object_for(s) {
        Ok(o) => o,
        Err(e) => return Verdicts { c01: Oracle::Fails { class: "reference-stream-unreadable".into(), detail: e.clone() }, c04: Oracle::NotApplicable, coq: String::new(), desc, key },
    };
    // charset_changed is only set when the object was really built through put() (objects with recorded lengths are read)
    let inv = s.via_put && !has_explicit(&s.elems) && s.elems.iter().any(|e| (e.g, e.e) == (0x0008, 0x0005));
    let run = run_ds(&obj, s.ts, s.nochange, s.api_options);
    let coq = coq_of_run(&run, s.ts, s.nochange, inv);
    // ---- C01: writing succeeds, read-back equals the data set up to the documented normalisations
    let want = canon_expected(&s.elems);
    let c01 = match (&run.raw, &run.back) {
        (None, _) => Oracle::Fails { class: "write-panic".into(), detail: "writer panicked".into() },
        (Some(Err(e)), _) => Oracle::Fails { class: "write-error".into(), detail: format!("write failed with class {e}") },
        (Some(Ok(_)), Some(None)) => Oracle::Fails { class: "read-panic".into(), detail: "reader panicked".into() },
        (Some(Ok(b)), Some(Some(Err(e)))) => Oracle::Fails { class: if s.ts == 3 && run.inflate_failed { "deflate-not-applied".into() } else { "readback-error".into() }, detail: format!("read-back failed with class {e}; bytes {}", hex(b).chars().take(400).collect::<String>()) },
        (Some(Ok(_)), Some(Some(Ok(o)))) => {
            let got = canon_obj(o);
            if got == want { Oracle::Holds } else {
                let k = got.iter().zip(want.iter()).position(|(a, b)| a != b).unwrap_or(got.len().min(want.len()));
                Oracle::Fails { class: classify_mismatch(s), detail: format!("read-back differs at entry {k}: got {:?} want {:?}", got.get(k), want.get(k)) } }
        }
        _ => Oracle::Fails { class: "write-error".into(), detail: "no result".into() },
    };
    // ---- C04: the bytes are structurally valid per the independent parser and equal the PS3.5 encoding
    let c04 = match &run.wire {
        Some(Ok(b)) if !(s.ts == 3 && run.inflate_failed) => {
            let mut sq = vec![]; sq_tags(&s.elems, &mut sq);
            let is_sq = |g: u16, e: u16| sq.contains(&(g, e));
            let v = Validator { c, b, is_sq: &is_sq };
            match v.validate() {
                Err(m) => Oracle::Fails { class: format!("invalid-structure{}", if s.nochange { "" } else { "-setundefined" }), detail: format!("{m}; bytes {}", hex(b).chars().take(400).collect::<String>()) },
                Ok(()) => {
                    let mode = if s.nochange && has_explicit(&s.elems) { LenMode::AsFlagged } else { LenMode::AllUndefined };
                    let want_b = ps35_encode_elems(c, &s.elems, mode);
                    if *b == want_b { Oracle::Holds } else {
                        let k = b.iter().zip(want_b.iter()).position(|(x, y)| x != y).unwrap_or(b.len().min(want_b.len()));
                        Oracle::Fails { class: "bytes-differ-from-ps35-encoding".into(), detail: format!("first difference at offset {k}: got ..{} want ..{}", hex(&b[k.saturating_sub(8)..(k + 8).min(b.len())]), hex(&want_b[k.saturating_sub(8)..(k + 8).min(want_b.len())])) } }
                }
            }
        }
        Some(Ok(_)) => Oracle::Fails { class: "deflate-not-applied".into(), detail: "output of the deflated transfer syntax is not a deflate stream".into() },
        _ => Oracle::NotApplicable,
    };
    Verdicts { c01, c04, coq, desc, key }
}

fn classify_mismatch(s: &Scenario) -> String {
    let has_empty_frag = fn_any(&s.elems, &|e| matches!(&e.val, GVal::Pix { frags, .. } if frags.iter().any(|f| f.is_empty())));
    if has_empty_frag { "empty-pixel-fragment-dropped".into() } else { "readback-differs".into() }
}
pub fn fn_any(elems: &[GElem], f: &dyn Fn(&GElem) -> bool) -> bool {
    elems.iter().any(|e| f(e) || match &e.val { GVal::Seq { items, .. } => items.iter().any(|i| fn_any(&i.elems, f)), _ => false })
}

// ------------------------------------------------------------------ fixed corpus (boundary cases, witnesses)
pub fn corpus() -> Vec<Scenario> {
    let mut v = vec![];
    let lo = |n: usize| GElem { g: 0x0008, e: 0x0080, vr: vr_idx("LO"), val: GVal::Text(vec!["A".repeat(n)]), repr: Repr::Natural };
    let pn = GElem { g: 0x0010, e: 0x0010, vr: vr_idx("PN"), val: GVal::Text(vec!["Doe^John".into()]), repr: Repr::Natural };
    let us = GElem { g: 0x0028, e: 0x0010, vr: vr_idx("US"), val: GVal::W16(vec![512], false), repr: Repr::Natural };
    let seq = |g: u16, e: u16, explicit: bool, items: Vec<GItem>| GElem { g, e, vr: vr_idx("SQ"), val: GVal::Seq { explicit, items }, repr: Repr::Natural };
    let pix = |frags: Vec<Vec<u8>>, ot: Vec<u32>| GElem { g: 0x7FE0, e: 0x0010, vr: vr_idx("OB"), val: GVal::Pix { ot, frags }, repr: Repr::Natural };
    // 16-bit length boundary of a text value in the explicit syntaxes: 0xFFFD (padded to 0xFFFE) and 0xFFFE fit
    for (ts, n) in [(1usize, 0xFFFDusize), (2, 0xFFFE)] { v.push(Scenario { elems: vec![lo(n)], ts, nochange: false, api_options: false, via_put: false, bucket: format!("corpus-len16-{:#x}", n) }); }
    // deflated through both entry points
    for api in [false, true] { v.push(Scenario { elems: vec![pn.clone(), us.clone()], ts: 3, nochange: false, api_options: api, via_put: false, bucket: format!("corpus-deflate-api{}", api as u8) }); }
    v.push(Scenario { elems: vec![pn.clone(), us.clone()], ts: 3, nochange: true, api_options: true, via_put: false, bucket: "corpus-deflate-nochange".into() });
    // nesting: empty sequence, empty item, explicit lengths of zero
    for ts in 0..3 { for nochange in [false, true] {
        v.push(Scenario { elems: vec![seq(0x0008, 0x1140, true, vec![]), seq(0x0040, 0x0275, true, vec![GItem { explicit: true, elems: vec![] }, GItem { explicit: false, elems: vec![] }])], ts, nochange, api_options: true, via_put: false, bucket: "corpus-empty-seq-items".into() });
        v.push(Scenario { elems: vec![seq(0x0008, 0x1140, true, vec![GItem { explicit: true, elems: vec![pn.clone(), seq(0x0040, 0x0275, true, vec![GItem { explicit: true, elems: vec![us.clone()] }])] }]), us.clone()], ts, nochange, api_options: true, via_put: false, bucket: "corpus-explicit-cascade".into() });
    } }
    // pixel fragment sequences: empty / non-empty offset table, no fragments, zero-length fragment
    for ts in 1..3 {
        v.push(Scenario { elems: vec![pix(vec![vec![1, 2, 3, 4]], vec![])], ts, nochange: false, api_options: false, via_put: false, bucket: "corpus-pix-emptybot".into() });
        v.push(Scenario { elems: vec![pix(vec![vec![1, 2], vec![3, 4, 5, 6]], vec![0, 10])], ts, nochange: true, api_options: true, via_put: false, bucket: "corpus-pix-bot".into() });
        v.push(Scenario { elems: vec![pix(vec![], vec![])], ts, nochange: false, api_options: false, via_put: false, bucket: "corpus-pix-nofrag".into() });
        v.push(Scenario { elems: vec![pix(vec![vec![], vec![1, 2]], vec![])], ts, nochange: false, api_options: false, via_put: false, bucket: "corpus-pix-emptyfrag".into() });
    }
    // an item with explicit length after an item holding encapsulated pixel data (writer state across the pixel sequence)
    for nochange in [false, true] {
        v.push(Scenario { elems: vec![seq(0x0088, 0x0200, false, vec![
            GItem { explicit: false, elems: vec![pix(vec![vec![1, 2]], vec![])] },
            GItem { explicit: true, elems: vec![seq(0x0040, 0x0275, true, vec![GItem { explicit: true, elems: vec![us.clone()] }])] }])],
            ts: 1, nochange, api_options: true, via_put: false, bucket: "corpus-item-after-pixel-item".into() });
    }
    v
}
