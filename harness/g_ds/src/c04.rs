//! C04 — structurally valid output, exact lengths and padding, exact byte counts.
use crate::ds::*;
use crate::gen::*;
use crate::vrs::*;
use dicom_core::chrono::FixedOffset;
use dicom_core::value::{DicomDate, DicomDateTime, DicomTime, DicomValueType};
use dicom_core::{DataElementHeader, Length, PrimitiveValue, Tag};
use dicom_encoding::encode::basic::{BigEndianBasicEncoder, LittleEndianBasicEncoder};
use dicom_encoding::encode::explicit_be::ExplicitVRBigEndianEncoder;
use dicom_encoding::encode::explicit_le::ExplicitVRLittleEndianEncoder;
use dicom_encoding::encode::implicit_le::ImplicitVRLittleEndianEncoder;
use dicom_encoding::encode::{BasicEncode, EncoderFor};
use dicom_encoding::text::SpecificCharacterSet;
use dicom_parser::stateful::encode::StatefulEncoder;
use serde_json::json;
use vhc::*;

pub fn cases(ctx: &Ctx) -> Vec<Case> {
    let mut r = Rng::new(ctx.seed ^ 0xC04);
    let pools = build_pools();
    let mut out = vec![];
    for p in prim_corpus() { out.push(prim_case(Codec::Ele, &p)); out.push(prim_case(Codec::Ebe, &p)); }
    for s in corpus() { out.push(ds_case(&s)); }
    // whole files: one per registered transfer syntax first (every row of Gen/GenTsWrite.v is exercised)
    for f in crate::file::corpus_files(&pools) { out.push(crate::file::file_case(&f)); }
    let mut idx = 0usize;
    while out.len() < ctx.n {
        match r.below(10) {
            0..=1 => { let p = gen_prim(&mut r); out.push(prim_case(*r.pick(&[Codec::Ele, Codec::Ebe]), &p)); }
            2..=3 => { let p = gen_prim(&mut r); let vi = r.below(34) as usize; out.push(elem_case(*r.pick(&CODECS), vi, &p, &mut r)); }
            4..=5 => { let f = crate::file::gen_file(&mut r, &pools, idx); idx += 1; out.push(crate::file::file_case(&f)); }
            _ => { let s = gen_scenario(&mut r, &pools, idx, false); idx += 1; out.push(ds_case(&s)); }
        }
    }
    // value/data-set level cases are wrapped for the checker that also knows files
    for c in out.iter_mut() { if c.coq.starts_with("(C4P") || c.coq.starts_with("(C4D") { c.coq = format!("(C4A {})", c.coq); } }
    out
}
pub fn tables(out: &str) { crate::file::tables(out) }

fn ds_case(s: &Scenario) -> Case {
    let v = evaluate(s);
    Case { coq: if v.coq.is_empty() { String::new() } else { format!("(C4D {})", v.coq) }, desc: v.desc, key: if s.elems.is_empty() { String::new() } else { v.key }, oracle: v.c04 }
}

fn rstr(r: &mut Rng, max: u64) -> String {
    let n = r.below(max + 1);
    (0..n).map(|_| match r.below(12) { 0 => 'é', 1 => '\u{3042}', 2 => '\u{1F600}', 3 => '\\', 4 => ' ', _ => r.range(0x21, 0x7e) as u8 as char }).collect()
}
fn rdate(r: &mut Rng) -> DicomDate {
    let y = *r.pick(&[0u16, 7, 999, 1000, 2024, 9999]);
    match r.below(3) { 0 => DicomDate::from_y(y).unwrap(), 1 => DicomDate::from_ym(y, r.range(1, 12) as u8).unwrap(), _ => DicomDate::from_ymd(y, r.range(1, 12) as u8, r.range(1, 31) as u8).unwrap() }
}
fn rtime(r: &mut Rng) -> DicomTime {
    let (h, m, s) = (r.range(0, 23) as u8, r.range(0, 59) as u8, r.range(0, 60) as u8);
    match r.below(6) { 0 => DicomTime::from_h(h).unwrap(), 1 => DicomTime::from_hm(h, m).unwrap(), 2 => DicomTime::from_hms(h, m, s).unwrap(),
        3 => DicomTime::from_hms_milli(h, m, s, *r.pick(&[0u32, 1, 50, 999])).unwrap(), 4 => DicomTime::from_hms_micro(h, m, s, *r.pick(&[0u32, 1, 1000, 999999])).unwrap(),
        _ => { let fp = r.range(1, 6) as usize; format!("{:02}{:02}{:02}.{:0w$}", h, m, s.min(59), r.below(10u64.pow(fp as u32)), w = fp).parse().unwrap() } }
}
fn rdatetime(r: &mut Rng, whole_minutes: bool) -> DicomDateTime {
    let off = |r: &mut Rng| { let secs = (r.range(0, 14) * 3600 + *r.pick(&[0u64, 1800, 2700]) + if whole_minutes { 0 } else { *r.pick(&[1u64, 30, 59]) }) as i32; FixedOffset::east_opt(if r.coin() { secs } else { -secs.min(12 * 3600) }).unwrap() };
    match r.below(4) {
        0 => DicomDateTime::from_date(rdate(r)),
        1 => DicomDateTime::from_date_with_time_zone(rdate(r), off(r)),
        2 => DicomDateTime::from_date_and_time(DicomDate::from_ymd(2020, 2, 29).unwrap(), rtime(r)).unwrap(),
        _ => DicomDateTime::from_date_and_time_with_time_zone(DicomDate::from_ymd(1999, 12, 31).unwrap(), rtime(r), off(r)).unwrap(),
    }
}
pub fn gen_prim(r: &mut Rng) -> PrimitiveValue {
    let n = match r.below(8) { 0 => 0, 1..=4 => 1, 5 => 2, _ => r.range(3, 5) } as usize;
    match r.below(16) {
        0 => PrimitiveValue::Empty,
        1 => PrimitiveValue::Str(rstr(r, 12)),
        2 => PrimitiveValue::Strs((0..n).map(|_| rstr(r, 8)).collect::<Vec<_>>().into()),
        3 => PrimitiveValue::Tags((0..n).map(|_| Tag(r.below(65536) as u16, r.below(65536) as u16)).collect::<Vec<_>>().into()),
        4 => PrimitiveValue::U8((0..r.below(9)).map(|_| r.below(256) as u8).collect::<Vec<_>>().into()),
        5 => PrimitiveValue::I16((0..n).map(|_| r.next() as i16).collect::<Vec<_>>().into()),
        6 => PrimitiveValue::U16((0..n).map(|_| r.next() as u16).collect::<Vec<_>>().into()),
        7 => PrimitiveValue::I32((0..n).map(|_| if r.coin() { r.next() as i32 } else { *r.pick(&[0, -1, i32::MIN, i32::MAX, 10, -10]) }).collect::<Vec<_>>().into()),
        8 => PrimitiveValue::U32((0..n).map(|_| r.next() as u32).collect::<Vec<_>>().into()),
        9 => PrimitiveValue::I64((0..n).map(|_| if r.coin() { r.next() as i64 } else { *r.pick(&[0, -1, i64::MIN, i64::MAX]) }).collect::<Vec<_>>().into()),
        10 => PrimitiveValue::U64((0..n).map(|_| if r.coin() { r.next() } else { u64::MAX }).collect::<Vec<_>>().into()),
        11 => PrimitiveValue::F32((0..n).map(|_| f32::from_bits(r.next() as u32)).collect::<Vec<_>>().into()),
        12 => PrimitiveValue::F64((0..n).map(|_| f64::from_bits(r.next())).collect::<Vec<_>>().into()),
        13 => PrimitiveValue::Date((0..n).map(|_| rdate(r)).collect::<Vec<_>>().into()),
        14 => PrimitiveValue::Time((0..n).map(|_| rtime(r)).collect::<Vec<_>>().into()),
        _ => { let wm = !r.chance(1, 8); PrimitiveValue::DateTime((0..n).map(|_| rdatetime(r, wm)).collect::<Vec<_>>().into()) }
    }
}
fn prim_corpus() -> Vec<PrimitiveValue> {
    vec![
        PrimitiveValue::Empty,
        PrimitiveValue::Strs(Vec::<String>::new().into()),
        PrimitiveValue::Strs(vec!["".to_string()].into()),
        PrimitiveValue::Strs(vec!["A".to_string(), "".to_string()].into()),
        PrimitiveValue::Date(vec![DicomDate::from_ymd(2020, 1, 2).unwrap(), DicomDate::from_y(1999).unwrap()].into()),
        PrimitiveValue::Time(vec![DicomTime::from_hms_micro(1, 2, 3, 5).unwrap()].into()),
        PrimitiveValue::DateTime(vec![DicomDateTime::from_date_with_time_zone(DicomDate::from_y(2020).unwrap(), FixedOffset::east_opt(3600).unwrap())].into()),
        // UTC offset with seconds: chrono prints +HH:MM:SS, dt_byte_len assumes 5 bytes
        PrimitiveValue::DateTime(vec![DicomDateTime::from_date_with_time_zone(DicomDate::from_y(2020).unwrap(), FixedOffset::east_opt(3630).unwrap())].into()),
    ]
}

fn tz_has_seconds(p: &PrimitiveValue) -> bool {
    if let PrimitiveValue::DateTime(v) = p { v.iter().any(|d| d.time_zone().map_or(false, |z| z.local_minus_utc() % 60 != 0)) } else { false }
}

/// BasicEncode::encode_primitive: returned count = bytes written; calculate_byte_len = even(len) / len
fn prim_case(c: Codec, p: &PrimitiveValue) -> Case {
    let res = catch(|| { let mut out = vec![]; let n = if c.big() { BigEndianBasicEncoder.encode_primitive(&mut out, p) } else { LittleEndianBasicEncoder.encode_primitive(&mut out, p) }; n.map(|n| (out, n)).map_err(|_| 9u32) });
    let bl = catch(|| p.calculate_byte_len());
    let (coq, oracle) = match (&res, &bl) {
        (Some(Ok((out, n))), Some(bl)) => {
            let even = |x: usize| (x + 1) & !1;
            let text_like = matches!(p, PrimitiveValue::Strs(_) | PrimitiveValue::Date(_) | PrimitiveValue::Time(_) | PrimitiveValue::DateTime(_));
            let want_bl = if text_like { even(out.len()) } else { out.len() };
            let o = if *n != out.len() { Oracle::Fails { class: "encode-primitive-count".into(), detail: format!("{:?}: returned {} wrote {}", p, n, out.len()) } }
                else if *bl != want_bl { Oracle::Fails { class: if tz_has_seconds(p) { "DateTimeOffsetWithSeconds".into() } else { "calculate-byte-len".into() }, detail: format!("{:?}: calculate_byte_len {} but {} bytes are written", p, bl, out.len()) } }
                else { Oracle::Holds };
            (format!("(C4P (CPrim {} {} {} {} {}))", c as u32, c_prim(p), c_bytes(out), n, bl), o)
        }
        _ => (String::new(), Oracle::Fails { class: "encode-primitive-failed".into(), detail: format!("{:?}", p) }),
    };
    Case { coq, desc: json!({"bucket": format!("prim-{:?}", p.value_type()), "codec": c.name(), "value": format!("{:?}", p).chars().take(200).collect::<String>()}), key: format!("p{}-{:?}", c as u32, p), oracle }
}

/// StatefulEncoder::encode_primitive_element on a single element: bytes, bytes_written, structure
fn elem_case(c: Codec, vi: usize, p: &PrimitiveValue, r: &mut Rng) -> Case {
    let (g, e) = (*r.pick(&[0x0008u16, 0x0010, 0x0009, 0x7FE0]), *r.pick(&[0x0005u16, 0x0010, 0x1001, 0x0020]));
    let de = DataElementHeader::new(Tag(g, e), ALL_VRS[vi], Length(r.below(100) as u32));
    let res: Option<Result<(Vec<u8>, u64), u32>> = catch(|| {
        let mut out: Vec<u8> = vec![];
        macro_rules! go { ($enc:expr) => {{ let mut s = StatefulEncoder::new(&mut out, EncoderFor::new($enc), SpecificCharacterSet::default());
            let r = s.encode_primitive_element(&de, p); let n = s.bytes_written(); drop(s); r.map(|_| n).map_err(|e| { let d = format!("{:?}", e); if d.contains("WriteHeaderTooLong") { 1 } else if d.contains("EncodeText") { 2 } else { 9 } }) }} }
        let r = match c { Codec::Ile => go!(ImplicitVRLittleEndianEncoder::default()), Codec::Ele => go!(ExplicitVRLittleEndianEncoder::default()), Codec::Ebe => go!(ExplicitVRBigEndianEncoder::default()) };
        r.map(|n| (out, n))
    });
    let oracle = match &res {
        Some(Ok((out, n))) => {
            let is_sq = |_: u16, _: u16| false;
            let v = Validator { c, b: out, is_sq: &is_sq };
            if *n as usize != out.len() { Oracle::Fails { class: "bytes-written-count".into(), detail: format!("bytes_written {} but {} bytes", n, out.len()) } }
            else if vr_name(vi) == "SQ" || (g == 0xFFFE) { Oracle::NotApplicable }
            else { match v.validate() { Ok(()) => Oracle::Holds, Err(m) => Oracle::Fails { class: if tz_has_seconds(p) { "DateTimeOffsetWithSeconds".into() } else { "element-invalid-structure".into() }, detail: format!("{} {:?}: {m}: {}", vr_name(vi), p, hex(out)) } } }
        }
        _ => Oracle::NotApplicable,
    };
    let rs = match &res { None => c_panic(), Some(Err(e)) => c_err(*e), Some(Ok((b, n))) => c_ok(&c_pair(&c_bytes(b), &n.to_string())) };
    Case { coq: format!("(C4P (CElem {} {} {} {} {} {}))", c as u32, g, e, vi, c_prim(p), rs),
        desc: json!({"bucket": format!("elem-{}", vr_name(vi)), "codec": c.name(), "vr": vr_name(vi), "value": format!("{:?}", p).chars().take(200).collect::<String>()}),
        key: format!("el{}-{}-{:?}", c as u32, vi, p), oracle }
}
