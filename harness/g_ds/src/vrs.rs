//! Shared vocabulary: VR numbering (enum order of dicom_core::VR = Coq `all_vrs`), codecs.
#![allow(dead_code)]
use dicom_core::VR;

pub const ALL_VRS: [VR; 34] = [
    VR::AE, VR::AS, VR::AT, VR::CS, VR::DA, VR::DS, VR::DT, VR::FL, VR::FD, VR::IS, VR::LO, VR::LT,
    VR::OB, VR::OD, VR::OF, VR::OL, VR::OV, VR::OW, VR::PN, VR::SH, VR::SL, VR::SQ, VR::SS, VR::ST,
    VR::SV, VR::TM, VR::UC, VR::UI, VR::UL, VR::UN, VR::UR, VR::US, VR::UT, VR::UV,
];

/// index of a VR in enum order; 99 for a VR this harness does not know (a new enum variant)
pub fn vr_index(v: VR) -> u32 { ALL_VRS.iter().position(|x| *x == v).map(|p| p as u32).unwrap_or(99) }

/// PS3.5 7.1.2, written from the standard: VRs whose explicit header has a 16-bit length
pub const PS35_LEN16: [&str; 21] = ["AE", "AS", "AT", "CS", "DA", "DS", "DT", "FL", "FD", "IS", "LO", "LT", "PN",
    "SH", "SL", "SS", "ST", "TM", "UI", "UL", "US"];
/// PS3.5 table 6.2-1: all VR names
pub const PS35_VRS: [&str; 34] = ["AE", "AS", "AT", "CS", "DA", "DS", "DT", "FL", "FD", "IS", "LO", "LT", "OB", "OD",
    "OF", "OL", "OV", "OW", "PN", "SH", "SL", "SQ", "SS", "ST", "SV", "TM", "UC", "UI", "UL", "UN", "UR", "US", "UT", "UV"];

#[derive(Clone, Copy, PartialEq, Eq, Debug)]
pub enum Codec { Ile = 0, Ele = 1, Ebe = 2 }
pub const CODECS: [Codec; 3] = [Codec::Ile, Codec::Ele, Codec::Ebe];
impl Codec {
    pub fn name(self) -> &'static str { match self { Codec::Ile => "ILE", Codec::Ele => "ELE", Codec::Ebe => "EBE" } }
    pub fn big(self) -> bool { self == Codec::Ebe }
    pub fn explicit(self) -> bool { self != Codec::Ile }
    pub fn u16(self, x: u16) -> [u8; 2] { if self.big() { x.to_be_bytes() } else { x.to_le_bytes() } }
    pub fn u32(self, x: u32) -> [u8; 4] { if self.big() { x.to_be_bytes() } else { x.to_le_bytes() } }
}

/// Header layout per PS3.5 7.1 written from the standard (independent of dicom-rs):
/// name = two-letter VR name.
pub fn ps35_header(c: Codec, g: u16, e: u16, name: &str, len: u32) -> Vec<u8> {
    let mut b = vec![];
    b.extend(c.u16(g)); b.extend(c.u16(e));
    if !c.explicit() { b.extend(c.u32(len)); return b; }
    b.extend(name.as_bytes());
    if PS35_LEN16.contains(&name) { b.extend(c.u16(len as u16)); } else { b.extend([0, 0]); b.extend(c.u32(len)); }
    b
}
pub fn ps35_item(c: Codec, elem: u16, len: u32) -> Vec<u8> {
    let mut b = vec![]; b.extend(c.u16(0xFFFE)); b.extend(c.u16(elem)); b.extend(c.u32(len)); b
}
