//! Shared machinery of C01/C02/C04: generator of abstract data sets, construction of the
//! in-memory objects, Coq printers, an encoder and a structural validator written from PS3.5
//! (independent of dicom-rs), canonical comparison of objects.
#![allow(dead_code)]
use crate::c03::dict_vr;
use crate::vrs::*;
use dicom_core::chrono::FixedOffset;
use dicom_core::dictionary::{DataDictionary, DataDictionaryEntry, VirtualVr};
use dicom_core::header::HasLength;
use dicom_core::value::{DataSetSequence, DicomDate, DicomDateTime, DicomTime, PixelFragmentSequence, Value};
use dicom_core::{DataElement, Length, PrimitiveValue, Tag, VR};
use dicom_dictionary_std::StandardDataDictionary;
use dicom_object::mem::{InMemElement, InMemFragment};
use dicom_object::InMemDicomObject;
use dicom_parser::dataset::DataToken;
use std::collections::BTreeMap;
use vhc::*;

pub type Obj = InMemDicomObject<StandardDataDictionary>;
pub type Elem = InMemElement<StandardDataDictionary>;
pub const UNDEF: u32 = 0xFFFF_FFFF;

// ------------------------------------------------------------------ abstract data sets
/// How the wire value is represented in memory.
#[derive(Clone, Debug, PartialEq)]
pub enum Repr { Natural, SingleStr, DateTimeValues, IntValues, FloatValues }

#[derive(Clone, Debug)]
pub enum GVal {
    /// text components (wire: joined by backslash); for LT/ST/UT/UR exactly one component
    Text(Vec<String>),
    Bytes(Vec<u8>),
    W16(Vec<u16>, bool),      // (values, signed variant)
    W32(Vec<u32>, bool),
    W64(Vec<u64>, bool),
    F32(Vec<u32>),            // bit patterns
    F64(Vec<u64>),
    Tags(Vec<(u16, u16)>),
    Empty,
    Seq { explicit: bool, items: Vec<GItem> },
    Pix { ot: Vec<u32>, frags: Vec<Vec<u8>> },
}
#[derive(Clone, Debug)]
pub struct GItem { pub explicit: bool, pub elems: Vec<GElem> }
#[derive(Clone, Debug)]
pub struct GElem { pub g: u16, pub e: u16, pub vr: usize, pub val: GVal, pub repr: Repr }

pub fn vr_name(i: usize) -> &'static str { PS35_VRS[i] }
pub fn vr_idx(name: &str) -> usize { PS35_VRS.iter().position(|n| *n == name).unwrap() }

#[derive(Clone, Copy, Debug, PartialEq)]
pub struct GenOpts { pub implicit: bool, pub allow_explicit_len: bool, pub big_values: bool, pub canonical_only: bool }

/// pools of dictionary tags per VR (relaxed VR as the ILE decoder sees it), built once by probing the dictionary
pub struct Pools { pub by_vr: Vec<Vec<(u16, u16)>>, pub xs: Vec<(u16, u16)> }
pub fn build_pools() -> Pools {
    let mut by_vr: Vec<Vec<(u16, u16)>> = vec![vec![]; 34];
    let mut xs = vec![];
    let groups: [u16; 22] = [0x0008, 0x0010, 0x0012, 0x0014, 0x0018, 0x0020, 0x0022, 0x0024, 0x0028, 0x0032, 0x0038, 0x003A, 0x0040, 0x0042, 0x0044, 0x0046, 0x0050, 0x0054, 0x0062, 0x0066, 0x0070, 0x3006];
    for g in groups { for e in 0..=0xFFFFu32 { let e = e as u16;
        if let Some(en) = StandardDataDictionary.by_tag(Tag(g, e)) {
            // only exact single-tag entries: repeating-group style entries answer for many tags
            let vi = vr_index(en.vr().relaxed()) as usize;
            if (g, e) == (0x0008, 0x0005) || (g, e) == (0x0028, 0x0103) { continue; }
            if vi < 34 && by_vr[vi].len() < 400 { by_vr[vi].push((g, e)); }
            if en.vr() == VirtualVr::Xs && xs.len() < 50 { xs.push((g, e)); }
        } } }
    Pools { by_vr, xs }
}

const LATIN: [char; 10] = ['é', 'ü', 'ß', 'Ñ', '£', '\u{a0}', 'ÿ', 'À', '·', '±'];
fn text_atom(r: &mut Rng, alphabet: &[u8], max: u64, latin: bool) -> String {
    let n = r.below(max + 1);
    (0..n).map(|_| if latin && r.chance(1, 10) { *r.pick(&LATIN) } else { *r.pick(alphabet) as char }).collect()
}
const ALNUM: &[u8] = b"ABCDEFGHIJKLMNOPQRSTUVWXYZabcdefghijklmnopqrstuvwxyz0123456789 ^=._-";
const UPPER: &[u8] = b"ABCDEFGHIJKLMNOPQRSTUVWXYZ0123456789_ ";
const UIDCH: &[u8] = b"0123456789.";
const FREE: &[u8] = b"ABCDEFGHIJKLMNOPQRSTUVWXYZabcdefghijklmnopqrstuvwxyz0123456789 ^=._-\\\r\n,;:/()";

fn count(r: &mut Rng) -> u64 { match r.below(10) { 0 => 0, 1..=5 => 1, 6..=7 => 2, 8 => 3, _ => r.range(4, 7) } }

fn gen_date(r: &mut Rng) -> String {
    let y = *r.pick(&[0u32, 1, 999, 1900, 1999, 2024, 9999]);
    match r.below(3) { 0 => format!("{:04}", y), 1 => format!("{:04}{:02}", y, r.range(1, 12)), _ => format!("{:04}{:02}{:02}", y, r.range(1, 12), r.range(1, 28)) }
}
fn gen_time(r: &mut Rng) -> String {
    let (h, m, s) = (r.range(0, 23), r.range(0, 59), r.range(0, 59));
    match r.below(5) { 0 => format!("{:02}", h), 1 => format!("{:02}{:02}", h, m), 2 => format!("{:02}{:02}{:02}", h, m, s),
        _ => { let fp = r.range(1, 6) as u32; let f = r.below(10u64.pow(fp)); format!("{:02}{:02}{:02}.{:0w$}", h, m, s, f, w = fp as usize) } }
}
fn gen_datetime(r: &mut Rng) -> String {
    // date must be precise when a time follows
    let mut s = if r.chance(1, 4) { gen_date(r) } else { format!("{:04}{:02}{:02}{}", r.range(1900, 2100), r.range(1, 12), r.range(1, 28), gen_time(r)) };
    if r.chance(1, 3) { let (h, m) = (r.range(0, 12), *r.pick(&[0u32, 30, 45])); s.push_str(&format!("{}{:02}{:02}", if r.coin() || (h == 0 && m == 0) { '+' } else { '-' }, h, m)); }
    s
}

/// a VR-valid value for VR index `vi`
pub fn gen_value(r: &mut Rng, vi: usize, big: bool) -> (GVal, Repr) {
    let name = vr_name(vi);
    let n = count(r);
    let multi = |r: &mut Rng, f: &mut dyn FnMut(&mut Rng) -> String| -> GVal { if n == 0 { GVal::Empty } else { GVal::Text((0..n).map(|_| f(r)).collect()) } };
    match name {
        "AE" => (multi(r, &mut |r| text_atom(r, UPPER, 16, false).trim().to_string()), Repr::Natural),
        "AS" => (multi(r, &mut |r| format!("{:03}{}", r.below(1000), *r.pick(&['D', 'W', 'M', 'Y']))), Repr::Natural),
        "CS" => (multi(r, &mut |r| text_atom(r, UPPER, 16, false).trim().to_string()), Repr::Natural),
        "DA" => (multi(r, &mut gen_date), if r.chance(1, 3) { Repr::DateTimeValues } else { Repr::Natural }),
        "TM" => (multi(r, &mut gen_time), if r.chance(1, 3) { Repr::DateTimeValues } else { Repr::Natural }),
        "DT" => (multi(r, &mut gen_datetime), if r.chance(1, 3) { Repr::DateTimeValues } else { Repr::Natural }),
        "DS" => match r.below(4) {
            0 => (multi(r, &mut |r| format!("{}", (r.next() as i32) / 1000)), Repr::IntValues),
            1 => (multi(r, &mut |r| format!("{}", (r.below(2000000) as f64 - 1000000.0) / 64.0)), Repr::FloatValues),
            _ => (multi(r, &mut |r| match r.below(3) { 0 => format!("{}", r.below(100000) as i64 - 50000), 1 => format!("{:.3}", (r.below(1000000) as f64) / 1000.0), _ => format!("{}e{}", r.below(100), r.range(0, 9)) }), Repr::Natural),
        },
        "IS" => if r.chance(1, 3) { (multi(r, &mut |r| format!("{}", r.next() as i32)), Repr::IntValues) } else { (multi(r, &mut |r| format!("{}", r.below(1 << 31) as i64 - (1 << 30))), Repr::Natural) },
        "LO" | "SH" | "PN" | "UC" => {
            let max = if big { 40 } else if name == "SH" { 16 } else { 24 };
            (multi(r, &mut |r| text_atom(r, ALNUM, max, true)), if n == 1 && r.chance(1, 6) { Repr::SingleStr } else { Repr::Natural })
        }
        "UI" => (multi(r, &mut |r| { let s = text_atom(r, UIDCH, 24, false); if s.is_empty() { "1.2".into() } else { s } }), Repr::Natural),
        "LT" | "ST" | "UT" | "UR" => { if n == 0 { (GVal::Empty, Repr::Natural) } else { (GVal::Text(vec![text_atom(r, FREE, if big { 60 } else { 30 }, name != "UR")]), Repr::SingleStr) } }
        "OB" | "UN" => (if n == 0 { GVal::Empty } else { GVal::Bytes((0..r.below(if big { 40 } else { 12 })).map(|_| r.below(256) as u8).collect()) }, Repr::Natural),
        "US" | "OW" => (if n == 0 { GVal::Empty } else { GVal::W16((0..n).map(|_| *r.pick(&[0u16, 1, 0xFF, 0x100, 0x7FFF, 0x8000, 0xFFFF, 0x1234])).collect(), false) }, Repr::Natural),
        "SS" => (if n == 0 { GVal::Empty } else { GVal::W16((0..n).map(|_| *r.pick(&[0u16, 1, 0xFF, 0x100, 0x7FFF, 0x8000, 0xFFFF, 0x1234])).collect(), true) }, Repr::Natural),
        "UL" | "OL" => (if n == 0 { GVal::Empty } else { GVal::W32((0..n).map(|_| if r.coin() { r.next() as u32 } else { *r.pick(&[0u32, 1, 0xFFFF, 0x10000, 0x7FFFFFFF, 0x80000000, 0xFFFFFFFF]) }).collect(), false) }, Repr::Natural),
        "SL" => (if n == 0 { GVal::Empty } else { GVal::W32((0..n).map(|_| if r.coin() { r.next() as u32 } else { *r.pick(&[0u32, 1, 0x7FFFFFFF, 0x80000000, 0xFFFFFFFF]) }).collect(), true) }, Repr::Natural),
        "UV" | "OV" => (if n == 0 { GVal::Empty } else { GVal::W64((0..n).map(|_| if r.coin() { r.next() } else { *r.pick(&[0u64, 1, u64::MAX, 1 << 63, 0x0102030405060708]) }).collect(), false) }, Repr::Natural),
        "SV" => (if n == 0 { GVal::Empty } else { GVal::W64((0..n).map(|_| if r.coin() { r.next() } else { *r.pick(&[0u64, 1, u64::MAX, 1 << 63]) }).collect(), true) }, Repr::Natural),
        "FL" | "OF" => (if n == 0 { GVal::Empty } else { GVal::F32((0..n).map(|_| *r.pick(&[0u32, 0x3F800000, 0xBF800000, 0x7FC00000, 0x7F800001, 0xFF800000, 0x00000001, 0x41200000])).collect()) }, Repr::Natural),
        "FD" | "OD" => (if n == 0 { GVal::Empty } else { GVal::F64((0..n).map(|_| *r.pick(&[0u64, 0x3FF0000000000000, 0xBFF0000000000000, 0x7FF8000000000000, 0x7FF0000000000001, 1, 0x400921FB54442D18])).collect()) }, Repr::Natural),
        "AT" => (if n == 0 { GVal::Empty } else { GVal::Tags((0..n).map(|_| (r.below(65536) as u16, r.below(65536) as u16)).collect()) }, Repr::Natural),
        _ => (GVal::Empty, Repr::Natural),
    }
}

fn pick_tag(r: &mut Rng, pools: &Pools, vi: usize, implicit: bool, used: &BTreeMap<(u16, u16), ()>) -> Option<(u16, u16)> {
    for _ in 0..20 {
        let t = if implicit {
            // implicit VR: the dictionary decides the VR; unknown tags read back as UN
            if vr_name(vi) == "UN" { match r.below(3) { 0 => (0x0009 + 2 * r.below(8) as u16, 0x1000 + r.below(256) as u16), 1 => (0x0008 + 2 * r.below(100) as u16, 0xF000 + r.below(0xF00) as u16), _ => (0x7001, 0x1010) } }
            else if pools.by_vr[vi].is_empty() { return None } else { *r.pick(&pools.by_vr[vi]) }
        } else {
            match r.below(10) {
                0..=4 if !pools.by_vr[vi].is_empty() => *r.pick(&pools.by_vr[vi]),
                5 => (0x0009 + 2 * r.below(40) as u16, 0x1000 + r.below(0x100) as u16),     // private
                6 => (0x0009 + 2 * r.below(40) as u16, 0x0010 + r.below(0xF0) as u16),      // private creator range
                7 => (0x5000 + 2 * r.below(16) as u16, *r.pick(&[0x0005u16, 0x0010, 0x2500, 0x3000])), // repeating groups
                8 => (0x6000 + 2 * r.below(16) as u16, *r.pick(&[0x0010u16, 0x0011, 0x0022, 0x1500])),
                _ => (2 * r.below(0x7FF0) as u16 + 8, r.below(65536) as u16),                // unknown / arbitrary
            }
        };
        if t.0 == 0xFFFE || t.0 < 8 || t == (0x0008, 0x0005) || t == (0x0028, 0x0103) || t == (0x7FE0, 0x0010) { continue; }
        if implicit {
            // the tag must really have this VR for the implicit decoder
            let want = if (t.0 >> 8 == 0x60 && t.1 == 0x3000) { vr_index(VR::OW) } else { dict_vr(t.0, t.1).unwrap_or(vr_index(VR::UN)) };
            if want as usize != vi { continue; }
        } else if StandardDataDictionary.by_tag(Tag(t.0, t.1)).map(|e| e.vr() == VirtualVr::Xs).unwrap_or(false) && vr_name(vi) == "US" {
            // Xs tags are rewritten to SS by the decoder when Pixel Representation is 1; the generator keeps them out unless handled
            continue;
        }
        if !used.contains_key(&t) { return Some(t); }
    }
    None
}

pub fn gen_elems(r: &mut Rng, pools: &Pools, o: GenOpts, depth: u32, top: bool) -> Vec<GElem> {
    let n = match r.below(12) { 0 => 0, 1..=4 => 1, 5..=7 => 2, 8..=9 => 3, _ => r.range(4, 7) };
    let mut used: BTreeMap<(u16, u16), ()> = BTreeMap::new();
    let mut out: Vec<GElem> = vec![];
    for _ in 0..n {
        let vi = if depth < 4 && r.chance(1, 5) { vr_idx("SQ") } else { r.below(34) as usize };
        let name = vr_name(vi);
        if name == "SQ" {
            if depth >= 4 { continue; }
            let t = match pick_tag(r, pools, vi, o.implicit, &used) { Some(t) => t, None => continue };
            let nitems = match r.below(6) { 0 => 0, 1..=3 => 1, 4 => 2, _ => 3 };
            let items = (0..nitems).map(|_| GItem { explicit: o.allow_explicit_len && r.chance(1, 2), elems: if r.chance(1, 6) { vec![] } else { gen_elems(r, pools, o, depth + 1, false) } }).collect();
            used.insert(t, ());
            out.push(GElem { g: t.0, e: t.1, vr: vi, val: GVal::Seq { explicit: o.allow_explicit_len && r.chance(1, 2), items }, repr: Repr::Natural });
            continue;
        }
        let t = match pick_tag(r, pools, vi, o.implicit, &used) { Some(t) => t, None => continue };
        let (val, repr) = gen_value(r, vi, o.big_values);
        let repr = if o.canonical_only { match repr { Repr::SingleStr => Repr::SingleStr, _ => Repr::Natural } } else { repr };
        used.insert(t, ());
        out.push(GElem { g: t.0, e: t.1, vr: vi, val, repr });
    }
    // Specific Character Set (Latin-1 family only: the model's text codec), sometimes
    if r.chance(1, 12) && !used.contains_key(&(0x0008, 0x0005)) {
        let v = r.pick(&["ISO_IR 100", "ISO_IR 6", "ISO 2022 IR 6"]).to_string();
        out.push(GElem { g: 0x0008, e: 0x0005, vr: vr_idx("CS"), val: GVal::Text(vec![v]), repr: Repr::Natural });
    }
    // encapsulated pixel data, sometimes (top level or inside an item, e.g. icon image sequence)
    if r.chance(1, if top { 8 } else { 14 }) {
        let nf = match r.below(5) { 0 => 0, 1..=2 => 1, 3 => 2, _ => 3 };
        let frags: Vec<Vec<u8>> = (0..nf).map(|_| { let k = 2 * match r.below(6) { 0 => 0, 1..=3 => r.range(1, 4), _ => r.range(5, 10) }; (0..k).map(|_| r.below(256) as u8).collect() }).collect();
        let ot: Vec<u32> = if r.coin() { vec![] } else { (0..r.range(1, 3)).map(|i| i as u32 * 16).collect() };
        out.push(GElem { g: 0x7FE0, e: 0x0010, vr: vr_idx("OB"), val: GVal::Pix { ot, frags }, repr: Repr::Natural });
    }
    out.sort_by_key(|e| (e.g, e.e));
    out
}

// ------------------------------------------------------------------ PS3.5 encoder (independent of dicom-rs)
fn text_pad_byte(vr: &str) -> u8 { if vr == "UI" { 0 } else { b' ' } }
fn is_text_vr(vr: &str) -> bool { matches!(vr, "AE" | "AS" | "CS" | "DA" | "DS" | "DT" | "IS" | "LO" | "LT" | "PN" | "SH" | "ST" | "TM" | "UC" | "UI" | "UR" | "UT") }

/// value field bytes of a primitive element per PS3.5 (6.2, 7.1, 7.8): Latin-1 text joined by
/// backslash, numbers in the byte order of the transfer syntax, padded to even length with
/// NUL (UI and binary VRs) or SPACE (text VRs)
pub fn ps35_value_bytes(c: Codec, vr: &str, v: &GVal) -> Vec<u8> {
    let mut b: Vec<u8> = vec![];
    match v {
        GVal::Empty => {}
        GVal::Text(parts) => { let s = parts.join("\\"); for ch in s.chars() { b.push(ch as u32 as u8); } }
        GVal::Bytes(x) => b.extend(x),
        GVal::W16(x, _) => for w in x { b.extend(c.u16(*w)); },
        GVal::W32(x, _) | GVal::F32(x) => for w in x { b.extend(c.u32(*w)); },
        GVal::W64(x, _) | GVal::F64(x) => for w in x { if c.big() { b.extend(w.to_be_bytes()) } else { b.extend(w.to_le_bytes()) } },
        GVal::Tags(x) => for (g, e) in x { b.extend(c.u16(*g)); b.extend(c.u16(*e)); },
        GVal::Seq { .. } | GVal::Pix { .. } => unreachable!(),
    }
    if b.len() % 2 == 1 { b.push(if is_text_vr(vr) { text_pad_byte(vr) } else { 0 }); }
    b
}

/// how lengths of sequences/items are written
#[derive(Clone, Copy, PartialEq, Debug)]
pub enum LenMode { AsFlagged, AllUndefined }

pub fn ps35_encode_elems(c: Codec, elems: &[GElem], mode: LenMode) -> Vec<u8> {
    let mut out = vec![];
    for el in elems {
        let name = vr_name(el.vr);
        match &el.val {
            GVal::Seq { explicit, items } => {
                let mut body = vec![];
                for it in items {
                    let inner = ps35_encode_elems(c, &it.elems, mode);
                    if it.explicit && mode == LenMode::AsFlagged { body.extend(ps35_item(c, 0xE000, inner.len() as u32)); body.extend(inner); }
                    else { body.extend(ps35_item(c, 0xE000, UNDEF)); body.extend(inner); body.extend(ps35_item(c, 0xE00D, 0)); }
                }
                if *explicit && mode == LenMode::AsFlagged { out.extend(ps35_header(c, el.g, el.e, "SQ", body.len() as u32)); out.extend(body); }
                else { out.extend(ps35_header(c, el.g, el.e, "SQ", UNDEF)); out.extend(body); out.extend(ps35_item(c, 0xE0DD, 0)); }
            }
            GVal::Pix { ot, frags } => {
                out.extend(ps35_header(c, el.g, el.e, "OB", UNDEF));
                out.extend(ps35_item(c, 0xE000, 4 * ot.len() as u32));
                for o in ot { out.extend(c.u32(*o)); }
                for f in frags { let mut f = f.clone(); if f.len() % 2 == 1 { f.push(0); } out.extend(ps35_item(c, 0xE000, f.len() as u32)); out.extend(f); }
                out.extend(ps35_item(c, 0xE0DD, 0));
            }
            v => { let b = ps35_value_bytes(c, name, v); out.extend(ps35_header(c, el.g, el.e, name, b.len() as u32)); out.extend(b); }
        }
    }
    out
}

// ------------------------------------------------------------------ PS3.5 structural validator (independent of dicom-rs)
pub struct Validator<'a> { pub c: Codec, pub b: &'a [u8], pub is_sq: &'a dyn Fn(u16, u16) -> bool }
impl<'a> Validator<'a> {
    fn u16(&self, p: usize) -> u16 { let x = [self.b[p], self.b[p + 1]]; if self.c.big() { u16::from_be_bytes(x) } else { u16::from_le_bytes(x) } }
    fn u32(&self, p: usize) -> u32 { let x = [self.b[p], self.b[p + 1], self.b[p + 2], self.b[p + 3]]; if self.c.big() { u32::from_be_bytes(x) } else { u32::from_le_bytes(x) } }
    /// parse elements from `pos` until `end` (defined-length container) or, when `end` is None and
    /// `in_item`, until an item delimiter; returns the position after the container
    pub fn elements(&self, mut pos: usize, end: Option<usize>, in_item: bool, depth: u32) -> Result<usize, String> {
        if depth > 64 { return Err("nesting too deep".into()); }
        let mut last_tag: Option<(u16, u16)> = None;
        loop {
            if let Some(e) = end { if pos == e { return Ok(pos) } if pos > e { return Err(format!("container overrun at {pos}")) } }
            else if !in_item && pos == self.b.len() { return Ok(pos) }
            if pos + 8 > self.b.len() { return Err(format!("truncated header at {pos}")) }
            let (g, e) = (self.u16(pos), self.u16(pos + 2));
            if g == 0xFFFE {
                if e == 0xE00D && end.is_none() && in_item { if self.u32(pos + 4) != 0 { return Err(format!("item delimiter with non-zero length at {pos}")) } return Ok(pos + 8) }
                return Err(format!("unexpected item/delimiter tag ({g:04X},{e:04X}) at {pos}"));
            }
            if let Some(lt) = last_tag { if (g, e) <= lt { return Err(format!("tags not ascending at {pos}")) } }
            last_tag = Some((g, e));
            let (vr, len, hdr): (String, u32, usize) = if self.c.explicit() {
                let name = String::from_utf8_lossy(&self.b[pos + 4..pos + 6]).to_string();
                if !PS35_VRS.contains(&name.as_str()) { return Err(format!("undefined VR code {:?} at {pos}", &self.b[pos + 4..pos + 6])) }
                if PS35_LEN16.contains(&name.as_str()) { (name, self.u16(pos + 6) as u32, 8) }
                else { if pos + 12 > self.b.len() { return Err(format!("truncated header at {pos}")) }
                    if self.b[pos + 6] != 0 || self.b[pos + 7] != 0 { return Err(format!("reserved bytes not zero at {pos}")) }
                    (name, self.u32(pos + 8), 12) }
            } else { (if (self.is_sq)(g, e) { "SQ".to_string() } else { "??".to_string() }, self.u32(pos + 4), 8) };
            pos += hdr;
            if (g, e) == (0x7FE0, 0x0010) && len == UNDEF && vr != "SQ" {
                if self.c.explicit() && vr != "OB" { return Err(format!("encapsulated pixel data with VR {vr}")) }
                // fragments: items of defined even length, then a sequence delimiter
                loop {
                    if pos + 8 > self.b.len() { return Err("truncated pixel sequence".into()) }
                    let (ig, ie, il) = (self.u16(pos), self.u16(pos + 2), self.u32(pos + 4));
                    pos += 8;
                    if (ig, ie) == (0xFFFE, 0xE0DD) { if il != 0 { return Err("sequence delimiter with non-zero length".into()) } break }
                    if (ig, ie) != (0xFFFE, 0xE000) { return Err(format!("bad tag in pixel sequence at {}", pos - 8)) }
                    if il == UNDEF { return Err("pixel fragment with undefined length".into()) }
                    if il % 2 == 1 { return Err("odd fragment length".into()) }
                    if pos + il as usize > self.b.len() { return Err("fragment overruns the stream".into()) }
                    pos += il as usize;
                }
                continue;
            }
            if vr == "SQ" || len == UNDEF {
                if len != UNDEF && len % 2 == 1 { return Err(format!("odd sequence length at {pos}")) }
                let send = if len == UNDEF { None } else { Some(pos + len as usize) };
                if let Some(se) = send { if se > self.b.len() { return Err("sequence overruns the stream".into()) } }
                loop {
                    if let Some(se) = send { if pos == se { break } if pos > se { return Err("sequence overrun".into()) } }
                    if pos + 8 > self.b.len() { return Err("truncated item header".into()) }
                    let (ig, ie, il) = (self.u16(pos), self.u16(pos + 2), self.u32(pos + 4));
                    pos += 8;
                    if (ig, ie) == (0xFFFE, 0xE0DD) { if send.is_some() { return Err("sequence delimiter in a defined-length sequence".into()) } if il != 0 { return Err("sequence delimiter with non-zero length".into()) } break }
                    if (ig, ie) != (0xFFFE, 0xE000) { return Err(format!("expected item at {}", pos - 8)) }
                    if il == UNDEF { pos = self.elements(pos, None, true, depth + 1)?; }
                    else { if il % 2 == 1 { return Err("odd item length".into()) }
                        if pos + il as usize > self.b.len() { return Err("item overruns the stream".into()) }
                        pos = self.elements(pos, Some(pos + il as usize), true, depth + 1)?; }
                }
                continue;
            }
            if len % 2 == 1 { return Err(format!("odd value length {len} of ({g:04X},{e:04X}) at {pos}")) }
            if pos + len as usize > self.b.len() { return Err(format!("value of ({g:04X},{e:04X}) overruns the stream")) }
            pos += len as usize;
        }
    }
    pub fn validate(&self) -> Result<(), String> { self.elements(0, None, false, 0).map(|_| ()) }
}

// ------------------------------------------------------------------ building the in-memory objects
fn parse_dt(s: &str) -> Option<DicomDateTime> {
    // [YYYY[MM[DD[HH[MM[SS[.F+]]]]]]][&ZZXX]
    let (body, tz) = match s.find(|ch| ch == '+' || ch == '-') { Some(p) => (&s[..p], Some(&s[p..])), None => (s, None) };
    let tz = tz.map(|z| { let sign = if z.starts_with('-') { -1 } else { 1 }; let h: i32 = z[1..3].parse().unwrap(); let m: i32 = z[3..5].parse().unwrap(); FixedOffset::east_opt(sign * (h * 3600 + m * 60)).unwrap() });
    let (d, t) = if body.len() > 8 { (&body[..8], Some(&body[8..])) } else { (body, None) };
    let date: DicomDate = parse_date(d)?;
    match (t, tz) {
        (Some(t), Some(z)) => DicomDateTime::from_date_and_time_with_time_zone(date, parse_time(t)?, z).ok(),
        (Some(t), None) => DicomDateTime::from_date_and_time(date, parse_time(t)?).ok(),
        (None, Some(z)) => Some(DicomDateTime::from_date_with_time_zone(date, z)),
        (None, None) => Some(DicomDateTime::from_date(date)),
    }
}
fn parse_date(d: &str) -> Option<DicomDate> {
    let y: u16 = d.get(0..4)?.parse().ok()?;
    match d.len() { 4 => DicomDate::from_y(y).ok(), 6 => DicomDate::from_ym(y, d[4..6].parse().ok()?).ok(), 8 => DicomDate::from_ymd(y, d[4..6].parse().ok()?, d[6..8].parse().ok()?).ok(), _ => None }
}
fn parse_time(t: &str) -> Option<DicomTime> { t.parse::<DicomTime>().ok().or_else(|| {
    let h: u8 = t.get(0..2)?.parse().ok()?; match t.len() { 2 => DicomTime::from_h(h).ok(), 4 => DicomTime::from_hm(h, t[2..4].parse().ok()?).ok(), 6 => DicomTime::from_hms(h, t[2..4].parse().ok()?, t[4..6].parse().ok()?).ok(), _ => None } }) }

pub fn prim_of(el: &GElem) -> PrimitiveValue {
    let name = vr_name(el.vr);
    match (&el.val, &el.repr) {
        (GVal::Empty, _) => PrimitiveValue::Empty,
        (GVal::Text(p), Repr::SingleStr) => PrimitiveValue::Str(p.join("\\")),
        (GVal::Text(p), Repr::DateTimeValues) => {
            let v = match name {
                "DA" => p.iter().map(|s| parse_date(s)).collect::<Option<Vec<_>>>().map(|v| PrimitiveValue::Date(v.into())),
                "TM" => p.iter().map(|s| parse_time(s)).collect::<Option<Vec<_>>>().map(|v| PrimitiveValue::Time(v.into())),
                _ => p.iter().map(|s| parse_dt(s)).collect::<Option<Vec<_>>>().map(|v| PrimitiveValue::DateTime(v.into())),
            };
            v.unwrap_or_else(|| PrimitiveValue::Strs(p.clone().into()))
        }
        (GVal::Text(p), Repr::IntValues) => PrimitiveValue::I32(p.iter().map(|s| s.parse::<i32>().unwrap()).collect::<Vec<_>>().into()),
        (GVal::Text(p), Repr::FloatValues) => PrimitiveValue::F64(p.iter().map(|s| s.parse::<f64>().unwrap()).collect::<Vec<_>>().into()),
        (GVal::Text(p), _) => PrimitiveValue::Strs(p.clone().into()),
        (GVal::Bytes(b), _) => PrimitiveValue::U8(b.clone().into()),
        (GVal::W16(x, false), _) => PrimitiveValue::U16(x.clone().into()),
        (GVal::W16(x, true), _) => PrimitiveValue::I16(x.iter().map(|w| *w as i16).collect::<Vec<_>>().into()),
        (GVal::W32(x, false), _) => PrimitiveValue::U32(x.clone().into()),
        (GVal::W32(x, true), _) => PrimitiveValue::I32(x.iter().map(|w| *w as i32).collect::<Vec<_>>().into()),
        (GVal::W64(x, false), _) => PrimitiveValue::U64(x.clone().into()),
        (GVal::W64(x, true), _) => PrimitiveValue::I64(x.iter().map(|w| *w as i64).collect::<Vec<_>>().into()),
        (GVal::F32(x), _) => PrimitiveValue::F32(x.iter().map(|w| f32::from_bits(*w)).collect::<Vec<_>>().into()),
        (GVal::F64(x), _) => PrimitiveValue::F64(x.iter().map(|w| f64::from_bits(*w)).collect::<Vec<_>>().into()),
        (GVal::Tags(x), _) => PrimitiveValue::Tags(x.iter().map(|(g, e)| Tag(*g, *e)).collect::<Vec<_>>().into()),
        (GVal::Seq { .. }, _) | (GVal::Pix { .. }, _) => unreachable!(),
    }
}

/// build the object directly through the public constructors (all item lengths undefined)
pub fn build_obj(elems: &[GElem], via_put: bool) -> Obj {
    let els: Vec<Elem> = elems.iter().map(|el| {
        let tag = Tag(el.g, el.e); let vr = ALL_VRS[el.vr];
        match &el.val {
            GVal::Seq { items, .. } => {
                let objs: Vec<Obj> = items.iter().map(|it| build_obj(&it.elems, false)).collect();
                DataElement::new_with_len(tag, vr, Length::UNDEFINED, Value::Sequence(DataSetSequence::new(objs, Length::UNDEFINED)))
            }
            GVal::Pix { ot, frags } => DataElement::new(tag, vr, Value::PixelSequence(PixelFragmentSequence::<InMemFragment>::new(ot.clone(), frags.clone()))),
            _ => DataElement::new(tag, vr, Value::Primitive(prim_of(el))),
        }
    }).collect();
    if via_put { let mut o = InMemDicomObject::new_empty(); for e in els { o.put(e); } o } else { InMemDicomObject::from_element_iter(els) }
}

// ------------------------------------------------------------------ Coq printers
/// list of numbers; long constant runs are printed as `nrep v n` (Coq cannot parse list literals of 10^5 elements)
pub fn c_nums<I: IntoIterator<Item = u128>>(xs: I) -> String {
    let v: Vec<u128> = xs.into_iter().collect();
    if v.len() < 512 { return c_list(v.iter().map(|x| x.to_string())); }
    let mut parts: Vec<String> = vec![];
    let mut lit: Vec<String> = vec![];
    let mut i = 0;
    while i < v.len() {
        let mut j = i; while j < v.len() && v[j] == v[i] { j += 1; }
        if j - i >= 64 { if !lit.is_empty() { parts.push(c_list(lit.drain(..))); } parts.push(format!("nrep {} {}", v[i], j - i)); }
        else { for k in i..j { lit.push(v[k].to_string()); if lit.len() >= 256 { parts.push(c_list(lit.drain(..))); } } }
        i = j;
    }
    if !lit.is_empty() { parts.push(c_list(lit.drain(..))); }
    format!("({})", parts.join(" ++ "))
}
pub fn cb(b: &[u8]) -> String { c_nums(b.iter().map(|x| *x as u128)) }
pub fn cs(s: &str) -> String { c_nums(s.chars().map(|c| c as u32 as u128)) }
pub fn c_tag(g: u16, e: u16) -> String { format!("({}, {})", g, e) }
fn c_strs(v: &[String]) -> String { c_list(v.iter().map(|s| cs(s))) }
pub fn c_prim(p: &PrimitiveValue) -> String {
    use PrimitiveValue::*;
    fn nums<T: Copy, F: Fn(T) -> u128>(v: &[T], f: F) -> String { c_nums(v.iter().map(|x| f(*x))) }
    match p {
        Empty => "PEmpty".into(),
        Str(s) => format!("(PStr {})", cs(s)),
        Strs(v) => format!("(PStrs {})", c_strs(v)),
        Tags(v) => format!("(PTags {})", c_list(v.iter().map(|t| c_tag(t.0, t.1)))),
        U8(v) => format!("(PU8 {})", nums(v, |x: u8| x as u128)),
        I16(v) => format!("(PI16 {})", nums(v, |x: i16| x as u16 as u128)),
        U16(v) => format!("(PU16 {})", nums(v, |x: u16| x as u128)),
        I32(v) => format!("(PI32 {})", nums(v, |x: i32| x as u32 as u128)),
        U32(v) => format!("(PU32 {})", nums(v, |x: u32| x as u128)),
        I64(v) => format!("(PI64 {})", nums(v, |x: i64| x as u64 as u128)),
        U64(v) => format!("(PU64 {})", nums(v, |x: u64| x as u128)),
        F32(v) => format!("(PF32 {})", nums(v, |x: f32| x.to_bits() as u128)),
        F64(v) => format!("(PF64 {})", nums(v, |x: f64| x.to_bits() as u128)),
        Date(v) => format!("(PDate {})", c_list(v.iter().map(c_date))),
        Time(v) => format!("(PTime {})", c_list(v.iter().map(c_time))),
        DateTime(v) => format!("(PDateTime {})", c_list(v.iter().map(|d| {
            let tz = d.time_zone().map(|z| { let s = z.local_minus_utc(); format!("({}, {})", c_bool(s < 0), s.unsigned_abs()) });
            format!("{{| dt_date := {}; dt_time := {}; dt_tz := {} |}}", c_date(d.date()), c_opt(d.time().map(c_time)), c_opt(tz)) }))),
    }
}
fn c_date(d: &DicomDate) -> String { match (d.month(), d.day()) { (Some(m), Some(dd)) => format!("(DDay {} {} {})", d.year(), m, dd), (Some(m), None) => format!("(DMonth {} {})", d.year(), m), _ => format!("(DYear {})", d.year()) } }
fn c_time(t: &DicomTime) -> String {
    match (t.minute(), t.second()) {
        (Some(m), Some(s)) => if t.to_encoded().contains('.') { let fs = t.fraction_str(); format!("(TFraction {} {} {} {} {})", t.hour(), m, s, fs.parse::<u64>().unwrap_or(0), fs.len()) }
            else { format!("(TSecond {} {} {})", t.hour(), m, s) },
        (Some(m), None) => format!("(TMinute {} {})", t.hour(), m),
        _ => format!("(THour {})", t.hour()),
    }
}
pub fn c_elem(e: &Elem) -> String {
    let h = e.header();
    let pre = format!("{} {} {}", c_tag(h.tag.0, h.tag.1), PS35_VRS.get(vr_index(h.vr) as usize).copied().unwrap_or("UN"), h.len.0);
    match e.value() {
        Value::Primitive(p) => format!("(EPrim {} {})", pre, c_prim(p)),
        Value::Sequence(s) => format!("(ESeq {} {})", pre, c_list(s.items().iter().map(|o| format!("({}, {})", HasLength::length(o).0, c_obj(o))))),
        Value::PixelSequence(p) => format!("(EPix {} {} {})", pre, c_list(p.offset_table().iter().map(|x| x.to_string())), c_list(p.fragments().iter().map(|f| cb(f)))),
    }
}
pub fn c_obj(o: &Obj) -> String { c_list(o.iter().map(c_elem)) }
pub fn c_token(t: &DataToken) -> String {
    match t {
        DataToken::ElementHeader(h) => format!("(TElemHeader {} {} {})", c_tag(h.tag.0, h.tag.1), PS35_VRS.get(vr_index(h.vr) as usize).copied().unwrap_or("UN"), h.len.0),
        DataToken::SequenceStart { tag, len } => format!("(TSeqStart {} {})", c_tag(tag.0, tag.1), len.0),
        DataToken::PixelSequenceStart => "TPixStart".into(),
        DataToken::SequenceEnd => "TSeqEnd".into(),
        DataToken::ItemStart { len } => format!("(TItemStart {})", len.0),
        DataToken::ItemEnd => "TItemEnd".into(),
        DataToken::PrimitiveValue(p) => format!("(TPrim {})", c_prim(p)),
        DataToken::ItemValue(b) => format!("(TItemValue {})", cb(b)),
        DataToken::OffsetTable(t) => format!("(TOffsetTable {})", c_list(t.iter().map(|x| x.to_string()))),
        _ => "TSeqEnd".into(),
    }
}
/// dictionary rows for all tags occurring in the objects: (tag, (relaxed VR index, is Xs))
pub fn collect_tags(o: &Obj, out: &mut BTreeMap<(u16, u16), ()>) {
    for e in o.iter() { out.insert((e.header().tag.0, e.header().tag.1), ());
        if let Value::Sequence(s) = e.value() { for it in s.items() { collect_tags(it, out) } } }
}
pub fn c_dict(tags: &BTreeMap<(u16, u16), ()>) -> String {
    c_list(tags.keys().filter_map(|(g, e)| StandardDataDictionary.by_tag(Tag(*g, *e)).map(|en|
        format!("({}, ({}, {}))", c_tag(*g, *e), vr_index(en.vr().relaxed()), c_bool(en.vr() == VirtualVr::Xs)))))
}

// ------------------------------------------------------------------ canonical comparison of objects
/// (path-free) canonical description of a data set: tag, VR name, and the value as text or numbers,
/// with the documented normalisations: trailing padding removed from text; textual numbers and dates by text.
pub fn canon_obj(o: &Obj) -> Vec<String> {
    let mut out = vec![];
    for e in o.iter() {
        let h = e.header();
        let head = format!("({:04X},{:04X}) {}", h.tag.0, h.tag.1, VR::to_string(h.vr));
        match e.value() {
            Value::Primitive(p) => out.push(format!("{} {}", head, canon_prim(p, h.vr))),
            Value::Sequence(s) => { out.push(format!("{} SEQ {}", head, s.items().len())); for it in s.items() { out.push("ITEM".into()); out.extend(canon_obj(it)); out.push("END".into()); } }
            Value::PixelSequence(p) => out.push(format!("{} PIX ot={:?} frags={:?}", head, p.offset_table(), p.fragments().iter().map(|f| hex(f)).collect::<Vec<_>>())),
        }
    }
    out
}
fn trim_pad(s: &str) -> &str { s.trim_end_matches([' ', '\0']) }
/// VRs whose value is ONE string in which a backslash is an ordinary character (PS3.5 6.2: ST, LT, UT, UR);
/// every other character string VR holds backslash-separated values.
pub fn single_text_vr(name: &str) -> bool { matches!(name, "ST" | "LT" | "UT" | "UR") }
/// canonical text value: the multiplicity and every item count; only the padding at the very end of the value field
/// (trailing SPACE/NUL of the last item) is ignored. A value that is nothing but padding is the empty value.
fn canon_text(vr: &str, items: &[String]) -> String {
    if trim_pad(&items.join("\\")).is_empty() { return "T:".into() }
    if single_text_vr(vr) {
        // must be one string; anything else is reported with its multiplicity so that it cannot compare equal
        if items.len() == 1 { format!("S:{:?}", trim_pad(&items[0])) } else { format!("S!{}:{:?}", items.len(), items) }
    } else {
        let mut v: Vec<String> = items.to_vec();
        if let Some(l) = v.last_mut() { *l = trim_pad(l).to_string(); }
        format!("M{}:{:?}", v.len(), v)
    }
}
pub fn canon_prim(p: &PrimitiveValue, vr: VR) -> String {
    use PrimitiveValue::*;
    let name: &str = VR::to_string(vr);
    match p {
        Empty => "T:".into(),
        // a single in-memory string has multiplicity 1 whatever it contains
        Str(s) => canon_text(name, &[s.clone()]),
        Strs(v) => canon_text(name, &v.to_vec()),
        Date(v) => canon_text(name, &v.iter().map(|d| d.to_encoded()).collect::<Vec<_>>()),
        Time(v) => canon_text(name, &v.iter().map(|d| d.to_encoded()).collect::<Vec<_>>()),
        DateTime(v) => canon_text(name, &v.iter().map(|d| d.to_encoded()).collect::<Vec<_>>()),
        U8(v) => format!("B:{}", hex(v)),
        I16(v) => format!("W16:{:?}", v.iter().map(|x| *x as u16).collect::<Vec<_>>()),
        U16(v) => format!("W16:{:?}", v.to_vec()),
        I32(v) => format!("W32:{:?}", v.iter().map(|x| *x as u32).collect::<Vec<_>>()),
        U32(v) => format!("W32:{:?}", v.to_vec()),
        I64(v) => format!("W64:{:?}", v.iter().map(|x| *x as u64).collect::<Vec<_>>()),
        U64(v) => format!("W64:{:?}", v.to_vec()),
        F32(v) => format!("W32:{:?}", v.iter().map(|x| x.to_bits()).collect::<Vec<_>>()),
        F64(v) => format!("W64:{:?}", v.iter().map(|x| x.to_bits()).collect::<Vec<_>>()),
        Tags(v) => format!("TAGS:{:?}", v.iter().map(|t| (t.0, t.1)).collect::<Vec<_>>()),
    }
}
/// the canonical description expected after a round trip, computed from the abstract data set alone
pub fn canon_expected(elems: &[GElem]) -> Vec<String> {
    let mut out = vec![];
    for el in elems {
        let name = vr_name(el.vr);
        let head = format!("({:04X},{:04X}) {}", el.g, el.e, name);
        match &el.val {
            GVal::Seq { items, .. } => { out.push(format!("{} SEQ {}", head, items.len())); for it in items { out.push("ITEM".into()); out.extend(canon_expected(&it.elems)); out.push("END".into()); } }
            GVal::Pix { ot, frags } => out.push(format!("{} PIX ot={:?} frags={:?}", head, ot, frags.iter().map(|f| hex(f)).collect::<Vec<_>>())),
            GVal::Empty => out.push(format!("{} T:", head)),
            // what must come back: for the single-string VRs one string (the parts joined, a backslash is text there),
            // for every other string VR exactly these items
            GVal::Text(p) => out.push(format!("{} {}", head, if single_text_vr(name) { canon_text(name, &[p.join("\\")]) } else { canon_text(name, p) })),
            GVal::Bytes(b) => { let mut b = b.clone(); if b.len() % 2 == 1 { b.push(0) } out.push(if b.is_empty() { format!("{} T:", head) } else { format!("{} B:{}", head, hex(&b)) }) }
            GVal::W16(x, _) => out.push(format!("{} W16:{:?}", head, x)),
            GVal::W32(x, _) | GVal::F32(x) => out.push(format!("{} W32:{:?}", head, x)),
            GVal::W64(x, _) | GVal::F64(x) => out.push(format!("{} W64:{:?}", head, x)),
            GVal::Tags(x) => out.push(format!("{} TAGS:{:?}", head, x)),
        }
    }
    out
}
/// float-valued DS (written through Rust's float formatting): compare numerically instead of by text
pub fn has_float_text(elems: &[GElem]) -> bool {
    elems.iter().any(|e| e.repr == Repr::FloatValues || match &e.val { GVal::Seq { items, .. } => items.iter().any(|i| has_float_text(&i.elems)), _ => false })
}
pub fn has_explicit(elems: &[GElem]) -> bool {
    elems.iter().any(|e| match &e.val { GVal::Seq { explicit, items } => *explicit || items.iter().any(|i| i.explicit || has_explicit(&i.elems)), _ => false })
}
pub fn count_elems(elems: &[GElem]) -> usize { elems.iter().map(|e| 1 + match &e.val { GVal::Seq { items, .. } => items.iter().map(|i| count_elems(&i.elems)).sum(), _ => 0 }).sum() }
pub fn max_depth(elems: &[GElem]) -> usize { elems.iter().map(|e| match &e.val { GVal::Seq { items, .. } => 1 + items.iter().map(|i| max_depth(&i.elems)).max().unwrap_or(0), _ => 0 }).max().unwrap_or(0) }
pub fn sq_tags(elems: &[GElem], out: &mut Vec<(u16, u16)>) { for e in elems { if let GVal::Seq { items, .. } = &e.val { out.push((e.g, e.e)); for i in items { sq_tags(&i.elems, out) } } } }
