//! C03 — element/item header wire layout (encoding/src/{encode,decode}/*, core/src/header.rs VR).
use crate::vrs::*;
use dicom_core::dictionary::{DataDictionary, DataDictionaryEntry};
use dicom_core::header::{DataElementHeader, Length, SequenceItemHeader};
use dicom_core::{Tag, VR};
use dicom_dictionary_std::StandardDataDictionary;
use dicom_encoding::decode::adaptive_le::AdaptiveVRLittleEndianDecoder;
use dicom_encoding::decode::explicit_be::ExplicitVRBigEndianDecoder;
use dicom_encoding::decode::explicit_le::ExplicitVRLittleEndianDecoder;
use dicom_encoding::decode::implicit_le::ImplicitVRLittleEndianDecoder;
use dicom_encoding::decode::{Decode, Error as DErr};
use dicom_encoding::encode::explicit_be::ExplicitVRBigEndianEncoder;
use dicom_encoding::encode::explicit_le::ExplicitVRLittleEndianEncoder;
use dicom_encoding::encode::implicit_le::ImplicitVRLittleEndianEncoder;
use dicom_encoding::encode::{Encode, Error as EErr};
use serde_json::json;
use std::fmt::Write as _;
use vhc::*;

type EncR = Result<(Vec<u8>, usize), u32>;

pub fn enc_header(c: Codec, g: u16, e: u16, vr: VR, len: u32) -> Option<EncR> {
    let de = DataElementHeader::new(Tag(g, e), vr, Length(len));
    catch(|| {
        let mut out = vec![];
        let r = match c {
            Codec::Ile => ImplicitVRLittleEndianEncoder::default().encode_element_header(&mut out, de),
            Codec::Ele => ExplicitVRLittleEndianEncoder::default().encode_element_header(&mut out, de),
            Codec::Ebe => ExplicitVRBigEndianEncoder::default().encode_element_header(&mut out, de),
        };
        match r {
            Ok(n) => Ok((out, n)),
            Err(EErr::WriteHeaderTooLong { .. }) => Err(1),
            Err(_) => Err(9),
        }
    })
}

fn derr(e: &DErr) -> u32 {
    match e {
        DErr::ReadHeaderTag { .. } => 11,
        DErr::ReadItemHeader { .. } => 12,
        DErr::ReadItemLength { .. } => 13,
        DErr::ReadTag { .. } => 14,
        DErr::ReadReserved { .. } => 15,
        DErr::ReadLength { .. } => 16,
        DErr::ReadVr { .. } => 17,
        DErr::BadSequenceHeader { .. } => 18,
        _ => 19,
    }
}

/// decode_header on a byte slice: Ok((g, e, vr index, len, bytes_read, bytes left))
pub fn dec_header(c: Codec, input: &[u8]) -> Option<Result<(u16, u16, u32, u32, usize, usize), u32>> {
    catch(|| {
        let mut src: &[u8] = input;
        let r = match c {
            Codec::Ile => ImplicitVRLittleEndianDecoder::default().decode_header(&mut src),
            Codec::Ele => ExplicitVRLittleEndianDecoder::default().decode_header(&mut src),
            Codec::Ebe => ExplicitVRBigEndianDecoder::default().decode_header(&mut src),
        };
        match r {
            Ok((h, n)) => Ok((h.tag.0, h.tag.1, vr_index(h.vr), h.len.0, n, src.len())),
            Err(e) => Err(derr(&e)),
        }
    })
}

/// decode_header through the adaptive (flexible) LE decoder, fresh instance: an explicit header with a tag
/// unknown to the dictionary locks it to explicit VR
pub fn dec_header_adaptive(input: &[u8]) -> Option<Result<(u16, u16, u32, u32, usize, usize), u32>> {
    catch(|| {
        let mut src: &[u8] = input;
        match AdaptiveVRLittleEndianDecoder::default().decode_header(&mut src) {
            Ok((h, n)) => Ok((h.tag.0, h.tag.1, vr_index(h.vr), h.len.0, n, src.len())),
            Err(e) => Err(derr(&e)),
        }
    })
}

fn dec_item(c: Codec, input: &[u8]) -> Option<Result<(u32, u32, usize), u32>> {
    catch(|| {
        let mut src: &[u8] = input;
        let r = match c {
            Codec::Ile => ImplicitVRLittleEndianDecoder::default().decode_item_header(&mut src),
            Codec::Ele => ExplicitVRLittleEndianDecoder::default().decode_item_header(&mut src),
            Codec::Ebe => ExplicitVRBigEndianDecoder::default().decode_item_header(&mut src),
        };
        match r {
            Ok(SequenceItemHeader::Item { len }) => Ok((0, len.0, src.len())),
            Ok(SequenceItemHeader::ItemDelimiter) => Ok((1, 0, src.len())),
            Ok(SequenceItemHeader::SequenceDelimiter) => Ok((2, 0, src.len())),
            Err(e) => Err(derr(&e)),
        }
    })
}

fn enc_item(c: Codec, kind: u32, len: u32) -> Option<Vec<u8>> {
    catch(|| {
        let mut out = vec![];
        macro_rules! go { ($e:expr) => { match kind { 0 => $e.encode_item_header(&mut out, len), 1 => $e.encode_item_delimiter(&mut out), _ => $e.encode_sequence_delimiter(&mut out) } } }
        let r = match c {
            Codec::Ile => go!(ImplicitVRLittleEndianEncoder::default()),
            Codec::Ele => go!(ExplicitVRLittleEndianEncoder::default()),
            Codec::Ebe => go!(ExplicitVRBigEndianEncoder::default()),
        };
        r.ok().map(|_| out)
    }).flatten()
}

/// what the ILE decoder's dictionary says for a tag (relaxed VR), computed through the public dictionary API
pub fn dict_vr(g: u16, e: u16) -> Option<u32> {
    StandardDataDictionary.by_tag(Tag(g, e)).map(|en| vr_index(en.vr().relaxed()))
}

// ------------------------------------------------------------------ tables
pub fn tables(out: &str) {
    // GenVrCodes.v: VR::from_binary on all 65536 codes, run-length encoded; VR::to_bytes of all 34
    let mut s = String::new();
    s.push_str("(* GENERATED by vh_ds C03 tables from the behaviour of dicom_core::VR — do not edit *)\nFrom DicomV Require Import Base.Prelude.\nOpen Scope N_scope.\n");
    s.push_str("(* VR::from_binary [c / 256; c mod 256] for every c in [0, 65536): (lo, hi, result) intervals; result = Some (VR index in enum order) *)\n");
    s.push_str("Definition gen_vr_code_intervals : list (N * N * option N) := [\n");
    let res = |c: u32| VR::from_binary([(c >> 8) as u8, (c & 255) as u8]).map(vr_index);
    let mut rows = vec![];
    let mut lo = 0u32; let mut cur = res(0);
    for c in 1..=65536u32 {
        let r = if c < 65536 { res(c) } else { Some(12345) };
        if r != cur { rows.push(format!("  ({}, {}, {})", lo, c - 1, c_opt(cur.map(|x| x.to_string())))); lo = c; cur = r; }
    }
    s.push_str(&rows.join(";\n")); s.push_str("\n].\n");
    s.push_str("(* VR::to_bytes for each VR in enum order: (index, (byte0, byte1)) *)\nDefinition gen_vr_to_bytes : list (N * (N * N)) := [\n");
    let rows: Vec<String> = ALL_VRS.iter().map(|v| { let b = v.to_bytes(); format!("  ({}, ({}, {}))", vr_index(*v), b[0], b[1]) }).collect();
    s.push_str(&rows.join(";\n")); s.push_str("\n].\n");
    // FromStr / to_string agree with to_bytes (observed): 1 = yes
    let ok = ALL_VRS.iter().all(|v| VR::to_string(*v).parse::<VR>().ok() == Some(*v) && VR::to_string(*v).as_bytes() == v.to_bytes());
    let _ = writeln!(s, "Definition gen_vr_fromstr_tostring_consistent : bool := {}.", ok);
    std::fs::write(format!("{out}/GenVrCodes.v"), s).unwrap();

    // GenHeaderLayout.v: per VR the header class observed at each of the sites that carry the 16-bit list
    let mut s = String::new();
    s.push_str("(* GENERATED by vh_ds C03 tables from the behaviour of the header encoders/decoders — do not edit *)\nFrom DicomV Require Import Base.Prelude.\nOpen Scope N_scope.\n");
    s.push_str("(* per VR index: [enc ELE; enc EBE; enc ILE; dec ELE; dec EBE; dec adaptive(explicit)] = header size in bytes for length 4 (0 = error),\n   then [enc ELE; enc EBE; enc ILE] for length 0x10000: returned size, or 1 = rejected with WriteHeaderTooLong, 2 = other error *)\n");
    s.push_str("Definition gen_header_layout : list (N * list N) := [\n");
    let mut rows = vec![];
    for v in ALL_VRS.iter() {
        let mut cols: Vec<u32> = vec![];
        for c in [Codec::Ele, Codec::Ebe, Codec::Ile] {
            cols.push(match enc_header(c, 0x0009, 0x1001, *v, 4) { Some(Ok((b, n))) if b.len() == n => n as u32, _ => 0 });
        }
        let name: &str = VR::to_string(*v);
        for c in [Codec::Ele, Codec::Ebe] {
            let mut input = ps35_header_raw(c, 0x0009, 0x1001, name);
            input.extend([0u8; 8]);
            cols.push(match dec_header(c, &input) { Some(Ok((_, _, vi, _, n, _))) if vi == vr_index(*v) => n as u32, _ => 0 });
        }
        {
            // adaptive decoder: first element with an unknown (private) tag locks to explicit
            let mut input = ps35_header_raw(Codec::Ele, 0x0009, 0x1001, name);
            input.extend([0u8; 8]);
            let d = AdaptiveVRLittleEndianDecoder::default();
            let mut src: &[u8] = &input;
            cols.push(match catch(|| d.decode_header(&mut src)) { Some(Ok((h, n))) if h.vr == *v => n as u32, _ => 0 });
        }
        for c in [Codec::Ele, Codec::Ebe, Codec::Ile] {
            cols.push(match enc_header(c, 0x0009, 0x1001, *v, 0x10000) { Some(Ok((b, n))) if b.len() == n => n as u32, Some(Err(1)) => 1, _ => 2 });
        }
        rows.push(format!("  ({}, {})", vr_index(*v), c_list(cols.iter().map(|x| x.to_string()))));
    }
    s.push_str(&rows.join(";\n")); s.push_str("\n].\n");
    std::fs::write(format!("{out}/GenHeaderLayout.v"), s).unwrap();
}

/// tag + VR code + 2 bytes (04 00) : enough for the decoders to classify
fn ps35_header_raw(c: Codec, g: u16, e: u16, name: &str) -> Vec<u8> {
    let mut b = vec![]; b.extend(c.u16(g)); b.extend(c.u16(e)); b.extend(name.as_bytes()); b
}

// ------------------------------------------------------------------ cases
const LENS: [u32; 14] = [0, 1, 2, 0xFE, 0xFF, 0x100, 0xFFFE, 0xFFFF, 0x10000, 0x10001, 0x7FFFFFFF, 0xFFFFFFFE, 0xFFFFFFFF, 0x01020304];
const GROUPS: [u16; 12] = [0x0000, 0x0002, 0x0008, 0x0009, 0x0010, 0x0028, 0x6000, 0x60FF, 0x7FE0, 0xFFFD, 0xFFFE, 0xFFFF];
const ELEMS: [u16; 12] = [0x0000, 0x0001, 0x0010, 0x0018, 0x1001, 0x3000, 0x9215, 0xE000, 0xE00D, 0xE0DD, 0xFFFE, 0xFFFF];

fn c_res<T>(r: &Option<Result<T, u32>>, f: impl Fn(&T) -> String) -> String {
    match r { None => c_panic(), Some(Ok(v)) => c_ok(&f(v)), Some(Err(e)) => c_err(*e) }
}

fn pick_tag(r: &mut Rng) -> (u16, u16) {
    match r.below(4) {
        0 => (*r.pick(&GROUPS), *r.pick(&ELEMS)),
        1 => (r.below(65536) as u16, r.below(65536) as u16),
        2 => { // a real dictionary tag: sample until found
            for _ in 0..50 { let g = *r.pick(&[0x0008u16, 0x0010, 0x0018, 0x0020, 0x0028, 0x0040, 0x0054, 0x3006]); let e = (r.below(0x200) as u16) & 0xFFFE | (r.below(2) as u16);
                if dict_vr(g, e).is_some() { return (g, e) } }
            (0x0010, 0x0010)
        }
        _ => (*r.pick(&GROUPS), r.below(65536) as u16),
    }
}
fn pick_len(r: &mut Rng) -> u32 {
    match r.below(3) { 0 | 1 => *r.pick(&LENS), _ => match r.below(3) { 0 => r.below(0x10000) as u32, 1 => 0xFFF0 + r.below(0x20) as u32, _ => r.next() as u32 } }
}

pub fn cases(ctx: &Ctx) -> Vec<Case> {
    let mut r = Rng::new(ctx.seed);
    let mut out = vec![];
    // ---- complete sweeps first (cheap): 34 VRs x 3 codecs x all boundary lengths, fixed tag
    for c in CODECS { for (vi, v) in ALL_VRS.iter().enumerate() { for len in LENS {
        out.push(enc_case(c, 0x0009, 0x1001, vi, *v, len, "sweep"));
        out.push(dec_wellformed_case(c, 0x0009, 0x1001, vi, *v, len, &[0xAB, 0xCD, 0xEF], "sweep"));
    } } }
    // the adaptive LE decoder in explicit mode: every VR x every boundary length
    for (vi, _v) in ALL_VRS.iter().enumerate() { for len in LENS { out.push(dec_adaptive_case(0x0009, 0x1001, vi, len, &[0xAB, 0xCD, 0xEF])); } }
    // VR::from_binary on ALL 65536 codes, evaluated here; every deviation from the standard's list becomes a failing case
    out.extend(vrcode_full_sweep());
    // item headers: all kinds x codecs x boundary lengths
    for c in CODECS { for kind in 0..3u32 { for len in LENS { out.push(item_case(c, kind, len, &[1, 2, 3])); } } }
    // all 34 defined codes + neighbours (case variants, swapped letters)
    for name in PS35_VRS { let b = name.as_bytes();
        for (a, bb) in [(b[0], b[1]), (b[0] | 0x20, b[1]), (b[0], b[1] | 0x20), (b[1], b[0]), (b[0], b[1].wrapping_add(1)), (b[0].wrapping_add(1), b[1])] { out.push(vrcode_case(a, bb)); } }
    for (vi, v) in ALL_VRS.iter().enumerate() { let b = v.to_bytes();
        out.push(Case { coq: format!("(CVrBytes {} {} {})", vi, b[0], b[1]), desc: json!({"bucket": "vr-to-bytes", "vr": VR::to_string(*v)}), key: format!("tb{}", vi),
            oracle: if b == PS35_VRS[vi].as_bytes() { Oracle::Holds } else { Oracle::Fails { class: "vr-to-bytes".into(), detail: format!("{:?} -> {:?}", v, b) } } }); }
    // ---- random part
    while out.len() < ctx.n {
        let c = *r.pick(&CODECS);
        match r.below(10) {
            0..=2 => { let (g, e) = pick_tag(&mut r); let vi = r.below(34) as usize; out.push(enc_case(c, g, e, vi, ALL_VRS[vi], pick_len(&mut r), "rand")); }
            3..=5 => { let (g, e) = pick_tag(&mut r); let vi = r.below(34) as usize;
                let rest: Vec<u8> = (0..r.below(6)).map(|_| r.below(256) as u8).collect();
                out.push(dec_wellformed_case(c, g, e, vi, ALL_VRS[vi], pick_len(&mut r), &rest, "rand")); }
            6 => { // malformed / truncated / arbitrary bytes through decode_header
                let (g, e) = pick_tag(&mut r); let vi = r.below(34) as usize;
                let mut b = ps35_header(c, g, e, PS35_VRS[vi], pick_len(&mut r));
                match r.below(4) {
                    0 => { let k = r.below(b.len() as u64 + 1) as usize; b.truncate(k); }
                    1 => { let k = r.below(b.len() as u64) as usize; b[k] = r.below(256) as u8; }
                    2 => { if b.len() > 5 { b[4] = r.below(256) as u8; b[5] = r.below(256) as u8; } b.extend([9u8; 7]); }
                    _ => { b = (0..r.below(14)).map(|_| r.below(256) as u8).collect(); }
                }
                out.push(dec_raw_case(c, &b, "malformed"));
            }
            7 => { let rest: Vec<u8> = (0..r.below(4)).map(|_| r.below(256) as u8).collect(); out.push(item_case(c, r.below(3) as u32, pick_len(&mut r), &rest)); }
            8 => { // decode_item_header on arbitrary / near-valid input
                let mut b = ps35_item(c, *r.pick(&[0xE000u16, 0xE00D, 0xE0DD, 0xE001, 0x0000]), if r.coin() { 0 } else { pick_len(&mut r) });
                match r.below(4) { 0 => { let k = r.below(9) as usize; b.truncate(k); } 1 => { let k = r.below(8) as usize; b[k] = r.below(256) as u8; } _ => {} }
                out.push(item_dec_case(c, &b));
            }
            _ => { let (a, b) = match r.below(3) { 0 => (r.below(256) as u8, r.below(256) as u8), 1 => (r.range(0x41, 0x5A) as u8, r.range(0x41, 0x5A) as u8), _ => { let n = r.pick(&PS35_VRS).as_bytes(); (n[0] ^ (1 << r.below(8)) as u8, n[1]) } };
                out.push(vrcode_case(a, b)); }
        }
    }
    out
}

fn enc_case(c: Codec, g: u16, e: u16, vi: usize, v: VR, len: u32, src: &str) -> Case {
    let res = enc_header(c, g, e, v, len);
    let name = PS35_VRS[vi];
    let short = c.explicit() && PS35_LEN16.contains(&name);
    // oracle: layout per the standard; overflow of the 16-bit form must be rejected
    let oracle = if short && len > 0xFFFF {
        match &res { Some(Err(_)) => Oracle::Holds,
            other => Oracle::Fails { class: "overflow-not-rejected".into(), detail: format!("{} {} len {:#x} -> {:?}", c.name(), name, len, other) } }
    } else {
        let want = ps35_header(c, g, e, name, len);
        match &res { Some(Ok((b, n))) if *b == want && *n == want.len() => Oracle::Holds,
            other => Oracle::Fails { class: "header-layout".into(), detail: format!("{} ({:04X},{:04X}) {} len {:#x}: want {} got {:?}", c.name(), g, e, name, len, hex(&want), other.as_ref().map(|r| r.as_ref().map(|(b, n)| (hex(b), *n)))) } }
    };
    Case { coq: format!("(CEnc {} {} {} {} {} {})", c as u32, g, e, vi, len, c_res(&res, |(b, n)| c_pair(&c_bytes(b), &n.to_string()))),
        desc: json!({"bucket": format!("enc-{}-{}", if short { "short" } else { "long" }, src), "codec": c.name(), "tag": format!("{:04X},{:04X}", g, e), "vr": name, "len": len}),
        key: format!("e{}-{}-{}-{}-{}", c as u32, g, e, vi, len), oracle }
}

fn dec_wellformed_case(c: Codec, g: u16, e: u16, vi: usize, _v: VR, len: u32, rest: &[u8], src: &str) -> Case {
    let name = PS35_VRS[vi];
    let short = c.explicit() && PS35_LEN16.contains(&name);
    let len = if short { len & 0xFFFF } else { len };
    let hdr = ps35_header(c, g, e, name, len);
    let mut input = hdr.clone(); input.extend(rest);
    let res = dec_header(c, &input);
    let dv = dict_vr(g, e);
    // oracle (element headers, group != FFFE): same tag, VR (ILE: dictionary VR, OW for pixel/overlay data), length, size = layout size
    let oracle = if g == 0xFFFE { Oracle::NotApplicable } else {
        let want_vr = if c.explicit() { vi as u32 } else if (g, e) == (0x7FE0, 0x0010) || (g >> 8 == 0x60 && e == 0x3000) { vr_index(VR::OW) } else { dv.unwrap_or(vr_index(VR::UN)) };
        match &res { Some(Ok(t)) if *t == (g, e, want_vr, len, hdr.len(), rest.len()) => Oracle::Holds,
            other => Oracle::Fails { class: "header-decode".into(), detail: format!("{} {} -> {:?}", c.name(), hex(&input), other) } }
    };
    let mut k = dec_raw_case(c, &input, &format!("dec-{}-{}", if short { "short" } else { "long" }, src));
    k.oracle = oracle; k
}

/// adaptive decoder, explicit mode, on a PS3.5-layout Explicit VR LE header; the Coq side compares with the ELE decoder model
fn dec_adaptive_case(g: u16, e: u16, vi: usize, len: u32, rest: &[u8]) -> Case {
    let name = PS35_VRS[vi];
    let short = PS35_LEN16.contains(&name);
    let len = if short { len & 0xFFFF } else { len };
    let hdr = ps35_header(Codec::Ele, g, e, name, len);
    let mut input = hdr.clone(); input.extend(rest);
    let res = dec_header_adaptive(&input);
    let oracle = match &res { Some(Ok(t)) if *t == (g, e, vi as u32, len, hdr.len(), rest.len()) => Oracle::Holds,
        other => Oracle::Fails { class: "header-decode-adaptive".into(), detail: format!("adaptive LE decoder (explicit mode) VR {} on {} -> {:?}, layout says tag ({:04X},{:04X}) len {:#x} size {}", name, hex(&input), other, g, e, len, hdr.len()) } };
    Case { coq: format!("(CDec 1 None {} {})", c_bytes(&input), c_res(&res, |t| c_tuple(&[t.0.to_string(), t.1.to_string(), t.2.to_string(), t.3.to_string(), t.4.to_string(), t.5.to_string()]))),
        desc: json!({"bucket": format!("dec-adaptive-{}", if short { "short" } else { "long" }), "codec": "adaptive-LE(explicit)", "vr": name, "len": len, "input": hex(&input)}),
        key: format!("a-{}-{}", vi, len), oracle }
}

fn vrcode_full_sweep() -> Vec<Case> {
    let mut bad = vec![];
    for c in 0..65536u32 {
        let (a, b) = ((c >> 8) as u8, (c & 255) as u8);
        let res = VR::from_binary([a, b]).map(vr_index);
        let want = PS35_VRS.iter().position(|n| n.as_bytes() == [a, b]).map(|p| p as u32);
        if res != want && bad.len() < 20 { bad.push(vrcode_case(a, b)); }
    }
    if bad.is_empty() {
        bad.push(Case { coq: String::new(), desc: json!({"bucket": "vrcode-full-sweep", "checked": 65536}), key: "vrcode-full-sweep".into(), oracle: Oracle::Holds });
    }
    bad
}

fn dec_raw_case(c: Codec, input: &[u8], bucket: &str) -> Case {
    let res = dec_header(c, input);
    // the dictionary answer for the tag the ILE decoder will see
    let dv = if input.len() >= 4 { let g = u16::from_le_bytes([input[0], input[1]]); let e = u16::from_le_bytes([input[2], input[3]]); if c == Codec::Ile { dict_vr(g, e) } else { None } } else { None };
    Case { coq: format!("(CDec {} {} {} {})", c as u32, c_opt(dv.map(|x| x.to_string())), c_bytes(input),
            c_res(&res, |t| c_tuple(&[t.0.to_string(), t.1.to_string(), t.2.to_string(), t.3.to_string(), t.4.to_string(), t.5.to_string()]))),
        desc: json!({"bucket": bucket, "codec": c.name(), "input": hex(input)}),
        key: format!("d{}-{}", c as u32, hex(input)), oracle: Oracle::NotApplicable }
}

fn item_case(c: Codec, kind: u32, len: u32, rest: &[u8]) -> Case {
    let out = enc_item(c, kind, len).unwrap_or_default();
    let want = ps35_item(c, [0xE000u16, 0xE00D, 0xE0DD][kind as usize], if kind == 0 { len } else { 0 });
    let mut input = want.clone(); input.extend(rest);
    let back = dec_item(c, &input);
    let ok = out == want && matches!(&back, Some(Ok((k, l, left))) if *k == kind && *l == (if kind == 0 { len } else { 0 }) && *left == rest.len());
    let mut k2 = item_dec_case(c, &input);
    let enc = format!("(CItemEnc {} {} {} {})", c as u32, kind, len, c_bytes(&out));
    // two Coq cases cannot share an index: the decode half is a separate case; here we emit the encode half
    k2.desc = json!({"bucket": format!("item-{}", kind), "codec": c.name(), "len": len, "out": hex(&out)});
    Case { coq: enc, desc: k2.desc, key: format!("i{}-{}-{}", c as u32, kind, len),
        oracle: if ok { Oracle::Holds } else { Oracle::Fails { class: "item-header".into(), detail: format!("{} kind {} len {:#x}: wrote {} want {} decoded {:?}", c.name(), kind, len, hex(&out), hex(&want), back) } } }
}

fn item_dec_case(c: Codec, input: &[u8]) -> Case {
    let res = dec_item(c, input);
    Case { coq: format!("(CItemDec {} {} {})", c as u32, c_bytes(input), c_res(&res, |t| c_tuple(&[t.0.to_string(), t.1.to_string(), t.2.to_string()]))),
        desc: json!({"bucket": "item-dec", "codec": c.name(), "input": hex(input)}), key: format!("j{}-{}", c as u32, hex(input)), oracle: Oracle::NotApplicable }
}

fn vrcode_case(a: u8, b: u8) -> Case {
    let res = VR::from_binary([a, b]).map(vr_index);
    let want = PS35_VRS.iter().position(|n| n.as_bytes() == [a, b]).map(|p| p as u32);
    Case { coq: format!("(CVrCode {} {} {})", a, b, c_opt(res.map(|x| x.to_string()))),
        desc: json!({"bucket": if want.is_some() { "vrcode-defined" } else { "vrcode-undefined" }, "code": [a, b]}), key: format!("v{}-{}", a, b),
        oracle: if res == want { Oracle::Holds } else { Oracle::Fails { class: "vr-code".into(), detail: format!("from_binary({:?}) = {:?}, standard says {:?}", [a, b], res, want) } } }
}
