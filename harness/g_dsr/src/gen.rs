//! Data set stream generator shared by C07 / C08: an abstract tree, an independent
//! encoder for the three uncompressed syntaxes, and the token list a correct reader
//! must produce for it.
use crate::rd::Ts;
use dicom_core::dictionary::{DataDictionary, DataDictionaryEntry, VirtualVr};
use dicom_core::{Tag, VR};
use dicom_dictionary_std::StandardDataDictionary;
use std::collections::BTreeMap;
use vhc::*;

#[derive(Clone, Debug)]
pub enum Node {
    Elem { tag: (u16, u16), vr: VR, data: Vec<u8> },
    Seq { tag: (u16, u16), undef: bool, items: Vec<(bool, Vec<Node>)> },
    Pix { bot: Vec<u8>, frags: Vec<Vec<u8>> },
}

pub const ALL_VRS: [VR; 34] = [
    VR::AE, VR::AS, VR::AT, VR::CS, VR::DA, VR::DS, VR::DT, VR::FL, VR::FD, VR::IS, VR::LO, VR::LT, VR::OB, VR::OD,
    VR::OF, VR::OL, VR::OV, VR::OW, VR::PN, VR::SH, VR::SL, VR::SQ, VR::SS, VR::ST, VR::SV, VR::TM, VR::UC, VR::UI,
    VR::UL, VR::UN, VR::UR, VR::US, VR::UT, VR::UV,
];

pub fn short_len(vr: VR) -> bool {
    matches!(vr, VR::AE | VR::AS | VR::AT | VR::CS | VR::DA | VR::DS | VR::DT | VR::FL | VR::FD | VR::IS | VR::LO | VR::LT
        | VR::PN | VR::SH | VR::SL | VR::SS | VR::ST | VR::TM | VR::UI | VR::UL | VR::US)
}

/// Tags of the standard dictionary by (relaxed) VR, found by probing the real dictionary.
pub struct Pools { pub by_vr: BTreeMap<String, Vec<(u16, u16)>>, pub xs: Vec<(u16, u16)> }

pub fn pools() -> Pools {
    let mut by_vr: BTreeMap<String, Vec<(u16, u16)>> = BTreeMap::new();
    let mut xs = vec![];
    // group 0072 has a "Selector .. Value" attribute for every VR; the other groups add the common attributes
    for g in [0x0008u16, 0x0010, 0x0018, 0x0020, 0x0028, 0x0040, 0x0072] {
        for e in (1..=0x0400u16).chain(0x1000..=0x1250u16) {
            if g == 0x0008 && e == 0x0005 { continue; } // Specific Character Set: switches the text codec
            if g == 0x0028 && e == 0x0103 { continue; } // Pixel Representation: placed deliberately
            if let Some(en) = StandardDataDictionary.by_tag(Tag(g, e)) {
                if en.tag() != Tag(g, e) { continue; } // generic / range entries
                let v = en.vr();
                if v == VirtualVr::Xs { xs.push((g, e)); }
                by_vr.entry(v.relaxed().to_string().to_string()).or_default().push((g, e));
            }
        }
    }
    Pools { by_vr, xs }
}

pub fn vvr_row(g: u16, e: u16) -> Option<String> {
    StandardDataDictionary.by_tag(Tag(g, e)).map(|en| match en.vr() {
        VirtualVr::Exact(vr) => format!("(VExact {})", crate::rd::vr_code(vr)),
        VirtualVr::Xs => "VXs".into(),
        VirtualVr::Ox => "VOx".into(),
        VirtualVr::Px => "VPx".into(),
        VirtualVr::Lt => "VLt".into(),
        _ => "VOx".into(),
    })
}

fn put16(out: &mut Vec<u8>, be: bool, x: u16) { if be { out.extend_from_slice(&x.to_be_bytes()) } else { out.extend_from_slice(&x.to_le_bytes()) } }
fn put32(out: &mut Vec<u8>, be: bool, x: u32) { if be { out.extend_from_slice(&x.to_be_bytes()) } else { out.extend_from_slice(&x.to_le_bytes()) } }

fn header(out: &mut Vec<u8>, ts: Ts, tag: (u16, u16), vr: VR, len: u32) {
    let be = ts == Ts::Ebe;
    put16(out, be, tag.0);
    put16(out, be, tag.1);
    if ts == Ts::Ile {
        put32(out, be, len);
    } else {
        out.extend_from_slice(&vr.to_bytes());
        if short_len(vr) { put16(out, be, len as u16) } else { out.extend_from_slice(&[0, 0]); put32(out, be, len) }
    }
}
fn item_header(out: &mut Vec<u8>, ts: Ts, e: u16, len: u32) {
    let be = ts == Ts::Ebe;
    put16(out, be, 0xFFFE);
    put16(out, be, e);
    put32(out, be, len);
}

/// What a correct reader reports: (kind, tag, length). kinds: 'E' element header, 'V' value,
/// 'S' sequence start, 's' sequence end, 'I' item start, 'i' item end, 'P' pixel sequence start,
/// 'O' offset table, 'F' fragment value.
pub type Expect = (char, (u16, u16), u32);

/// Encode the tree. `pad_odd`: every odd-length value/fragment is followed by one extra byte
/// (the layout the next-even strategy assumes); declared lengths stay as they are.
pub fn encode(nodes: &[Node], ts: Ts, pad_odd: bool, out: &mut Vec<u8>, exp: &mut Vec<Expect>) {
    let adj = |l: u32| if pad_odd && l % 2 == 1 { l + 1 } else { l };
    for n in nodes {
        match n {
            Node::Elem { tag, vr, data } => {
                let l = data.len() as u32;
                header(out, ts, *tag, *vr, l);
                out.extend_from_slice(data);
                if pad_odd && l % 2 == 1 { out.push(0x20); }
                exp.push(('E', *tag, adj(l)));
                exp.push(('V', *tag, adj(l)));
            }
            Node::Seq { tag, undef, items } => {
                let mut body = vec![];
                let mut bexp = vec![];
                for (iundef, inner) in items {
                    let mut ib = vec![];
                    let mut iexp = vec![];
                    encode(inner, ts, pad_odd, &mut ib, &mut iexp);
                    let ilen = if *iundef { 0xFFFF_FFFF } else { ib.len() as u32 };
                    item_header(&mut body, ts, 0xE000, ilen);
                    bexp.push(('I', (0xFFFE, 0xE000), ilen));
                    body.extend_from_slice(&ib);
                    bexp.extend(iexp);
                    if *iundef { item_header(&mut body, ts, 0xE00D, 0); }
                    bexp.push(('i', (0xFFFE, 0xE00D), 0));
                }
                let slen = if *undef { 0xFFFF_FFFF } else { body.len() as u32 };
                header(out, ts, *tag, VR::SQ, slen);
                exp.push(('S', *tag, slen));
                out.extend_from_slice(&body);
                exp.extend(bexp);
                if *undef { item_header(out, ts, 0xE0DD, 0); }
                exp.push(('s', (0xFFFE, 0xE0DD), 0));
            }
            Node::Pix { bot, frags } => {
                header(out, ts, (0x7FE0, 0x0010), VR::OB, 0xFFFF_FFFF);
                exp.push(('P', (0x7FE0, 0x0010), 0xFFFF_FFFF));
                let mut first = true;
                for f in std::iter::once(bot).chain(frags.iter()) {
                    let l = f.len() as u32;
                    item_header(out, ts, 0xE000, l);
                    exp.push(('I', (0xFFFE, 0xE000), adj(l)));
                    out.extend_from_slice(f);
                    if pad_odd && l % 2 == 1 { out.push(0); }
                    if adj(l) != 0 { exp.push((if first { 'O' } else { 'F' }, (0xFFFE, 0xE000), adj(l))); }
                    exp.push(('i', (0xFFFE, 0xE00D), 0));
                    first = false;
                }
                item_header(out, ts, 0xE0DD, 0);
                exp.push(('s', (0xFFFE, 0xE0DD), 0));
            }
        }
    }
}

const TEXT: &[u8] = b"0123456789ABCDEFGHIJKLMNOPQRSTUVWXYZ abcdefghijklmnopqrstuvwxyz.^=_-";

/// Value bytes for a VR: lengths cover 1..9 densely (odd, even, not a multiple of 4 / 8) and some longer ones.
pub fn value_bytes(r: &mut Rng, vr: VR, want_odd: Option<bool>) -> Vec<u8> {
    let mut n = match r.below(10) { 0 => 0, 1..=6 => r.range(1, 9), 7 | 8 => r.range(10, 24), _ => r.range(25, 44) } as usize;
    match want_odd { Some(true) if n % 2 == 0 => n += 1, Some(false) if n % 2 == 1 => n += 1, _ => {} }
    match vr {
        VR::DA | VR::TM | VR::DT | VR::DS | VR::IS => {
            let base: &[u8] = match (vr, r.below(6)) {
                (_, 0) => b"",                       // blank value (only padding)
                (VR::DA, 1) => b"2020", (VR::DA, 2) => b"202001", (VR::DA, 3) => b"2020010", (VR::DA, _) => b"20200102",
                (VR::TM, 1) => b"12", (VR::TM, 2) => b"123", (VR::TM, 3) => b"1234", (VR::TM, _) => b"123456.7",
                (VR::DT, 1) => b"2020", (VR::DT, 2) => b"20200102", (VR::DT, 3) => b"2020010212", (VR::DT, _) => b"20200102123456.5+0100",
                (VR::DS, 1) => b"1", (VR::DS, 2) => b"1.5", (VR::DS, 3) => b"-1e3\\2", (VR::DS, _) => b"x.y",
                (_, 1) => b"1", (_, 2) => b"12", (_, 3) => b"-7\\8\\9", _ => b"1.5",
            };
            let mut v = base.to_vec();
            let pad = r.below(4) as usize; // trailing padding, blank and NUL
            for _ in 0..pad { v.push(*r.pick(&[b' ', 0u8])); }
            match want_odd { Some(true) if v.len() % 2 == 0 => v.push(b' '), Some(false) if v.len() % 2 == 1 => v.push(b' '), _ => {} }
            v
        }
        VR::AE | VR::AS | VR::CS | VR::LO | VR::LT | VR::PN | VR::SH | VR::ST | VR::UC | VR::UI | VR::UR | VR::UT => {
            (0..n).map(|_| if r.chance(1, 9) { b'\\' } else if r.chance(1, 12) { *r.pick(&[b' ', 0u8, 0xE9]) } else { *r.pick(TEXT) }).collect()
        }
        _ => (0..n).map(|_| if r.chance(1, 4) { 0 } else { r.below(256) as u8 }).collect(),
    }
}

pub struct GenCfg { pub depth: u32, pub pix: bool, pub odd_bias: bool, pub interp_bias: bool }

pub fn pick_tag(r: &mut Rng, p: &Pools, vr: VR, ts: Ts) -> Option<(u16, u16)> {
    let dict_tags = p.by_vr.get(vr.to_string());
    if ts == Ts::Ile {
        // implicit VR: the dictionary decides; UN = unknown / private tags
        match vr {
            VR::UN => Some((*r.pick(&[0x0009u16, 0x0011, 0x0029, 0x7001]), r.range(0x1000, 0x10FF) as u16)),
            VR::OW if r.chance(1, 4) => Some((0x6000 + 2 * r.below(8) as u16, 0x3000)),
            _ => dict_tags.filter(|t| !t.is_empty()).map(|t| *r.pick(t)),
        }
    } else {
        match (dict_tags, r.below(4)) {
            (Some(t), 0..=2) if !t.is_empty() => Some(*r.pick(t)),
            _ => Some((*r.pick(&[0x0009u16, 0x0011, 0x0029, 0x7001]), r.range(0x1000, 0x10FF) as u16)),
        }
    }
}

/// A list of nodes with strictly increasing tags is not required by the reader; tags are random.
pub fn gen_nodes(r: &mut Rng, p: &Pools, ts: Ts, cfg: &GenCfg, count: usize) -> Vec<Node> {
    let mut out = vec![];
    for _ in 0..count {
        let k = r.below(16);
        if k == 0 && cfg.depth > 0 {
            let tags = p.by_vr.get("SQ").unwrap();
            let tag = *r.pick(tags);
            let nitems = r.below(3) as usize;
            let sub = GenCfg { depth: cfg.depth - 1, pix: false, odd_bias: cfg.odd_bias, interp_bias: cfg.interp_bias };
            let items = (0..nitems).map(|_| { let c = r.below(3) as usize; (r.coin(), gen_nodes(r, p, ts, &sub, c)) }).collect();
            out.push(Node::Seq { tag, undef: r.coin(), items });
        } else {
            let vr = if cfg.interp_bias && r.coin() { *r.pick(&[VR::DA, VR::TM, VR::DT, VR::DS, VR::IS]) } else { loop { let v = *r.pick(&ALL_VRS); if v != VR::SQ { break v; } } };
            if let Some(tag) = pick_tag(r, p, vr, ts) {
                let want = if cfg.odd_bias && r.chance(2, 3) { Some(true) } else { None };
                out.push(Node::Elem { tag, vr, data: value_bytes(r, vr, want) });
            }
        }
    }
    if cfg.pix {
        let nf = r.below(3) as usize;
        let bot: Vec<u8> = match r.below(4) { 0 => vec![], 1 => (0..4 * nf.max(1)).map(|_| r.below(256) as u8).collect(), 2 => (0..5).map(|_| r.below(256) as u8).collect(), _ => (0..r.range(1, 9)).map(|_| r.below(256) as u8).collect() };
        let frags = (0..nf).map(|_| { let n = r.range(0, 9); (0..n).map(|_| r.below(256) as u8).collect() }).collect();
        out.push(Node::Pix { bot, frags });
    }
    out
}

pub fn all_tags(nodes: &[Node], acc: &mut Vec<(u16, u16)>) {
    for n in nodes {
        match n {
            Node::Elem { tag, .. } => acc.push(*tag),
            Node::Seq { tag, items, .. } => { acc.push(*tag); for (_, i) in items { all_tags(i, acc); } }
            Node::Pix { .. } => acc.push((0x7FE0, 0x0010)),
        }
    }
}

/// Index in `exp` of the first header with an odd declared length, and whether it is an item.
pub fn first_odd(exp: &[Expect]) -> Option<(usize, bool)> {
    exp.iter().enumerate().find(|(_, (k, _, l))| matches!(k, 'E' | 'S' | 'I') && *l != 0xFFFF_FFFF && l % 2 == 1).map(|(i, (k, _, _))| (i, *k == 'I'))
}
