//! Shared runner for C07 / C08: drives the real DataSetReader over a byte-counting
//! source and a position-spying stateful decoder, and prints what happened as Coq terms.
use dicom_core::header::{DataElementHeader, Length, SequenceItemHeader};
use dicom_core::value::PrimitiveValue;
use dicom_core::{Tag, VR};
use dicom_encoding::text::SpecificCharacterSet;
use dicom_encoding::transfer_syntax::TransferSyntax;
use dicom_parser::dataset::read::{DataSetReader, DataSetReaderOptions, Error as ReadError, OddLengthStrategy, ValueReadStrategy};
use dicom_parser::dataset::lazy_read::{Error as LazyError, LazyDataSetReader, LazyDataSetReaderOptions};
use dicom_parser::dataset::DataToken;
use dicom_parser::stateful::decode::{Result as DResult, StatefulDecode, StatefulDecoder};
use dicom_transfer_syntax_registry::entries::{EXPLICIT_VR_BIG_ENDIAN, EXPLICIT_VR_LITTLE_ENDIAN, IMPLICIT_VR_LITTLE_ENDIAN};
use std::cell::Cell;
use std::io::{Read, Seek};
use std::rc::Rc;
use vhc::*;

/// A source which counts every byte handed out.
pub struct CountingReader {
    pub data: Vec<u8>,
    pub pos: usize,
    pub count: Rc<Cell<u64>>,
}
impl Read for CountingReader {
    fn read(&mut self, buf: &mut [u8]) -> std::io::Result<usize> {
        let n = buf.len().min(self.data.len() - self.pos);
        buf[..n].copy_from_slice(&self.data[self.pos..self.pos + n]);
        self.pos += n;
        self.count.set(self.count.get() + n as u64);
        Ok(n)
    }
}

/// Forwards to the real stateful decoder and publishes its `position()` after every call.
pub struct Spy<D> {
    pub inner: D,
    pub position: Rc<Cell<u64>>,
}
impl<D: StatefulDecode> Spy<D> {
    fn publish(&self) { self.position.set(self.inner.position()); }
}
impl<D: StatefulDecode> StatefulDecode for Spy<D> {
    type Reader = D::Reader;
    fn decode_header(&mut self) -> DResult<DataElementHeader> { let r = self.inner.decode_header(); self.publish(); r }
    fn decode_item_header(&mut self) -> DResult<SequenceItemHeader> { let r = self.inner.decode_item_header(); self.publish(); r }
    fn read_value(&mut self, h: &DataElementHeader) -> DResult<PrimitiveValue> { let r = self.inner.read_value(h); self.publish(); r }
    fn read_value_preserved(&mut self, h: &DataElementHeader) -> DResult<PrimitiveValue> { let r = self.inner.read_value_preserved(h); self.publish(); r }
    fn read_value_bytes(&mut self, h: &DataElementHeader) -> DResult<PrimitiveValue> { let r = self.inner.read_value_bytes(h); self.publish(); r }
    fn read_to_vec(&mut self, length: u32, vec: &mut Vec<u8>) -> DResult<()> { let r = self.inner.read_to_vec(length, vec); self.publish(); r }
    fn read_u32_to_vec(&mut self, length: u32, vec: &mut Vec<u32>) -> DResult<()> { let r = self.inner.read_u32_to_vec(length, vec); self.publish(); r }
    fn read_to<W>(&mut self, length: u32, out: W) -> DResult<()> where Self: Sized, W: std::io::Write { let r = self.inner.read_to(length, out); self.publish(); r }
    fn skip_bytes(&mut self, length: u32) -> DResult<()> { let r = self.inner.skip_bytes(length); self.publish(); r }
    fn seek(&mut self, position: u64) -> DResult<()> where Self::Reader: Seek { self.inner.seek(position) }
    fn position(&self) -> u64 { self.inner.position() }
}

#[derive(Clone, Copy, Debug, PartialEq, Eq)]
pub enum Ts { Ile, Ele, Ebe }
impl Ts {
    pub fn code(self) -> u32 { match self { Ts::Ile => 0, Ts::Ele => 1, Ts::Ebe => 2 } }
    pub fn ts(self) -> TransferSyntax {
        match self { Ts::Ile => IMPLICIT_VR_LITTLE_ENDIAN.erased(), Ts::Ele => EXPLICIT_VR_LITTLE_ENDIAN.erased(), Ts::Ebe => EXPLICIT_VR_BIG_ENDIAN.erased() }
    }
}

pub fn vr_code(vr: VR) -> u32 { let b = vr.to_bytes(); (b[0] as u32) * 256 + b[1] as u32 }

fn latin1(s: &str) -> Option<Vec<u8>> { s.chars().map(|c| if (c as u32) < 256 { Some(c as u32 as u8) } else { None }).collect() }

/// Canonical Coq form of a primitive value. `interp` is Some(vr) when the value was read
/// by the Interpreted strategy from a DA/TM/DT/DS/IS element.
fn c_value(v: &PrimitiveValue, interp: Option<VR>) -> Option<String> {
    use PrimitiveValue::*;
    let nums = |k: u32, l: Vec<u64>| format!("(PNum {} {})", k, c_list(l.into_iter().map(|x| x.to_string())));
    Some(match (v, interp) {
        (Empty, _) => "PEmpty".into(),
        (Date(c), _) => format!("(PInterp 1 {})", c.len()),
        (Time(c), _) => format!("(PInterp 2 {})", c.len()),
        (DateTime(c), _) => format!("(PInterp 3 {})", c.len()),
        (F64(c), Some(VR::DS)) => format!("(PInterp 4 {})", c.len()),
        (I32(c), Some(VR::IS)) => format!("(PInterp 5 {})", c.len()),
        (U8(c), _) => format!("(PU8 {})", c_bytes(c)),
        (U16(c), _) => nums(1, c.iter().map(|&x| x as u64).collect()),
        (I16(c), _) => nums(2, c.iter().map(|&x| x as u16 as u64).collect()),
        (U32(c), _) => nums(3, c.iter().map(|&x| x as u64).collect()),
        (I32(c), _) => nums(4, c.iter().map(|&x| x as u32 as u64).collect()),
        (U64(c), _) => nums(5, c.iter().cloned().collect()),
        (I64(c), _) => nums(6, c.iter().map(|&x| x as u64).collect()),
        (F32(c), _) => nums(7, c.iter().map(|&x| x.to_bits() as u64).collect()),
        (F64(c), _) => nums(8, c.iter().map(|&x| x.to_bits()).collect()),
        (Tags(c), _) => format!("(PTags {})", c_list(c.iter().map(|t| format!("({}, {})", t.0, t.1)))),
        (Str(s), _) => format!("(PStr {})", c_bytes(&latin1(s)?)),
        (Strs(c), _) => {
            let mut parts = vec![];
            for s in c.iter() { parts.push(c_bytes(&latin1(s)?)); }
            format!("(PStrs {})", c_list(parts))
        }
    })
}

fn c_len(l: Length) -> String { l.0.to_string() }

pub fn err_class(e: &ReadError) -> u32 {
    match e {
        ReadError::InvalidElementLength { .. } => 1,
        ReadError::InvalidItemLength { .. } => 2,
        ReadError::ReadHeader { .. } => 3,
        ReadError::ReadItemHeader { .. } => 4,
        ReadError::ReadValue { .. } => 5,
        ReadError::ReadItemValue { .. } => 6,
        ReadError::InconsistentSequenceEnd { .. } => 7,
        ReadError::UnexpectedItemTag { .. } => 8,
        ReadError::UnexpectedItemHeader { .. } => 9,
        ReadError::UndefinedItemLength => 10,
        _ => 99,
    }
}

#[derive(Clone, Copy, Debug, PartialEq, Eq)]
pub struct Opts { pub ts: Ts, pub strategy: u32 /* 0 interpreted 1 preserved 2 raw */, pub odd: u32 /* 0 accept 1 next-even 2 fail */, pub flexible: bool }

pub struct Step {
    pub coq: String, pub show: String, pub position: u64, pub consumed: u64,
    /// kind letter, tag and length as in gen::Expect
    pub kind: char, pub ktag: (u16, u16), pub len: u32,
    /// tag carried by the token itself (element header / sequence start)
    pub tag: Option<(u16, u16)>,
    pub value_len: usize,
}

pub struct RunOut {
    pub steps: Vec<Step>,
    /// 0 = end of stream, n = error class, 1000 = panic, 2000 = step limit
    pub status: u32,
    /// text the interpreted value readers rejected: (vr code, the element's bytes)
    pub rejected: Vec<(u32, Vec<u8>)>,
    /// some text could not be mapped back to bytes (character set changed): case not comparable
    pub opaque: bool,
}

pub const STEP_LIMIT: usize = 400;

/// Run the eager reader over `data`.
pub fn run(data: &[u8], o: Opts) -> RunOut {
    let count = Rc::new(Cell::new(0u64));
    let position = Rc::new(Cell::new(0u64));
    let src = CountingReader { data: data.to_vec(), pos: 0, count: count.clone() };
    let mut options = DataSetReaderOptions::default();
    options.value_read = match o.strategy { 0 => ValueReadStrategy::Interpreted, 1 => ValueReadStrategy::Preserved, _ => ValueReadStrategy::Raw };
    options.odd_length = match o.odd { 0 => OddLengthStrategy::Accept, 1 => OddLengthStrategy::NextEven, _ => OddLengthStrategy::Fail };
    let mut out = RunOut { steps: vec![], status: 0, rejected: vec![], opaque: false };
    let data2 = data.to_vec();
    let res = catch(|| {
        let mut steps: Vec<Step> = vec![];
        let mut status = 0u32;
        let mut rejected = vec![];
        let mut opaque = false;
        let mut body = |reader: &mut dyn Iterator<Item = Result<DataToken, ReadError>>| {
            let mut last_header: Option<DataElementHeader> = None;
            let mut last_item_len = 0u32;
            loop {
                if steps.len() >= STEP_LIMIT { status = 2000; break; }
                let before = count.get();
                match reader.next() {
                    None => { status = 0; break; }
                    Some(Err(e)) => {
                        status = err_class(&e);
                        if status == 5 && o.strategy == 0 {
                            if let Some(h) = last_header {
                                if matches!(h.vr, VR::DA | VR::DT | VR::TM | VR::DS | VR::IS) {
                                    let b = before as usize;
                                    let l = (h.len.0 as usize).min(data2.len().saturating_sub(b));
                                    if l == h.len.0 as usize { rejected.push((vr_code(h.vr), data2[b..b + l].to_vec())); }
                                }
                            }
                        }
                        break;
                    }
                    Some(Ok(tok)) => {
                        let mut hdr = None;
                        let (mut kind, mut ktag, mut len, mut tag, mut value_len) = (' ', (0u16, 0u16), 0u32, None, 0usize);
                        let coq = match &tok {
                            DataToken::ElementHeader(h) => { hdr = Some(*h); kind = 'E'; ktag = (h.tag.0, h.tag.1); len = h.len.0; tag = Some(ktag);
                                format!("(TElem {} {} {} {})", h.tag.0, h.tag.1, vr_code(h.vr), c_len(h.len)) }
                            DataToken::SequenceStart { tag: t, len: l } => { kind = 'S'; ktag = (t.0, t.1); len = l.0; tag = Some(ktag); format!("(TSeqStart {} {} {})", t.0, t.1, c_len(*l)) }
                            DataToken::PixelSequenceStart => { kind = 'P'; ktag = (0x7FE0, 0x0010); len = 0xFFFF_FFFF; tag = Some(ktag); "TPixStart".into() }
                            DataToken::SequenceEnd => { kind = 's'; ktag = (0xFFFE, 0xE0DD); "TSeqEnd".into() }
                            DataToken::ItemStart { len: l } => { kind = 'I'; ktag = (0xFFFE, 0xE000); len = l.0; last_item_len = l.0; format!("(TItemStart {})", c_len(*l)) }
                            DataToken::ItemEnd => { kind = 'i'; ktag = (0xFFFE, 0xE00D); "TItemEnd".into() }
                            DataToken::PrimitiveValue(v) => {
                                kind = 'V';
                                if let Some(h) = last_header { ktag = (h.tag.0, h.tag.1); len = h.len.0; }
                                let interp = if o.strategy == 0 { last_header.map(|h| h.vr) } else { None };
                                match c_value(v, interp) { Some(s) => format!("(TValue {})", s), None => { opaque = true; "(TValue PEmpty)".into() } }
                            }
                            DataToken::ItemValue(b) => { kind = 'F'; ktag = (0xFFFE, 0xE000); len = last_item_len; value_len = b.len(); format!("(TItemValue {})", c_bytes(b)) }
                            DataToken::OffsetTable(t) => { kind = 'O'; ktag = (0xFFFE, 0xE000); len = last_item_len; format!("(TOffsets {})", c_list(t.iter().map(|x| x.to_string()))) }
                        };
                        if let Some(h) = hdr { last_header = Some(h); if h.tag == Tag(0x0008, 0x0005) { opaque = true; } }
                        steps.push(Step { coq, show: format!("{:?}", tok), position: position.get(), consumed: count.get(), kind, ktag, len, tag, value_len });
                    }
                }
            }
        };
        if o.flexible {
            let mut options = options;
            options.flexible_decoding = true;
            match DataSetReader::new_with_ts_cs_options(src, &o.ts.ts(), SpecificCharacterSet::default(), options) {
                Ok(mut r) => body(&mut r),
                Err(_) => { status = 98; }
            }
        } else {
            let dec = StatefulDecoder::new_with(src, &o.ts.ts(), SpecificCharacterSet::default(), 0).expect("decoder");
            let spy = Spy { inner: dec, position: position.clone() };
            let mut r = DataSetReader::new(spy, options);
            body(&mut r);
        }
        (steps, status, rejected, opaque)
    });
    match res {
        Some((steps, status, rejected, opaque)) => { out.steps = steps; out.status = status; out.rejected = rejected; out.opaque = opaque; }
        None => { out.status = 1000; }
    }
    out
}

/// The lazy reader over the same spies: every token is materialised with the given value strategy.
/// Only (kind, tag, length), positions and a coarse status are reported (oracle use only):
/// status 0 end, 1 InvalidElementLength, 2 InvalidItemLength, 50 other error, 1000 panic.
pub fn run_lazy(data: &[u8], o: Opts) -> RunOut {
    let count = Rc::new(Cell::new(0u64));
    let position = Rc::new(Cell::new(0u64));
    let src = CountingReader { data: data.to_vec(), pos: 0, count: count.clone() };
    let mut options = LazyDataSetReaderOptions::default();
    options.odd_length = match o.odd { 0 => OddLengthStrategy::Accept, 1 => OddLengthStrategy::NextEven, _ => OddLengthStrategy::Fail };
    let strategy = match o.strategy { 0 => ValueReadStrategy::Interpreted, 1 => ValueReadStrategy::Preserved, _ => ValueReadStrategy::Raw };
    let mut out = RunOut { steps: vec![], status: 0, rejected: vec![], opaque: false };
    let res = catch(|| {
        let dec = StatefulDecoder::new_with(src, &o.ts.ts(), SpecificCharacterSet::default(), 0).expect("decoder");
        let spy = Spy { inner: dec, position: position.clone() };
        let mut r = LazyDataSetReader::new_with_options(spy, options);
        let mut steps: Vec<Step> = vec![];
        let mut status = 0u32;
        let mut last_header: Option<DataElementHeader> = None;
        let mut last_item_len = 0u32;
        let mut value_failed = false;
        loop {
            if steps.len() >= STEP_LIMIT { status = 2000; break; }
            let tok = match r.advance() {
                None => break,
                Some(Err(e)) => { status = match e { LazyError::InvalidElementLength { .. } => 1, LazyError::InvalidItemLength { .. } => 2, _ => 50 }; break; }
                Some(Ok(t)) => match t.into_owned_with_strategy(strategy) { Ok(t) => t, Err(_) => { status = 50; value_failed = true; break; } },
            };
            let (mut kind, mut ktag, mut len, mut value_len) = (' ', (0u16, 0u16), 0u32, 0usize);
            match &tok {
                DataToken::ElementHeader(h) => { kind = 'E'; ktag = (h.tag.0, h.tag.1); len = h.len.0; last_header = Some(*h); if h.tag == Tag(0x0008, 0x0005) { break; } }
                DataToken::SequenceStart { tag: t, len: l } => { kind = 'S'; ktag = (t.0, t.1); len = l.0; }
                DataToken::PixelSequenceStart => { kind = 'P'; ktag = (0x7FE0, 0x0010); len = 0xFFFF_FFFF; }
                DataToken::SequenceEnd => { kind = 's'; ktag = (0xFFFE, 0xE0DD); }
                DataToken::ItemStart { len: l } => { kind = 'I'; ktag = (0xFFFE, 0xE000); len = l.0; last_item_len = l.0; }
                DataToken::ItemEnd => { kind = 'i'; ktag = (0xFFFE, 0xE00D); }
                DataToken::PrimitiveValue(_) => { kind = 'V'; if let Some(h) = last_header { ktag = (h.tag.0, h.tag.1); len = h.len.0; } }
                DataToken::ItemValue(b) => { kind = 'F'; ktag = (0xFFFE, 0xE000); len = last_item_len; value_len = b.len(); }
                DataToken::OffsetTable(_) => { kind = 'O'; ktag = (0xFFFE, 0xE000); len = last_item_len; }
            }
            steps.push(Step { coq: String::new(), show: format!("{:?}", tok), position: position.get(), consumed: count.get(), kind, ktag, len, tag: None, value_len });
        }
        (steps, status, value_failed)
    });
    match res {
        Some((steps, status, vf)) => { out.steps = steps; out.status = status; if vf { out.rejected.push((0, vec![])); } }
        None => out.status = 1000,
    }
    out
}
