//! C31 — Command Group Length of command sets
//! (object/src/mem.rs command_from_iter_with_dict, core calculate_byte_len,
//! parser StatefulEncoder::encode_primitive_element through write_dataset_with_ts).
use dicom_core::value::{PrimitiveValue, C};
use dicom_core::{DataElement, Tag, VR};
use dicom_object::mem::InMemElement;
use dicom_object::InMemDicomObject;
use dicom_transfer_syntax_registry::entries::IMPLICIT_VR_LITTLE_ENDIAN;
use serde_json::json;
use vhc::*;

#[derive(Clone, Debug)]
enum Val {
    Empty,
    Str(String),
    Strs(Vec<String>),
    /// (bytes per value, bit patterns)
    Num(u8, Vec<u64>),
    Tags(Vec<(u16, u16)>),
}

#[derive(Clone, Debug)]
struct El {
    g: u16,
    e: u16,
    vr: VR,
    v: Val,
}

fn vr_code(vr: VR) -> u32 {
    let b = vr.to_bytes();
    (b[0] as u32) * 256 + b[1] as u32
}

fn prim(v: &Val, signed: bool, float: bool) -> PrimitiveValue {
    match v {
        Val::Empty => PrimitiveValue::Empty,
        Val::Str(s) => PrimitiveValue::Str(s.clone()),
        Val::Strs(l) => PrimitiveValue::Strs(l.iter().cloned().collect()),
        Val::Tags(l) => PrimitiveValue::Tags(l.iter().map(|&(g, e)| Tag(g, e)).collect()),
        Val::Num(1, l) => PrimitiveValue::U8(l.iter().map(|&x| x as u8).collect()),
        Val::Num(2, l) => {
            if signed {
                PrimitiveValue::I16(l.iter().map(|&x| x as u16 as i16).collect())
            } else {
                PrimitiveValue::U16(l.iter().map(|&x| x as u16).collect())
            }
        }
        Val::Num(4, l) => {
            if float {
                PrimitiveValue::F32(l.iter().map(|&x| f32::from_bits(x as u32)).collect())
            } else if signed {
                PrimitiveValue::I32(l.iter().map(|&x| x as u32 as i32).collect())
            } else {
                PrimitiveValue::U32(l.iter().map(|&x| x as u32).collect())
            }
        }
        Val::Num(_, l) => {
            if float {
                PrimitiveValue::F64(l.iter().map(|&x| f64::from_bits(x)).collect())
            } else if signed {
                PrimitiveValue::I64(l.iter().map(|&x| x as i64).collect())
            } else {
                PrimitiveValue::U64(l.iter().cloned().collect::<C<u64>>())
            }
        }
    }
}

fn c_val(v: &Val) -> String {
    match v {
        Val::Empty => "VEmpty".into(),
        Val::Str(s) => format!("(VStr {})", c_utf8(s)),
        Val::Strs(l) => format!("(VStrs {})", c_list(l.iter().map(|s| c_utf8(s)))),
        Val::Num(k, l) => format!("(VNum {} {})", k, c_list(l.iter().map(|x| x.to_string()))),
        Val::Tags(l) => format!("(VTags {})", c_list(l.iter().map(|(g, e)| format!("({}, {})", g, e)))),
    }
}

fn c_el(e: &El) -> String {
    format!("(mkE {} {} {} {})", e.g, e.e, vr_code(e.vr), c_val(&e.v))
}

const TEXT: &[u8] = b"0123456789.ABCDEFGHIJKLMNOPQRSTUVWXYZ abcdefghijklmnopqrstuvwxyz_-";

fn text(r: &mut Rng, vr: VR) -> String {
    let alpha: &[u8] = if vr == VR::UI { &TEXT[..11] } else { TEXT };
    // odd and even lengths, empty, and the 16/64-character limits of AE / UI / LO
    let n = match r.below(8) {
        0 => 0,
        1 => 1,
        2 => *r.pick(&[15u64, 16, 17, 63, 64, 65]),
        _ => r.below(30),
    };
    (0..n).map(|_| *r.pick(alpha) as char).collect()
}

fn value(r: &mut Rng, vr: VR) -> (Val, bool, bool) {
    let signed = r.coin();
    let float = r.chance(1, 4);
    let cnt = |r: &mut Rng| match r.below(6) { 0 => 0, 1 | 2 => 1, 3 => 2, 4 => 3, _ => r.below(9) };
    let v = match vr {
        VR::UI | VR::AE | VR::LO | VR::SH | VR::CS | VR::LT | VR::PN => match r.below(10) {
            0 => Val::Empty,
            1..=5 => Val::Str(text(r, vr)),
            _ => { let n = cnt(r); Val::Strs((0..n).map(|_| text(r, vr)).collect()) }
        },
        VR::US | VR::SS => { let n = cnt(r); Val::Num(2, (0..n).map(|_| r.below(0x10000)).collect()) }
        VR::UL | VR::SL | VR::FL => { let n = cnt(r); Val::Num(4, (0..n).map(|_| r.below(1 << 32)).collect()) }
        VR::FD | VR::UV | VR::SV => { let n = cnt(r); Val::Num(8, (0..n).map(|_| r.next()).collect()) }
        VR::AT => { let n = cnt(r); Val::Tags((0..n).map(|_| (r.below(0x10000) as u16, r.below(0x10000) as u16)).collect()) }
        _ => { let n = r.below(8); Val::Num(1, (0..n).map(|_| r.below(256)).collect()) } // OB / UN: odd byte counts
    };
    (v, signed, float)
}

// command tags with their usual VR, then some VRs the property's quantifier also names
const POOL: &[(u16, VR)] = &[
    (0x0002, VR::UI), (0x0003, VR::UI), (0x0100, VR::US), (0x0110, VR::US), (0x0120, VR::US),
    (0x0200, VR::AE), (0x0300, VR::AE), (0x0400, VR::AE), (0x0600, VR::AE), (0x0700, VR::US), (0x0800, VR::US),
    (0x0900, VR::US), (0x0901, VR::AT), (0x0902, VR::LO), (0x0903, VR::US), (0x1000, VR::UI),
    (0x1001, VR::UI), (0x1002, VR::US), (0x1005, VR::AT), (0x1008, VR::US), (0x1020, VR::US),
    (0x1021, VR::US), (0x1022, VR::US), (0x1023, VR::US), (0x1030, VR::AE), (0x1031, VR::US),
    (0x5010, VR::UL), (0x5020, VR::UL), (0x0001, VR::UL), (0x0010, VR::SH), (0x0850, VR::FD),
    (0x0860, VR::OB), (0x5130, VR::SL), (0x51A0, VR::CS), (0x5190, VR::UN), (0x5180, VR::SS),
];

fn gen_el(r: &mut Rng) -> (El, bool, bool) {
    let (g, e, vr) = match r.below(20) {
        0 => (0u16, 0u16, VR::UL),                                   // a Command Group Length given by the caller
        1 => (*r.pick(&[0x0008u16, 0x0010, 0x0001, 0x7fe0, 0xffff]), *r.pick(&[0x0000u16, 0x0010, 0x0018, 0x0100]), *r.pick(&[VR::UI, VR::LO, VR::US, VR::UL])),
        2 => (0, r.below(0x10000) as u16, *r.pick(&[VR::UI, VR::US, VR::UL, VR::AE, VR::LO, VR::AT, VR::OB])),
        _ => { let (e, vr) = *r.pick(POOL); (0, e, vr) }
    };
    let (v, s, f) = value(r, vr);
    (El { g, e, vr, v }, s, f)
}

/// Independent measurement: walk the Implicit VR LE bytes and add up the sizes of
/// the group-0000 elements other than (0000,0000). None when the bytes are not well formed.
fn measure(b: &[u8]) -> Option<(Option<u32>, u64)> {
    let mut i = 0usize;
    let mut gl = None;
    let mut total = 0u64;
    while i < b.len() {
        if i + 8 > b.len() { return None; }
        let g = u16::from_le_bytes([b[i], b[i + 1]]);
        let e = u16::from_le_bytes([b[i + 2], b[i + 3]]);
        let l = u32::from_le_bytes([b[i + 4], b[i + 5], b[i + 6], b[i + 7]]) as usize;
        if i + 8 + l > b.len() { return None; }
        if g == 0 && e == 0 {
            if l != 4 { return None; }
            gl = Some(u32::from_le_bytes([b[i + 8], b[i + 9], b[i + 10], b[i + 11]]));
        } else if g == 0 {
            total += 8 + l as u64;
        }
        i += 8 + l;
    }
    Some((gl, total))
}

fn run(els: &[(El, bool, bool)]) -> (String, Oracle, serde_json::Value) {
    let elems: Vec<InMemElement> = els.iter().map(|(e, s, f)| DataElement::new(Tag(e.g, e.e), e.vr, prim(&e.v, *s, *f))).collect();
    let res = catch(|| {
        let obj = InMemDicomObject::command_from_element_iter(elems);
        let gl = obj.get(Tag(0, 0)).and_then(|e| e.value().to_int::<u32>().ok());
        let mut out = Vec::new();
        let w = obj.write_dataset_with_ts(&mut out, &IMPLICIT_VR_LITTLE_ENDIAN.erased());
        (gl, w.is_ok(), out)
    });
    let dup = {
        let mut t: Vec<_> = els.iter().map(|(e, _, _)| (e.g, e.e)).collect();
        t.sort();
        t.windows(2).any(|w| w[0] == w[1])
    };
    match res {
        None => (c_panic(), Oracle::Fails { class: "Panic".into(), detail: "command_from_element_iter / write panicked".into() }, json!("panic")),
        Some((gl, ok, out)) => {
            let coq = match (gl, ok) {
                (Some(gl), true) => c_ok(&c_tuple(&[c_n(gl), c_bytes(&out)])),
                _ => c_err(1),
            };
            let oracle = match (gl, ok, measure(&out)) {
                (Some(gl), true, Some((Some(gl2), total))) if gl == gl2 && gl as u64 == total => Oracle::Holds,
                (gl, ok, m) => Oracle::Fails {
                    class: if dup { "DuplicateTags".into() } else { "GroupLengthMismatch".into() },
                    detail: format!("group length {:?}, write ok {}, measured {:?}", gl, ok, m),
                },
            };
            (coq, oracle, json!({"group_length": gl, "written": hex(&out)}))
        }
    }
}

pub fn cases(ctx: &Ctx) -> Vec<Case> {
    let mut r = Rng::new(ctx.seed);
    let mut out = vec![];
    let s = |t: &str| Val::Str(t.to_string());
    // fixed corpus: empty, the unit test's C-FIND-RQ, a caller-supplied group length,
    // a duplicate tag (last one wins), odd-length UI / AE, data-set elements mixed in
    let mut corpus: Vec<Vec<(El, bool, bool)>> = vec![
        vec![],
        vec![
            (El { g: 0, e: 2, vr: VR::UI, v: s("1.2.840.10008.5.1.4.1.2.1.1") }, false, false),
            (El { g: 0, e: 0x100, vr: VR::US, v: Val::Num(2, vec![0x20]) }, false, false),
            (El { g: 0, e: 0x110, vr: VR::US, v: Val::Num(2, vec![0]) }, false, false),
            (El { g: 0, e: 0x700, vr: VR::US, v: Val::Num(2, vec![0]) }, false, false),
            (El { g: 0, e: 0x800, vr: VR::US, v: Val::Num(2, vec![1]) }, false, false),
        ],
        vec![
            (El { g: 0, e: 0, vr: VR::UL, v: Val::Num(4, vec![9999]) }, false, false),
            (El { g: 0, e: 2, vr: VR::UI, v: s("1.2.840.10008.1.1") }, false, false),
        ],
        vec![
            (El { g: 0, e: 0x110, vr: VR::US, v: Val::Num(2, vec![1]) }, false, false),
            (El { g: 0, e: 0x110, vr: VR::US, v: Val::Num(2, vec![2]) }, false, false),
        ],
        vec![
            (El { g: 0, e: 2, vr: VR::UI, v: s("1.2.3") }, false, false),
            (El { g: 0, e: 2, vr: VR::UI, v: s("1.2.840.10008.1.1") }, false, false),
            (El { g: 0, e: 0x600, vr: VR::AE, v: s("A") }, false, false),
        ],
        vec![
            (El { g: 8, e: 0x18, vr: VR::UI, v: s("1.2.3") }, false, false),
            (El { g: 0, e: 0x1000, vr: VR::UI, v: s("1.2.3") }, false, false),
            (El { g: 0, e: 0x1005, vr: VR::AT, v: Val::Tags(vec![(0x10, 0x10), (0x8, 0x18)]) }, false, false),
            (El { g: 0, e: 0x902, vr: VR::LO, v: Val::Strs(vec!["ab".into(), "c".into()]) }, false, false),
        ],
    ];
    corpus.truncate(ctx.n);
    let ncorpus = corpus.len();
    for i in 0..ctx.n {
        let (els, bucket): (Vec<(El, bool, bool)>, String) = if i < ncorpus {
            (corpus[i].clone(), "corpus".into())
        } else {
            let n = match r.below(8) { 0 => 0, 1 => 1, _ => r.range(2, 9) };
            let mut els: Vec<(El, bool, bool)> = (0..n).map(|_| gen_el(&mut r)).collect();
            // duplicate tags (same or different value) in one case out of five
            let dup = !els.is_empty() && r.chance(1, 5);
            if dup {
                let k = r.below(els.len() as u64) as usize;
                let mut d = els[k].clone();
                if r.coin() { let (v, s, f) = value(&mut r, d.0.vr); d = (El { v, ..d.0 }, s, f); }
                let at = r.below(els.len() as u64 + 1) as usize;
                els.insert(at, d);
            }
            (els, format!("n={}{}", n.min(4), if dup { ",dup" } else { "" }))
        };
        let (res, oracle, got) = run(&els);
        let coq = c_tuple(&[c_list(els.iter().map(|(e, _, _)| c_el(e))), res]);
        let ncmd = els.iter().filter(|(e, _, _)| e.g == 0 && e.e != 0).count();
        out.push(Case {
            coq,
            desc: json!({"bucket": bucket, "elements": els.iter().map(|(e, s, f)| format!("{:?} signed={} float={}", e, s, f)).collect::<Vec<_>>(), "got": got}),
            key: if ncmd > 0 { format!("{:?}", els.iter().map(|(e, _, _)| e).collect::<Vec<_>>()) } else { String::new() },
            oracle,
        });
    }
    out
}
