//! vh_dsr — properties about the data-set reader/decoder layer
//! (stateful decoder, adaptive VR decoder) and command sets.
mod c07;
mod c08;
mod c31;
mod gen;
mod rd;
use vhc::*;

fn main() {
    run_main(
        |prop, ctx| match prop {
            "C07" => Some(c07::cases(ctx)),
            "C08" => Some(c08::cases(ctx)),
            "C31" => Some(c31::cases(ctx)),
            _ => None,
        },
        |_prop, _out| false,
    );
}
