//! C07 — odd lengths per strategy, position accounting (probe version)
use crate::rd::*;
use serde_json::json;
use vhc::*;

pub fn cases(_ctx: &Ctx) -> Vec<Case> {
    let mut out = vec![];
    let hand: Vec<(&str, Ts, u32, u32, Vec<u8>)> = vec![
        ("US len 3 then PatientName, ELE accept", Ts::Ele, 1, 0, vec![0x28,0,0x10,0, b'U',b'S',3,0, 1,0,9, 0x10,0,0x10,0, b'P',b'N',2,0, b'A',b' ']),
        ("US len 3 next-even", Ts::Ele, 1, 1, vec![0x28,0,0x10,0, b'U',b'S',3,0, 1,0,9,0, 0x10,0,0x10,0, b'P',b'N',2,0, b'A',b' ']),
        ("US len 3 fail", Ts::Ele, 1, 2, vec![0x28,0,0x10,0, b'U',b'S',3,0, 1,0,9,0, 0x10,0,0x10,0, b'P',b'N',2,0, b'A',b' ']),
        ("UL len 6 (even, not multiple)", Ts::Ele, 1, 0, vec![0x28,0,0x10,0, b'U',b'L',6,0, 1,0,0,0,9,9, 0x10,0,0x10,0, b'P',b'N',2,0, b'A',b' ']),
        ("DA all padding interpreted", Ts::Ele, 0, 0, vec![0x08,0,0x20,0, b'D',b'A',2,0, b' ',b' ', 0x10,0,0x10,0, b'P',b'N',2,0, b'A',b' ']),
        ("OB len 3 accept", Ts::Ele, 1, 0, vec![0x09,0,0x10,0x10, b'O',b'B',0,0,3,0,0,0, 1,2,3, 0x10,0,0x10,0, b'P',b'N',2,0, b'A',b' ']),
        ("PN len 1 ILE accept", Ts::Ile, 1, 0, vec![0x10,0,0x10,0, 1,0,0,0, b'A', 0x10,0,0x20,0, 2,0,0,0, b'I',b'D']),
        ("next-even len 0x7fffffff", Ts::Ile, 1, 1, vec![0x10,0,0x10,0, 0xff,0xff,0xff,0x7f, b'A']),
        ("truncated fragment", Ts::Ele, 1, 0, vec![0xe0,0x7f,0x10,0, b'O',b'B',0,0,0xff,0xff,0xff,0xff, 0xfe,0xff,0,0xe0,0,0,0,0, 0xfe,0xff,0,0xe0,8,0,0,0, 1,2,3]),
        ("odd BOT", Ts::Ele, 1, 0, vec![0xe0,0x7f,0x10,0, b'O',b'B',0,0,0xff,0xff,0xff,0xff, 0xfe,0xff,0,0xe0,5,0,0,0, 1,0,0,0,7, 0xfe,0xff,0,0xe0,2,0,0,0, 1,2, 0xfe,0xff,0xdd,0xe0,0,0,0,0]),
    ];
    for (name, ts, strategy, odd, data) in hand {
        let r = run(&data, Opts { ts, strategy, odd, flexible: false });
        let steps: Vec<String> = r.steps.iter().map(|s| format!("{} pos={} consumed={}", s.show, s.position, s.consumed)).collect();
        out.push(Case { coq: String::new(), desc: json!({"name": name, "len": data.len(), "steps": steps, "status": r.status}), key: String::new(), oracle: Oracle::NotApplicable });
    }
    out
}
