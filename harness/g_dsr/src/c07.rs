//! C07 — odd-length values per strategy; the reader's position equals the bytes consumed.
//! Real code: parser DataSetReader over StatefulDecoder (parser/src/dataset/read.rs,
//! parser/src/stateful/decode.rs), source wrapped in a byte counter, decoder wrapped in a
//! position spy. Coq side: Model/ValueRead.v `check_case`.
use crate::gen::*;
use crate::rd::*;
use dicom_core::VR;
use serde_json::json;
use std::collections::BTreeSet;
use vhc::*;

pub fn c_case(o: Opts, tags: &BTreeSet<(u16, u16)>, out: &RunOut, data: &[u8]) -> String {
    let rows: Vec<String> = tags.iter().filter_map(|&(g, e)| vvr_row(g, e).map(|v| format!("({}, {})", (g as u32) * 65536 + e as u32, v))).collect();
    let rej: Vec<String> = out.rejected.iter().map(|(vr, b)| format!("({}, {})", vr, c_bytes(b))).collect();
    let steps: Vec<String> = out.steps.iter().map(|s| format!("({}, {}, {})", s.coq, s.position, s.consumed)).collect();
    let kind = if o.flexible { 3 } else { o.ts.code() };
    let typed = |v: Vec<String>, ty: &str| if v.is_empty() { format!("(@nil {})", ty) } else { c_list(v) };
    c_tuple(&[format!("({}, {}, {})", kind, o.strategy, o.odd), typed(rows, "(N * vvr)"), typed(rej, "(N * bytes)"),
              if data.is_empty() { "(@nil N)".into() } else { c_bytes(data) }, typed(steps, "(token * N * N)"), out.status.to_string()])
}

/// Tags the model may have to look up: those of the generator plus every tag the reader reported.
pub fn tags_seen(tree_tags: &[(u16, u16)], out: &RunOut) -> BTreeSet<(u16, u16)> {
    let mut t: BTreeSet<(u16, u16)> = tree_tags.iter().cloned().collect();
    for s in &out.steps { if let Some(tag) = s.tag { t.insert(tag); } }
    t.insert((0xFFFE, 0xE000)); t.insert((0xFFFE, 0xE00D)); t.insert((0xFFFE, 0xE0DD)); t.insert((0x7FE0, 0x0010));
    t
}

fn position_oracle(out: &RunOut) -> Option<Oracle> {
    // known class first: a fragment cut short by the end of the source
    let mut last_item_len: Option<u32> = None;
    for s in &out.steps {
        if s.kind == 'I' { last_item_len = Some(s.len); }
        if s.kind == 'F' {
            if let Some(l) = last_item_len { if (s.value_len as u32) < l && s.position != s.consumed {
                return Some(Oracle::Fails { class: "TruncatedItemValue".into(), detail: format!("item of {} bytes, {} bytes delivered, position {} consumed {}", l, s.value_len, s.position, s.consumed) });
            } }
        }
    }
    for (i, s) in out.steps.iter().enumerate() {
        if s.position != s.consumed {
            return Some(Oracle::Fails { class: "PositionMismatch".into(), detail: format!("after token {} ({}): position {} but {} bytes consumed", i, s.show, s.position, s.consumed) });
        }
    }
    None
}

pub fn expect_oracle(exp: &[Expect], o: Opts, out: &RunOut, total: usize) -> Oracle {
    let got: Vec<Expect> = out.steps.iter().map(|s| (s.kind, s.ktag, s.len)).collect();
    let fo = if o.odd == 2 { first_odd(exp) } else { None };
    match fo {
        Some((k, is_item)) => {
            let want_status = if is_item { 2 } else { 1 };
            if out.status == want_status && got.len() == k && got[..] == exp[..k] { Oracle::Holds } else {
                Oracle::Fails { class: "FailStrategyNoError".into(), detail: format!("expected error class {} after {} tokens, got status {} after {} tokens", want_status, k, out.status, got.len()) }
            }
        }
        None => {
            if out.status == 0 && got == exp && out.steps.last().map_or(total == 0, |s| s.consumed as usize == total) { Oracle::Holds } else {
                let i = got.iter().zip(exp.iter()).position(|(a, b)| a != b).unwrap_or(got.len().min(exp.len()));
                Oracle::Fails { class: if o.odd == 1 { "NextEvenMisaligned".into() } else { "AcceptMisaligned".into() },
                    detail: format!("status {} ; first difference at token {}: got {:?} expected {:?}", out.status, i, got.get(i), exp.get(i)) }
            }
        }
    }
}

fn hand() -> Vec<(&'static str, Ts, u32, u32, Vec<u8>)> {
    vec![
        ("US len 3 then PatientName, ELE accept", Ts::Ele, 1, 0, vec![0x28,0,0x10,0, b'U',b'S',3,0, 1,0,9, 0x10,0,0x10,0, b'P',b'N',2,0, b'A',b' ']),
        ("US len 3 next-even", Ts::Ele, 1, 1, vec![0x28,0,0x10,0, b'U',b'S',3,0, 1,0,9,0, 0x10,0,0x10,0, b'P',b'N',2,0, b'A',b' ']),
        ("US len 3 fail", Ts::Ele, 1, 2, vec![0x28,0,0x10,0, b'U',b'S',3,0, 1,0,9,0, 0x10,0,0x10,0, b'P',b'N',2,0, b'A',b' ']),
        ("UL len 6 (even, not a multiple of 4)", Ts::Ele, 1, 0, vec![0x28,0,0x10,0, b'U',b'L',6,0, 1,0,0,0,9,9, 0x10,0,0x10,0, b'P',b'N',2,0, b'A',b' ']),
        ("FD len 9 big endian", Ts::Ebe, 1, 0, vec![0,0x18,0x60,0x28, b'F',b'D',0,9, 1,2,3,4,5,6,7,8,9, 0,0x10,0,0x10, b'P',b'N',0,2, b'A',b' ']),
        ("AT len 5 ILE", Ts::Ile, 1, 0, vec![0x72,0,0x60,0, 5,0,0,0, 0x10,0,0x10,0,7, 0x10,0,0x20,0, 2,0,0,0, b'I',b'D']),
        ("DA all padding, interpreted, inside an explicit-length item", Ts::Ele, 0, 0, vec![0x08,0,0x82,0x10, b'S',b'Q',0,0,18,0,0,0, 0xfe,0xff,0,0xe0,10,0,0,0, 0x08,0,0x20,0, b'D',b'A',2,0, b' ',b' ', 0x10,0,0x10,0, b'P',b'N',2,0, b'A',b' ']),
        ("IS blank interpreted", Ts::Ele, 0, 0, vec![0x20,0,0x13,0, b'I',b'S',2,0, b' ',0, 0x10,0,0x10,0, b'P',b'N',2,0, b'A',b' ']),
        ("OB len 3 accept", Ts::Ele, 1, 0, vec![0x09,0,0x10,0x10, b'O',b'B',0,0,3,0,0,0, 1,2,3, 0x10,0,0x10,0, b'P',b'N',2,0, b'A',b' ']),
        ("PN len 1 ILE accept", Ts::Ile, 1, 0, vec![0x10,0,0x10,0, 1,0,0,0, b'A', 0x10,0,0x20,0, 2,0,0,0, b'I',b'D']),
        ("next-even, length 0x7fffffff", Ts::Ile, 1, 1, vec![0x10,0,0x10,0, 0xff,0xff,0xff,0x7f, b'A']),
        ("truncated fragment (known finding)", Ts::Ele, 1, 0, vec![0xe0,0x7f,0x10,0, b'O',b'B',0,0,0xff,0xff,0xff,0xff, 0xfe,0xff,0,0xe0,0,0,0,0, 0xfe,0xff,0,0xe0,8,0,0,0, 1,2,3]),
        ("odd offset table", Ts::Ele, 1, 0, vec![0xe0,0x7f,0x10,0, b'O',b'B',0,0,0xff,0xff,0xff,0xff, 0xfe,0xff,0,0xe0,5,0,0,0, 1,0,0,0,7, 0xfe,0xff,0,0xe0,2,0,0,0, 1,2, 0xfe,0xff,0xdd,0xe0,0,0,0,0]),
        ("odd item length, fail", Ts::Ile, 1, 2, vec![0x08,0,0x82,0x10, 0xff,0xff,0xff,0xff, 0xfe,0xff,0,0xe0,9,0,0,0, 0x10,0,0x10,0, 1,0,0,0, b'A']),
        ("pixel representation then xs element", Ts::Ele, 1, 0, vec![0x28,0,0x03,0x01, b'U',b'S',2,0, 1,0, 0x28,0,0x06,0x01, b'U',b'S',3,0, 0xff,0xff,7]),
        ("stray item delimiters at top level", Ts::Ile, 1, 0, vec![0xfe,0xff,0x0d,0xe0,0,0,0,0, 0xfe,0xff,0x0d,0xe0,0,0,0,0, 0x10,0,0x10,0, 1,0,0,0, b'A']),
    ]
}

pub fn cases(ctx: &Ctx) -> Vec<Case> {
    let mut r = Rng::new(ctx.seed);
    let p = pools();
    let mut out = vec![];
    let hands = hand();
    for i in 0..ctx.n {
        if i < hands.len() {
            let (name, ts, strategy, odd, data) = &hands[i];
            let o = Opts { ts: *ts, strategy: *strategy, odd: *odd, flexible: false };
            let res = run(data, o);
            let tags = tags_seen(&[], &res);
            let oracle = position_oracle(&res).unwrap_or(if res.status == 1000 { Oracle::Fails { class: "Panic".into(), detail: "reader panicked".into() } } else { Oracle::Holds });
            out.push(Case {
                coq: if res.opaque || res.status == 1000 { String::new() } else { c_case(o, &tags, &res, data) },
                desc: json!({"bucket": "corpus", "name": name, "stream": hex(data), "steps": res.steps.iter().map(|s| format!("{} pos={} consumed={}", s.show, s.position, s.consumed)).collect::<Vec<_>>(), "status": res.status}),
                key: format!("hand{}", i),
                oracle,
            });
            continue;
        }
        let ts = [Ts::Ile, Ts::Ele, Ts::Ebe][i % 3];
        let odd = ((i / 3) % 3) as u32;
        let strategy = match r.below(10) { 0..=4 => 1, 5..=7 => 0, _ => 2 };
        let o = Opts { ts, strategy, odd, flexible: false };
        let cfg = GenCfg { depth: 2, pix: r.chance(1, 4), odd_bias: true, interp_bias: strategy == 0 };
        let count = r.range(1, 5) as usize;
        let mut nodes = gen_nodes(&mut r, &p, ts, &cfg, count);
        // Pixel Representation = signed, followed by elements whose dictionary VR is `xs`
        if r.chance(1, 10) {
            let v: Vec<u8> = if ts == Ts::Ebe { vec![0, 1] } else { vec![1, 0] };
            nodes.insert(0, Node::Elem { tag: (0x0028, 0x0103), vr: VR::US, data: if r.chance(1, 4) { vec![1] } else { v } });
            let t = *r.pick(&p.xs);
            nodes.push(Node::Elem { tag: t, vr: VR::US, data: value_bytes(&mut r, VR::US, Some(true)) });
        }
        let matched_pad = !r.chance(1, 10);
        let pad_odd = (odd == 1) == matched_pad;
        let mut data = vec![];
        let mut exp = vec![];
        encode(&nodes, ts, pad_odd, &mut data, &mut exp);
        // malformed variants: truncation, a length off by one, a stray delimiter in front
        let malformed = match r.below(10) {
            0 => { let k = r.below(data.len() as u64 + 1) as usize; data.truncate(k); "truncated" }
            1 if data.len() > 8 => { let k = if ts == Ts::Ile { 4 } else { 6 }; data[k] ^= 1; "first-length-flipped" }
            2 => { let mut d = vec![]; if ts == Ts::Ebe { d.extend_from_slice(&[0xff, 0xfe, 0xe0, 0x0d, 0, 0, 0, 0]); } else { d.extend_from_slice(&[0xfe, 0xff, 0x0d, 0xe0, 0, 0, 0, 0]); } d.extend_from_slice(&data); data = d; "stray-delimiter" }
            _ => "",
        };
        let res = run(&data, o);
        let mut tt = vec![];
        all_tags(&nodes, &mut tt);
        let tags = tags_seen(&tt, &res);
        let well_formed = malformed.is_empty() && pad_odd == (odd == 1);
        let comparable = !res.opaque && res.status != 1000;
        let oracle = if res.status == 1000 {
            Oracle::Fails { class: "Panic".into(), detail: "reader panicked".into() }
        } else if let Some(f) = position_oracle(&res) {
            f
        } else if well_formed && comparable && !(res.status == 5 && !res.rejected.is_empty()) {
            expect_oracle(&exp, o, &res, data.len())
        } else if malformed == "stray-delimiter" && pad_odd == (odd == 1) && comparable && !(res.status == 5 && !res.rejected.is_empty()) {
            // the stray delimiter is skipped: positions shift by 8, tokens are unchanged
            expect_oracle(&exp, o, &res, data.len())
        } else {
            Oracle::NotApplicable
        };
        // the lazy reader (parser/src/dataset/lazy_read.rs) over the same stream: same oracles
        let oracle = match oracle {
            Oracle::Fails { .. } => oracle,
            eager => {
                let lz = run_lazy(&data, o);
                let rename = |o: Oracle| match o { Oracle::Fails { class, detail } => Oracle::Fails { class: format!("Lazy{}", class), detail }, x => x };
                if lz.status == 1000 { eager }
                else if let Some(f) = position_oracle(&lz) { match f { Oracle::Fails { ref class, .. } if class == "TruncatedItemValue" => f, f => rename(f) } }
                else if well_formed && lz.rejected.is_empty() && !res.opaque && !(res.status == 5 && !res.rejected.is_empty()) {
                    // the lazy reader reports the offset table as a plain item value
                    let exp_lazy: Vec<Expect> = exp.iter().map(|&(k, t, l)| (if k == 'O' { 'F' } else { k }, t, l)).collect();
                    match rename(expect_oracle(&exp_lazy, o, &lz, data.len())) { Oracle::Holds => eager, f => f }
                } else { eager }
            }
        };
        let has_odd = first_odd(&{ let mut e2 = vec![]; let mut d2 = vec![]; encode(&nodes, ts, false, &mut d2, &mut e2); e2 }).is_some();
        out.push(Case {
            coq: if comparable { c_case(o, &tags, &res, &data) } else { String::new() },
            desc: json!({"bucket": format!("{:?}/odd{}/strat{}/{}{}", ts, odd, strategy, if has_odd { "odd" } else { "even" }, if malformed.is_empty() { String::new() } else { format!("/{}", malformed) }),
                         "tree": format!("{:?}", nodes), "stream": hex(&data), "status": res.status,
                         "steps": res.steps.iter().map(|s| format!("{} pos={} consumed={}", s.show, s.position, s.consumed)).collect::<Vec<_>>()}),
            key: if has_odd { format!("{:?}{}{}{}", ts, odd, strategy, hex(&data)) } else { String::new() },
            oracle,
        });
    }
    out
}
