//! C08 — flexible (adaptive) VR decoding agrees with the explicit resp. implicit decoder.
//! Real code: DataSetReader::new_with_ts_cs_options with
//! DataSetReaderOptions::flexible_decoding(true) (encoding/src/decode/adaptive_le.rs underneath)
//! against the plain readers over the same bytes. Coq side: Model/Adaptive.v `check_case`.
use crate::c07::tags_seen;
use crate::gen::*;
use crate::rd::*;
use dicom_core::dictionary::{DataDictionary, DataDictionaryEntry, VirtualVr};
use dicom_core::{Tag, VR};
use dicom_dictionary_std::StandardDataDictionary;
use serde_json::json;
use vhc::*;

/// adaptive_le.rs vr_compatible_with_virtual (private there), restated from its documentation
fn compatible(probed: VR, v: VirtualVr) -> bool {
    match v {
        VirtualVr::Exact(vr) => probed == vr,
        VirtualVr::Xs => matches!(probed, VR::US | VR::SS),
        VirtualVr::Ox | VirtualVr::Px => matches!(probed, VR::OB | VR::OW),
        VirtualVr::Lt => matches!(probed, VR::US | VR::OW),
        _ => false,
    }
}

/// The first header outside group FFFE: (tag, the two bytes behind it). Leading 8-byte FFFE headers are skipped.
fn first_probe(b: &[u8]) -> Option<((u16, u16), [u8; 2], bool)> {
    let mut i = 0;
    let mut skipped = false;
    while i + 6 <= b.len() {
        let g = u16::from_le_bytes([b[i], b[i + 1]]);
        let e = u16::from_le_bytes([b[i + 2], b[i + 3]]);
        if g == 0xFFFE { i += 8; skipped = true; continue; }
        return Some(((g, e), [b[i + 4], b[i + 5]], skipped));
    }
    None
}

/// Does the probe take these two bytes for a VR compatible with the attribute?
fn spells_compatible(tag: (u16, u16), c: [u8; 2]) -> bool {
    match VR::from_binary(c) {
        None => false,
        Some(vr) => match StandardDataDictionary.by_tag(Tag(tag.0, tag.1)) { Some(en) => compatible(vr, en.vr()), None => true },
    }
}

fn c_case8(o: Opts, tags: &std::collections::BTreeSet<(u16, u16)>, out: &RunOut, data: &[u8]) -> String {
    let rows: Vec<String> = tags.iter().filter_map(|&(g, e)| vvr_row(g, e).map(|v| format!("({}, {})", (g as u32) * 65536 + e as u32, v))).collect();
    let rej: Vec<String> = out.rejected.iter().map(|(vr, b)| format!("({}, {})", vr, c_bytes(b))).collect();
    let steps: Vec<String> = out.steps.iter().map(|s| format!("({}, {})", s.coq, s.consumed)).collect();
    let typed = |v: Vec<String>, ty: &str| if v.is_empty() { format!("(@nil {})", ty) } else { c_list(v) };
    c_tuple(&[format!("({}, {})", o.strategy, o.odd), typed(rows, "(N * vvr)"), typed(rej, "(N * bytes)"),
              if data.is_empty() { "(@nil N)".into() } else { c_bytes(data) }, typed(steps, "(token * N)"), out.status.to_string()])
}

fn same(a: &RunOut, b: &RunOut, implicit: bool) -> Result<(), String> {
    let ta: Vec<(&String, u64)> = a.steps.iter().map(|s| (&s.coq, s.consumed)).collect();
    let tb: Vec<(&String, u64)> = b.steps.iter().map(|s| (&s.coq, s.consumed)).collect();
    if ta != tb {
        let i = ta.iter().zip(tb.iter()).position(|(x, y)| x != y).unwrap_or(ta.len().min(tb.len()));
        return Err(format!("token {}: flexible {:?} vs plain {:?}", i, a.steps.get(i).map(|s| &s.show), b.steps.get(i).map(|s| &s.show)));
    }
    // end of input at an item header inside pixel data: the implicit reader reports ReadItemHeader, the flexible one ends
    if a.status != b.status && !(implicit && b.status == 4 && a.status == 0) { return Err(format!("status: flexible {} vs plain {}", a.status, b.status)); }
    Ok(())
}

pub fn cases(ctx: &Ctx) -> Vec<Case> {
    let mut r = Rng::new(ctx.seed);
    let p = pools();
    let mut out = vec![];
    // fixed corpus: (name, encoded as, stream)
    let corpus: Vec<(&str, Ts, Vec<u8>)> = vec![
        ("explicit, first VR matches the dictionary", Ts::Ele, vec![8,0,8,0, b'C',b'S',2,0, b'A',b'B', 0x10,0,0x20,0, b'L',b'O',2,0, b'I',b'D']),
        ("explicit, first element (0008,0008) written as UN (known finding)", Ts::Ele, vec![8,0,8,0, b'U',b'N',0,0, 4,0,0,0, b'A',b'B',b'C',b'D']),
        ("explicit, xs attribute written as SS", Ts::Ele, vec![0x28,0,0x06,0x01, b'S',b'S',2,0, 0xff,0xff, 0x10,0,0x20,0, b'L',b'O',2,0, b'I',b'D']),
        ("explicit, ox attribute (waveform padding) written as OB", Ts::Ele, vec![0,0x54,0x0a,0x10, b'O',b'B',0,0, 2,0,0,0, 1,2, 0x10,0,0x20,0, b'L',b'O',2,0, b'I',b'D']),
        ("explicit, LUT data written as US", Ts::Ele, vec![0x28,0,0x06,0x30, b'U',b'S',2,0, 1,0, 0x10,0,0x20,0, b'L',b'O',2,0, b'I',b'D']),
        ("explicit, native pixel data written as OB", Ts::Ele, vec![0xe0,0x7f,0x10,0, b'O',b'B',0,0, 2,0,0,0, 1,2]),
        ("explicit, private first element", Ts::Ele, vec![9,0,0x10,0x10, b'O',b'B',0,0, 2,0,0,0, 1,2, 0x10,0,0x20,0, b'L',b'O',2,0, b'I',b'D']),
        ("explicit, unknown VR code in the first element", Ts::Ele, vec![8,0,8,0, b'Z',b'Z',0,0, 2,0,0,0, b'A',b'B']),
        ("implicit, ordinary", Ts::Ile, vec![8,0,8,0, 2,0,0,0, b'A',b'B', 0x10,0,0x20,0, 2,0,0,0, b'I',b'D']),
        ("implicit, length spells OB for a CS attribute (unambiguous), truncated", Ts::Ile, vec![8,0,8,0, b'O',b'B',0,0, b'A',b'B']),
        ("implicit, length spells CS for a CS attribute (ambiguous), truncated", Ts::Ile, vec![8,0,8,0, b'C',b'S',0,0, b'A',b'B']),
        ("implicit, stray item delimiter first", Ts::Ile, vec![0xfe,0xff,0x0d,0xe0,0,0,0,0, 8,0,8,0, 2,0,0,0, b'A',b'B']),
        ("implicit, sequence first", Ts::Ile, vec![8,0,0x82,0x10, 0xff,0xff,0xff,0xff, 0xfe,0xff,0,0xe0,0xff,0xff,0xff,0xff, 8,0,8,0, 2,0,0,0, b'A',b'B', 0xfe,0xff,0x0d,0xe0,0,0,0,0, 0xfe,0xff,0xdd,0xe0,0,0,0,0]),
    ];
    for i in 0..ctx.n {
        let (enc, data, tree_tags, bucket, name): (Ts, Vec<u8>, Vec<(u16, u16)>, String, String) = if i < corpus.len() {
            let (n, enc, d) = &corpus[i];
            (*enc, d.clone(), vec![], "corpus".into(), n.to_string())
        } else {
            let enc = if i % 2 == 0 { Ts::Ele } else { Ts::Ile };
            let cfg = GenCfg { depth: 2, pix: enc == Ts::Ele && r.chance(1, 5), odd_bias: false, interp_bias: false };
            let count = r.range(0, 4) as usize;
            let mut nodes = gen_nodes(&mut r, &p, enc, &cfg, count);
            let mut first_kind = "generated-first";
            let mut big_len: Option<u32> = None;
            // the first element decides: build it deliberately in most cases
            let k = r.below(10);
            if enc == Ts::Ele {
                let vr = loop { let v = *r.pick(&ALL_VRS); if v != VR::SQ { break v; } };
                let first = match k {
                    0..=2 => { first_kind = "dict-vr"; pick_dict(&mut r, &p, vr).map(|t| Node::Elem { tag: t, vr, data: value_bytes(&mut r, vr, Some(false)) }) }
                    3 => { first_kind = "private"; Some(Node::Elem { tag: (0x0009, r.range(0x1000, 0x10ff) as u16), vr, data: value_bytes(&mut r, vr, Some(false)) }) }
                    4 => { first_kind = "multi-vr"; // attributes whose dictionary entry allows two VRs, written with either
                        let (tag, a, b) = match r.below(6) {
                            0 | 1 => (*r.pick(&p.xs), VR::US, VR::SS),
                            2 => ((0x5400, *r.pick(&[0x100Au16, 0x1010])), VR::OB, VR::OW),
                            3 => ((0x0028, 0x3006), VR::US, VR::OW),
                            4 => ((0x7FE0, 0x0010), VR::OB, VR::OW),
                            _ => ((0x6000 + 2 * r.below(4) as u16, 0x3000), VR::OB, VR::OW),
                        };
                        Some(Node::Elem { tag, vr: if r.coin() { a } else { b }, data: vec![1, 0, 2, 0] }) }
                    5 | 6 => { first_kind = "other-vr"; // a VR which is (usually) not the dictionary's: UN most often
                        let other = if r.coin() { VR::UN } else { loop { let v = *r.pick(&ALL_VRS); if v != VR::SQ { break v; } } };
                        pick_dict(&mut r, &p, vr).map(|t| Node::Elem { tag: t, vr: other, data: value_bytes(&mut r, other, Some(false)) }) }
                    _ => None,
                };
                if let Some(f) = first { nodes.insert(0, f); }
            } else if k < 5 {
                // implicit: a first element whose length spells a VR code
                let vr = loop { let v = *r.pick(&ALL_VRS); if v != VR::SQ { break v; } };
                let spelled = match k { 0 | 1 => vr, _ => *r.pick(&ALL_VRS) };
                let tag = if k == 4 { Some((0x0009, r.range(0x1000, 0x10ff) as u16)) } else { pick_dict(&mut r, &p, vr) };
                if let Some(tag) = tag {
                    let c = spelled.to_bytes();
                    let len = c[0] as u32 + 256 * c[1] as u32;
                    big_len = Some(len);
                    first_kind = if spelled == vr { "len-spells-own-vr" } else if k == 4 { "len-spells-vr-unknown-tag" } else { "len-spells-other-vr" };
                    nodes.insert(0, Node::Elem { tag, vr, data: (0..len).map(|_| b'A' + (r.below(20) as u8)).collect() });
                }
            }
            let mut data = vec![];
            let mut exp = vec![];
            encode(&nodes, enc, false, &mut data, &mut exp);
            // a stream with a 17..22 KiB first value is kept whole only now and then; otherwise it is cut short
            if let Some(l) = big_len { if !r.chance(1, 12) { data.truncate(data.len().min(8 + r.below(40) as usize).min(8 + l as usize)); first_kind = if first_kind == "len-spells-own-vr" { "len-spells-own-vr/cut" } else if first_kind == "len-spells-vr-unknown-tag" { "len-spells-vr-unknown-tag/cut" } else { "len-spells-other-vr/cut" }; } }
            if r.chance(1, 20) { let mut d = vec![0xfe, 0xff, 0x0d, 0xe0, 0, 0, 0, 0]; d.extend_from_slice(&data); data = d; }
            if r.chance(1, 12) { let k = r.below(data.len() as u64 + 1) as usize; data.truncate(k); }
            let mut tt = vec![];
            all_tags(&nodes, &mut tt);
            (enc, data, tt, format!("{:?}/{}", enc, first_kind), format!("{:?}", nodes).chars().take(400).collect())
        };
        let strategy = if i < corpus.len() { 1 } else { match r.below(6) { 0 => 0, 1 => 2, _ => 1 } };
        let odd = if i < corpus.len() { 0 } else { match r.below(8) { 0 => 1, 1 => 2, _ => 0 } };
        // the transfer syntax DECLARED to the flexible reader: the true one, or explicit for implicit data
        let declared = if enc == Ts::Ile && r.coin() { Ts::Ele } else { enc };
        let flex = run(&data, Opts { ts: declared, strategy, odd, flexible: true });
        let plain = run(&data, Opts { ts: enc, strategy, odd, flexible: false });
        let probe = first_probe(&data);
        let comparable = !flex.opaque && !plain.opaque && flex.status != 1000 && plain.status != 1000;
        let verdict = same(&flex, &plain, enc == Ts::Ile);
        let oracle = if !comparable {
            if flex.status == 1000 { Oracle::Fails { class: "Panic".into(), detail: "flexible reader panicked".into() } } else { Oracle::NotApplicable }
        } else {
            match (enc, probe) {
                (_, None) => match verdict { Ok(()) => Oracle::Holds, Err(e) => Oracle::Fails { class: "FlexibleDisagreesNoElement".into(), detail: e } },
                (Ts::Ile, Some((tag, c, _))) => {
                    if spells_compatible(tag, c) { Oracle::NotApplicable } // ambiguous: outside the property
                    else { match verdict { Ok(()) => Oracle::Holds, Err(e) => Oracle::Fails { class: "FlexibleDisagreesImplicit".into(), detail: e } } }
                }
                (_, Some((tag, c, _))) => match verdict {
                    Ok(()) => Oracle::Holds,
                    Err(e) => Oracle::Fails { class: if spells_compatible(tag, c) { "FlexibleDisagreesExplicit".into() } else { "ExplicitFirstVrIncompatible".into() }, detail: e },
                },
            }
        };
        let tags = { let mut t = tags_seen(&tree_tags, &flex); t.extend(tags_seen(&[], &plain)); t };
        let small = data.len() <= 600;
        out.push(Case {
            coq: if comparable && small { c_case8(Opts { ts: declared, strategy, odd, flexible: true }, &tags, &flex, &data) } else { String::new() },
            desc: json!({"bucket": bucket, "what": name, "declared": format!("{:?}", declared), "stream": hex(&data[..data.len().min(200)]), "stream_len": data.len(),
                         "flexible": {"status": flex.status, "steps": flex.steps.iter().take(12).map(|s| s.show.clone()).collect::<Vec<_>>()},
                         "plain": {"status": plain.status, "steps": plain.steps.iter().take(12).map(|s| s.show.clone()).collect::<Vec<_>>()}}),
            key: if probe.is_some() { format!("{:?}{}{}{}", enc, strategy, odd, hex(&data[..data.len().min(64)])) + &data.len().to_string() } else { String::new() },
            oracle,
        });
    }
    out
}

fn pick_dict(r: &mut Rng, p: &Pools, vr: VR) -> Option<(u16, u16)> {
    p.by_vr.get(vr.to_string()).filter(|t| !t.is_empty()).map(|t| *r.pick(t))
}
