//! Data sets as the Coq model sees them (`Model/Json.v` `dset`/`value`/`prim`)
//! and the conversions to and from the real in-memory objects.
use dicom_core::header::Header;
use dicom_core::value::{DataSetSequence, PixelFragmentSequence, Value, C};
use dicom_core::{DataElement, PrimitiveValue, Tag, VR};
use dicom_object::InMemDicomObject;
use serde_json::json;
use vhc::*;

pub const ALL_VRS: [VR; 34] = [
    VR::AE, VR::AS, VR::AT, VR::CS, VR::DA, VR::DS, VR::DT, VR::FL, VR::FD, VR::IS, VR::LO, VR::LT,
    VR::OB, VR::OD, VR::OF, VR::OL, VR::OV, VR::OW, VR::PN, VR::SH, VR::SL, VR::SQ, VR::SS, VR::ST,
    VR::SV, VR::TM, VR::UC, VR::UI, VR::UL, VR::UN, VR::UR, VR::US, VR::UT, VR::UV,
];

#[derive(Clone, Copy, Debug, PartialEq, Eq)]
pub enum IK { U8, I16, U16, I32, U32, I64, U64 }
impl IK {
    pub fn coq(self) -> &'static str {
        match self { IK::U8 => "KU8", IK::I16 => "KI16", IK::U16 => "KU16", IK::I32 => "KI32", IK::U32 => "KU32", IK::I64 => "KI64", IK::U64 => "KU64" }
    }
    pub fn range(self) -> (i128, i128) {
        match self {
            IK::U8 => (0, 255), IK::I16 => (-32768, 32767), IK::U16 => (0, 65535),
            IK::I32 => (i32::MIN as i128, i32::MAX as i128), IK::U32 => (0, u32::MAX as i128),
            IK::I64 => (i64::MIN as i128, i64::MAX as i128), IK::U64 => (0, u64::MAX as i128),
        }
    }
    pub const ALL: [IK; 7] = [IK::U8, IK::I16, IK::U16, IK::I32, IK::U32, IK::I64, IK::U64];
}

#[derive(Clone, Debug)]
pub enum MPrim {
    Empty,
    Strs(Vec<String>),
    Str(String),
    Tags(Vec<u32>),
    Int(IK, Vec<i128>),
    F32(Vec<u32>),
    F64(Vec<u64>),
    /// a real Date/Time/DateTime value with (to_encoded, to_string) of each item
    Temporal(PrimitiveValue, Vec<(String, String)>),
}

#[derive(Clone, Debug)]
pub enum MValue { Prim(MPrim), Seq(Vec<MDs>), Pix }

/// elements in ascending tag order
#[derive(Clone, Debug, Default)]
pub struct MDs(pub Vec<(u32, VR, MValue)>);

pub fn temporal(p: PrimitiveValue) -> MPrim {
    let pairs: Vec<(String, String)> = match &p {
        PrimitiveValue::Date(v) => v.iter().map(|d| (d.to_encoded(), d.to_string())).collect(),
        PrimitiveValue::Time(v) => v.iter().map(|d| (d.to_encoded(), d.to_string())).collect(),
        PrimitiveValue::DateTime(v) => v.iter().map(|d| (d.to_encoded(), d.to_string())).collect(),
        _ => panic!("not temporal"),
    };
    MPrim::Temporal(p, pairs)
}

impl MPrim {
    pub fn real(&self) -> PrimitiveValue {
        match self {
            MPrim::Empty => PrimitiveValue::Empty,
            MPrim::Strs(l) => PrimitiveValue::Strs(l.iter().cloned().collect()),
            MPrim::Str(s) => PrimitiveValue::Str(s.clone()),
            MPrim::Tags(l) => PrimitiveValue::Tags(l.iter().map(|t| Tag((t >> 16) as u16, *t as u16)).collect()),
            MPrim::Int(k, l) => match k {
                IK::U8 => PrimitiveValue::U8(l.iter().map(|x| *x as u8).collect()),
                IK::I16 => PrimitiveValue::I16(l.iter().map(|x| *x as i16).collect()),
                IK::U16 => PrimitiveValue::U16(l.iter().map(|x| *x as u16).collect()),
                IK::I32 => PrimitiveValue::I32(l.iter().map(|x| *x as i32).collect()),
                IK::U32 => PrimitiveValue::U32(l.iter().map(|x| *x as u32).collect()),
                IK::I64 => PrimitiveValue::I64(l.iter().map(|x| *x as i64).collect()),
                IK::U64 => PrimitiveValue::U64(l.iter().map(|x| *x as u64).collect()),
            },
            MPrim::F32(l) => PrimitiveValue::F32(l.iter().map(|b| f32::from_bits(*b)).collect()),
            MPrim::F64(l) => PrimitiveValue::F64(l.iter().map(|b| f64::from_bits(*b)).collect()),
            MPrim::Temporal(p, _) => p.clone(),
        }
    }
    pub fn of_real(p: &PrimitiveValue) -> MPrim {
        fn ints<T: Copy + Into<i128>>(k: IK, v: &C<T>) -> MPrim { MPrim::Int(k, v.iter().map(|x| (*x).into()).collect()) }
        match p {
            PrimitiveValue::Empty => MPrim::Empty,
            PrimitiveValue::Strs(l) => MPrim::Strs(l.iter().cloned().collect()),
            PrimitiveValue::Str(s) => MPrim::Str(s.clone()),
            PrimitiveValue::Tags(l) => MPrim::Tags(l.iter().map(|t| ((t.0 as u32) << 16) | t.1 as u32).collect()),
            PrimitiveValue::U8(v) => ints(IK::U8, v),
            PrimitiveValue::I16(v) => ints(IK::I16, v),
            PrimitiveValue::U16(v) => ints(IK::U16, v),
            PrimitiveValue::I32(v) => ints(IK::I32, v),
            PrimitiveValue::U32(v) => ints(IK::U32, v),
            PrimitiveValue::I64(v) => ints(IK::I64, v),
            PrimitiveValue::U64(v) => ints(IK::U64, v),
            PrimitiveValue::F32(v) => MPrim::F32(v.iter().map(|x| x.to_bits()).collect()),
            PrimitiveValue::F64(v) => MPrim::F64(v.iter().map(|x| x.to_bits()).collect()),
            other => temporal(other.clone()),
        }
    }
    pub fn coq(&self) -> String {
        match self {
            MPrim::Empty => "PEmpty".into(),
            MPrim::Strs(l) => format!("(PStrs {})", c_list(l.iter().map(|s| c_str(s)))),
            MPrim::Str(s) => format!("(PStr {})", c_str(s)),
            MPrim::Tags(l) => format!("(PTags {})", c_list(l.iter().map(|t| t.to_string()))),
            MPrim::Int(k, l) => format!("(PInt {} {})", k.coq(), c_list(l.iter().map(|z| c_z(*z)))),
            MPrim::F32(l) => format!("(PF32 {})", c_list(l.iter().map(|b| b.to_string()))),
            MPrim::F64(l) => format!("(PF64 {})", c_list(l.iter().map(|b| b.to_string()))),
            MPrim::Temporal(_, l) => format!("(PTemporal {})", c_list(l.iter().map(|(a, b)| format!("({}, {})", c_str(a), c_str(b))))),
        }
    }
    pub fn desc(&self) -> serde_json::Value {
        match self {
            MPrim::Empty => json!("Empty"),
            MPrim::Strs(l) => json!({"Strs": l}),
            MPrim::Str(s) => json!({"Str": s}),
            MPrim::Tags(l) => json!({"Tags": l.iter().map(|t| format!("{:08X}", t)).collect::<Vec<_>>()}),
            MPrim::Int(k, l) => json!({k.coq(): l.iter().map(|z| z.to_string()).collect::<Vec<_>>()}),
            MPrim::F32(l) => json!({"F32bits": l.iter().map(|b| format!("{:08x}", b)).collect::<Vec<_>>()}),
            MPrim::F64(l) => json!({"F64bits": l.iter().map(|b| format!("{:016x}", b)).collect::<Vec<_>>()}),
            MPrim::Temporal(_, l) => json!({"Temporal": l.iter().map(|x| x.0.clone()).collect::<Vec<_>>()}),
        }
    }
    pub fn multiplicity(&self) -> usize {
        match self {
            MPrim::Empty => 0,
            MPrim::Str(_) => 1,
            MPrim::Strs(l) => l.len(),
            MPrim::Tags(l) => l.len(),
            MPrim::Int(_, l) => l.len(),
            MPrim::F32(l) => l.len(),
            MPrim::F64(l) => l.len(),
            MPrim::Temporal(_, l) => l.len(),
        }
    }
}

pub fn vr_coq(vr: VR) -> String { format!("V_{}", vr.to_string()) }

impl MValue {
    pub fn coq(&self) -> String {
        match self {
            MValue::Prim(p) => format!("(VPrim {})", p.coq()),
            MValue::Seq(items) => format!("(vseq {})", c_list(items.iter().map(|d| d.coq()))),
            MValue::Pix => "VPix".into(),
        }
    }
    pub fn desc(&self) -> serde_json::Value {
        match self {
            MValue::Prim(p) => p.desc(),
            MValue::Seq(items) => json!({"Seq": items.iter().map(|d| d.desc()).collect::<Vec<_>>()}),
            MValue::Pix => json!("PixelSequence"),
        }
    }
}

impl MDs {
    pub fn coq(&self) -> String {
        format!("(dset_of {})", c_list(self.0.iter().map(|(t, vr, v)| format!("({}, {}, {})", t, vr_coq(*vr), v.coq()))))
    }
    pub fn desc(&self) -> serde_json::Value {
        serde_json::Value::Array(self.0.iter().map(|(t, vr, v)| json!({"tag": format!("{:08X}", t), "vr": vr.to_string(), "value": v.desc()})).collect())
    }
    pub fn real(&self) -> InMemDicomObject {
        InMemDicomObject::from_element_iter(self.0.iter().map(|(t, vr, v)| {
            let tag = Tag((t >> 16) as u16, *t as u16);
            let value: Value<InMemDicomObject, Vec<u8>> = match v {
                MValue::Prim(p) => Value::Primitive(p.real()),
                MValue::Seq(items) => Value::Sequence(DataSetSequence::from(items.iter().map(|d| d.real()).collect::<Vec<_>>())),
                MValue::Pix => Value::PixelSequence(PixelFragmentSequence::new(vec![0u32], vec![vec![1u8, 2, 3, 4]])),
            };
            DataElement::new(tag, *vr, value)
        }))
    }
    pub fn of_real(obj: &InMemDicomObject) -> MDs {
        MDs(obj.iter().map(|e| {
            let t = ((e.tag().0 as u32) << 16) | e.tag().1 as u32;
            let v = match e.value() {
                Value::Primitive(p) => MValue::Prim(MPrim::of_real(p)),
                Value::Sequence(s) => MValue::Seq(s.items().iter().map(MDs::of_real).collect()),
                Value::PixelSequence(_) => MValue::Pix,
            };
            (t, e.vr(), v)
        }).collect())
    }
    /// all binary32 / binary64 bit patterns held
    pub fn collect_floats(&self, f32s: &mut Vec<u32>, f64s: &mut Vec<u64>) {
        for (_, _, v) in &self.0 {
            match v {
                MValue::Prim(MPrim::F32(l)) => f32s.extend(l.iter().copied()),
                MValue::Prim(MPrim::F64(l)) => f64s.extend(l.iter().copied()),
                MValue::Seq(items) => items.iter().for_each(|d| d.collect_floats(f32s, f64s)),
                _ => {}
            }
        }
    }
}
