//! vh_json — DICOM JSON mapping of dicom-json (C23 round trip / totality, C24 Annex F conformance).
mod annexf;
mod c23;
mod gen;
mod jast;
mod mds;
use vhc::*;

fn main() {
    run_main(
        |prop, ctx| match prop {
            "C23" => Some(c23::cases(ctx, c23::Prop::C23)),
            "C24" => Some(c23::cases(ctx, c23::Prop::C24)),
            _ => None,
        },
        |_prop, _out| false,
    );
}
