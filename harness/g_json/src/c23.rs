//! C23 (DICOM JSON round trip, deserialising never panics) and C24 (output
//! conforms to PS3.18 Annex F): one case stream, two oracles.
use crate::annexf;
use crate::gen::*;
use crate::jast::*;
use crate::mds::*;
use dicom_core::header::Header;
use dicom_core::value::Value;
use dicom_core::{PrimitiveValue, VR};
use dicom_object::InMemDicomObject;
use serde_json::json;
use vhc::*;

#[derive(Clone, Copy, PartialEq)]
pub enum Prop { C23, C24 }

// ---------------------------------------------------------------- ext tables
struct Ext { f32s: Vec<u32>, f64s: Vec<u64>, strs: Vec<String> }
impl Ext {
    fn new() -> Self { Ext { f32s: vec![], f64s: vec![], strs: vec![] } }
    fn add_ds(&mut self, ds: &MDs) {
        let mut a = vec![]; let mut b = vec![];
        ds.collect_floats(&mut a, &mut b);
        for x in &a { self.f64s.push((f32::from_bits(*x) as f64).to_bits()); }
        self.f32s.extend(a); self.f64s.extend(b);
    }
    fn add_json(&mut self, j: &J) { j.collect(&mut self.strs, &mut self.f64s); }
    fn coq(&mut self) -> String {
        self.f32s.sort(); self.f32s.dedup(); self.f64s.sort(); self.f64s.dedup(); self.strs.sort(); self.strs.dedup();
        let t32 = c_list(self.f32s.iter().map(|b| format!("({}, {})", b, c_str(&f32::from_bits(*b).to_string()))));
        let t64 = c_list(self.f64s.iter().map(|b| format!("({}, {})", b, c_str(&f64::from_bits(*b).to_string()))));
        let p32 = c_list(self.strs.iter().filter_map(|s| s.parse::<f32>().ok().map(|x| format!("({}, Some {})", c_str(s), x.to_bits()))));
        let p64 = c_list(self.strs.iter().filter_map(|s| s.parse::<f64>().ok().map(|x| format!("({}, Some {})", c_str(s), x.to_bits()))));
        format!("(ext_of {} {} {} {})", t32, t64, p32, p64)
    }
}

// ---------------------------------------------------------------- running the implementation
fn err_class(e: &serde_json::Error) -> u32 {
    let m = e.to_string();
    if m.contains("should only be set once") { 1 }
    else if m.contains("conflicts with") { 2 }
    else if m.contains("Unrecognized data element field") { 3 }
    else if m.contains("missing VR field") { 4 }
    else if m.contains("not valid base64") { 5 }
    else if m.contains("can't parse JSON Value in UN") { 6 }
    else { 0 }
}
fn c_de(r: &Option<Result<InMemDicomObject, serde_json::Error>>) -> String {
    match r {
        None => c_panic(),
        Some(Ok(o)) => c_ok(&MDs::of_real(o).coq()),
        Some(Err(e)) => c_err(err_class(e)),
    }
}
fn d_de(r: &Option<Result<InMemDicomObject, serde_json::Error>>) -> serde_json::Value {
    match r {
        None => json!("PANIC"),
        Some(Ok(o)) => json!({"ok": MDs::of_real(o).desc()}),
        Some(Err(e)) => json!({"err": e.to_string()}),
    }
}

// ---------------------------------------------------------------- hypotheses of the theorems (mirrors Json.wf_dset)
fn wf_prim(vr: VR, p: &MPrim) -> bool {
    if p.multiplicity() == 0 { return true; }
    if is_str_vr(vr) || vr == VR::PN { return true; }
    if is_bin_vr(vr) { return true; }
    match vr {
        VR::AT => matches!(p, MPrim::Tags(_)),
        VR::SQ => false,
        VR::FL => matches!(p, MPrim::F32(_)),
        VR::FD => matches!(p, MPrim::F64(_)),
        VR::DS | VR::IS => matches!(p, MPrim::Strs(_) | MPrim::Str(_) | MPrim::Int(..) | MPrim::F32(_) | MPrim::F64(_)),
        _ => { let (lo, hi) = native_kind(vr).unwrap().range(); matches!(p, MPrim::Int(_, l) if l.iter().all(|z| lo <= *z && *z <= hi)) }
    }
}
pub fn wf_ds(ds: &MDs) -> bool {
    ds.0.iter().all(|(_, vr, v)| match v {
        MValue::Prim(p) => wf_prim(*vr, p),
        MValue::Seq(items) => *vr == VR::SQ && items.iter().all(wf_ds),
        MValue::Pix => false,
    })
}

/// a multi-valued string whose items contain the value delimiter is another list of values in DICOM terms;
/// the semantic comparison of the oracle does not apply to it (the model/implementation comparison does)
fn has_delimiter_in_item(ds: &MDs) -> bool {
    ds.0.iter().any(|(_, _, v)| match v {
        MValue::Prim(MPrim::Strs(l)) => l.iter().any(|s| s.contains('\\')),
        MValue::Seq(items) => items.iter().any(has_delimiter_in_item),
        _ => false,
    })
}

/// hypotheses of C24_conforms (mirrors Json.conf_dset): well-formed, person names with at most three
/// component groups, UL values held as 64-bit integers are below 2^31
pub fn conf_ds(ds: &MDs) -> bool {
    ds.0.iter().all(|(_, vr, v)| match v {
        MValue::Prim(p) => wf_prim(*vr, p) && (p.multiplicity() == 0 || match (vr, p) {
            (VR::PN, _) => p.real().to_multi_str().iter().all(|s| s.matches('=').count() <= 2),
            (VR::UL, MPrim::Int(IK::I64 | IK::U64, l)) => l.iter().all(|z| i32::MIN as i128 <= *z && *z <= i32::MAX as i128),
            _ => true,
        }),
        MValue::Seq(items) => *vr == VR::SQ && items.iter().all(conf_ds),
        MValue::Pix => false,
    })
}

/// canonical data sets (mirrors Json.canon_dset): the round trip must return exactly the same data set
fn canon_prim(vr: VR, p: &MPrim) -> bool {
    let text_ok = |s: &String| !s.ends_with(' ') && !s.ends_with('\0') && !s.contains('\\');
    match p {
        MPrim::Empty => vr != VR::SQ,
        MPrim::Strs(l) if is_str_vr(vr) => !l.is_empty() && l.iter().all(text_ok),
        MPrim::Strs(l) if vr == VR::PN => !l.is_empty() && l.iter().all(|s| text_ok(s) && !s.ends_with('=')),
        MPrim::Strs(l) if vr == VR::DS || vr == VR::IS => !l.is_empty(),
        MPrim::Tags(l) if vr == VR::AT => !l.is_empty(),
        MPrim::Int(IK::U8, l) if is_bin_vr(vr) => !l.is_empty(),
        MPrim::Int(k, l) => !l.is_empty() && native_kind(vr) == Some(*k),
        MPrim::F32(l) if vr == VR::FL => !l.is_empty() && l.iter().all(|b| !f32::from_bits(*b).is_nan() || *b == 0x7fc0_0000),
        MPrim::F64(l) if vr == VR::FD => !l.is_empty() && l.iter().all(|b| !f64::from_bits(*b).is_nan() || *b == 0x7ff8_0000_0000_0000),
        _ => false,
    }
}
pub fn canon_ds(ds: &MDs) -> bool {
    ds.0.iter().all(|(_, vr, v)| match v {
        MValue::Prim(p) => canon_prim(*vr, p),
        MValue::Seq(items) => items.iter().all(canon_ds),
        MValue::Pix => true,
    })
}

// ---------------------------------------------------------------- direct oracle of C23: equal up to the documented normalisations
fn feq(a: f64, b: f64) -> bool { (a.is_nan() && b.is_nan()) || a.to_bits() == b.to_bits() }
fn prim_empty(vr: VR, p: &PrimitiveValue) -> bool { p.multiplicity() == 0 || (is_bin_vr(vr) && p.to_bytes().is_empty()) }

fn same_element(vr: VR, a: &Value<InMemDicomObject, Vec<u8>>, b: &Value<InMemDicomObject, Vec<u8>>) -> Result<(), String> {
    match (a, b) {
        (Value::Sequence(x), Value::Sequence(y)) => {
            if x.items().len() != y.items().len() { return Err("Sequence:item count".into()); }
            for (p, q) in x.items().iter().zip(y.items().iter()) { same_ds(p, q)?; }
            Ok(())
        }
        (Value::Primitive(p), Value::Sequence(y)) => if prim_empty(vr, p) && y.items().is_empty() { Ok(()) } else { Err("Sequence:kind".into()) },
        (Value::Primitive(p), Value::Primitive(q)) => {
            if prim_empty(vr, p) { return if q.multiplicity() == 0 { Ok(()) } else { Err("Empty:not empty after".into()) }; }
            if is_bin_vr(vr) {
                return if p.to_bytes() == q.to_bytes() { Ok(()) } else { Err("Binary:bytes differ".into()) };
            }
            match vr {
                VR::FL | VR::FD => {
                    let (x, y) = (p.to_multi_float64().map_err(|e| format!("Float:{e}"))?, q.to_multi_float64().map_err(|e| format!("Float:{e}"))?);
                    if x.len() == y.len() && x.iter().zip(y.iter()).all(|(a, b)| feq(*a, *b)) { Ok(()) } else { Err("Float:values differ".into()) }
                }
                VR::DS | VR::IS => {
                    // IS and DS become numeric strings: the same text (up to padding), or the same number
                    let y = q.to_multi_str();
                    let numeric = !matches!(p, PrimitiveValue::Str(_) | PrimitiveValue::Strs(_));
                    let ok = if numeric {
                        let x = p.to_multi_float64().map_err(|e| format!("NumericString:{e}"))?;
                        let single = matches!(p, PrimitiveValue::F32(_));   // binary32 values are written with binary32 precision
                        x.len() == y.len() && x.iter().zip(y.iter()).all(|(a, b)| b.parse::<f64>().map_or(false, |v| feq(*a, v) || *a == v || (single && (v as f32) as f64 == *a)))
                    } else {
                        // text original: the same backslash-separated text value (a `Str` holding the delimiter
                        // and the `Strs` read back denote the same value; `to_multi_str` would split only the latter)
                        p.to_str() == q.to_str()
                    };
                    if ok { Ok(()) } else { Err(format!("NumericString:{:?} vs {:?}", p, y)) }
                }
                VR::PN => {
                    // the same names; empty trailing component groups are not kept
                    let x: Vec<String> = if matches!(p, PrimitiveValue::Str(_) | PrimitiveValue::Strs(_)) { p.to_str().split('\\').map(|s| s.to_string()).collect() } else { p.to_multi_str().to_vec() };
                    let y: Vec<String> = q.to_str().split('\\').map(|s| s.to_string()).collect();
                    if x.len() == y.len() && x.iter().zip(y.iter()).all(|(a, b)| a.trim_end_matches('=') == b.trim_end_matches('=')) { Ok(()) } else { Err(format!("PersonName:{:?} vs {:?}", x, y)) }
                }
                _ => {
                    // the same text value (values separated by a backslash, trailing padding removed)
                    if matches!(p, PrimitiveValue::Str(_) | PrimitiveValue::Strs(_)) {
                        let (x, y) = (p.to_str(), q.to_str());
                        if x == y { Ok(()) } else { Err(format!("Text:{:?} vs {:?}", x, y)) }
                    } else {
                        // numbers, dates, times, tags: each value as its text
                        let (x, y) = (p.to_multi_str(), q.to_multi_str());
                        if x == y { Ok(()) } else { Err(format!("Text:{:?} vs {:?}", x, y)) }
                    }
                }
            }
        }
        _ => Err("Kind:differs".into()),
    }
}
fn same_ds(a: &InMemDicomObject, b: &InMemDicomObject) -> Result<(), String> {
    let (ea, eb): (Vec<_>, Vec<_>) = (a.iter().collect(), b.iter().collect());
    if ea.len() != eb.len() { return Err(format!("Elements:{} vs {}", ea.len(), eb.len())); }
    for (x, y) in ea.iter().zip(eb.iter()) {
        if x.tag() != y.tag() { return Err("Elements:tag".into()); }
        if x.vr() != y.vr() { return Err("Elements:vr".into()); }
        same_element(x.vr(), x.value(), y.value())?;
    }
    Ok(())
}

// ---------------------------------------------------------------- direct oracle of C24, second half: InlineBinary is base64 of the little-endian bytes
fn b64_decode(s: &str) -> Option<Vec<u8>> {
    const A: &[u8] = b"ABCDEFGHIJKLMNOPQRSTUVWXYZabcdefghijklmnopqrstuvwxyz0123456789+/";
    let body = s.trim_end_matches('=');
    let mut bits = 0u32; let mut nbits = 0; let mut out = vec![];
    for c in body.bytes() {
        let v = A.iter().position(|a| *a == c)? as u32;
        bits = (bits << 6) | v; nbits += 6;
        if nbits >= 8 { nbits -= 8; out.push((bits >> nbits) as u8); bits &= (1 << nbits) - 1; }
    }
    Some(out)
}
fn le_bytes(p: &MPrim) -> Option<Vec<u8>> {
    Some(match p {
        MPrim::Int(k, l) => l.iter().flat_map(|z| match k {
            IK::U8 => vec![*z as u8], IK::I16 => (*z as i16).to_le_bytes().to_vec(), IK::U16 => (*z as u16).to_le_bytes().to_vec(),
            IK::I32 => (*z as i32).to_le_bytes().to_vec(), IK::U32 => (*z as u32).to_le_bytes().to_vec(),
            IK::I64 => (*z as i64).to_le_bytes().to_vec(), IK::U64 => (*z as u64).to_le_bytes().to_vec() }).collect(),
        MPrim::F32(l) => l.iter().flat_map(|b| b.to_le_bytes()).collect(),
        MPrim::F64(l) => l.iter().flat_map(|b| b.to_le_bytes()).collect(),
        _ => return None,
    })
}
fn binary_le(ds: &MDs, out: &J) -> Result<(), String> {
    let J::Obj(m) = out else { return Err("DataSetNotObject".into()) };
    for (t, vr, v) in &ds.0 {
        let key = format!("{:08X}", t);
        let Some((_, J::Obj(em))) = m.iter().find(|(k, _)| *k == key) else { return Err("ElementMissing".into()) };
        match v {
            MValue::Prim(p) if is_bin_vr(*vr) => if let Some(bytes) = le_bytes(p) {
                let inl = em.iter().find(|(k, _)| k == "InlineBinary");
                match inl {
                    None => if !bytes.is_empty() { return Err("BinaryMissing".into()) },
                    Some((_, J::Str(s))) => if b64_decode(s).as_deref() != Some(&bytes[..]) { return Err("BinaryNotLittleEndianBytes".into()) },
                    _ => return Err("BinaryNotString".into()),
                }
            },
            MValue::Seq(items) if !items.is_empty() => {
                let Some((_, J::Arr(ji))) = em.iter().find(|(k, _)| k == "Value") else { return Err("SequenceValueMissing".into()) };
                if ji.len() != items.len() { return Err("SequenceItemCount".into()) }
                for (d, j) in items.iter().zip(ji.iter()) { binary_le(d, j)?; }
            }
            _ => {}
        }
    }
    Ok(())
}

// ---------------------------------------------------------------- cases
fn case_rt(prop: Prop, ds: &MDs, bucket: &str) -> Case {
    let obj = ds.real();
    let wf = wf_ds(ds);
    let conf = conf_ds(ds);
    let canon = canon_ds(ds);
    let out = catch(|| dicom_json::to_value(&obj));
    let mut ext = Ext::new();
    ext.add_ds(ds);
    let (c_out, d_out, back, verdict, jout) = match &out {
        None => (c_panic(), json!("PANIC"), None, Ok(()), None),
        Some(Err(e)) => (c_err(0), json!({"err": e.to_string()}), None, Ok(()), None),
        Some(Ok(v)) => {
            let j = from_value(v);
            ext.add_json(&j);
            let back = catch(|| dicom_json::from_value::<InMemDicomObject>(v.clone()));
            let verdict = annexf::check_ds(&j);
            (c_ok(&j.coq()), j.desc(), Some(back), verdict, Some(j))
        }
    };
    if let Some(Some(Ok(o))) = &back { ext.add_ds(&MDs::of_real(o)); }
    let (c_back, d_back) = match &back { Some(b) => (c_de(b), d_de(b)), None => (c_err(0), json!(null)) };
    let oracle = match prop {
        Prop::C23 => match (&out, &back) {
            (_, Some(None)) => Oracle::Fails { class: "DePanic".into(), detail: "from_value panicked on the serialiser's output".into() },
            _ if !wf || has_delimiter_in_item(ds) => Oracle::NotApplicable,
            (None, _) => Oracle::Fails { class: "SerPanic".into(), detail: "to_value panicked on a well-formed data set".into() },
            (Some(Err(e)), _) => Oracle::Fails { class: "SerError".into(), detail: e.to_string() },
            (_, Some(Some(Err(e)))) => Oracle::Fails { class: "RoundTrip:DeError".into(), detail: e.to_string() },
            (_, Some(Some(Ok(o)))) if canon && MDs::of_real(o).coq() != ds.coq() =>
                Oracle::Fails { class: "RoundTrip:CanonicalNotIdentical".into(), detail: format!("{} became {}", ds.desc(), MDs::of_real(o).desc()) },
            (_, Some(Some(Ok(o)))) => match same_ds(&obj, o) {
                Ok(()) => {
                    // and the same through JSON text (to_string / from_str)
                    match catch(|| dicom_json::to_string(&obj).map(|t| dicom_json::from_str::<InMemDicomObject>(&t))) {
                        None => Oracle::Fails { class: "DePanic".into(), detail: "text round trip panicked".into() },
                        Some(Ok(Ok(o2))) => match same_ds(&obj, &o2) {
                            Ok(()) => Oracle::Holds,
                            Err(d) => Oracle::Fails { class: format!("TextRoundTrip:{}", d.split(':').next().unwrap_or("")), detail: d },
                        },
                        Some(Ok(Err(e))) => Oracle::Fails { class: "TextRoundTrip:DeError".into(), detail: e.to_string() },
                        Some(Err(e)) => Oracle::Fails { class: "SerError".into(), detail: e.to_string() },
                    }
                }
                Err(d) => Oracle::Fails { class: format!("RoundTrip:{}", d.split(':').next().unwrap_or("")), detail: d },
            },
            _ => Oracle::NotApplicable,
        },
        Prop::C24 => if !conf { Oracle::NotApplicable } else {
            match (&jout, &verdict) {
                (None, _) => Oracle::Fails { class: "SerPanic".into(), detail: "to_value failed on a well-formed data set".into() },
                (Some(_), Err(c)) => Oracle::Fails { class: format!("AnnexF:{}", c), detail: c.to_string() },
                (Some(j), Ok(())) => match binary_le(ds, j) { Ok(()) => Oracle::Holds, Err(c) => Oracle::Fails { class: format!("AnnexF:{}", c), detail: c } },
            }
        },
    };
    let coq = format!("(CaseRT {} {} {} {} {} {} {} {})", ext.coq(), ds.coq(), c_out, c_back, c_bool(verdict.is_ok()), c_bool(wf), c_bool(conf), c_bool(canon));
    let nontrivial = !ds.0.is_empty();
    Case {
        coq,
        desc: json!({"bucket": bucket, "dataset": ds.desc(), "to_value": d_out, "from_value": d_back, "annexf": verdict.err(), "wf": wf, "conf": conf, "canonical": canon}),
        key: if nontrivial { format!("rt|{}", ds.coq()) } else { String::new() },
        oracle,
    }
}

fn case_de(prop: Prop, doc: &J, bucket: &str) -> Case {
    let mut doc = doc.clone();
    doc.fix_floats();
    let doc = &doc;
    let text = doc.text();
    let got = catch(|| dicom_json::from_str::<InMemDicomObject>(&text));
    let mut ext = Ext::new();
    ext.add_json(doc);
    let oracle = match prop {
        Prop::C23 => match &got { None => Oracle::Fails { class: "DePanic".into(), detail: text.clone() }, _ => Oracle::Holds },
        Prop::C24 => Oracle::NotApplicable,
    };
    Case {
        coq: format!("(CaseDe {} {} {})", ext.coq(), doc.coq(), c_de(&got)),
        desc: json!({"bucket": bucket, "json": text, "from_str": d_de(&got)}),
        key: format!("de|{}", text),
        oracle,
    }
}

fn one(t: u32, vr: VR, v: MValue) -> MDs { MDs(vec![(t, vr, v)]) }

/// hand-picked cases first: witnesses of the defects found, every VR with a marker value, boundaries
fn corpus() -> (Vec<(MDs, &'static str)>, Vec<(J, &'static str)>) {
    let mut ds: Vec<(MDs, &'static str)> = vec![];
    let mut docs: Vec<(J, &'static str)> = vec![];
    let parse = |s: &str| from_value(&serde_json::from_str::<serde_json::Value>(s).unwrap());
    // fixed defects
    docs.push((J::Obj(vec![("00100010".into(), J::Obj(vec![("vr".into(), J::Str("US".into())), ("Value".into(), J::Arr(vec![J::Int(1)])), ("InlineBinary".into(), J::Str("AA==".into()))]))]), "corpus:value-then-inline"));
    docs.push((parse(r#"{"00100010":{"vr":"US","InlineBinary":"AA==","Value":[1]}}"#), "corpus:inline-then-value"));
    docs.push((parse(r#"{"00100010":{"vr":"US","Value":[1],"BulkDataURI":"x"}}"#), "corpus:value-then-bulk"));
    docs.push((parse(r#"{"00100010":{"vr":"AT","Value":["000é000"]}}"#), "corpus:tag-char-boundary"));
    docs.push((parse(r#"{"000é000":{"vr":"LO"}}"#), "corpus:tag-char-boundary"));
    docs.push((J::Obj(vec![("00100010".into(), J::Obj(vec![("vr".into(), J::Str("US".into())), ("vr".into(), J::Str("SS".into()))]))]), "corpus:vr-twice"));
    docs.push((parse(r#"{"00081115":{"vr":"SQ"}}"#), "corpus:sq-no-value"));
    docs.push((parse(r#"{"00100010":{"vr":"PN","Value":[["A",null,"B"]]}}"#), "corpus:pn-array"));
    docs.push((parse(r#"{"00100010":{"vr":"FL","Value":[1, 1.5, "2.5", "nan", "Infinity", 1e40, 18446744073709551615, -3]}}"#), "corpus:float-items"));
    docs.push((parse(r#"{"00100010":{"vr":"DS","Value":[1, 1.5, "2.5", 1e22, 1e-7, 18446744073709551615, -0.0]}}"#), "corpus:ds-items"));
    docs.push((parse(r#"{"(0010,0010)":{"vr":"LO","Value":["a", null]}, "00100010":{"vr":"CS"}, "0010,0010":{"vr":"SH","Value":["z"]}}"#), "corpus:same-tag-three-spellings"));
    ds.push((one(0x0020_5000, VR::AT, MValue::Prim(MPrim::Tags(vec![0x0010_0020, 0xabcd_ef01]))), "corpus:at"));
    ds.push((one(0x0008_1115, VR::SQ, MValue::Seq(vec![])), "corpus:empty-sq"));
    ds.push((one(0x0008_0008, VR::CS, MValue::Prim(MPrim::Strs(vec![]))), "corpus:empty-strs"));
    ds.push((one(0x0008_0009, VR::US, MValue::Prim(MPrim::Int(IK::U16, vec![]))), "corpus:empty-u16"));
    ds.push((one(0x7fe0_0010, VR::OB, MValue::Prim(MPrim::Int(IK::U8, vec![]))), "corpus:empty-ob"));
    ds.push((one(0x7fe0_0010, VR::OW, MValue::Prim(MPrim::Str(String::new()))), "corpus:empty-bytes"));
    ds.push((one(0x0010_0010, VR::PN, MValue::Prim(MPrim::Strs(NAMES_ALL().iter().map(|s| s.to_string()).collect()))), "corpus:pn-groups"));
    ds.push((one(0x0010_0010, VR::SQ, MValue::Prim(MPrim::Strs(vec!["x".into()]))), "corpus:primitive-sq"));
    ds.push((one(0x0010_0010, VR::FD, MValue::Prim(rand_temporal(&mut Rng::new(5), 0))), "corpus:date-as-numbers"));
    ds.push((one(0x7fe0_0010, VR::OB, MValue::Pix), "corpus:pixel-sequence"));
    // every VR with marker values of the natural kind
    for (i, vr) in ALL_VRS.iter().enumerate() {
        let t = 0x0009_1000 + i as u32;
        let v = if *vr == VR::SQ {
            MValue::Seq(vec![one(0x0010_0020, VR::LO, MValue::Prim(MPrim::Strs(vec!["ID".into()]))), MDs(vec![])])
        } else if is_str_vr(*vr) { MValue::Prim(MPrim::Strs(vec!["A ".into(), "".into(), "B".into()])) }
        else if *vr == VR::PN { MValue::Prim(MPrim::Strs(vec!["Doe^John=X=Y".into(), "^Bob".into()])) }
        else if *vr == VR::AT { MValue::Prim(MPrim::Tags(vec![0x0010_0010])) }
        else if is_bin_vr(*vr) { MValue::Prim(match vr { VR::OB | VR::UN => MPrim::Int(IK::U8, vec![0, 1, 255]), VR::OW => MPrim::Int(IK::U16, vec![1, 0xfffe]), VR::OL => MPrim::Int(IK::U32, vec![1, 0xffff_fffe]), VR::OV => MPrim::Int(IK::U64, vec![1, u64::MAX as i128 - 1]), VR::OF => MPrim::F32(vec![0x3fc0_0000]), _ => MPrim::F64(vec![0x3ff8_0000_0000_0000]) }) }
        else { MValue::Prim(match vr { VR::FL => MPrim::F32(F32_POOL.to_vec()), VR::FD => MPrim::F64(F64_POOL.to_vec()), VR::DS => MPrim::Strs(vec!["1.5 ".into(), "2".into()]), VR::IS => MPrim::Strs(vec!["12".into()]), _ => { let k = native_kind(*vr).unwrap(); MPrim::Int(k, int_pool(k)) } }) };
        ds.push((one(t, *vr, v), "corpus:every-vr"));
        ds.push((one(t, *vr, MValue::Prim(MPrim::Empty)), "corpus:every-vr-empty"));
    }
    // many arbitrary binary64 values: the JSON text round trip must be exact (serde_json float_roundtrip)
    {
        let mut g = Rng::new(0xf10a7);
        let vals: Vec<u64> = (0..48).map(|_| loop { let b = g.next(); if f64::from_bits(b).is_finite() { break b } }).chain([1.0466221946810431e-157f64.to_bits()]).collect();
        ds.push((one(0x0018_0050, VR::FD, MValue::Prim(MPrim::F64(vals.clone()))), "corpus:binary64-text"));
        ds.push((one(0x0018_0050, VR::DS, MValue::Prim(MPrim::F64(vals[..12].to_vec()))), "corpus:binary64-text"));
        let mut g = Rng::new(0xf10a8);
        ds.push((one(0x0018_0051, VR::FL, MValue::Prim(MPrim::F32((0..48).map(|_| loop { let b = g.next() as u32; if f32::from_bits(b).is_finite() { break b } }).collect()))), "corpus:binary32-text"));
    }
    // sizes: binary values around 4096 / 8192 / 12288 bytes (block-wise encoders), long text, many values,
    // many elements, deep nesting
    {
        let mut g = Rng::new(0x512e5);
        let mut bytes = |n: usize| -> Vec<i128> { (0..n).map(|_| g.below(256) as i128).collect() };
        ds.push((one(0x7fe0_0010, VR::OB, MValue::Prim(MPrim::Int(IK::U8, bytes(4097)))), "corpus:sizes"));
        ds.push((one(0x7fe0_0010, VR::OB, MValue::Prim(MPrim::Int(IK::U8, bytes(4096)))), "corpus:sizes"));
        ds.push((one(0x7fe0_0010, VR::UN, MValue::Prim(MPrim::Int(IK::U8, bytes(12289)))), "corpus:sizes"));
        ds.push((one(0x7fe0_0010, VR::OW, MValue::Prim(MPrim::Int(IK::U16, (0..2050).map(|i| (i * 31 % 65536) as i128).collect()))), "corpus:sizes"));
        ds.push((one(0x7fe0_0009, VR::OD, MValue::Prim(MPrim::F64((0..1025u64).map(|i| (i as f64 * 0.37 - 100.0).to_bits()).collect()))), "corpus:sizes"));
        ds.push((one(0x0008_0008, VR::CS, MValue::Prim(MPrim::Strs((0..300).map(|i| format!("V{}", i)).collect()))), "corpus:sizes"));
        ds.push((one(0x0008_2111, VR::ST, MValue::Prim(MPrim::Str("lorem ipsum \u{e9} ".repeat(300)))), "corpus:sizes"));
        ds.push((one(0x0028_3006, VR::US, MValue::Prim(MPrim::Int(IK::U16, (0..1000).map(|i| (i * 7 % 65536) as i128).collect()))), "corpus:sizes"));
        ds.push((MDs((0..300u32).map(|i| (0x0009_0000 + i * 3, ALL_VRS[(i as usize * 5) % 34], if ALL_VRS[(i as usize * 5) % 34] == VR::SQ { MValue::Seq(vec![]) } else { MValue::Prim(MPrim::Empty) })).collect()), "corpus:sizes"));
        let mut deep = one(0x0010_0020, VR::LO, MValue::Prim(MPrim::Strs(vec!["leaf".into()])));
        for level in 0..8u32 { deep = MDs(vec![(0x0008_1110 + level, VR::SQ, MValue::Seq(vec![deep.clone(), MDs(vec![])])), (0x0020_000d, VR::UI, MValue::Prim(MPrim::Strs(vec![format!("1.2.{}", level)])))]); }
        ds.push((deep, "corpus:sizes"));
    }
    // 64-bit integers under every integer kind and VR
    for vr in [VR::SV, VR::UV, VR::UL, VR::DS, VR::IS, VR::LO] { for k in [IK::I64, IK::U64, IK::U32] { ds.push((one(0x0009_0001, vr, MValue::Prim(MPrim::Int(k, int_pool(k)))), "corpus:wide-integers")); } }
    (ds, docs)
}
#[allow(non_snake_case)]
fn NAMES_ALL() -> Vec<&'static str> { vec!["Doe^John", "Yamada^Tarou=\u{5c71}\u{7530}^\u{592a}\u{90ce}=\u{3084}\u{307e}\u{3060}^\u{305f}\u{308d}\u{3046}", "A=B", "A==C", "=B", "A=", "A==", "A=B=", "=", "A=B=C=D", ""] }

pub fn cases(ctx: &Ctx, prop: Prop) -> Vec<Case> {
    let mut r = Rng::new(ctx.seed);
    let mut out = vec![];
    let (cds, cdocs) = corpus();
    for (d, b) in &cds { out.push(case_rt(prop, d, b)); }
    for (j, b) in &cdocs { out.push(case_de(prop, j, b)); }
    let mut i = 0usize;
    let mut vr_turn = 0usize;
    while out.len() < ctx.n {
        i += 1;
        match i % 10 {
            // well-formed data sets: the round trip and conformance theorems apply
            0 => { let d = rand_ds_canon(&mut r, 2, 5); out.push(case_rt(prop, &d, "rt:canonical")); }
            1 | 2 => { let d = rand_ds(&mut r, 2, true, 5); out.push(case_rt(prop, &d, if d.0.iter().any(|e| matches!(e.2, MValue::Seq(_))) { "rt:wf-nested" } else { "rt:wf-flat" })); }
            // any VR with any kind of value (serialiser panics, type errors on the way back)
            3 => { let d = rand_ds(&mut r, 2, false, 4); out.push(case_rt(prop, &d, "rt:any-kind")); }
            // mutated serialiser output
            4 => {
                let d = rand_ds(&mut r, 2, true, 4);
                if let Some(Ok(v)) = catch(|| dicom_json::to_value(&d.real())) {
                    let mut j = from_value(&v);
                    for _ in 0..1 + r.below(2) { mutate(&mut r, &mut j); }
                    out.push(case_de(prop, &j, "de:mutated-output"));
                }
            }
            // documents assembled member by member
            5 => { let j = rand_doc(&mut r); out.push(case_de(prop, &j, "de:assembled")); }
            // one element, every VR in turn, "Value" items of the type the VR reads (boundaries of every integer kind)
            _ => {
                let vr = ALL_VRS[vr_turn % ALL_VRS.len()];
                vr_turn += 1;
                let j = typed_element(&mut r, vr.to_string());
                out.push(case_de(prop, &j, "de:typed-element"));
            }
        }
    }
    out
}
