//! JSON value trees as the Coq model sees them (`Model/Json.v` `json`): ordered
//! members (repeats allowed in documents the harness prints itself), integers
//! exact, floats as the bit pattern serde_json holds.
use serde_json::Value;
use vhc::*;

#[derive(Clone, Debug, PartialEq)]
pub enum J {
    Null,
    Bool(bool),
    Int(i128),
    /// (literal printed into text, bits serde_json parses that literal to)
    Float(String, u64),
    Str(String),
    Arr(Vec<J>),
    Obj(Vec<(String, J)>),
}

/// a float whose literal parses (by serde_json) to the bits recorded
pub fn jfloat(x: f64) -> J {
    assert!(x.is_finite());
    let lit = format!("{:?}", x);
    let back: f64 = serde_json::from_str(&lit).expect("float literal");
    J::Float(lit, back.to_bits())
}

pub fn from_value(v: &Value) -> J {
    match v {
        Value::Null => J::Null,
        Value::Bool(b) => J::Bool(*b),
        Value::Number(n) => {
            if let Some(u) = n.as_u64() { J::Int(u as i128) }
            else if let Some(i) = n.as_i64() { J::Int(i as i128) }
            else { let f = n.as_f64().unwrap(); J::Float(format!("{:?}", f), f.to_bits()) }
        }
        Value::String(s) => J::Str(s.clone()),
        Value::Array(a) => J::Arr(a.iter().map(from_value).collect()),
        Value::Object(m) => J::Obj(m.iter().map(|(k, v)| (k.clone(), from_value(v))).collect()),
    }
}

impl J {
    /// JSON text (our own printer, so that repeated keys survive)
    pub fn text(&self) -> String {
        match self {
            J::Null => "null".into(),
            J::Bool(b) => b.to_string(),
            J::Int(i) => i.to_string(),
            J::Float(lit, _) => lit.clone(),
            J::Str(s) => serde_json::to_string(s).unwrap(),
            J::Arr(a) => format!("[{}]", a.iter().map(|x| x.text()).collect::<Vec<_>>().join(",")),
            J::Obj(m) => format!("{{{}}}", m.iter().map(|(k, v)| format!("{}:{}", serde_json::to_string(k).unwrap(), v.text())).collect::<Vec<_>>().join(",")),
        }
    }
    pub fn coq(&self) -> String {
        match self {
            J::Null => "JNull".into(),
            J::Bool(b) => format!("(JBool {})", b),
            J::Int(i) => format!("(JInt {})", c_z(*i)),
            J::Float(_, bits) => format!("(JFloat {})", bits),
            J::Str(s) => format!("(JStr {})", c_str(s)),
            J::Arr(a) => format!("(jarr {})", c_list(a.iter().map(|x| x.coq()))),
            J::Obj(m) => format!("(jobj {})", c_list(m.iter().map(|(k, v)| format!("({}, {})", c_str(k), v.coq())))),
        }
    }
    /// record for every float the bits serde_json parses its literal to (what from_str will see)
    pub fn fix_floats(&mut self) {
        match self {
            J::Float(lit, bits) => { let back: f64 = serde_json::from_str(lit).expect("float literal"); *bits = back.to_bits(); }
            J::Arr(a) => a.iter_mut().for_each(|x| x.fix_floats()),
            J::Obj(m) => m.iter_mut().for_each(|(_, v)| v.fix_floats()),
            _ => {}
        }
    }
    pub fn desc(&self) -> Value {
        // for the evidence / replay files: the text form
        Value::String(self.text())
    }
    /// every string and every number (as f64 bits) below this value
    pub fn collect(&self, strs: &mut Vec<String>, nums: &mut Vec<u64>) {
        match self {
            J::Str(s) => strs.push(s.clone()),
            J::Int(i) => {
                let f = if *i >= 0 { (*i as u64) as f64 } else { (*i as i64) as f64 };
                nums.push(f.to_bits());
            }
            J::Float(_, b) => nums.push(*b),
            J::Arr(a) => a.iter().for_each(|x| x.collect(strs, nums)),
            J::Obj(m) => m.iter().for_each(|(_, v)| v.collect(strs, nums)),
            _ => {}
        }
    }
}
