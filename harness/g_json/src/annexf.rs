//! Independent validator of the DICOM JSON Model (PS3.18 Annex F, F.2.2 - F.2.7 and
//! Table F.2.3-1), written from the standard: it knows nothing of the
//! serialiser. Returns the class of the first violation found.
use crate::jast::J;

#[derive(Clone, Copy, PartialEq)]
enum T { Str, Tag, Person, Number, NumOrStr, IntOrStr, Int(i128, i128), Base64, Seq }

fn vr_type(vr: &str) -> Option<T> {
    Some(match vr {
        "AE" | "AS" | "CS" | "DA" | "DT" | "LO" | "LT" | "SH" | "ST" | "TM" | "UC" | "UI" | "UR" | "UT" => T::Str,
        "AT" => T::Tag,
        "PN" => T::Person,
        "FL" | "FD" => T::Number,
        "DS" | "IS" => T::NumOrStr,
        "SV" | "UV" => T::IntOrStr,
        "SL" => T::Int(i32::MIN as i128, i32::MAX as i128),
        "SS" => T::Int(-32768, 32767),
        "UL" => T::Int(0, u32::MAX as i128),
        "US" => T::Int(0, 65535),
        "OB" | "OD" | "OF" | "OL" | "OV" | "OW" | "UN" => T::Base64,
        "SQ" => T::Seq,
        _ => return None,
    })
}

fn is_hex8(s: &str) -> bool {
    s.len() == 8 && s.bytes().all(|c| c.is_ascii_digit() || (b'A'..=b'F').contains(&c))
}

/// RFC 4648 base64 with padding, canonical (unused bits zero)
fn is_base64(s: &str) -> bool {
    const ALPHA: &[u8] = b"ABCDEFGHIJKLMNOPQRSTUVWXYZabcdefghijklmnopqrstuvwxyz0123456789+/";
    let b = s.as_bytes();
    if b.len() % 4 != 0 { return false; }
    let idx = |c: u8| ALPHA.iter().position(|a| *a == c);
    let n = b.len();
    let pad = if n >= 2 && b[n - 2] == b'=' { 2 } else if n >= 1 && b[n - 1] == b'=' { 1 } else { 0 };
    for (i, c) in b.iter().enumerate() {
        if i < n - pad { if idx(*c).is_none() { return false; } } else if *c != b'=' { return false; }
    }
    match pad {
        2 => idx(b[n - 3]).map_or(false, |v| v % 16 == 0),
        1 => idx(b[n - 2]).map_or(false, |v| v % 4 == 0),
        _ => true,
    }
}

fn check_person(j: &J) -> Result<(), &'static str> {
    let J::Obj(m) = j else { return Err("PnNotObject") };
    let mut seen = [0usize; 3];
    for (k, v) in m {
        let i = match k.as_str() { "Alphabetic" => 0, "Ideographic" => 1, "Phonetic" => 2, _ => return Err("PnUnknownMember") };
        seen[i] += 1;
        match v { J::Str(s) => if s.contains('=') { return Err("PnGroupsNotSplit") }, _ => return Err("PnGroupNotString") }
    }
    if seen[0] != 1 { return Err("PnNoAlphabetic") }
    if seen[1] > 1 || seen[2] > 1 { return Err("PnRepeatedMember") }
    Ok(())
}

fn check_item(t: T, j: &J) -> Result<(), &'static str> {
    match (t, j) {
        (T::Str, J::Str(_)) | (T::Str, J::Null) => Ok(()),
        (T::Str, _) => Err("StringVrItemNotString"),
        (T::Tag, J::Str(s)) => if is_hex8(s) { Ok(()) } else { Err("AtNotEightHex") },
        (T::Tag, _) => Err("AtNotString"),
        (T::Person, _) => check_person(j),
        (T::Number, J::Int(_)) | (T::Number, J::Float(..)) => Ok(()),
        (T::Number, J::Str(s)) => if s == "NaN" || s == "inf" || s == "-inf" { Ok(()) } else { Err("FloatVrString") },
        (T::Number, _) => Err("FloatVrItemNotNumber"),
        (T::NumOrStr, J::Int(_)) | (T::NumOrStr, J::Float(..)) | (T::NumOrStr, J::Str(_)) => Ok(()),
        (T::NumOrStr, _) => Err("DsIsItemType"),
        (T::IntOrStr, J::Int(_)) | (T::IntOrStr, J::Str(_)) => Ok(()),
        (T::IntOrStr, _) => Err("SvUvItemType"),
        (T::Int(lo, hi), J::Int(z)) => if lo <= *z && *z <= hi { Ok(()) } else { Err("IntegerOutOfRange") },
        (T::Int(..), _) => Err("IntegerVrItemNotInteger"),
        (T::Base64, _) => Err("BinaryVrHasValue"),
        (T::Seq, _) => unreachable!(),
    }
}

fn check_attr(j: &J) -> Result<(), &'static str> {
    let J::Obj(m) = j else { return Err("AttributeNotObject") };
    let vrs: Vec<&J> = m.iter().filter(|(k, _)| k == "vr").map(|(_, v)| v).collect();
    let t = match vrs.as_slice() {
        [J::Str(s)] => vr_type(s).ok_or("UnknownVr")?,
        _ => return Err("VrMissingOrRepeated"),
    };
    let nvalue = m.iter().filter(|(k, _)| k == "Value" || k == "InlineBinary" || k == "BulkDataURI").count();
    if nvalue > 1 { return Err("SeveralValueMembers") }
    for (k, v) in m {
        match k.as_str() {
            "vr" => {}
            "Value" => {
                let J::Arr(items) = v else { return Err("ValueNotArray") };
                if items.is_empty() { return Err("EmptyValueArray") }
                match t {
                    T::Seq => for it in items { check_ds(it)? },
                    T::Base64 => return Err("BinaryVrHasValue"),
                    _ => for it in items { check_item(t, it)? },
                }
            }
            "InlineBinary" => {
                if t != T::Base64 { return Err("InlineBinaryOnNonBinaryVr") }
                match v { J::Str(s) => { if s.is_empty() { return Err("EmptyInlineBinary") } if !is_base64(s) { return Err("NotBase64") } } _ => return Err("InlineBinaryNotString") }
            }
            "BulkDataURI" => if !matches!(v, J::Str(_)) { return Err("BulkDataUriNotString") },
            _ => return Err("UnknownAttributeMember"),
        }
    }
    Ok(())
}

pub fn check_ds(j: &J) -> Result<(), &'static str> {
    let J::Obj(m) = j else { return Err("DataSetNotObject") };
    let mut prev: Option<u32> = None;
    for (k, v) in m {
        if !is_hex8(k) { return Err("KeyNotEightUpperHex") }
        let t = u32::from_str_radix(k, 16).unwrap();
        if let Some(p) = prev { if p >= t { return Err("KeysNotAscending") } }
        prev = Some(t);
        check_attr(v)?;
    }
    Ok(())
}
