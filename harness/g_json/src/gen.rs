//! Generators: data sets over every VR and value variant, and JSON documents
//! (mutated serialiser output, element-level fuzz, arbitrary values).
use crate::jast::*;
use crate::mds::*;
use dicom_core::value::{DicomDate, DicomDateTime, DicomTime};
use dicom_core::{PrimitiveValue, VR};
use vhc::*;

pub fn is_str_vr(vr: VR) -> bool {
    matches!(vr, VR::AE | VR::AS | VR::CS | VR::DA | VR::DT | VR::LO | VR::LT | VR::SH | VR::ST | VR::TM | VR::UC | VR::UI | VR::UR | VR::UT)
}
pub fn is_bin_vr(vr: VR) -> bool { matches!(vr, VR::OB | VR::OD | VR::OF | VR::OL | VR::OV | VR::OW | VR::UN) }
pub fn native_kind(vr: VR) -> Option<IK> {
    Some(match vr { VR::SS => IK::I16, VR::US => IK::U16, VR::SL => IK::I32, VR::UL => IK::U32, VR::SV => IK::I64, VR::UV => IK::U64, _ => return None })
}

const WORDS: &[&str] = &["", "A", "CT", "ISO_IR 192", "ORIGINAL", "1.2.840.10008.1.2", "20130409", "120000.5", "30Y", "x y", " lead", "trail ", "pad\0", "two  ", " \0", "caf\u{e9}", "\u{5c71}\u{7530}", "q\"uote", "sl/ash", "back\\slash", "NaN", "inf", "-inf", "5", "-0", "1e3"];
const NAMES: &[&str] = &["", "Doe^John", "^Bob^^Dr.", "Yamada^Tarou=\u{5c71}\u{7530}^\u{592a}\u{90ce}=\u{3084}\u{307e}\u{3060}^\u{305f}\u{308d}\u{3046}", "A=B", "A=B=C", "A==C", "=B", "==C", "A=", "A==", "A=B=", "=", "==", "A=B=C=D", "A===D", "Smith^J ", "x=y =z\0"];
const NUMTEXT: &[&str] = &["0", "1", "-1", "12", "1.5", "-0.25", "1e3", "+5", " 7 ", "007", "1.50 ", "abc", "", "NaN", "inf", "-inf", "2147483648", "-2147483649", "18446744073709551615", "9223372036854775808", "1E-7", ".5", "5."];

pub const F32_POOL: &[u32] = &[0, 0x8000_0000, 0x3fc0_0000, 0x3dcc_cccd, 0x0000_0001, 0x007f_ffff, 0x0080_0000, 0x7f7f_ffff, 0xff7f_ffff, 0x7f80_0000, 0xff80_0000, 0x7fc0_0000, 0xffc0_0000, 0x7f80_0001, 0x7fff_ffff, 0x4b80_0000, 0x3f80_0001, 0x0040_0000, 0x8000_0001];
pub const F64_POOL: &[u64] = &[0, 0x8000_0000_0000_0000, 0x3ff8_0000_0000_0000, 0x3fb9_9999_9999_999a, 1, 0x000f_ffff_ffff_ffff, 0x0010_0000_0000_0000, 0x7fef_ffff_ffff_ffff, 0xffef_ffff_ffff_ffff, 0x7ff0_0000_0000_0000, 0xfff0_0000_0000_0000, 0x7ff8_0000_0000_0000, 0xfff8_0000_0000_0000, 0x7ff0_0000_0000_0001, 0x4340_0000_0000_0000, 0x4340_0000_0000_0001, 0x47ef_ffff_e000_0000, 0x47ef_ffff_f000_0000, 0x36a0_0000_0000_0000, 0x3690_0000_0000_0000, 0x3690_0000_0000_0001, 0x380f_ffff_ffff_ffff, 0x3810_0000_0000_0000, 0x44b5_2d02_c7e1_4af6];

pub fn int_pool(k: IK) -> Vec<i128> {
    let (lo, hi) = k.range();
    let mut v = vec![lo, hi, 0, 1, lo + 1, hi - 1, 7, 100];
    for b in [i32::MIN as i128 - 1, i32::MIN as i128, i32::MAX as i128, i32::MAX as i128 + 1, -1, 255, 256, 65535, 65536, 32767, -32768,
              u32::MAX as i128, u32::MAX as i128 + 1, (1i128 << 53) + 1, (1i128 << 53) - 1, i64::MAX as i128, i64::MAX as i128 + 1, (1i128 << 24) + 1, -((1i128 << 24) + 1)] {
        if lo <= b && b <= hi { v.push(b); }
    }
    v
}

pub fn rand_string(r: &mut Rng) -> String {
    if r.chance(2, 3) { r.pick(WORDS).to_string() } else {
        let n = r.below(6);
        (0..n).map(|_| if r.chance(1, 6) { *r.pick(&[' ', '\0', '\\', '=', '^', '"']) } else { rand_unicode_char(r) }).collect()
    }
}

fn rand_f32(r: &mut Rng) -> u32 { if r.chance(2, 3) { *r.pick(F32_POOL) } else { r.next() as u32 } }
fn rand_f64(r: &mut Rng) -> u64 { if r.chance(2, 3) { *r.pick(F64_POOL) } else { r.next() } }
fn rand_int(r: &mut Rng, k: IK) -> i128 {
    let p = int_pool(k);
    if r.chance(3, 4) { *r.pick(&p) } else {
        let (lo, hi) = k.range();
        let span = (hi - lo + 1) as u128;
        lo + ((r.next() as u128 | ((r.next() as u128) << 64)) % span) as i128
    }
}
fn count(r: &mut Rng) -> usize { match r.below(10) { 0 => 0, 1..=5 => 1, 6..=7 => 2, 8 => 3, _ => 5 } }

pub fn rand_temporal(r: &mut Rng, which: u64) -> MPrim {
    let n = 1 + r.below(2) as usize;
    let date = |r: &mut Rng| match r.below(3) {
        0 => DicomDate::from_y(1990 + r.below(40) as u16).unwrap(),
        1 => DicomDate::from_ym(2001, 1 + r.below(12) as u8).unwrap(),
        _ => DicomDate::from_ymd(2013, 4, 1 + r.below(28) as u8).unwrap(),
    };
    let time = |r: &mut Rng| match r.below(4) {
        0 => DicomTime::from_h(r.below(24) as u8).unwrap(),
        1 => DicomTime::from_hm(12, r.below(60) as u8).unwrap(),
        2 => DicomTime::from_hms(7, 30, r.below(60) as u8).unwrap(),
        _ => DicomTime::from_hms_micro(23, 59, 59, r.below(1_000_000) as u32).unwrap(),
    };
    let p = match which % 3 {
        0 => PrimitiveValue::Date((0..n).map(|_| date(r)).collect()),
        1 => PrimitiveValue::Time((0..n).map(|_| time(r)).collect()),
        _ => PrimitiveValue::DateTime((0..n).map(|_| {
            if r.coin() { DicomDateTime::from_date(date(r)) }
            else { DicomDateTime::from_date_and_time(DicomDate::from_ymd(2020, 2, 29).unwrap(), time(r)).unwrap() }
        }).collect()),
    };
    temporal(p)
}

/// any variant, whatever the VR
pub fn rand_prim_any(r: &mut Rng) -> MPrim {
    match r.below(13) {
        0 => MPrim::Empty,
        1 | 2 => { let n = count(r); MPrim::Strs((0..n).map(|_| rand_string(r)).collect()) }
        3 => MPrim::Str(rand_string(r)),
        4 => { let n = count(r); MPrim::Tags((0..n).map(|_| r.next() as u32).collect()) }
        5..=8 => { let k = *r.pick(&IK::ALL); let n = count(r); MPrim::Int(k, (0..n).map(|_| rand_int(r, k)).collect()) }
        9 => { let n = count(r); MPrim::F32((0..n).map(|_| rand_f32(r)).collect()) }
        10 => { let n = count(r); MPrim::F64((0..n).map(|_| rand_f64(r)).collect()) }
        11 => { let n = count(r); MPrim::Strs((0..n).map(|_| r.pick(NUMTEXT).to_string()).collect()) }
        _ => { let w = r.below(3); rand_temporal(r, w) }
    }
}

/// a value within the hypotheses of the round-trip theorem for this VR
pub fn rand_prim_wf(r: &mut Rng, vr: VR) -> MPrim {
    if r.chance(1, 10) { return MPrim::Empty; }
    let n = count(r);
    if is_str_vr(vr) || vr == VR::PN {
        let pool: &[&str] = if vr == VR::PN { NAMES } else { WORDS };
        let s = |r: &mut Rng| if r.chance(3, 4) { r.pick(pool).to_string() } else { rand_string(r) };
        return match r.below(12) {
            0..=6 => MPrim::Strs((0..n).map(|_| s(r)).collect()),
            7 | 8 => MPrim::Str(s(r)),
            9 => match vr { VR::DA => rand_temporal(r, 0), VR::TM => rand_temporal(r, 1), VR::DT => rand_temporal(r, 2), _ => { let k = *r.pick(&IK::ALL); MPrim::Int(k, (0..n).map(|_| rand_int(r, k)).collect()) } },
            10 => if r.coin() { MPrim::F32((0..n).map(|_| rand_f32(r)).collect()) } else { MPrim::F64((0..n).map(|_| rand_f64(r)).collect()) },
            _ => MPrim::Tags((0..n).map(|_| r.next() as u32).collect()),
        };
    }
    if vr == VR::AT { return MPrim::Tags((0..n).map(|_| if r.coin() { r.next() as u32 } else { *r.pick(&[0u32, 0x0010_0020, 0xffff_ffff, 0xabcd_ef01, 0x0008_0000]) }).collect()); }
    if is_bin_vr(vr) {
        return match r.below(10) {
            0..=3 => { let m = r.below(8) as usize; MPrim::Int(IK::U8, (0..m).map(|_| r.below(256) as i128).collect()) }
            4..=6 => { let k = *r.pick(&IK::ALL); MPrim::Int(k, (0..n).map(|_| rand_int(r, k)).collect()) }
            7 => MPrim::F32((0..n).map(|_| rand_f32(r)).collect()),
            8 => MPrim::F64((0..n).map(|_| rand_f64(r)).collect()),
            _ => match r.below(4) { 0 => MPrim::Str(rand_string(r)), 1 => MPrim::Strs((0..n).map(|_| rand_string(r)).collect()), 2 => MPrim::Tags((0..n).map(|_| r.next() as u32).collect()), _ => { let w = r.below(3); rand_temporal(r, w) } },
        };
    }
    match vr {
        VR::FL => MPrim::F32((0..n).map(|_| rand_f32(r)).collect()),
        VR::FD => MPrim::F64((0..n).map(|_| rand_f64(r)).collect()),
        VR::DS | VR::IS => match r.below(8) {
            0..=2 => MPrim::Strs((0..n).map(|_| r.pick(NUMTEXT).to_string()).collect()),
            3 => MPrim::Str(r.pick(NUMTEXT).to_string()),
            4 | 5 => { let k = *r.pick(&IK::ALL); MPrim::Int(k, (0..n).map(|_| rand_int(r, k)).collect()) }
            6 => MPrim::F32((0..n).map(|_| rand_f32(r)).collect()),
            _ => MPrim::F64((0..n).map(|_| rand_f64(r)).collect()),
        },
        _ => {
            let nk = native_kind(vr).unwrap();
            // native kind mostly; another kind with values inside the VR's range sometimes
            let k = if r.chance(3, 4) { nk } else { *r.pick(&IK::ALL) };
            let (lo, hi) = nk.range();
            let (klo, khi) = k.range();
            MPrim::Int(k, (0..n).map(|_| { let z = rand_int(r, nk); z.max(lo.max(klo)).min(hi.min(khi)) }).collect())
        }
    }
}

fn rand_tags(r: &mut Rng, n: usize) -> Vec<u32> {
    let mut v: Vec<u32> = (0..n).map(|_| match r.below(4) {
        0 => 0x0008_0000 + r.below(0x200) as u32,
        1 => ((r.below(0x30) as u32) << 17) | r.below(0x2000) as u32,
        2 => *r.pick(&[0u32, 0xffff_ffff, 0x7fe0_0010, 0x0009_0010, 0x0010_0010, 0xfffe_e000, 0x0000_0001]),
        _ => r.next() as u32,
    }).collect();
    v.sort();
    v.dedup();
    v
}

/// `wf`: stay inside the hypotheses of C23_rt; otherwise any VR with any value kind
pub fn rand_ds(r: &mut Rng, depth: u32, wf: bool, max_elems: usize) -> MDs {
    let n = r.below(max_elems as u64 + 1) as usize;
    MDs(rand_tags(r, n).into_iter().map(|t| {
        let vr = if depth > 0 && r.chance(1, 8) { VR::SQ } else { *r.pick(&ALL_VRS) };
        let v = if wf {
            if vr == VR::SQ {
                if r.chance(1, 8) { MValue::Prim(MPrim::Empty) }
                else { let m = if depth == 0 { 0 } else { r.below(3) as usize }; MValue::Seq((0..m).map(|_| rand_ds(r, depth - 1, true, 3)).collect()) }
            } else { MValue::Prim(rand_prim_wf(r, vr)) }
        } else {
            match r.below(12) {
                0 if depth > 0 => MValue::Seq((0..r.below(3)).map(|_| { let w = r.coin(); rand_ds(r, depth - 1, w, 3) }).collect()),
                1 => MValue::Pix,
                2..=5 => MValue::Prim(rand_prim_any(r)),
                _ => if vr == VR::SQ { MValue::Seq(vec![]) } else { MValue::Prim(rand_prim_wf(r, vr)) },
            }
        };
        (t, vr, v)
    }).collect())
}

// ---------------------------------------------------------------- JSON documents

pub fn rand_json_item(r: &mut Rng) -> J {
    match r.below(20) {
        0 => J::Null,
        1 => J::Bool(r.coin()),
        2..=5 => { let k = *r.pick(&IK::ALL); J::Int(rand_int(r, k)) }
        6 | 7 => { let b = *r.pick(F64_POOL); let x = f64::from_bits(b); if x.is_finite() { jfloat(x) } else { jfloat(1.5) } }
        8 => { let b = *r.pick(F32_POOL); let x = f32::from_bits(b); if x.is_finite() { jfloat(x as f64) } else { jfloat(-2.25) } }
        9 => jfloat(*r.pick(&[1.0, -0.0, 0.1, 1e22, 1e-7, 3.4028235677973366e38, 3.4028235677973362e38, 1e40, -1e40, 65535.0, 2147483648.0, 0.5, 1e300, 5e-324, 1.7976931348623157e308, 16777217.0, 7.006492321624085e-46, 7.006492321624086e-46])),
        10 | 11 => J::Str(r.pick(NUMTEXT).to_string()),
        12 => J::Str(rand_string(r)),
        13 => J::Str(r.pick(&["00100020", "(0010,0020)", "0010,0020", "0010002", "abcdef01", "ABCDEF01", "000\u{e9}000", "\u{e9}000000", "(001\u{e9},020)", "0010,\u{e9}20", "0010,00200", "GGGGEEEE", "(0010,0020]", "0010;0020", ""]).to_string()),
        14 => J::Str(r.pick(NAMES).to_string()),
        15 => J::Arr((0..r.below(4)).map(|_| rand_json_small(r)).collect()),
        16 | 17 => J::Obj(rand_person_members(r)),
        18 => J::Obj(vec![]),
        _ => rand_json_small(r),
    }
}
fn rand_json_small(r: &mut Rng) -> J {
    match r.below(6) { 0 => J::Null, 1 => J::Str(rand_string(r)), 2 => J::Int(r.below(100) as i128 - 50), 3 => J::Bool(true), 4 => J::Arr(vec![]), _ => J::Str("A".into()) }
}
fn rand_person_members(r: &mut Rng) -> Vec<(String, J)> {
    let mut m = vec![];
    for _ in 0..r.below(5) {
        let k = r.pick(&["Alphabetic", "Alphabetic", "Ideographic", "Phonetic", "alphabetic", "x", "Value"]).to_string();
        let v = match r.below(6) { 0 => J::Null, 1 => J::Int(1), 2 => J::Arr(vec![]), _ => J::Str(r.pick(NAMES).to_string()) };
        m.push((k, v));
    }
    if r.chance(3, 4) && !m.iter().any(|(k, _)| k == "Alphabetic") { m.insert(r.below(m.len() as u64 + 1) as usize, ("Alphabetic".into(), J::Str(r.pick(NAMES).to_string()))); }
    m
}

pub fn rand_b64(r: &mut Rng) -> String {
    const A: &[u8] = b"ABCDEFGHIJKLMNOPQRSTUVWXYZabcdefghijklmnopqrstuvwxyz0123456789+/";
    match r.below(8) {
        0 => r.pick(&["", "AA==", "AAE=", "AAEC", "AAF=", "AB==", "AAE", "A", "AA=", "A===", "====", "AA==AAAA", "AAAA=", "AAAA==", "AA=A", "AA\n==", " AAEC", "AAEC ", "AA-_", "AAE=AAE=", "=AAA", "AAA\u{e9}"]).to_string(),
        _ => {
            let n = r.below(10) as usize;
            let mut s: String = (0..n).map(|_| *r.pick(A) as char).collect();
            while s.len() % 4 != 0 && r.chance(4, 5) { s.push('='); }
            if r.chance(1, 6) && !s.is_empty() { let i = r.below(s.len() as u64) as usize; s.replace_range(i..i + 1, *r.pick(&["=", "-", " ", "\n", "_", "."])); }
            s
        }
    }
}

/// an integer at or next to a limit of the type this VR reads (inside what a JSON integer of serde_json can hold)
fn near_boundary(r: &mut Rng, vr: &str) -> i128 {
    let k = match vr { "SS" => IK::I16, "US" | "OW" => IK::U16, "SL" => IK::I32, "OB" => IK::U8, "UL" | "OL" => IK::U32, "SV" => IK::I64, _ => IK::U64 };
    let (lo, hi) = k.range();
    let z = match r.below(10) { 0 | 1 => lo - 1, 2 => lo, 3 | 4 => hi, 5 | 6 => hi + 1, 7 => hi - 1, _ => { let k2 = *r.pick(&IK::ALL); rand_int(r, k2) } };
    z.max(i64::MIN as i128).min(u64::MAX as i128)
}

/// value array items of the type this VR reads, mostly
pub fn rand_items_for(r: &mut Rng, vr: &str) -> Vec<J> {
    let n = count(r);
    (0..n).map(|_| {
        if r.chance(1, 5) { return rand_json_item(r); }
        match vr {
            // integers only
            "SS" | "US" | "SL" | "OB" | "OW" => match r.below(12) {
                0 => J::Str(r.pick(NUMTEXT).to_string()),
                _ => J::Int(near_boundary(r, vr)),
            },
            // integers or their text
            "UL" | "SV" | "UV" | "OL" | "OV" => match r.below(5) {
                0 => J::Str(r.pick(NUMTEXT).to_string()),
                1 => J::Str(near_boundary(r, vr).to_string()),
                _ => J::Int(near_boundary(r, vr)),
            },
            "FL" | "FD" | "OF" | "OD" | "DS" | "IS" => match r.below(4) { 0 => J::Str(r.pick(NUMTEXT).to_string()), 1 => { let k = *r.pick(&IK::ALL); J::Int(rand_int(r, k)) } _ => loop { let j = rand_json_item(r); if matches!(j, J::Float(..)) { break j } } },
            "PN" => if r.chance(1, 6) { J::Arr((0..r.below(5)).map(|_| if r.chance(1, 3) { J::Null } else { J::Str(r.pick(NAMES).to_string()) }).collect()) } else { J::Obj(rand_person_members(r)) },
            "AT" => loop { let j = rand_json_item(r); if matches!(j, J::Str(_)) { break j } },
            "SQ" => match r.below(4) { 0 => J::Obj(vec![]), _ => J::Obj((0..r.below(3)).map(|_| rand_member(r, 0)).collect()) },
            _ => match r.below(6) { 0 => J::Null, _ => J::Str(rand_string(r)) },
        }
    }).collect()
}

pub fn rand_key(r: &mut Rng) -> String {
    let t = r.next() as u32 & if r.coin() { 0x00ff_00ff } else { 0xffff_ffff };
    match r.below(12) {
        0 => format!("({:04X},{:04X})", t >> 16, t & 0xffff),
        1 => format!("{:04x},{:04X}", t >> 16, t & 0xffff),
        2 => format!("{:08x}", t),
        3 => r.pick(&["", "0010001", "001000100", "XYZ", "000\u{e9}000", "0010001G", "(0010,0010]", "(0010;0010)", "0010,001", "\u{e9}\u{e9}\u{e9}\u{e9}", "00100010 ", "+0100010"]).to_string(),
        4 => "00100010".into(),
        _ => format!("{:08X}", t),
    }
}

/// one data set member: key and an element object assembled member by member
pub fn rand_member(r: &mut Rng, depth: u32) -> (String, J) {
    let key = rand_key(r);
    if r.chance(1, 25) { return (key, rand_json_item(r)); }
    let vr: String = match r.below(12) {
        0 => r.pick(&["XX", "", "ae", "A", "AEE", "UN"]).to_string(),
        _ => r.pick(&ALL_VRS).to_string().to_string(),
    };
    let mut m: Vec<(String, J)> = vec![];
    if !r.chance(1, 15) { m.push(("vr".into(), if r.chance(1, 20) { rand_json_small(r) } else { J::Str(vr.clone()) })); }
    let push_value = |r: &mut Rng, m: &mut Vec<(String, J)>| {
        let v = if vr == "SQ" && depth > 0 && r.chance(2, 3) {
            J::Arr((0..r.below(3)).map(|_| if r.chance(1, 8) { rand_json_item(r) } else { J::Obj((0..r.below(3)).map(|_| rand_member(r, depth - 1)).collect()) }).collect())
        } else if r.chance(1, 12) { rand_json_item(r) } else { J::Arr(rand_items_for(r, &vr)) };
        m.push(("Value".into(), v));
    };
    match r.below(16) {
        0 => {}
        1..=8 => push_value(r, &mut m),
        9 | 10 => m.push(("InlineBinary".into(), if r.chance(1, 10) { rand_json_small(r) } else { J::Str(rand_b64(r)) })),
        11 => m.push(("BulkDataURI".into(), if r.chance(1, 5) { rand_json_small(r) } else { J::Str("http://x/y".into()) })),
        _ => {
            // several value members, any order: the conflict checks
            for _ in 0..2 + r.below(2) {
                match r.below(3) {
                    0 => push_value(r, &mut m),
                    1 => m.push(("InlineBinary".into(), J::Str(rand_b64(r)))),
                    _ => m.push(("BulkDataURI".into(), J::Str("u".into()))),
                }
            }
        }
    }
    if r.chance(1, 15) { m.push(("vr".into(), J::Str(r.pick(&ALL_VRS).to_string().to_string()))); }
    if r.chance(1, 25) { m.push((r.pick(&["VR", "value", "Values", "InlineData", ""]).to_string(), J::Null)); }
    if r.chance(1, 4) { let n = m.len(); if n > 1 { let i = r.below(n as u64) as usize; let j = r.below(n as u64) as usize; m.swap(i, j); } }
    (key, J::Obj(m))
}

pub fn rand_doc(r: &mut Rng) -> J {
    if r.chance(1, 30) { return rand_json_item(r); }
    J::Obj((0..r.below(5)).map(|_| rand_member(r, 2)).collect())
}

/// mutate a serialiser output in one place
pub fn mutate(r: &mut Rng, j: &mut J) {
    let J::Obj(m) = j else { return };
    if m.is_empty() { m.push(rand_member(r, 1)); return; }
    let i = r.below(m.len() as u64) as usize;
    match r.below(10) {
        0 => { let e = m[i].clone(); m.push(e); }                                // same tag twice
        1 => { m[i].0 = rand_key(r); }
        2 => { let (k, _) = &m[i]; if let Ok(t) = u32::from_str_radix(k, 16) { m[i].0 = format!("({:04x},{:04X})", t >> 16, t & 0xffff); } }
        _ => {
            let J::Obj(em) = &mut m[i].1 else { return };
            match r.below(9) {
                0 => em.push(("InlineBinary".into(), J::Str(rand_b64(r)))),
                1 => em.insert(0, ("InlineBinary".into(), J::Str("AA==".into()))),
                2 => em.push(("BulkDataURI".into(), J::Str("u".into()))),
                3 => em.push(("vr".into(), J::Str("UN".into()))),
                4 => { em.reverse(); }
                5 => { if let Some((_, v)) = em.iter_mut().find(|(k, _)| k == "vr") { *v = J::Str(r.pick(&ALL_VRS).to_string().to_string()); } }
                6 => { if let Some((_, J::Arr(items))) = em.iter_mut().find(|(k, _)| k == "Value") { if !items.is_empty() { let k = r.below(items.len() as u64) as usize; if let J::Obj(_) = items[k] { if r.coin() { mutate(r, &mut items[k]); return; } } items[k] = rand_json_item(r); } else { items.push(rand_json_item(r)); } } }
                7 => { if let Some((_, J::Str(s))) = em.iter_mut().find(|(k, _)| k == "InlineBinary") { if !s.is_empty() { let k = r.below(s.len() as u64) as usize; match r.below(4) { 0 => { s.remove(k); } 1 => { s.insert(k, '='); } 2 => { s.pop(); s.push('B'); } _ => { s.insert(k, ' '); } } } } }
                _ => { em.retain(|(k, _)| k != "vr"); }
            }
        }
    }
}

/// {"<tag>": {"vr": vr, "Value": [items typed for the VR]}}: mostly one or two items so that each boundary decides alone
pub fn typed_element(r: &mut Rng, vr: &str) -> J {
    let mut items = rand_items_for(r, vr);
    if r.chance(2, 3) { items.truncate(1 + r.below(2) as usize); }
    let mut m = vec![("vr".to_string(), J::Str(vr.to_string())), ("Value".to_string(), J::Arr(items))];
    if r.chance(1, 6) { m.swap(0, 1); }
    J::Obj(vec![(format!("{:08X}", r.next() as u32), J::Obj(m))])
}

/// canonical data sets: what the deserialiser itself produces (the round trip must be the identity)
pub fn rand_prim_canon(r: &mut Rng, vr: VR) -> MPrim {
    if r.chance(1, 10) { return MPrim::Empty; }
    let n = 1 + r.below(3) as usize;
    let clean = |s: String, name: bool| -> String {
        let mut s: String = s.replace('\\', "/");
        while s.ends_with(' ') || s.ends_with('\0') || (name && s.ends_with('=')) { s.pop(); }
        s
    };
    if is_str_vr(vr) { return MPrim::Strs((0..n).map(|_| clean(rand_string(r), false)).collect()); }
    if vr == VR::PN { return MPrim::Strs((0..n).map(|_| clean(if r.chance(3, 4) { r.pick(NAMES).to_string() } else { rand_string(r) }, true)).collect()); }
    if vr == VR::AT { return MPrim::Tags((0..n).map(|_| r.next() as u32).collect()); }
    if is_bin_vr(vr) { let m = 1 + r.below(7) as usize; return MPrim::Int(IK::U8, (0..m).map(|_| r.below(256) as i128).collect()); }
    match vr {
        VR::FL => MPrim::F32((0..n).map(|_| { let b = rand_f32(r); if f32::from_bits(b).is_nan() { 0x7fc0_0000 } else { b } }).collect()),
        VR::FD => MPrim::F64((0..n).map(|_| { let b = rand_f64(r); if f64::from_bits(b).is_nan() { 0x7ff8_0000_0000_0000 } else { b } }).collect()),
        VR::DS | VR::IS => MPrim::Strs((0..n).map(|_| r.pick(NUMTEXT).to_string()).collect()),
        _ => { let k = native_kind(vr).unwrap(); MPrim::Int(k, (0..n).map(|_| rand_int(r, k)).collect()) }
    }
}
pub fn rand_ds_canon(r: &mut Rng, depth: u32, max_elems: usize) -> MDs {
    let n = r.below(max_elems as u64 + 1) as usize;
    MDs(rand_tags(r, n).into_iter().map(|t| {
        let vr = if depth > 0 && r.chance(1, 8) { VR::SQ } else { *r.pick(&ALL_VRS) };
        let v = if vr == VR::SQ {
            let m = if depth == 0 { 0 } else { r.below(3) as usize };
            MValue::Seq((0..m).map(|_| rand_ds_canon(r, depth - 1, 3)).collect())
        } else { MValue::Prim(rand_prim_canon(r, vr)) };
        (t, vr, v)
    }).collect())
}
