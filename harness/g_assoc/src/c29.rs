//! C29 — requestor and acceptor agree on the association and respect PDU limits
//! (ul/src/association/client.rs create_a_associate_req / process_a_association_resp,
//!  server.rs, mod.rs encode_pdu + send).
use crate::c28::{universe, unsupported_ts, A1, A2, A3, T_UNKNOWN};
use crate::defs::*;
use crate::proxy;
use dicom_ul::association::client::ClientAssociationOptions;
use dicom_ul::pdu::*;
use serde_json::{json, Value};
use std::net::TcpListener;
use vhc::*;

#[derive(Clone, Debug)]
pub struct CCfg {
    pub calling: String,
    pub called: Option<String>,
    pub pcs: Vec<(String, Vec<String>)>,
    pub max_pdu: u32,
    /// (extended negotiation items, role selection items, user identity)
    pub extra: (usize, usize, bool),
    pub strict: bool,
}
impl CCfg {
    pub fn n_extra(&self) -> usize { self.extra.0 + self.extra.1 + self.extra.2 as usize }
    pub fn coq(&self) -> String {
        c_tuple(&[cs(&self.calling), c_opt(self.called.as_ref().map(|s| cs(s))),
            c_list(self.pcs.iter().map(|(a, t)| c_pair(&cs(a), &c_list(t.iter().map(|x| cs(x)))))),
            c_n(self.max_pdu), format!("{}%nat", self.n_extra())])
    }
    pub fn json(&self) -> Value {
        json!({"calling": self.calling, "called": self.called, "pcs": self.pcs, "max_pdu": self.max_pdu, "extra": [self.extra.0, self.extra.1, self.extra.2 as usize], "strict": self.strict})
    }
    pub fn opts(&self) -> ClientAssociationOptions<'static> {
        let mut o = ClientAssociationOptions::new().calling_ae_title(self.calling.clone()).max_pdu_length(self.max_pdu).strict(self.strict)
            .read_timeout(IO_TIMEOUT).write_timeout(IO_TIMEOUT).connection_timeout(IO_TIMEOUT);
        if let Some(c) = &self.called { o = o.called_ae_title(c.clone()); }
        for (a, t) in &self.pcs { o = o.with_presentation_context(a.clone(), t.clone()); }
        for i in 0..self.extra.0 { o = o.with_extended_negotiation(format!("1.2.840.10008.5.1.4.1.2.2.{}", i + 1), vec![1u8, 0, 1]); }
        for i in 0..self.extra.1 { o = o.with_role_selection(format!("1.2.840.10008.5.1.4.1.1.{}", i + 1), true, i % 2 == 0); }
        if self.extra.2 { o = o.username("user"); }
        o
    }
}

fn c_pcn(p: &PcN) -> String { format!("Build_pc_negotiated {} {} {} {}", p.0, p.1, cs(&p.2), cs(&p.3)) }
/// transport-level trouble (read/write failure, connection closed, invalid local maximum): one class
fn norm_err(e: u8) -> u8 { if matches!(e, 9 | 10 | 12 | 13) { 20 } else { e } }

/// codec round trip = what the other side reads
fn through_wire(p: &Pdu) -> Option<Pdu> {
    let mut bytes = vec![];
    write_pdu(&mut bytes, p).ok()?;
    read_pdu(&bytes[..], MAXIMUM, false).ok()?
}

type ClientOut = Result<(Vec<PcN>, u32, String), u8>;
fn c_client_out(o: &ClientOut) -> String {
    match o {
        Ok((pcs, m, t)) => c_ok(&c_tuple(&[c_list(pcs.iter().map(c_pcn)), c_n(*m), cs(t)])),
        Err(e) => c_err(*e as u32),
    }
}

// ------------------------------------------------------------------ A. composition through the hooks
struct Composed { proposed: Vec<PcP>, rq: Rq, server: Out, client: ClientOut }

fn compose(cc: &CCfg, sc: &SCfg, ae: Option<&str>) -> Result<Option<Composed>, u8> {
    let o = cc.opts();
    let (proposed, rq_pdu) = match catch(|| o.verif_create_rq(ae)) { Some(Ok(x)) => x, Some(Err(e)) => return Err(err_class(&e)), None => return Err(200) };
    let rq = match &rq_pdu { Pdu::AssociationRQ(r) => Rq::from_pdu(r), _ => return Err(201) };
    let Some(seen) = through_wire(&rq_pdu) else { return Ok(None) };
    let Some(server) = run_hook(sc, seen) else { return Err(202) };
    // the reply the acceptor would write
    let base = base_opts(sc);
    let Some(seen2) = through_wire(&rq_pdu) else { return Ok(None) };
    let reply = match if sc.access_called { base.accept_called_ae_title().verif_process_rq(seen2).map(|x| x.0).map_err(|x| x.0) } else { base.verif_process_rq(seen2).map(|x| x.0).map_err(|x| x.0) } { Ok(p) | Err(p) => p };
    let Some(reply_seen) = through_wire(&reply) else { return Ok(None) };
    let client = match catch(|| o.verif_process_resp(reply_seen, &proposed)) {
        Some(Ok((pcs, m, t))) => Ok((pcs.iter().map(pcn).collect(), m, t)),
        Some(Err(e)) => Err(err_class(&e)),
        None => Err(200),
    };
    Ok(Some(Composed { proposed: proposed.iter().map(|p| PcP { id: p.id, abs: p.abstract_syntax.clone(), ts: p.transfer_syntaxes.clone() }).collect(), rq, server, client }))
}

fn wire_clean(s: &str) -> bool { s.trim() == s && s.is_ascii() }
fn cfg_clean(cc: &CCfg) -> bool { cc.pcs.iter().all(|(a, t)| wire_clean(a) && t.iter().all(|x| wire_clean(x))) }

fn accepted_view(pcs: &[PcN]) -> Vec<(u8, String, String)> { pcs.iter().filter(|p| p.1 == 0).map(|p| (p.0, p.3.clone(), p.2.clone())).collect() }

fn oracle_compose(cc: &CCfg, sc: &SCfg, r: &Result<Option<Composed>, u8>) -> Oracle {
    let fails = |class: &str, detail: String| Oracle::Fails { class: class.into(), detail };
    let c = match r {
        Ok(Some(c)) => c,
        Ok(None) => return Oracle::NotApplicable,
        // refusing to build a request that cannot be encoded with distinct ids is within the property
        Err(_) => return Oracle::NotApplicable,
    };
    // distinct odd identifiers
    let ids: Vec<u8> = c.proposed.iter().map(|p| p.id).collect();
    let mut sorted = ids.clone(); sorted.sort(); sorted.dedup();
    if sorted.len() != ids.len() || ids.iter().any(|i| i % 2 == 0) {
        return fails("ids-wrap", format!("{} proposed contexts, identifiers not distinct odd: first ids {:?} ... id[128..] = {:?}", ids.len(), &ids[..ids.len().min(4)], ids.get(128..).map(|s| &s[..s.len().min(3)])));
    }
    if !cfg_clean(cc) { return Oracle::NotApplicable; }
    match (&c.server, &c.client) {
        (Out::Accept { pcs, peer_max, ac_max, .. }, Ok((cpcs, cmax, _))) => {
            let sv = accepted_view(pcs);
            let cv = accepted_view(cpcs);
            if sv != cv { return fails("views-differ", format!("acceptor holds {:?}, requestor holds {:?}", sv, cv)); }
            if cpcs.len() != cv.len() { return fails("client-keeps-rejected", format!("{:?}", cpcs)); }
            let want_c = if *ac_max == 0 { MAXIMUM as u64 } else { (*ac_max).min(MAXIMUM as u64) };
            if *cmax as u64 != want_c { return fails("max-pdu-client", format!("acceptor announced {ac_max}, requestor keeps {cmax}")); }
            let want_s = if cc.max_pdu == 0 { MAXIMUM } else { cc.max_pdu.min(MAXIMUM) };
            if *peer_max != want_s { return fails("max-pdu-server", format!("requestor announced {}, acceptor keeps {peer_max}", cc.max_pdu)); }
            let _ = sc;
            Oracle::Holds
        }
        (Out::Accept { pcs, .. }, Err(e)) => {
            if accepted_view(pcs).is_empty() { if *e == 6 { Oracle::Holds } else { fails("none-accepted-error", format!("nothing accepted, requestor error class {e}")) } }
            else { fails("client-fails-on-accepted", format!("acceptor accepted {:?}, requestor error class {e}", accepted_view(pcs))) }
        }
        (Out::Reject(..), Err(1)) => Oracle::Holds,
        (Out::Reject(..), o) => fails("reject-not-reported", format!("{:?}", o)),
        (_, Ok(x)) => fails("client-ok-without-accept", format!("{:?}", x)),
        _ => Oracle::NotApplicable,
    }
}

fn case_compose(bucket: &str, cc: &CCfg, sc: &SCfg, ae: Option<&str>) -> Case {
    let r = compose(cc, sc, ae);
    let oracle = oracle_compose(cc, sc, &r);
    let obs = match &r {
        Ok(Some(c)) => c_ok(&c_tuple(&[
            c_list(c.proposed.iter().map(|p| format!("Build_pc_proposed {} {} {}", p.id, cs(&p.abs), c_list(p.ts.iter().map(|t| cs(t)))))),
            c.rq.coq(), c.server.coq(), c_client_out(&c.client)])),
        Ok(None) => String::new(),
        Err(e) => c_err(*e as u32),
    };
    let coq = if obs.is_empty() { String::new() } else {
        format!("(CCompose {} {} {} {})", cc.coq(), sc.coq(), c_opt(ae.map(|s| cs(s))), obs)
    };
    let desc = json!({"bucket": bucket, "client": cc.json(), "server": sc.json(), "ae": ae,
        "observed": match &r { Ok(Some(c)) => json!({"ids": c.proposed.iter().map(|p| p.id).collect::<Vec<_>>(), "server": c.server.json(), "client": format!("{:?}", c.client)}), Ok(None) => json!("not encodable"), Err(e) => json!({"create_error": e}) }});
    Case { key: format!("{}|{}|{:?}", cc.coq(), sc.coq(), ae), coq, desc, oracle }
}

// ------------------------------------------------------------------ B. real establish on both sides over loopback TCP
type TcpSide = Result<(Vec<PcN>, u32, u32), u8>;
fn c_side(o: &TcpSide) -> String {
    match o {
        Ok((pcs, peer, own)) => c_ok(&c_tuple(&[c_list(pcs.iter().map(c_pcn)), c_n(*peer), c_n(*own)])),
        Err(e) => c_err(norm_err(*e) as u32),
    }
}

fn run_pair(cc: &CCfg, sc: &SCfg, ae: Option<&str>) -> Option<(TcpSide, TcpSide)> {
    let listener = TcpListener::bind("127.0.0.1:0").ok()?;
    let addr = listener.local_addr().ok()?;
    let sc2 = sc.clone();
    let server = std::thread::spawn(move || -> Option<TcpSide> {
        let (stream, _) = listener.accept().ok()?;
        let base = base_opts(&sc2).strict(false);
        let r = if sc2.access_called { base.accept_called_ae_title().establish(stream) } else { base.establish(stream) };
        Some(match r {
            Ok(a) => {
                let v = (a.presentation_contexts().iter().map(pcn).collect(), a.requestor_max_pdu_length(), a.acceptor_max_pdu_length());
                // keep the connection until the requestor is done
                let mut a = a; let _ = a.receive();
                Ok(v)
            }
            Err(e) => Err(err_class(&e)),
        })
    });
    let o = cc.opts();
    let res = match ae { Some(t) => o.establish_with(&format!("{}@{}", t, addr)), None => o.establish(addr) };
    let client: TcpSide = match res {
        Ok(a) => { let v = (a.presentation_contexts().iter().map(pcn).collect(), a.acceptor_max_pdu_length(), a.requestor_max_pdu_length()); let _ = a.abort(); Ok(v) }
        Err(e) => Err(err_class(&e)),
    };
    let server = server.join().ok()??;
    Some((server, client))
}

fn oracle_pair(cc: &CCfg, s: &TcpSide, c: &TcpSide) -> Oracle {
    let fails = |class: &str, detail: String| Oracle::Fails { class: class.into(), detail };
    if let Ok((pcs, _, _)) = s {
        let ids: Vec<u8> = pcs.iter().map(|p| p.0).collect();
        let mut sorted = ids.clone(); sorted.sort(); sorted.dedup();
        if sorted.len() != ids.len() || ids.iter().any(|i| i % 2 == 0) {
            return fails("ids-wrap", format!("{} contexts reached the acceptor, identifiers not distinct odd (id[128..] = {:?})", ids.len(), ids.get(128..).map(|x| &x[..x.len().min(3)])));
        }
    }
    if !cfg_clean(cc) { return Oracle::NotApplicable; }
    match (s, c) {
        (Ok((spcs, s_peer, s_own)), Ok((cpcs, c_peer, c_own))) => {
            if accepted_view(spcs) != accepted_view(cpcs) || cpcs.len() != accepted_view(cpcs).len() {
                return fails("views-differ", format!("acceptor holds {:?}, requestor holds {:?}", accepted_view(spcs), cpcs));
            }
            if c_peer != s_own || s_peer != c_own {
                return fails("max-pdu-views", format!("acceptor (own {s_own}, peer {s_peer}) requestor (own {c_own}, peer {c_peer})"));
            }
            Oracle::Holds
        }
        (Ok((spcs, _, _)), Err(6)) if accepted_view(spcs).is_empty() => Oracle::Holds,
        (Ok((spcs, _, _)), Err(e)) if accepted_view(spcs).is_empty() && norm_err(*e) != 20 => fails("none-accepted-error", format!("requestor error class {e}")),
        (Err(_), Ok(x)) => fails("client-ok-without-accept", format!("{:?}", x)),
        _ => Oracle::NotApplicable,
    }
}

fn case_pair(bucket: &str, cc: &CCfg, sc: &SCfg, ae: Option<&str>) -> Option<Case> {
    let (s, c) = run_pair(cc, sc, ae)?;
    let oracle = oracle_pair(cc, &s, &c);
    let coq = format!("(CTcp {} {} {} {} {})", cc.coq(), sc.coq(), c_opt(ae.map(|x| cs(x))), c_side(&s), c_side(&c));
    let desc = json!({"bucket": bucket, "client": cc.json(), "server": sc.json(), "ae": ae, "acceptor": format!("{:?}", s), "requestor": format!("{:?}", c)});
    Some(Case { key: format!("tcp|{}|{}|{:?}", cc.coq(), sc.coq(), ae), coq, desc, oracle })
}

// ------------------------------------------------------------------ C. send-size limit, observed on the wire by the recording proxy
fn encoded_len(p: &Pdu) -> usize { let mut b = vec![]; write_pdu(&mut b, p).map(|_| b.len()).unwrap_or(0) }

/// A P-DATA-TF PDU with `nv` values (mixed command/data) whose encoded size is exactly `total` bytes:
/// 6 bytes of PDU header + per value 6 bytes of PDV header + data.
fn pdata_total(r: &mut Rng, nv: usize, total: usize) -> Pdu {
    let payload = total.saturating_sub(6 + 6 * nv);
    // split the payload into nv parts
    let mut cuts: Vec<usize> = (0..nv - 1).map(|_| r.below(payload as u64 + 1) as usize).collect();
    cuts.sort();
    let mut parts = vec![];
    let mut prev = 0;
    for c in cuts { parts.push(c - prev); prev = c; }
    parts.push(payload - prev);
    Pdu::PData { data: parts.into_iter().enumerate().map(|(i, n)| PDataValue {
        presentation_context_id: 1,
        value_type: if (i + nv) % 2 == 0 { PDataValueType::Command } else { PDataValueType::Data },
        is_last: i % 2 == 0,
        data: vec![0x5a; n],
    }).collect() }
}

type SendLog = Vec<(usize, Result<(), u8>)>;

/// One association through the recording proxy; one side (`from_client`) sends the PDUs with its
/// sync or async (`async_sender`) implementation of `send`, the other side receives.
fn case_send(r: &mut Rng, cmax: u32, smax: u32, from_client: bool, async_sender: bool, use_pdata_writer: bool) -> Option<Case> {
    use dicom_ul::association::AsyncAssociation;
    use std::io::Write;
    let listener = TcpListener::bind("127.0.0.1:0").ok()?;
    let saddr = listener.local_addr().ok()?;
    let px = proxy::start(saddr, IO_TIMEOUT)?;
    let paddr = px.addr;
    let sc = SCfg { access_called: false, ae_title: "THIS-SCP".into(), abs: vec![A1.into()], ts: vec![], max_pdu: smax, promiscuous: false };
    let cc = CCfg { calling: "SCU".into(), called: None, pcs: vec![(A1.into(), vec![ILE.into()])], max_pdu: cmax, extra: (0, 0, false), strict: false };
    // PDUs sized around the limit of the receiving side: 1 to 4 values each; with nv values the sizes
    // peer_max + 6 + delta for delta in 0 ..= 6*(nv-1)+1 are exactly where an estimate that forgets the
    // headers of the extra values goes wrong
    let peer_max = if from_client { smax } else { cmax } as i64;
    let mut pdus: Vec<Pdu> = vec![];
    let mut shape: Vec<(usize, i64)> = vec![];
    for _ in 0..r.range(4, 8) {
        let nv = *r.pick(&[1usize, 1, 2, 2, 3, 4]);
        let delta: i64 = match r.below(10) {
            0..=5 => r.range(0, 6 * (nv as u64 - 1) + 1) as i64,
            6 => -(r.range(1, 13) as i64),
            7 => 6 * (nv as i64 - 1) + 2 + r.below(8) as i64,
            8 => *r.pick(&[1000i64, -1000]),
            _ => 70000,
        };
        let total = (peer_max + 6 + delta).max((6 + 6 * nv + nv) as i64) as usize;
        pdus.push(pdata_total(r, nv, total));
        shape.push((nv, delta));
    }
    let writer_len = r.range(1, 3 * peer_max as u64 + 50) as usize;
    let (pd_s, pd_c) = (pdus.clone(), pdus.clone());
    let sc2 = sc.clone();
    let server = std::thread::spawn(move || -> Option<(u32, SendLog)> {
        if async_sender && !from_client {
            // asynchronous acceptor sends
            let rt = tokio::runtime::Builder::new_current_thread().enable_all().build().ok()?;
            listener.set_nonblocking(true).ok()?;
            rt.block_on(async move {
                let l = tokio::net::TcpListener::from_std(listener).ok()?;
                let (s, _) = tokio::time::timeout(IO_TIMEOUT, l.accept()).await.ok()?.ok()?;
                let mut a = base_opts(&sc2).strict(false).establish_async(s).await.ok()?;
                let peer = a.requestor_max_pdu_length();
                let mut res = vec![];
                for p in &pd_s { res.push((encoded_len(p), AsyncAssociation::send(&mut a, p).await.map_err(|e| err_class(&e)))); }
                let _ = AsyncAssociation::abort(a).await;
                Some((peer, res))
            })
        } else {
            let (stream, _) = listener.accept().ok()?;
            let mut a = base_opts(&sc2).strict(false).establish(stream).ok()?;
            let peer = a.requestor_max_pdu_length();
            let res = if !from_client {
                let res = if use_pdata_writer {
                    let mut w = a.send_pdata(1);
                    let r1 = w.write_all(&vec![7u8; writer_len]).and_then(|_| w.finish());
                    vec![(writer_len, r1.map_err(|_| 50u8))]
                } else { pd_s.iter().map(|p| (encoded_len(p), a.send(p).map_err(|e| err_class(&e)))).collect() };
                let _ = a.abort();
                res
            } else {
                loop { match a.receive() { Ok(Pdu::PData { .. }) => continue, _ => break } }
                vec![]
            };
            Some((peer, res))
        }
    });
    let client: Option<(u32, SendLog)> = if async_sender && from_client {
        (|| {
            let rt = tokio::runtime::Builder::new_current_thread().enable_all().build().ok()?;
            rt.block_on(async {
                let mut a = cc.opts().establish_async(paddr).await.ok()?;
                let peer = a.acceptor_max_pdu_length();
                let mut res = vec![];
                for p in &pd_c { res.push((encoded_len(p), a.send(p).await.map_err(|e| err_class(&e)))); }
                let _ = a.abort().await;
                Some((peer, res))
            })
        })()
    } else {
        cc.opts().establish(paddr).ok().map(|mut a| {
            let peer = a.acceptor_max_pdu_length();
            let res = if from_client {
                let res = if use_pdata_writer {
                    let mut w = a.send_pdata(1);
                    let r1 = w.write_all(&vec![7u8; writer_len]).and_then(|_| w.finish());
                    vec![(writer_len, r1.map_err(|_| 50u8))]
                } else { pd_c.iter().map(|p| (encoded_len(p), a.send(p).map_err(|e| err_class(&e)))).collect() };
                let _ = a.abort();
                res
            } else {
                loop { match a.receive() { Ok(Pdu::PData { .. }) => continue, _ => break } }
                vec![]
            };
            (peer, res)
        })
    };
    let server = server.join().ok()?;
    let log = px.finish();
    let (server, client) = (server?, client?);
    let (peer_seen, sends) = if from_client { client } else { server };
    let dir = if from_client { 0u8 } else { 1u8 };
    let wire: Vec<u32> = log.iter().filter(|r| r.dir == dir).filter_map(|r| if let proxy::Ev::Pdu { typ: 4, len } = r.ev { Some(len) } else { None }).collect();
    let fails = |class: &str, detail: String| Oracle::Fails { class: class.into(), detail };
    // oracle: nothing longer than the receiving side's maximum on the wire; over-long sends rejected locally
    let mut oracle = Oracle::Holds;
    if peer_seen as i64 != peer_max { oracle = fails("max-pdu-views", format!("sender believes the peer's maximum is {peer_seen}, the peer configured {peer_max}")); }
    if !use_pdata_writer {
        let ok_lens: Vec<u32> = sends.iter().filter(|(_, r)| r.is_ok()).map(|(l, _)| (*l - 6) as u32).collect();
        if ok_lens != wire { oracle = fails("wire-differs-from-sends", format!("successful sends (length fields) {:?}, on the wire {:?}", ok_lens, wire)); }
        for (i, (l, res)) in sends.iter().enumerate() {
            let too_long = *l as i64 > peer_max + 6;
            match (too_long, res) {
                (true, Err(8)) | (false, Ok(())) => {}
                (true, o) => { oracle = fails("over-long-not-rejected", format!("P-DATA-TF with {} values, {l} bytes encoded, peer maximum {peer_max}: send returned {:?}", shape[i].0, o)); }
                (false, o) => { oracle = fails("fitting-send-rejected", format!("P-DATA-TF with {} values, {l} bytes encoded, peer maximum {peer_max}: send returned {:?}", shape[i].0, o)); }
            }
        }
    } else {
        let payload: u64 = wire.iter().map(|l| (*l as u64).saturating_sub(6)).sum();
        if sends[0].1.is_ok() && payload != writer_len as u64 { oracle = fails("pdata-writer-payload", format!("wrote {} bytes, {} payload bytes on the wire", writer_len, payload)); }
    }
    if let Some(l) = wire.iter().find(|l| **l as i64 > peer_max) { oracle = fails("over-long-on-wire", format!("P-DATA-TF of length {l} on the wire, receiver's maximum is {peer_max}")); }
    let coq = if use_pdata_writer { String::new() } else {
        format!("(CSend {} {})", peer_seen, c_list(sends.iter().map(|(l, r)| c_pair(&c_n(*l as u64), &match r { Ok(()) => c_ok("tt"), Err(e) => c_err(*e as u32) }))))
    };
    let who = format!("{}-{}", if async_sender { "async" } else { "sync" }, if from_client { "requestor" } else { "acceptor" });
    let desc = json!({"bucket": if use_pdata_writer { "send:pdata-writer".to_string() } else { format!("send:pdu:{who}") }, "from": who,
        "requestor_max": cmax, "acceptor_max": smax, "values_and_delta": shape,
        "sends": sends.iter().map(|(l, r)| json!([l, format!("{:?}", r)])).collect::<Vec<_>>(), "wire_lengths": wire});
    Some(Case { key: format!("send|{}|{}|{}|{:?}|{}", cmax, smax, who, shape, writer_len), coq, desc, oracle })
}

// ------------------------------------------------------------------ generators
fn rand_ccfg(r: &mut Rng, n: usize, clean: bool) -> CCfg {
    let u2 = unsupported_ts();
    let abs_pool = [A1.to_string(), A2.to_string(), format!("{A2}\0"), A3.to_string(), "1.2.840.10008.5.1.4.1.1.4".to_string()];
    let ts_pool = [ILE.to_string(), ELE.to_string(), format!("{ELE}\0"), u2, T_UNKNOWN.to_string(), "1.2.840.10008.1.2.2".to_string(), "1.2.840.10008.1.2.5".to_string()];
    let dirty = |r: &mut Rng, s: String| -> String { if clean { s } else { match r.below(10) { 0 => format!(" {s}"), 1 => format!("{s} "), 2 => format!("{s} \0"), _ => s } } };
    let pcs = (0..n).map(|i| {
        // many contexts: short distinct abstract syntaxes keep the case (and its Coq term) small
        let a = if n > 20 { format!("1.2.{}", i + 1) } else { r.pick(&abs_pool).clone() };
        let lo = if r.chance(1, 12) { 0 } else { 1 };
        let k = if n > 20 { 1 } else { r.range(lo, 3) };
        (dirty(r, a), (0..k).map(|_| { let t = r.pick(&ts_pool).clone(); dirty(r, t) }).collect())
    }).collect();
    CCfg {
        calling: r.pick(&["SCU", "STORE-SCU", "A-VERY-LONG-AE-TITLE-X"]).to_string(),
        called: if r.chance(1, 3) { Some(r.pick(&["THIS-SCP", "OTHER"]).to_string()) } else { None },
        pcs,
        max_pdu: *r.pick(&[0u32, 1, 1017, 1018, 4096, 16384, 32762, 65536, MAXIMUM - 1, MAXIMUM, MAXIMUM + 1, u32::MAX]),
        extra: (r.below(3) as usize, r.below(3) as usize, r.chance(1, 4)),
        strict: false,
    }
}

fn rand_scfg(r: &mut Rng) -> SCfg {
    let u = universe();
    let mut c = r.pick(&u.cfgs).clone();
    if r.chance(1, 3) { c.abs.push(A3.into()); }
    if r.chance(1, 6) { c.abs.clear(); c.promiscuous = true; }
    c.access_called = r.chance(1, 6);
    c.max_pdu = *r.pick(&[0u32, 1017, 1018, 4096, 16384, 32762, 131072, MAXIMUM, u32::MAX]);
    c
}

pub fn cases(ctx: &Ctx) -> Vec<Case> {
    let mut r = Rng::new(ctx.seed);
    let thorough = ctx.tier == Tier::Thorough;
    let mut out = vec![];
    let sc0 = SCfg { access_called: false, ae_title: "THIS-SCP".into(), abs: vec![], ts: vec![], max_pdu: 16384, promiscuous: true };
    // ---- corpus: the identifier wrap-around (129, 130, 200, 300 contexts) and the boundaries 127/128
    for n in [129usize, 128, 127, 130, 256, 1, 2] {
        let cc = CCfg { max_pdu: 16384, called: None, extra: (0, 0, false), ..rand_ccfg(&mut r, n, true) };
        out.push(case_compose("corpus:many-contexts", &cc, &sc0, None));
    }
    for n in [129usize, 128] {
        let cc = CCfg { max_pdu: 65536, called: None, extra: (0, 0, false), ..rand_ccfg(&mut r, n, true) };
        if let Some(c) = case_pair("corpus:many-contexts-tcp", &cc, &SCfg { max_pdu: 65536, ..sc0.clone() }, None) { out.push(c); }
    }
    // nothing accepted; no contexts at all; rejected
    let none = CCfg { calling: "SCU".into(), called: None, pcs: vec![(A3.into(), vec![T_UNKNOWN.into()])], max_pdu: 16384, extra: (0, 0, false), strict: false };
    out.push(case_compose("corpus:none-accepted", &none, &universe().cfgs[1], None));
    out.push(case_compose("corpus:no-contexts", &CCfg { pcs: vec![], ..none.clone() }, &sc0, None));
    out.push(case_compose("corpus:rejected", &CCfg { called: Some("OTHER".into()), ..none.clone() }, &SCfg { access_called: true, ..sc0.clone() }, None));
    out.extend(case_pair("corpus:none-accepted-tcp", &none, &universe().cfgs[1], None));
    out.extend(case_pair("corpus:max0-tcp", &CCfg { max_pdu: 0, ..none.clone() }, &sc0, Some("THIS-SCP")));

    let n_tcp = if thorough { 3000 } else { 70 };
    let n_send = if thorough { 1500 } else { 64 };
    let n_compose = ctx.n.saturating_sub(out.len() + n_tcp + n_send);
    for i in 0..n_compose {
        // a few requests around the 128-context limit, some medium ones, mostly small ones
        let n = match i % 40 { 0 => *r.pick(&[127usize, 128, 129, 130, 140, 200]), 1 | 11 | 21 | 31 => r.range(5, 20) as usize, _ => r.range(1, 4) as usize };
        let clean = i % 7 != 3;
        let cc = rand_ccfg(&mut r, n, clean);
        let sc = rand_scfg(&mut r);
        let ae = if r.chance(1, 3) { Some("THIS-SCP") } else { None };
        out.push(case_compose(if n > 30 { "compose:large" } else if clean { "compose:clean" } else { "compose:padded" }, &cc, &sc, ae));
    }
    for i in 0..n_tcp {
        let n = if i % 12 == 0 { r.range(5, 25) as usize } else { r.range(1, 4) as usize };
        let mut cc = rand_ccfg(&mut r, n, i % 5 != 0);
        let mut sc = rand_scfg(&mut r);
        if n <= 3 { cc.strict = r.coin(); }
        // mostly usable local maxima, sometimes not (establishment then fails on that side)
        if r.chance(5, 6) { cc.max_pdu = cc.max_pdu.clamp(MINIMUM, MAXIMUM); }
        if r.chance(5, 6) { sc.max_pdu = sc.max_pdu.clamp(MINIMUM, MAXIMUM); }
        let ae = if r.chance(1, 3) { Some("THIS-SCP") } else { None };
        out.extend(case_pair("tcp", &cc, &sc, ae));
    }
    for i in 0..n_send {
        let cmax = *r.pick(&[1018u32, 1019, 2048, 4096, 16384, 32762, 65536]);
        let smax = *r.pick(&[1018u32, 1019, 2048, 4096, 16384, 32762, 65536]);
        // all four send implementations in turn: sync/async x requestor/acceptor; every 9th a PDataWriter transfer
        let writer = i % 9 == 8;
        out.extend(case_send(&mut r, cmax, smax, i % 2 == 0, !writer && (i / 2) % 2 == 1, writer));
    }
    out
}
