//! C30 — association release and abort follow the upper-layer protocol
//! (ul/src/association/mod.rs release/abort of the sync and async associations).
//!
//! A real requestor and a real acceptor (sync or async implementation, chosen per case) are
//! connected through the recording proxy.  A single driver executes a random schedule of
//! API-level actions (send data, receive, release, answer a release request, abort, drop),
//! one at a time, and records the labelled trace; the proxy records the wire.
use crate::defs::*;
use crate::proxy::{self, Ev};
use dicom_ul::association::client::ClientAssociationOptions;
use dicom_ul::association::server::ServerAssociationOptions;
use dicom_ul::association::{AsyncAssociation, Error as AErr, SyncAssociation};
use dicom_ul::pdu::*;
use serde_json::json;
use std::collections::VecDeque;
use std::net::TcpListener;
use std::sync::mpsc::{channel, Receiver, RecvTimeoutError, Sender};
use std::time::Duration;
use vhc::*;

const ABS: &str = "1.2.840.10008.1.1";

#[derive(Clone, Copy, Debug, PartialEq)]
pub enum Kind { Data, Rq, Rp, Abort }
impl Kind {
    fn coq(&self) -> &'static str { match self { Kind::Data => "KData", Kind::Rq => "KRq", Kind::Rp => "KRp", Kind::Abort => "KAbort" } }
    fn of_pdu(p: &Pdu) -> Option<Kind> {
        match p { Pdu::PData { .. } => Some(Kind::Data), Pdu::ReleaseRQ => Some(Kind::Rq), Pdu::ReleaseRP => Some(Kind::Rp), Pdu::AbortRQ { .. } => Some(Kind::Abort), _ => None }
    }
    fn of_type(t: u8) -> Option<Kind> { match t { 4 => Some(Kind::Data), 5 => Some(Kind::Rq), 6 => Some(Kind::Rp), 7 => Some(Kind::Abort), _ => None } }
}
#[derive(Clone, Copy, Debug, PartialEq)]
enum Item { K(Kind), Fin }
impl Item { fn coq(&self) -> String { match self { Item::K(k) => format!("(IPdu {})", k.coq()), Item::Fin => "Fin".into() } } }

#[derive(Clone, Debug)]
enum Label { SendData(usize), SendFail(usize), Recv(usize, Kind), RecvFin(usize), Release(usize), Await(usize, Item), SendRp(usize), Abort(usize), Close(usize), Lose(usize),
    /// something the model has no label for (prints as a label that is never enabled)
    Bad(String) }
fn peer(p: usize) -> &'static str { if p == 0 { "Requestor" } else { "Acceptor" } }
impl Label {
    fn coq(&self) -> String {
        match self {
            Label::SendData(p) => format!("LSendData {}", peer(*p)),
            Label::SendFail(p) => format!("LSendFail {}", peer(*p)),
            Label::Recv(p, k) => format!("LRecv {} {}", peer(*p), k.coq()),
            Label::RecvFin(p) => format!("LRecvFin {}", peer(*p)),
            Label::Release(p) => format!("LRelease {}", peer(*p)),
            Label::Await(p, i) => format!("LAwait {} {}", peer(*p), i.coq()),
            Label::SendRp(p) => format!("LSendRp {}", peer(*p)),
            Label::Abort(p) => format!("LAbort {}", peer(*p)),
            Label::Close(p) => format!("LClose {}", peer(*p)),
            Label::Lose(p) => format!("LLose {}", peer(*p)),
            // an answer to a release request from a peer that never received one: never enabled after it
            Label::Bad(_) => "LSendRp Requestor; LSendRp Requestor".into(),
        }
    }
}

// ---------------------------------------------------------------- the four implementations behind one interface
trait PeerApi {
    fn send(&mut self, p: &Pdu) -> Result<(), AErr>;
    fn recv(&mut self) -> Result<Pdu, AErr>;
    fn release(self: Box<Self>) -> Result<(), AErr>;
    fn abort(self: Box<Self>) -> Result<(), AErr>;
}
struct SyncPeer<A>(A);
impl<A: SyncAssociation<std::net::TcpStream>> PeerApi for SyncPeer<A> {
    fn send(&mut self, p: &Pdu) -> Result<(), AErr> { SyncAssociation::send(&mut self.0, p) }
    fn recv(&mut self) -> Result<Pdu, AErr> { SyncAssociation::receive(&mut self.0) }
    fn release(self: Box<Self>) -> Result<(), AErr> { SyncAssociation::release(self.0) }
    fn abort(self: Box<Self>) -> Result<(), AErr> { SyncAssociation::abort(self.0) }
}
struct AsyncPeer<A> { rt: tokio::runtime::Runtime, a: A }
impl<A: AsyncAssociation<tokio::net::TcpStream> + Send> PeerApi for AsyncPeer<A> {
    fn send(&mut self, p: &Pdu) -> Result<(), AErr> { let a = &mut self.a; self.rt.block_on(AsyncAssociation::send(a, p)) }
    fn recv(&mut self) -> Result<Pdu, AErr> { let a = &mut self.a; self.rt.block_on(AsyncAssociation::receive(a)) }
    fn release(self: Box<Self>) -> Result<(), AErr> { let AsyncPeer { rt, a } = *self; rt.block_on(AsyncAssociation::release(a)) }
    fn abort(self: Box<Self>) -> Result<(), AErr> { let AsyncPeer { rt, a } = *self; rt.block_on(AsyncAssociation::abort(a)) }
}
fn new_rt() -> Option<tokio::runtime::Runtime> { tokio::runtime::Builder::new_current_thread().enable_all().build().ok() }

fn server_opts() -> ServerAssociationOptions<'static, dicom_ul::association::server::AcceptAny, dicom_ul::association::server::DefaultNegotiation> {
    ServerAssociationOptions::new().with_abstract_syntax(ABS).read_timeout(IO_TIMEOUT).write_timeout(IO_TIMEOUT)
}
fn client_opts() -> ClientAssociationOptions<'static> {
    ClientAssociationOptions::new().with_abstract_syntax(ABS).read_timeout(IO_TIMEOUT).write_timeout(IO_TIMEOUT).connection_timeout(IO_TIMEOUT)
}

#[derive(Debug)]
enum Cmd { SendData, Recv, Release, Abort, SendRp, Close }
#[derive(Debug)]
enum Res { Sent, SendErr(u8), Got(Option<Kind>), RecvErr(u8), ReleaseOk, ReleaseErr(Option<Kind>, u8), Aborted, Answered, Closed, Gone }

fn data_pdu() -> Pdu { Pdu::PData { data: vec![PDataValue { presentation_context_id: 1, value_type: PDataValueType::Data, is_last: true, data: vec![0xd1; 32] }] } }

/// worker: executes one command at a time on its association
fn worker(make: impl FnOnce() -> Option<Box<dyn PeerApi>>, rx: Receiver<Cmd>, tx: Sender<Res>, ready: Sender<bool>) {
    let mut a = make();
    let _ = ready.send(a.is_some());
    while let Ok(cmd) = rx.recv() {
        let res = match (cmd, a.take()) {
            (_, None) => Res::Gone,
            (Cmd::SendData, Some(mut x)) => match x.send(&data_pdu()) { Ok(()) => { a = Some(x); Res::Sent } Err(e) => Res::SendErr(err_class(&e)) },
            (Cmd::Recv, Some(mut x)) => match x.recv() {
                Ok(p) => { let k = Kind::of_pdu(&p); if k != Some(Kind::Abort) { a = Some(x); } Res::Got(k) }
                Err(e) => Res::RecvErr(err_class(&e)),
            },
            (Cmd::Release, Some(x)) => match x.release() {
                Ok(()) => Res::ReleaseOk,
                Err(AErr::UnexpectedPdu { pdu, .. }) => Res::ReleaseErr(Kind::of_pdu(&pdu), 3),
                Err(e) => Res::ReleaseErr(None, err_class(&e)),
            },
            (Cmd::Abort, Some(x)) => { let _ = x.abort(); Res::Aborted }
            (Cmd::SendRp, Some(mut x)) => { let _ = x.send(&Pdu::ReleaseRP); drop(x); Res::Answered }
            (Cmd::Close, Some(x)) => { drop(x); Res::Closed }
        };
        if tx.send(res).is_err() { break; }
    }
}

#[derive(Clone, Copy, PartialEq, Debug)]
enum Ph { Est, AwaitRp, GotRq, Done }

/// `complete[p]`: the driver knows that `p` closed with nothing unread on its side, so its close was an orderly FIN and
/// everything it wrote must be on the wire; otherwise (unread data at close => reset) a tail of what it wrote may be lost.
/// `orderly` (how the proxy saw the direction end) is informative only: the kernel may report a reset as end of stream.
struct Run { trace: Vec<Label>, wire: [Vec<Kind>; 2], complete: [bool; 2], orderly: [bool; 2], oracle: Oracle, impls: (bool, bool), notes: Vec<String> }

fn run_schedule(r: &mut Rng, async_client: bool, async_server: bool, max_steps: usize) -> Option<Run> {
    let listener = TcpListener::bind("127.0.0.1:0").ok()?;
    let saddr = listener.local_addr().ok()?;
    let px = proxy::start(saddr, IO_TIMEOUT)?;
    let paddr = px.addr;
    let mut txs = vec![];
    let mut rxs = vec![];
    let mut handles = vec![];
    let (ready_tx, ready_rx) = channel::<bool>();
    // requestor worker
    {
        let (ctx, crx) = channel::<Cmd>(); let (rtx, rrx) = channel::<Res>(); let rd = ready_tx.clone();
        handles.push(std::thread::spawn(move || worker(move || -> Option<Box<dyn PeerApi>> {
            if async_client {
                let rt = new_rt()?; let a = rt.block_on(client_opts().establish_async(paddr)).ok()?;
                Some(Box::new(AsyncPeer { rt, a }))
            } else { Some(Box::new(SyncPeer(client_opts().establish(paddr).ok()?))) }
        }, crx, rtx, rd)));
        txs.push(ctx); rxs.push(rrx);
    }
    // acceptor worker
    {
        let (ctx, crx) = channel::<Cmd>(); let (rtx, rrx) = channel::<Res>(); let rd = ready_tx.clone();
        handles.push(std::thread::spawn(move || worker(move || -> Option<Box<dyn PeerApi>> {
            if async_server {
                let rt = new_rt()?;
                listener.set_nonblocking(true).ok()?;
                let a = rt.block_on(async { let l = tokio::net::TcpListener::from_std(listener).ok()?; let (s, _) = tokio::time::timeout(IO_TIMEOUT, l.accept()).await.ok()?.ok()?; server_opts().establish_async(s).await.ok() })?;
                Some(Box::new(AsyncPeer { rt, a }))
            } else { let (s, _) = listener.accept().ok()?; Some(Box::new(SyncPeer(server_opts().establish(s).ok()?))) }
        }, crx, rtx, rd)));
        txs.push(ctx); rxs.push(rrx);
    }
    let ok = ready_rx.recv_timeout(IO_TIMEOUT * 3).unwrap_or(false) & ready_rx.recv_timeout(IO_TIMEOUT * 3).unwrap_or(false);
    // how long the driver waits for a worker: longer than any socket timeout of the associations
    let long = IO_TIMEOUT * 3;
    // how long the driver waits for the proxy to have seen something that is already on its way (returns as soon as it is there)
    let settle = Duration::from_secs(20);
    fn call_on(txs: &[Sender<Cmd>], rxs: &[Receiver<Res>], long: Duration, p: usize, c: Cmd) -> Res {
        if txs[p].send(c).is_err() { return Res::Gone; }
        rxs[p].recv_timeout(long).unwrap_or(Res::Gone)
    }
    if !ok { for t in &txs { let _ = t.send(Cmd::Close); } drop(txs); for h in handles { let _ = h.join(); } let _ = px.finish(); return None; }
    // association negotiation PDUs already went by: 1 in each direction
    let base = [px.count(0), px.count(1)];
    let mut ph = [Ph::Est, Ph::Est];
    let mut ch: [VecDeque<Item>; 2] = [VecDeque::new(), VecDeque::new()];
    let mut sent = [0usize, 0usize];
    let mut trace: Vec<Label> = vec![];
    let mut notes: Vec<String> = vec![];
    let mut fails: Option<(String, String)> = None;
    let mut released_ok: Vec<usize> = vec![];
    let mut pending_release = [false, false];
    let fail = |f: &mut Option<(String, String)>, c: &str, d: String| { if f.is_none() { *f = Some((c.to_string(), d)); } };
    let mut steps = 0usize;
    let mut complete = [true, true];
    let mut close_seen = [false, false];
    // a peer that closes with PDUs of the other side still unread resets the connection: a tail of what it wrote may be lost
    let note_closes = |ph: &[Ph; 2], ch: &[VecDeque<Item>; 2], complete: &mut [bool; 2], close_seen: &mut [bool; 2]| {
        for p in 0..2 { if ph[p] == Ph::Done && !close_seen[p] { close_seen[p] = true; complete[p] = !ch[1 - p].iter().any(|i| matches!(i, Item::K(_))); } }
    };
    while ph[0] != Ph::Done || ph[1] != Ph::Done {
        note_closes(&ph, &ch, &mut complete, &mut close_seen);
        steps += 1;
        // a release in progress completes as soon as something is there to read
        let mut acted = false;
        for p in 0..2 {
            let q = 1 - p;
            if ph[p] == Ph::AwaitRp && !ch[q].is_empty() {
                let res = rxs[p].recv_timeout(long).unwrap_or(Res::Gone);
                pending_release[p] = false;
                let head = *ch[q].front().unwrap();
                let got = match &res {
                    Res::ReleaseOk => Some(Item::K(Kind::Rp)),
                    Res::ReleaseErr(Some(k), _) => Some(Item::K(*k)),
                    Res::ReleaseErr(None, _) => Some(Item::Fin),
                    _ => None,
                };
                match got {
                    Some(i) => {
                        // direct oracle: what release() did with what was at the head of the connection
                        match (&res, head) {
                            (Res::ReleaseOk, Item::K(Kind::Rp)) => released_ok.push(p),
                            (Res::ReleaseOk, h) => fail(&mut fails, "release-completed-without-release-reply", format!("{} called release(); the next item on the connection was {:?}, release() returned Ok", peer(p), h)),
                            (Res::ReleaseErr(..), Item::K(Kind::Rp)) if i == Item::K(Kind::Rp) => {}
                            _ => {}
                        }
                        if i == Item::Fin && head != Item::Fin { trace.push(Label::Lose(q)); ch[q].clear(); ch[q].push_back(Item::Fin); }
                        trace.push(Label::Await(p, i));
                        ch[q].pop_front();
                    }
                    None => { trace.push(Label::Bad(format!("release result {:?}", res))); }
                }
                ph[p] = Ph::Done; ch[p].push_back(Item::Fin);
                if !matches!(res, Res::ReleaseOk) && !px.wait_ended(p as u8, settle) {
                    fail(&mut fails, "no-close-after-failed-release", format!("{}: release() returned {:?} but the connection was not closed", peer(p), res));
                }
                acted = true;
            }
        }
        if acted { continue; }
        // enabled actions
        let mut acts: Vec<(usize, u8, u64)> = vec![]; // (peer, action, weight): 0 send 1 recv 2 release 3 abort 4 close 5 sendrp
        let late = steps > max_steps;
        for p in 0..2 {
            let q = 1 - p;
            match ph[p] {
                Ph::Est => {
                    acts.push((p, 0, if late { 1 } else { 6 }));
                    if !ch[q].is_empty() { acts.push((p, 1, 8)); }
                    acts.push((p, 2, if late { 8 } else { 2 }));
                    acts.push((p, 3, if late { 4 } else { 1 }));
                    acts.push((p, 4, if late { 4 } else { 1 }));
                }
                Ph::GotRq => acts.push((p, 5, 10)),
                _ => {}
            }
        }
        if acts.is_empty() { notes.push("deadlock in the driver".into()); break; }
        let total: u64 = acts.iter().map(|a| a.2).sum();
        let mut pick = r.below(total);
        let mut chosen = acts[0];
        for a in &acts { if pick < a.2 { chosen = *a; break; } pick -= a.2; }
        let (p, act, _) = chosen;
        let q = 1 - p;
        match act {
            0 => match call_on(&txs, &rxs, long, p, Cmd::SendData) {
                Res::Sent => { sent[p] += 1; let _ = px.wait_count(p as u8, base[p] + sent[p], settle); trace.push(Label::SendData(p)); ch[p].push_back(Item::K(Kind::Data)); }
                Res::SendErr(_) => { trace.push(Label::SendFail(p)); ph[p] = Ph::Done; ch[p].push_back(Item::Fin); }
                o => { trace.push(Label::Bad(format!("send {:?}", o))); ph[p] = Ph::Done; }
            },
            1 => {
                let head = *ch[q].front().unwrap();
                match call_on(&txs, &rxs, long, p, Cmd::Recv) {
                    Res::Got(Some(k)) => {
                        trace.push(Label::Recv(p, k)); ch[q].pop_front();
                        match k { Kind::Rq => ph[p] = Ph::GotRq, Kind::Abort => { ph[p] = Ph::Done; ch[p].push_back(Item::Fin); } _ => {} }
                    }
                    Res::RecvErr(_) => {
                        if head != Item::Fin { trace.push(Label::Lose(q)); }
                        ch[q].clear();
                        trace.push(Label::RecvFin(p)); ph[p] = Ph::Done; ch[p].push_back(Item::Fin);
                    }
                    o => { trace.push(Label::Bad(format!("recv {:?}", o))); ph[p] = Ph::Done; }
                }
            }
            2 => {
                if txs[p].send(Cmd::Release).is_err() { trace.push(Label::Bad("worker gone".into())); ph[p] = Ph::Done; continue; }
                pending_release[p] = true;
                sent[p] += 1;
                // wait until the A-RELEASE-RQ is on the wire (or the call already returned: send failure)
                let t0 = std::time::Instant::now();
                let mut early: Option<Res> = None;
                while t0.elapsed() < settle {
                    if px.count(p as u8) >= base[p] + sent[p] || px.ended(p as u8) { break; }
                    match rxs[p].recv_timeout(Duration::from_micros(300)) { Ok(r) => { early = Some(r); break; } Err(RecvTimeoutError::Timeout) => {} Err(_) => break }
                }
                trace.push(Label::Release(p)); ch[p].push_back(Item::K(Kind::Rq)); ph[p] = Ph::AwaitRp;
                if let Some(res) = early {
                    // release() returned before anything was written / read: the connection is gone
                    pending_release[p] = false;
                    match res {
                        Res::ReleaseErr(k, _) => {
                            let i = k.map(Item::K).unwrap_or(Item::Fin);
                            if i == Item::Fin && ch[q].front() != Some(&Item::Fin) { trace.push(Label::Lose(q)); ch[q].clear(); ch[q].push_back(Item::Fin); }
                            if ch[q].front() == Some(&Item::K(Kind::Rp)) && i != Item::K(Kind::Rp) { /* reply lost with the connection */ }
                            trace.push(Label::Await(p, i)); ch[q].pop_front();
                        }
                        Res::ReleaseOk => {
                            let head = ch[q].front().copied();
                            if head != Some(Item::K(Kind::Rp)) { fail(&mut fails, "release-completed-without-release-reply", format!("{} called release(); the next item on the connection was {:?}, release() returned Ok", peer(p), head)); } else { released_ok.push(p); }
                            trace.push(Label::Await(p, Item::K(Kind::Rp))); ch[q].pop_front();
                        }
                        o => trace.push(Label::Bad(format!("release {:?}", o))),
                    }
                    ph[p] = Ph::Done; ch[p].push_back(Item::Fin);
                }
            }
            3 => { let _ = call_on(&txs, &rxs, long, p, Cmd::Abort); trace.push(Label::Abort(p)); ch[p].push_back(Item::K(Kind::Abort)); ch[p].push_back(Item::Fin); ph[p] = Ph::Done; }
            4 => { let _ = call_on(&txs, &rxs, long, p, Cmd::Close); trace.push(Label::Close(p)); ch[p].push_back(Item::Fin); ph[p] = Ph::Done; }
            _ => { let _ = call_on(&txs, &rxs, long, p, Cmd::SendRp); trace.push(Label::SendRp(p)); ch[p].push_back(Item::K(Kind::Rp)); ch[p].push_back(Item::Fin); ph[p] = Ph::Done; }
        }
        if steps > max_steps + 60 { notes.push("step budget exhausted".into()); break; }
    }
    note_closes(&ph, &ch, &mut complete, &mut close_seen);
    for t in &txs { let _ = t.send(Cmd::Close); }
    drop(txs);
    for h in handles { let _ = h.join(); }
    let log = px.finish();
    let mut wire: [Vec<Kind>; 2] = [vec![], vec![]];
    let mut orderly = [false, false];
    let mut seen = [0usize, 0usize];
    let mut rp_seq: [Option<u64>; 2] = [None, None];
    let mut last_data_seq: Option<u64> = None;
    for rec in &log {
        let d = rec.dir as usize;
        match &rec.ev {
            Ev::Pdu { typ, .. } => {
                seen[d] += 1;
                if seen[d] <= base[d] { continue; }
                match Kind::of_type(*typ) {
                    Some(k) => { wire[d].push(k); if k == Kind::Rp { rp_seq[d] = Some(rec.seq); } if k == Kind::Data { last_data_seq = Some(rec.seq); } }
                    None => fail(&mut fails, "foreign-pdu-on-established-association", format!("PDU type {typ} from {}", peer(d))),
                }
            }
            Ev::Eof => orderly[d] = true,
            Ev::Reset => {}
        }
    }
    // direct oracle on the wire: a completed release was preceded by a release reply on the wire,
    // and no P-DATA-TF follows it in either direction
    for p in released_ok {
        let q = 1 - p;
        match rp_seq[q] {
            None => fail(&mut fails, "release-completed-without-release-reply", format!("{}: release() returned Ok, no A-RELEASE-RP from {} on the wire", peer(p), peer(q))),
            Some(s) => if last_data_seq.map_or(false, |d| d > s) { fail(&mut fails, "data-after-completed-release", format!("P-DATA-TF on the wire after the A-RELEASE-RP answering {}", peer(p))); }
        }
    }
    // abort(): when the direction ended in an orderly way, the A-ABORT is the last PDU the peer put on the wire
    for l in &trace {
        if let Label::Abort(p) = l {
            if complete[*p] && wire[*p].last() != Some(&Kind::Abort) {
                fail(&mut fails, "abort-without-a-abort-pdu", format!("{} called abort(); PDUs it put on the wire: {:?}", peer(*p), wire[*p]));
            }
        }
    }
    let oracle = match fails { Some((class, detail)) => Oracle::Fails { class, detail }, None => Oracle::Holds };
    Some(Run { trace, wire, complete, orderly, oracle, impls: (async_client, async_server), notes })
}

fn to_case(bucket: &str, run: Run) -> Case {
    let tr = c_list(run.trace.iter().map(|l| l.coq()));
    let w = |d: usize| c_pair(&c_list(run.wire[d].iter().map(|k| k.coq().to_string())), &c_bool(run.complete[d]));
    let coq = c_tuple(&[tr.clone(), w(0), w(1)]);
    let desc = json!({"bucket": bucket, "requestor": if run.impls.0 { "async" } else { "sync" }, "acceptor": if run.impls.1 { "async" } else { "sync" },
        "trace": run.trace.iter().map(|l| match l { Label::Bad(s) => format!("BAD {s}"), l => l.coq() }).collect::<Vec<_>>(),
        "wire_requestor": run.wire[0].iter().map(|k| k.coq()).collect::<Vec<_>>(), "wire_acceptor": run.wire[1].iter().map(|k| k.coq()).collect::<Vec<_>>(),
        "closed_with_nothing_unread": [run.complete[0], run.complete[1]], "proxy_saw_fin": [run.orderly[0], run.orderly[1]], "notes": run.notes});
    let nontrivial = run.trace.len() >= 2;
    Case { key: if nontrivial { format!("{}|{}|{}", tr, run.impls.0, run.impls.1) } else { String::new() }, coq, desc, oracle: run.oracle }
}


// ---------------------------------------------------------------- the real storescp binary as acceptor
struct Scp { child: std::process::Child, port: u16, dir: std::path::PathBuf }
impl Drop for Scp {
    fn drop(&mut self) { let _ = self.child.kill(); let _ = self.child.wait(); let _ = std::fs::remove_dir_all(&self.dir); }
}
fn spawn_scp(non_blocking: bool, tag: u64) -> Option<Scp> {
    let bin_dir = std::env::var("VH_BIN_DIR").ok()?;
    let bin = std::path::Path::new(&bin_dir).join("dicom-storescp");
    if !bin.exists() { return None; }
    let port = { let l = TcpListener::bind("127.0.0.1:0").ok()?; l.local_addr().ok()?.port() };
    let dir = std::env::temp_dir().join(format!("vh_assoc_scp_{}_{}", std::process::id(), tag));
    std::fs::create_dir_all(&dir).ok()?;
    let mut cmd = std::process::Command::new(bin);
    cmd.arg("-p").arg(port.to_string()).arg("-o").arg(&dir).stdout(std::process::Stdio::null()).stderr(std::process::Stdio::null());
    if non_blocking { cmd.arg("--non-blocking"); }
    let child = cmd.spawn().ok()?;
    let scp = Scp { child, port, dir };
    // wait until it listens
    let t0 = std::time::Instant::now();
    while t0.elapsed() < Duration::from_secs(60) {
        if std::net::TcpStream::connect(("127.0.0.1", port)).is_ok() { return Some(scp); }
        std::thread::sleep(Duration::from_millis(20));
    }
    None
}

/// C-ECHO-RQ command set in Implicit VR Little Endian
fn echo_rq(msg_id: u16) -> Vec<u8> {
    let mut rest: Vec<u8> = vec![];
    let uid = b"1.2.840.10008.1.1\0";
    rest.extend_from_slice(&[0x00, 0x00, 0x02, 0x00]); rest.extend_from_slice(&(uid.len() as u32).to_le_bytes()); rest.extend_from_slice(uid);
    for (el, v) in [(0x0100u16, 0x0030u16), (0x0110, msg_id), (0x0800, 0x0101)] {
        rest.extend_from_slice(&[0x00, 0x00]); rest.extend_from_slice(&el.to_le_bytes()); rest.extend_from_slice(&2u32.to_le_bytes()); rest.extend_from_slice(&v.to_le_bytes());
    }
    let mut out = vec![0x00, 0x00, 0x00, 0x00, 4, 0, 0, 0];
    out.extend_from_slice(&(rest.len() as u32).to_le_bytes());
    out.extend_from_slice(&rest);
    out
}

/// One association of a real requestor with the real storescp through the proxy. The acceptor's
/// events are those of its loop (store_sync.rs / store_async.rs `inner`): every C-ECHO is answered,
/// a release request is answered with a release reply, abort / end of connection end the loop;
/// the proxy's record of what storescp actually wrote is compared with them.
fn run_scp(r: &mut Rng, scp: &Scp, non_blocking: bool) -> Option<Run> {
    use dicom_ul::association::Association;
    let px = proxy::start(std::net::SocketAddr::from(([127, 0, 0, 1], scp.port)), IO_TIMEOUT)?;
    let mut a = Some(client_opts().establish(px.addr).ok()?);
    let ctx_id = a.as_ref()?.presentation_contexts().first()?.id;
    let base = [px.count(0), px.count(1)];
    let mut trace: Vec<Label> = vec![];
    let mut fails: Option<(String, String)> = None;
    let fail = |f: &mut Option<(String, String)>, c: &str, d: String| { if f.is_none() { *f = Some((c.to_string(), d)); } };
    let mut pending = 0usize;   // answers of storescp not yet received by the requestor
    let mut complete = [true, true];
    let mut answered = 0usize;
    let mut rq_sent = false;
    let steps = r.below(6);
    for step in 0..=steps {
        let terminal = step == steps;
        let act = if terminal { 3 + r.below(3) } else if pending > 0 && r.coin() { 1 } else { 0 };
        match act {
            0 => {
                let pdu = Pdu::PData { data: vec![PDataValue { presentation_context_id: ctx_id, value_type: PDataValueType::Command, is_last: true, data: echo_rq(step as u16 + 1) }] };
                match a.as_mut()?.send(&pdu) {
                    Ok(()) => {
                        trace.push(Label::SendData(0));
                        answered += 1;
                        if px.wait_count(1, base[1] + answered, Duration::from_secs(20)) { trace.push(Label::Recv(1, Kind::Data)); trace.push(Label::SendData(1)); pending += 1; }
                        else { answered -= 1; fail(&mut fails, "scp-echo-not-answered", "storescp did not answer a C-ECHO-RQ within 3 s".into()); trace.push(Label::Recv(1, Kind::Data)); }
                    }
                    Err(_) => { trace.push(Label::SendFail(0)); a = None; break; }
                }
            }
            1 => match a.as_mut()?.receive() {
                Ok(p) => match Kind::of_pdu(&p) { Some(k) => { trace.push(Label::Recv(0, k)); pending -= 1; } None => trace.push(Label::Bad("foreign pdu".into())) },
                Err(_) => { trace.push(Label::RecvFin(0)); a = None; break; }
            },
            3 => {
                // release() reads one item: with more than one answer unread the requestor closes with unread data
                complete[0] = pending <= 1;
                let res = a.take()?.release();
                trace.push(Label::Release(0)); rq_sent = true;
                let _ = px.wait_ended(1, Duration::from_secs(20));
                let rp_on_wire = px.snapshot().iter().any(|x| x.dir == 1 && matches!(x.ev, Ev::Pdu { typ: 6, .. }));
                match res {
                    Ok(()) => {
                        trace.push(Label::Recv(1, Kind::Rq)); trace.push(Label::SendRp(1)); trace.push(Label::Await(0, Item::K(Kind::Rp)));
                        if pending > 0 { fail(&mut fails, "release-completed-without-release-reply", format!("release() returned Ok with {pending} unread P-DATA answers before the reply")); }
                    }
                    Err(AErr::UnexpectedPdu { pdu, .. }) => {
                        let k = Kind::of_pdu(&pdu).unwrap_or(Kind::Abort);
                        trace.push(Label::Await(0, Item::K(k)));
                        if rp_on_wire { trace.push(Label::Recv(1, Kind::Rq)); trace.push(Label::SendRp(1)); } else { trace.push(Label::Lose(0)); trace.push(Label::RecvFin(1)); }
                    }
                    Err(_) => {
                        if rp_on_wire { trace.push(Label::Recv(1, Kind::Rq)); trace.push(Label::SendRp(1)); trace.push(Label::Lose(1)); trace.push(Label::Await(0, Item::Fin)); }
                        else { trace.push(Label::Bad("release failed without an answer from storescp".into())); }
                    }
                }
            }
            4 => {
                complete[0] = pending == 0;
                let _ = a.take()?.abort();
                trace.push(Label::Abort(0));
                let _ = px.wait_ended(1, Duration::from_secs(20));
                if pending == 0 { trace.push(Label::Recv(1, Kind::Abort)); } else { trace.push(Label::Lose(0)); trace.push(Label::RecvFin(1)); }
            }
            _ => {
                complete[0] = pending == 0;
                drop(a.take());
                trace.push(Label::Close(0));
                let _ = px.wait_ended(1, Duration::from_secs(20));
                if pending > 0 { trace.push(Label::Lose(0)); }
                trace.push(Label::RecvFin(1));
            }
        }
    }
    drop(a);
    if !px.wait_ended(1, Duration::from_secs(20)) { fail(&mut fails, "scp-keeps-connection", "storescp did not close the connection after the association ended".into()); }
    let log = px.finish();
    let mut wire: [Vec<Kind>; 2] = [vec![], vec![]];
    let mut orderly = [false, false];
    let mut seen = [0usize, 0usize];
    for rec in &log {
        let d = rec.dir as usize;
        match &rec.ev {
            Ev::Pdu { typ, .. } => { seen[d] += 1; if seen[d] > base[d] { match Kind::of_type(*typ) { Some(k) => wire[d].push(k), None => fail(&mut fails, "foreign-pdu-on-established-association", format!("PDU type {typ} from {}", peer(d))) } } }
            Ev::Eof => orderly[d] = true,
            Ev::Reset => {}
        }
    }
    // the acceptor answers a release request with a release reply
    if rq_sent && complete[0] && !wire[1].contains(&Kind::Rp) {
        fail(&mut fails, "scp-release-not-answered", format!("A-RELEASE-RQ reached storescp, its answer on the wire: {:?}", wire[1]));
    }
    if let Some(pos) = wire[1].iter().position(|k| *k == Kind::Rp) { if pos + 1 != wire[1].len() { fail(&mut fails, "data-after-completed-release", format!("storescp wrote {:?}", wire[1])); } }
    let oracle = match fails { Some((class, detail)) => Oracle::Fails { class, detail }, None => Oracle::Holds };
    Some(Run { trace, wire, complete, orderly, oracle, impls: (false, non_blocking), notes: vec!["acceptor = dicom-storescp binary".into()] })
}

fn scp_cases(r: &mut Rng, n: usize, out: &mut Vec<Case>) {
    for (k, nb) in [false, true].into_iter().enumerate() {
        let Some(scp) = spawn_scp(nb, k as u64) else { continue };
        for _ in 0..n / 2 {
            let mut rr = r.fork();
            if let Some(run) = run_scp(&mut rr, &scp, nb) {
                let bucket = format!("storescp-{}|{}", if nb { "async" } else { "sync" },
                    if run.trace.iter().any(|l| matches!(l, Label::Await(_, Item::K(Kind::Rp)))) { "released" }
                    else if run.trace.iter().any(|l| matches!(l, Label::Await(..))) { "release-failed" }
                    else if run.trace.iter().any(|l| matches!(l, Label::Abort(_))) { "abort" } else { "closed" });
                out.push(to_case(&bucket, run));
            }
        }
    }
}

/// fixed schedules first: they are replayed by a scripted pseudo-random source
struct Script(Vec<u64>);

pub fn cases(ctx: &Ctx) -> Vec<Case> {
    let mut r = Rng::new(ctx.seed);
    let mut out = vec![];
    let _ = Script(vec![]);
    // the real storescp binary as acceptor (when the check built it: env VH_BIN_DIR)
    scp_cases(&mut r, if ctx.tier == Tier::Thorough { 2000 } else { 60 }, &mut out);
    let mut i = 0usize;
    while out.len() < ctx.n && i < ctx.n * 3 {
        let (ac, as_) = match i % 4 { 0 => (false, false), 1 => (true, true), 2 => (false, true), _ => (true, false) };
        // short schedules reach release/abort races quickly, longer ones mix data transfer in
        let max_steps = match i % 5 { 0 => 0, 1 => 2, 2 => 4, 3 => 8, _ => 16 };
        let mut rr = r.fork();
        if let Some(run) = run_schedule(&mut rr, ac, as_, max_steps) {
            let bucket = format!("{}-{}|{}", if ac { "async" } else { "sync" }, if as_ { "async" } else { "sync" },
                if run.trace.iter().any(|l| matches!(l, Label::Await(_, Item::K(Kind::Rp)))) { "released" }
                else if run.trace.iter().any(|l| matches!(l, Label::Await(_, Item::K(Kind::Rq)))) { "release-collision" }
                else if run.trace.iter().any(|l| matches!(l, Label::Await(..))) { "release-failed" }
                else if run.trace.iter().any(|l| matches!(l, Label::Abort(_))) { "abort" } else { "closed" });
            out.push(to_case(&bucket, run));
        }
        i += 1;
    }
    out
}
