//! Recording TCP proxy: sits between a requestor and an acceptor on loopback,
//! forwards bytes unchanged and records every PDU (type, length field) and the end of each
//! direction, with one global sequence counter.
#![allow(dead_code)]
use std::io::{Read, Write};
use std::net::{Shutdown, SocketAddr, TcpListener, TcpStream};
use std::sync::atomic::{AtomicU64, Ordering};
use std::sync::{Arc, Mutex};
use std::thread::JoinHandle;
use std::time::Duration;

#[derive(Clone, Debug, PartialEq)]
pub enum Ev {
    /// a complete PDU went by: type byte and value of the length field
    Pdu { typ: u8, len: u32 },
    /// orderly end of this direction (FIN)
    Eof,
    /// this direction ended with a transport error (reset) or a timeout
    Reset,
}

#[derive(Clone, Debug)]
pub struct Rec {
    pub seq: u64,
    /// 0 = requestor -> acceptor, 1 = acceptor -> requestor
    pub dir: u8,
    pub ev: Ev,
}

pub struct Proxy {
    pub addr: SocketAddr,
    pub log: Arc<Mutex<Vec<Rec>>>,
    pub seq: Arc<AtomicU64>,
    handle: Option<JoinHandle<()>>,
}

fn pump(mut src: TcpStream, mut dst: TcpStream, dir: u8, log: Arc<Mutex<Vec<Rec>>>, seq: Arc<AtomicU64>) {
    let mut acc: Vec<u8> = vec![];
    let mut buf = vec![0u8; 65536];
    let push = |ev: Ev| {
        let s = seq.fetch_add(1, Ordering::SeqCst);
        log.lock().unwrap().push(Rec { seq: s, dir, ev });
    };
    loop {
        match src.read(&mut buf) {
            Ok(0) => { push(Ev::Eof); let _ = dst.shutdown(Shutdown::Write); break; }
            Ok(n) => {
                acc.extend_from_slice(&buf[..n]);
                // record complete PDUs BEFORE forwarding them (the record precedes any reaction of the peer)
                loop {
                    if acc.len() < 6 { break; }
                    let len = u32::from_be_bytes([acc[2], acc[3], acc[4], acc[5]]);
                    let total = 6usize + len as usize;
                    if acc.len() < total { break; }
                    push(Ev::Pdu { typ: acc[0], len });
                    let pdu: Vec<u8> = acc.drain(..total).collect();
                    if dst.write_all(&pdu).is_err() { /* peer gone: keep draining the source */ }
                }
            }
            // a reset cannot be forwarded as such: end the forward direction only (shutting down both would
            // make the opposite pump read a false end-of-stream and miss what the other side still writes)
            Err(_) => { push(Ev::Reset); let _ = dst.shutdown(Shutdown::Write); break; }
        }
    }
}

/// Start a proxy for ONE connection towards `server`.
pub fn start(server: SocketAddr, timeout: Duration) -> Option<Proxy> {
    let listener = TcpListener::bind("127.0.0.1:0").ok()?;
    let addr = listener.local_addr().ok()?;
    let log = Arc::new(Mutex::new(vec![]));
    let seq = Arc::new(AtomicU64::new(0));
    let (l2, s2) = (log.clone(), seq.clone());
    let handle = std::thread::spawn(move || {
        let Ok((c, _)) = listener.accept() else { return };
        let Ok(s) = TcpStream::connect_timeout(&server, timeout) else { return };
        // no inactivity timeout while pumping: an idle direction must stay open as long as both ends keep it open
        // (a safety net of 10 minutes only, so that a stuck peer cannot hang the harness for ever)
        let _ = timeout;
        for x in [&c, &s] { let _ = x.set_read_timeout(Some(Duration::from_secs(600))); let _ = x.set_write_timeout(Some(Duration::from_secs(600))); let _ = x.set_nodelay(true); }
        let (Ok(c2), Ok(s2s)) = (c.try_clone(), s.try_clone()) else { return };
        let (la, sa) = (l2.clone(), s2.clone());
        let t = std::thread::spawn(move || pump(c2, s2s, 0, la, sa));
        pump(s, c, 1, l2, s2);
        let _ = t.join();
    });
    Some(Proxy { addr, log, seq, handle: Some(handle) })
}

impl Proxy {
    /// wait until both directions have ended, return the recorded events in order
    pub fn finish(mut self) -> Vec<Rec> {
        if let Some(h) = self.handle.take() { let _ = h.join(); }
        let mut v = self.log.lock().unwrap().clone();
        v.sort_by_key(|r| r.seq);
        v
    }
    pub fn snapshot(&self) -> Vec<Rec> { self.log.lock().unwrap().clone() }
    /// number of PDUs recorded so far in one direction
    pub fn count(&self, dir: u8) -> usize { self.log.lock().unwrap().iter().filter(|r| r.dir == dir && matches!(r.ev, Ev::Pdu { .. })).count() }
    /// wait until at least `n` PDUs were recorded in `dir` (true) or the timeout passes (false)
    pub fn wait_count(&self, dir: u8, n: usize, timeout: Duration) -> bool {
        let t0 = std::time::Instant::now();
        while t0.elapsed() < timeout {
            if self.count(dir) >= n { return true; }
            // nothing more will ever be recorded in a direction that has ended
            if self.ended(dir) { return self.count(dir) >= n; }
            std::thread::sleep(Duration::from_micros(200));
        }
        false
    }
    pub fn ended(&self, dir: u8) -> bool { self.log.lock().unwrap().iter().any(|r| r.dir == dir && !matches!(r.ev, Ev::Pdu { .. })) }
    pub fn wait_ended(&self, dir: u8, timeout: Duration) -> bool {
        let t0 = std::time::Instant::now();
        while t0.elapsed() < timeout {
            if self.ended(dir) { return true; }
            std::thread::sleep(Duration::from_micros(200));
        }
        false
    }
}
