//! vh_assoc — association negotiation and release/abort protocol (dicom-ul association module).
mod defs;
mod c28;
mod c29;
mod c30;
mod proxy;
use vhc::*;

fn main() {
    run_main(
        |prop, ctx| match prop {
            "C28" => Some(c28::cases(ctx)),
            "C29" => Some(c29::cases(ctx)),
            "C30" => Some(c30::cases(ctx)),
            _ => None,
        },
        |prop, out| match prop {
            "C28" | "C29" => c28::tables(out),
            _ => false,
        },
    );
}
