//! C28 — the association acceptor negotiates presentation contexts by the rules
//! (ul/src/association/server.rs process_a_association_rq, choose_ts, is_supported; uid.rs).
use crate::defs::*;
use dicom_encoding::transfer_syntax::TransferSyntaxIndex;
use dicom_transfer_syntax_registry::TransferSyntaxRegistry;
use serde_json::json;
use std::io::Write;
use vhc::*;

// ---------------------------------------------------------------- tables
/// Gen/GenTsSupport.v: every registry entry with its `is_unsupported` flag.
pub fn tables(out: &str) -> bool {
    let mut rows: Vec<(String, bool)> = TransferSyntaxRegistry.iter().map(|ts| (ts.uid().to_string(), ts.is_unsupported())).collect();
    rows.sort();
    let mut s = String::new();
    s.push_str("(* GENERATED on every run by `vh_assoc C28 tables` from dicom_transfer_syntax_registry::TransferSyntaxRegistry.iter():\n   (uid, is_unsupported). Never edit. *)\nFrom DicomV Require Import Base.Prelude.\n");
    s.push_str("Definition ts_table : list (str * bool) := [\n");
    let body: Vec<String> = rows.iter().map(|(u, b)| format!("  ({}, {})", c_str(u), c_bool(*b))).collect();
    s.push_str(&body.join(";\n"));
    s.push_str("\n].\n");
    s.push_str(&format!("Definition ts_table_len : N := {}.\n", rows.len()));
    // the strings the case printers abbreviate as (u k)
    s.push_str("Definition upool : list str := [\n");
    let pool: Vec<String> = pool().0.iter().map(|x| format!("  {}", c_str(x))).collect();
    s.push_str(&pool.join(";\n"));
    s.push_str("\n].\n");
    std::fs::create_dir_all(out).unwrap();
    let mut f = std::fs::File::create(format!("{out}/GenTsSupport.v")).unwrap();
    f.write_all(s.as_bytes()).unwrap();
    true
}

// ---------------------------------------------------------------- universe
pub const A1: &str = "1.2.840.10008.1.1";
pub const A2: &str = "1.2.840.10008.5.1.4.1.1.7";
pub const A3: &str = "1.2.840.10008.5.1.4.1.1.2";
pub const T_UNKNOWN: &str = "1.2.3.4";

/// a registered-but-unsupported transfer syntax if the registry has one (Deflated Explicit VR LE
/// without the `deflate` feature), else an unregistered UID
pub fn unsupported_ts() -> String {
    let pref = "1.2.840.10008.1.2.1.99";
    if TransferSyntaxRegistry.get(pref).map_or(false, |t| t.is_unsupported()) { return pref.into(); }
    let mut v: Vec<String> = TransferSyntaxRegistry.iter().filter(|t| t.is_unsupported()).map(|t| t.uid().to_string()).collect();
    v.sort();
    v.into_iter().next().unwrap_or_else(|| "1.2.840.10008.1.2.1.98".into())
}

pub struct Universe { pub abs: Vec<String>, pub ts_lists: Vec<Vec<String>>, pub cfgs: Vec<SCfg> }

pub fn universe() -> Universe {
    let t0 = ILE.to_string();
    let t1 = format!("{ELE}\0");
    let t2 = unsupported_ts();
    let t3 = T_UNKNOWN.to_string();
    let ts_lists = vec![
        vec![], vec![t0.clone()], vec![t1.clone()], vec![t2.clone()], vec![t3.clone()],
        vec![t3.clone(), t1.clone()], vec![t2.clone(), t0.clone(), t1.clone()], vec![t1.clone(), t0.clone()], vec![t3.clone(), t2.clone()],
    ];
    let abs = vec![A1.to_string(), format!("{A2}\0"), A3.to_string()];
    let mut cfgs = vec![];
    for prom in [false, true] {
        for cfg_ts in [vec![], vec![t0.clone(), ELE.to_string()], vec![t1.clone(), t2.clone(), t3.clone()]] {
            cfgs.push(SCfg { access_called: false, ae_title: "THIS-SCP".into(), abs: vec![A1.into(), A2.into()], ts: cfg_ts, max_pdu: 16384, promiscuous: prom });
        }
    }
    Universe { abs, ts_lists, cfgs }
}

fn std_rq(pcs: Vec<PcP>) -> Rq {
    Rq { proto: 1, calling: "SCU".into(), called: "THIS-SCP".into(), app_ctx: APP_CTX.into(), pcs, uvars: vec![UV::Max(16384), UV::ImplClass, UV::ImplVersion] }
}

/// context choice `k` of the universe with `m` TS lists per abstract syntax
fn ctx_choice(u: &Universe, k: usize, m: usize, pos: usize) -> PcP {
    let a = k / m;
    let t = k % m;
    PcP { id: (2 * pos + 1) as u8, abs: u.abs[a].clone(), ts: u.ts_lists[t].clone() }
}

// ---------------------------------------------------------------- oracle
fn registry_supported(ts: &str) -> bool { TransferSyntaxRegistry.get(strip(ts)).map_or(false, |t| !t.is_unsupported()) }

/// The property evaluated directly on what the implementation did.
pub fn oracle(cfg: &SCfg, msg: &Msg, out: &Out) -> Oracle {
    let fails = |class: &str, detail: String| Oracle::Fails { class: class.into(), detail };
    let rq = match msg { Msg::Rq(r) => r, _ => return Oracle::NotApplicable };
    // the oracle's notion of UID identity is "equal after removing trailing NULs"; inputs whose tail
    // mixes white space and NULs only feed the model/implementation comparison
    let all_uids = rq.pcs.iter().flat_map(|p| std::iter::once(&p.abs).chain(p.ts.iter())).chain(cfg.abs.iter()).chain(cfg.ts.iter());
    for u in all_uids { if !plain_padding(u) { return Oracle::NotApplicable; } }
    // expected rejections
    let mut reasons = vec![];
    if rq.proto != 1 { reasons.push((2u8, 2u8)); }
    if rq.app_ctx != APP_CTX { reasons.push((1, 2)); }
    if cfg.access_called && cfg.ae_title != rq.called { reasons.push((1, 7)); }
    if !reasons.is_empty() {
        return match out {
            Out::Reject(s, r) if reasons.contains(&(*s, *r)) => Oracle::Holds,
            o => fails("reject-reason", format!("request must be rejected with one of (source,reason) {:?}, acceptor did {:?}", reasons, o)),
        };
    }
    let (pcs, peer_max, ac_pcs, ac_max) = match out {
        Out::Accept { pcs, peer_max, ac_pcs, ac_max, .. } => (pcs, *peer_max, ac_pcs, *ac_max),
        o => return fails("not-accepted", format!("acceptable request was answered with {:?}", o)),
    };
    // one result per context, same ids, same order (in the AC and in the association object)
    let ids: Vec<u8> = rq.pcs.iter().map(|p| p.id).collect();
    if pcs.iter().map(|p| p.0).collect::<Vec<_>>() != ids || ac_pcs.iter().map(|p| p.0).collect::<Vec<_>>() != ids {
        return fails("ids", format!("proposed ids {:?}, AC ids {:?}, kept ids {:?}", ids, ac_pcs.iter().map(|p| p.0).collect::<Vec<_>>(), pcs.iter().map(|p| p.0).collect::<Vec<_>>()));
    }
    let cfg_abs: Vec<&str> = cfg.abs.iter().map(|s| strip(s)).collect();
    let cfg_ts: Vec<&str> = cfg.ts.iter().map(|s| strip(s)).collect();
    for (i, p) in rq.pcs.iter().enumerate() {
        let abs_ok = cfg.promiscuous || cfg_abs.contains(&strip(&p.abs));
        let first = p.ts.iter().find(|t| (cfg_ts.is_empty() || cfg_ts.contains(&strip(t))) && registry_supported(t));
        let want_reason = if !abs_ok { 3 } else if first.is_none() { 4 } else { 0 };
        for (what, got_reason, got_ts) in [("AC", ac_pcs[i].1, &ac_pcs[i].2), ("kept", pcs[i].1, &pcs[i].2)] {
            if (got_reason == 0) != (want_reason == 0) {
                return fails("accept-iff", format!("context #{i} {:?}: {what} reason {got_reason}, expected {want_reason}", p));
            }
            if got_reason != want_reason {
                return fails("reason", format!("context #{i} {:?}: {what} reason {got_reason}, expected {want_reason}", p));
            }
            if want_reason == 0 && strip(got_ts) != strip(first.unwrap()) {
                return fails("chosen-first", format!("context #{i} {:?}: {what} transfer syntax {:?}, first acceptable proposed is {:?}", p, got_ts, first));
            }
        }
        if strip(&pcs[i].3) != strip(&p.abs) {
            return fails("abstract-kept", format!("context #{i}: kept abstract syntax {:?} for proposed {:?}", pcs[i].3, p.abs));
        }
    }
    // maximum PDU length of the requestor (well-formed requests carry at most one Max Length item)
    let maxes: Vec<u32> = rq.uvars.iter().filter_map(|u| if let UV::Max(n) = u { Some(*n) } else { None }).collect();
    if maxes.len() <= 1 {
        let want = match maxes.first() { None => DEFAULT_MAX, Some(0) => MAXIMUM, Some(n) => (*n).min(MAXIMUM) };
        if peer_max != want { return fails("max-pdu", format!("Max Length items {:?}: requestor_max_pdu_length {peer_max}, expected {want}", maxes)); }
    }
    if ac_max != cfg.max_pdu.min(MAXIMUM) as u64 { return fails("ac-max-pdu", format!("AC announces max length {ac_max}, configured {}", cfg.max_pdu)); }
    Oracle::Holds
}

// ---------------------------------------------------------------- cases
fn mk_case(bucket: &str, via_tcp: bool, cfg: &SCfg, msg: &Msg) -> Option<Case> {
    let pdu = msg.pdu();
    let (msg_seen, out) = if via_tcp {
        // what the acceptor sees is the PDU after the codec: feed model and oracle with the decoded form
        let mut bytes = vec![];
        dicom_ul::write_pdu(&mut bytes, &pdu).ok()?;
        let decoded = dicom_ul::read_pdu(&bytes[..], MAXIMUM, false).ok()??;
        let seen = match (&decoded, msg) { (dicom_ul::Pdu::AssociationRQ(r), Msg::Rq(_)) => Msg::Rq(Rq::from_pdu(r)), _ => msg.clone() };
        (seen, run_tcp(cfg, &pdu)?)
    } else {
        (msg.clone(), run_hook(cfg, pdu).unwrap_or(Out::Other("panic".into())))
    };
    let oracle = oracle(cfg, &msg_seen, &out);
    let coq = c_tuple(&[cfg.coq(), msg_seen.coq(), out.coq()]);
    let nontrivial = matches!(&msg_seen, Msg::Rq(r) if !r.pcs.is_empty());
    let desc = json!({"bucket": bucket, "via": if via_tcp { "tcp" } else { "hook" }, "cfg": cfg.json(), "msg": msg_seen.json(), "observed": out.json()});
    Some(Case { key: if nontrivial { format!("{}|{}", cfg.coq(), msg_seen.coq()) } else { String::new() }, coq, desc, oracle })
}

/// `plain`: only NUL padding (the oracle applies); otherwise white space may be mixed into the tail
fn rand_uid(r: &mut Rng, pool: &[String], plain: bool) -> String {
    let mut s = if r.chance(4, 5) { r.pick(pool).clone() } else { format!("1.2.{}.{}", r.below(1000), r.below(100)) };
    if plain {
        match r.below(8) { 0 => s.push('\0'), 1 => s.push_str("\0\0"), 2 => { s.pop(); } _ => {} }
        return s;
    }
    match r.below(12) {
        0 | 1 => s.push('\0'),
        2 => s.push_str("\0\0"),
        3 => s.push(' '),
        4 => s.push_str(" \0"),
        5 => s.push_str("\0 "),
        6 => { s.pop(); }
        _ => {}
    }
    s
}

fn rand_cfg(r: &mut Rng, u: &Universe, reg: &[String]) -> SCfg {
    let plain = r.chance(5, 6);
    let mut pool: Vec<String> = u.abs.clone();
    pool.push(A2.into());
    let nabs = r.below(4);
    let nts = if r.chance(1, 3) { 0 } else { r.range(1, 5) };
    let mut tspool: Vec<String> = reg.to_vec();
    tspool.push(T_UNKNOWN.into());
    SCfg {
        access_called: r.chance(1, 4),
        ae_title: r.pick(&["THIS-SCP", "STORE", "A", ""]).to_string(),
        abs: (0..nabs).map(|_| rand_uid(r, &pool, plain)).collect(),
        ts: (0..nts).map(|_| rand_uid(r, &tspool, plain)).collect(),
        max_pdu: *r.pick(&[0u32, 1, 1017, 1018, 16384, 32762, 65536, MAXIMUM - 1, MAXIMUM, MAXIMUM + 1, u32::MAX]),
        promiscuous: r.chance(1, 3),
    }
}

fn rand_rq(r: &mut Rng, u: &Universe, reg: &[String], big: bool) -> Rq {
    let plain = r.chance(5, 6);
    let mut pool: Vec<String> = u.abs.clone();
    pool.push(A2.into());
    let mut tspool: Vec<String> = reg.to_vec();
    tspool.push(T_UNKNOWN.into());
    let n = if big { r.range(5, 40) } else { r.below(5) };
    let pcs = (0..n).map(|i| PcP {
        id: if r.chance(9, 10) { (2 * i + 1) as u8 } else { r.below(256) as u8 },
        abs: rand_uid(r, &pool, plain),
        ts: (0..r.below(5)).map(|_| rand_uid(r, &tspool, plain)).collect(),
    }).collect();
    let mut uvars = vec![];
    match r.below(8) {
        0 => {}
        1 => uvars.push(UV::Max(0)),
        2 => { uvars.push(UV::Max(r.below(70000) as u32)); uvars.push(UV::Max(*r.pick(&[0u32, 5, MAXIMUM + 3]))); }
        _ => uvars.push(UV::Max(*r.pick(&[0u32, 1, 1018, 16384, 32762, 32763, MAXIMUM - 1, MAXIMUM, MAXIMUM + 1, u32::MAX]))),
    }
    for v in [UV::ImplClass, UV::ImplVersion, UV::ExtNeg, UV::Role, UV::UserId] { if r.coin() { uvars.push(v); } }
    if r.chance(1, 6) { uvars.reverse(); }
    Rq {
        proto: if r.chance(5, 6) { 1 } else { *r.pick(&[0u16, 2, 3, 0xffff]) },
        calling: r.pick(&["SCU", "", "X Y"]).to_string(),
        called: r.pick(&["THIS-SCP", "STORE", "A", "", "this-scp"]).to_string(),
        app_ctx: if r.chance(5, 6) { APP_CTX.to_string() } else { r.pick(&["1.2.840.10008.3.1.1.2", "", "1.2.840.10008.3.1.1.1\0"]).to_string() },
        pcs, uvars,
    }
}

pub fn cases(ctx: &Ctx) -> Vec<Case> {
    let mut r = Rng::new(ctx.seed);
    let u = universe();
    let mut reg: Vec<String> = TransferSyntaxRegistry.iter().map(|t| t.uid().to_string()).collect();
    reg.sort();
    let mut out: Vec<Case> = vec![];
    let thorough = ctx.tier == Tier::Thorough;
    let c0 = u.cfgs[1].clone();
    let called_cfg = SCfg { access_called: true, ..c0.clone() };
    let one = |abs: &str, ts: Vec<&str>| vec![PcP { id: 1, abs: abs.into(), ts: ts.into_iter().map(String::from).collect() }];

    // ---- fixed corpus (regressions and boundaries) first
    let mut corpus: Vec<(&str, SCfg, Msg)> = vec![
        ("corpus:proto", c0.clone(), Msg::Rq(Rq { proto: 2, ..std_rq(one(A1, vec![ILE])) })),
        ("corpus:proto", c0.clone(), Msg::Rq(Rq { proto: 3, ..std_rq(one(A1, vec![ILE])) })),
        ("corpus:app-ctx", c0.clone(), Msg::Rq(Rq { app_ctx: "1.2.840.10008.3.1.1.2".into(), ..std_rq(one(A1, vec![ILE])) })),
        ("corpus:app-ctx+proto", c0.clone(), Msg::Rq(Rq { proto: 0, app_ctx: "1.2".into(), ..std_rq(one(A1, vec![ILE])) })),
        ("corpus:access", called_cfg.clone(), Msg::Rq(Rq { called: "OTHER".into(), ..std_rq(one(A1, vec![ILE])) })),
        ("corpus:access-ok", called_cfg.clone(), Msg::Rq(std_rq(one(A1, vec![ILE])))),
        ("corpus:access+app-ctx", called_cfg.clone(), Msg::Rq(Rq { called: "OTHER".into(), app_ctx: "9.9".into(), ..std_rq(one(A1, vec![ILE])) })),
        ("corpus:max0", c0.clone(), Msg::Rq(Rq { uvars: vec![UV::Max(0)], ..std_rq(one(A1, vec![ILE])) })),
        ("corpus:max-absent", c0.clone(), Msg::Rq(Rq { uvars: vec![UV::ImplClass], ..std_rq(one(A1, vec![ILE])) })),
        ("corpus:max-over", c0.clone(), Msg::Rq(Rq { uvars: vec![UV::Max(u32::MAX)], ..std_rq(one(A1, vec![ILE])) })),
        ("corpus:max-twice", c0.clone(), Msg::Rq(Rq { uvars: vec![UV::Max(5000), UV::Max(0)], ..std_rq(one(A1, vec![ILE])) })),
        ("corpus:no-contexts", c0.clone(), Msg::Rq(std_rq(vec![]))),
        ("corpus:no-ts", c0.clone(), Msg::Rq(std_rq(one(A1, vec![])))),
        ("corpus:padded", c0.clone(), Msg::Rq(std_rq(one("1.2.840.10008.1.1\0", vec!["1.2.840.10008.1.2.1\0", ILE])))),
        ("corpus:space-tail", c0.clone(), Msg::Rq(std_rq(one(A1, vec!["1.2.840.10008.1.2 ", ILE])))),
        ("corpus:space-nul-tail", c0.clone(), Msg::Rq(std_rq(one("1.2.840.10008.1.1 \0", vec!["1.2.840.10008.1.2 \0"])))),
        ("corpus:dup-ids", c0.clone(), Msg::Rq(std_rq(vec![PcP { id: 1, abs: A1.into(), ts: vec![ILE.into()] }, PcP { id: 1, abs: A3.into(), ts: vec![ILE.into()] }, PcP { id: 4, abs: A2.into(), ts: vec![T_UNKNOWN.into(), ELE.into()] }]))),
        ("corpus:empty-cfg", SCfg { abs: vec![], ts: vec![], ..c0.clone() }, Msg::Rq(std_rq(one(A1, vec![ILE])))),
    ];
    for m in [Msg::ReleaseRQ, Msg::AC, Msg::RJ, Msg::PData, Msg::ReleaseRP, Msg::Abort, Msg::Unknown] { corpus.push(("corpus:not-rq", c0.clone(), m)); }
    for (b, cfg, m) in &corpus { out.extend(mk_case(b, false, cfg, m)); }

    // ---- the bounded universe: up to 2 contexts with 27 choices each: complete in both tiers
    let m9 = u.ts_lists.len();
    let n27 = u.abs.len() * m9;
    for cfg in &u.cfgs {
        out.extend(mk_case("universe:0ctx", false, cfg, &Msg::Rq(std_rq(vec![]))));
        for a in 0..n27 {
            out.extend(mk_case("universe:1ctx", false, cfg, &Msg::Rq(std_rq(vec![ctx_choice(&u, a, m9, 0)]))));
        }
        for a in 0..n27 { for b in 0..n27 {
            out.extend(mk_case("universe:2ctx", false, cfg, &Msg::Rq(std_rq(vec![ctx_choice(&u, a, m9, 0), ctx_choice(&u, b, m9, 1)]))));
        } }
    }
    // ---- 3 and 4 contexts with 15 choices each (3 abstract x first 5 TS lists... the 5 most telling lists):
    //      complete in thorough, sampled in quick
    let lists5 = [0usize, 1, 5, 6, 8];
    let pick15 = |k: usize, pos: usize| -> PcP { let a = k / 5; let t = lists5[k % 5]; PcP { id: (2 * pos + 1) as u8, abs: u.abs[a].clone(), ts: u.ts_lists[t].clone() } };
    let total34: usize = 15usize.pow(3) + 15usize.pow(4);
    let budget34 = ctx.n / 5;
    let decode = |mut code: usize| -> Vec<PcP> {
        let k = if code < 15usize.pow(3) { 3 } else { code -= 15usize.pow(3); 4 };
        (0..k).map(|pos| { let c = code % 15; code /= 15; pick15(c, pos) }).collect()
    };
    if thorough {
        // complete on the implementation with the direct oracle (cheap: no Coq term, no description);
        // the model is evaluated on an evenly spread subset of at most n/2 of these requests
        let all = u.cfgs.len() * total34;
        let stride = (all + (ctx.n / 2).max(1) - 1) / (ctx.n / 2).max(1);
        let mut g = 0usize;
        for cfg in &u.cfgs { for code in 0..total34 {
            if let Some(mut c) = mk_case("universe:3-4ctx", false, cfg, &Msg::Rq(std_rq(decode(code)))) {
                if g % stride != 0 { c.coq = String::new(); c.key = format!("u34|{}|{}", g, cfg.promiscuous); c.desc = json!({"bucket": "universe:3-4ctx-oracle-only"}); }
                out.push(c);
            }
            g += 1;
        } }
    } else {
        for _ in 0..budget34 {
            let cfg = r.pick(&u.cfgs).clone();
            let code = r.below(total34 as u64) as usize;
            out.extend(mk_case("universe:3-4ctx", false, &cfg, &Msg::Rq(std_rq(decode(code)))));
        }
    }
    // ---- loopback TCP, no hook: a sample of the universe and of the rejections
    let ntcp = if thorough { 1500 } else { 48 };
    for i in 0..ntcp {
        let (cfg, msg) = match i % 6 {
            0 => (r.pick(&u.cfgs).clone(), Msg::Rq(std_rq(decode(r.below(total34 as u64) as usize)))),
            1 => (r.pick(&u.cfgs).clone(), Msg::Rq(std_rq(vec![ctx_choice(&u, r.below(n27 as u64) as usize, m9, 0), ctx_choice(&u, r.below(n27 as u64) as usize, m9, 1)]))),
            2 => { let (_, c, m) = &corpus[r.below(corpus.len() as u64) as usize]; (c.clone(), m.clone()) }
            3 => (called_cfg.clone(), Msg::Rq(Rq { called: r.pick(&["THIS-SCP", "OTHER"]).to_string(), ..std_rq(one(A1, vec![ILE])) })),
            _ => { let mut c = rand_cfg(&mut r, &u, &reg); c.max_pdu = c.max_pdu.clamp(MINIMUM, MAXIMUM); if c.abs.is_empty() { c.promiscuous = true; }
                   (c, Msg::Rq(rand_rq(&mut r, &u, &reg, false))) }
        };
        if let Some(c) = mk_case("tcp", true, &cfg, &msg) { out.push(c); }
    }
    // ---- random larger requests and configurations until the budget is used
    let mut i = 0;
    let mut with_term = out.iter().filter(|c| !c.coq.is_empty()).count();
    while with_term < ctx.n {
        with_term += 1;
        let cfg = if r.chance(1, 2) { r.pick(&u.cfgs).clone() } else { rand_cfg(&mut r, &u, &reg) };
        let big = i % 3 == 0;
        let msg = Msg::Rq(rand_rq(&mut r, &u, &reg, big));
        out.extend(mk_case(if big { "random:large" } else { "random:small" }, false, &cfg, &msg));
        i += 1;
    }
    out
}
